/-
  C12 — property theorems only (request loop, throttler, their composition in a processing cycle, vault LTS).
  Infrastructure errors are retried, then contained per object, never fatal.
-/
import Kopf.Lemmas.C12_Request
import Kopf.Lemmas.C12_Throttle
import Kopf.Lemmas.C12_Vault
import Kopf.Lemmas.C12_Process
import Kopf.Lemmas.C12_Patch
namespace Kopf.C12

/-! ## The retry loop of `api.request` — for every fault script, every backoff stream -/

/-- attempts ≤ len(backoffs) + 1, for every finite backoff list and every script.
    (general form: starting at backoff index `i`) -/
theorem attempts_bound_from (l : List Int) (enforce : Bool) (script : List Att) (i : Nat) (t : Int) :
    (run (ofList l) enforce script i t).times.length ≤ (l.length - i) + 1 := by
  induction script generalizing i t with
  | nil => simp [run]
  | cons a rest ih =>
    rw [run_cons]
    cases verdict a.fault with
    | success => simp
    | raise c => simp
    | retry c ra =>
      cases hb : ofList l i with
      | none => simp
      | some b =>
        have hi : i < l.length := by
          unfold ofList at hb
          exact (List.getElem?_eq_some_iff.mp hb).1
        have := ih (i + 1) (t + a.lat + slept (effDelay enforce ra b))
        simp only [List.length_cons]
        omega

theorem attempts_bound (l : List Int) (enforce : Bool) (script : List Att) (t : Int) :
    (request (ofList l) enforce script t).times.length ≤ l.length + 1 := by
  have := attempts_bound_from l enforce script 0 t
  simpa [request] using this

/-- a scalar configuration allows exactly one retry; an empty one none -/
theorem attempts_bound_scalar (b : Int) (enforce : Bool) (script : List Att) (t : Int) :
    (request (ofScalar b) enforce script t).times.length ≤ 2 :=
  attempts_bound [b] enforce script t

theorem attempts_bound_empty (enforce : Bool) (script : List Att) (t : Int) :
    (request (ofList []) enforce script t).times.length ≤ 1 :=
  attempts_bound [] enforce script t

/-- Between the end of attempt `j` (its start + its latency) and the start of attempt `j+1` the
    loop waited at least the `j`-th configured backoff — for every backoff stream (finite or not),
    every script, whenever a next attempt exists. Hypothesis: `enforce_retry_after` is off (with it
    on, a 429's Retry-After *replaces* the backoff, as documented). -/
theorem gap_ge_backoff_from (bo : Backoffs) (script : List Att) (i : Nat) (t : Int)
    (j : Nat) (tj tj' : Int) (a : Att)
    (h0 : (run bo false script i t).times[j]? = some tj)
    (h1 : (run bo false script i t).times[j + 1]? = some tj')
    (ha : script[j]? = some a) :
    ∃ b, bo (i + j) = some b ∧ b ≤ tj' - (tj + a.lat) := by
  induction script generalizing i t j with
  | nil => simp at ha
  | cons a0 rest ih =>
    rw [run_cons] at h0 h1
    cases hv : verdict a0.fault with
    | success => simp [hv] at h1
    | raise c => simp [hv] at h1
    | retry c ra =>
      cases hb : bo i with
      | none => simp [hv, hb] at h1
      | some b =>
        simp only [hv, hb] at h0 h1
        cases j with
        | zero =>
          simp at ha h0 h1
          obtain ⟨tl, htl⟩ := run_times_head bo false rest (i + 1) (t + a0.lat + slept (effDelay false ra b))
          rw [htl] at h1
          simp at h1
          refine ⟨b, by simpa using hb, ?_⟩
          subst ha h0
          have := slept_ge (effDelay false ra b)
          have := effDelay_ge_backoff ra b
          omega
        | succ j =>
          simp only [List.getElem?_cons_succ] at h0 h1 ha
          obtain ⟨b', hb', hle⟩ := ih (i + 1) _ j h0 h1 ha
          exact ⟨b', by rw [← hb']; congr 1; omega, hle⟩

/-- Between the end of attempt `j` and the start of attempt `j+1` the loop waited at least the
    `j`-th configured backoff — every backoff stream, every script, every position, whenever a next
    attempt exists. The only exception (the guard is exactly that) is the documented override: with
    `enforce_retry_after` on, a 429 *that carries a usable Retry-After* waits for the server's value
    instead, even if shorter. -/
theorem gap_ge_backoff (bo : Backoffs) (enforce : Bool) (script : List Att) (t : Int) (j : Nat)
    (tj tj' : Int) (a : Att)
    (h0 : (request bo enforce script t).times[j]? = some tj)
    (h1 : (request bo enforce script t).times[j + 1]? = some tj')
    (ha : script[j]? = some a)
    (hguard : enforce = false ∨ ∃ c, verdict a.fault = .retry c none) :
    ∃ b, bo j = some b ∧ b ≤ tj' - (tj + a.lat) := by
  obtain ⟨b, c, ra, hb, hv, hg⟩ := gap_eq_from bo enforce script 0 t j tj tj' a h0 h1 ha
  refine ⟨b, by simpa using hb, ?_⟩
  have hs := slept_ge (effDelay enforce ra b)
  rcases hguard with he | ⟨c', hv'⟩
  · subst he; have := effDelay_ge_backoff ra b; omega
  · rw [hv] at hv'; injection hv' with _ hra; subst hra
    simp only [effDelay] at hg hs; omega

/-- a retried HTTP status: 403, 429 or 5xx -/
def TransientStatus (st : Nat) : Prop := st = 403 ∨ st = 429 ∨ (500 ≤ st ∧ st < 600)

theorem verdict_transient (r : Resp) (h : TransientStatus r.status) :
    verdict (.http r) = .retry (classify r.status) (retryAfter r) := by
  have h4 : raises r.status = true := by unfold TransientStatus at h; simp [raises]; omega
  have hr : retryable (classify r.status) = true := by
    unfold TransientStatus at h
    unfold classify
    repeat' split
    all_goals first | rfl | omega
  simp [verdict, h4, hr]

/-- whatever HTTP answer is retried, the Retry-After the loop works with is `retryAfter` of it
    (every retried `APIError`, since f4c61b5) -/
theorem retry_ra (r : Resp) (c : ErrClass) (ra : Option Int) (h : verdict (.http r) = .retry c ra) :
    ra = retryAfter r := by
  simp only [verdict] at h
  by_cases h4 : raises r.status = true
  · simp only [h4, if_true] at h
    by_cases hr : retryable (classify r.status) = true
    · simp only [hr, if_true] at h; injection h with _ h; exact h.symm
    · simp [hr] at h
  · simp [h4] at h

/-- After a retried API error that carries a usable `Retry-After` (header or
    `details.retryAfterSeconds`; 429, 5xx, 403 alike), the next attempt — whenever there is one —
    starts no earlier than that, whatever the backoff and whatever `enforce_retry_after`. -/
theorem gap_ge_retry_after (bo : Backoffs) (enforce : Bool) (script : List Att) (t : Int)
    (j : Nat) (tj tj' : Int) (a : Att) (r : Resp) (ra : Int)
    (h0 : (request bo enforce script t).times[j]? = some tj)
    (h1 : (request bo enforce script t).times[j + 1]? = some tj')
    (ha : script[j]? = some a) (hf : a.fault = .http r) (hra : retryAfter r = some ra) :
    ra ≤ tj' - (tj + a.lat) := by
  obtain ⟨b, c, ra', _, hv, hg⟩ := gap_eq_from bo enforce script 0 t j tj tj' a h0 h1 ha
  rw [hf] at hv
  have := retry_ra r c ra' hv
  rw [this, hra] at hg
  have := slept_ge (effDelay enforce (some ra) b)
  have := effDelay_ge_ra enforce ra b
  omega

/-- a 4xx that is not 403/429 (this includes 401 at the level of `request` itself: the
    re-authentication is `authenticated`'s business, see the vault theorems) -/
def Fatal4xx (status : Nat) : Prop := 400 ≤ status ∧ status < 500 ∧ status ≠ 403 ∧ status ≠ 429

theorem verdict_fatal (r : Resp) (h : Fatal4xx r.status) :
    verdict (.http r) = .raise (classify r.status) := by
  obtain ⟨h1, h2, h3, h4⟩ := h
  have hr : raises r.status = true := by simp [raises]; omega
  have hc : retryable (classify r.status) = false := by
    unfold classify
    repeat' split
    all_goals first | rfl | omega
  simp [verdict, hr, hc]

/-- the loop never goes past an attempt whose verdict is final (success or a raise), and if it
    gets there, that attempt decides the result -/
theorem stops_at (bo : Backoffs) (enforce : Bool) (script : List Att) (i : Nat) (t : Int)
    (j : Nat) (a : Att) (ha : script[j]? = some a) (o : Outcome)
    (hv : (verdict a.fault = .success ∧ o = .ok) ∨ (∃ c, verdict a.fault = .raise c ∧ o = .escalated c)) :
    (run bo enforce script i t).times.length ≤ j + 1 ∧
    ((run bo enforce script i t).times.length = j + 1 → (run bo enforce script i t).outcome = o) := by
  induction script generalizing i t j with
  | nil => simp at ha
  | cons a0 rest ih =>
    rw [run_cons]
    cases j with
    | zero =>
      simp at ha
      subst ha
      rcases hv with ⟨hv, ho⟩ | ⟨c, hv, ho⟩ <;> simp [hv, ho]
    | succ j =>
      simp only [List.getElem?_cons_succ] at ha
      cases hv0 : verdict a0.fault with
      | success => simp
      | raise c => simp
      | retry c ra =>
        cases hb : bo i with
        | none => simp
        | some b =>
          have := ih (i + 1) (t + a0.lat + slept (effDelay enforce ra b)) j ha
          simp only [List.length_cons]
          constructor
          · omega
          · intro h; exact this.2 (by omega)

/-- Other 4xx escalate at once: wherever such a response sits in the script, no attempt follows
    it, and if the loop reaches it the request fails with exactly that error class (whatever its
    body: F6 fixed in ba57df1). -/
theorem fatal_4xx_immediate (bo : Backoffs) (enforce : Bool) (script : List Att) (t : Int)
    (j : Nat) (a : Att) (r : Resp) (ha : script[j]? = some a) (hf : a.fault = .http r)
    (h4 : Fatal4xx r.status) :
    (request bo enforce script t).times.length ≤ j + 1 ∧
    ((request bo enforce script t).times.length = j + 1 →
      (request bo enforce script t).outcome = .escalated (classify r.status)) :=
  stops_at bo enforce script 0 t j a ha _ (Or.inr ⟨_, by rw [hf]; exact verdict_fatal r h4, rfl⟩)

/-- … and as the very first response: exactly one attempt, no sleep. -/
theorem fatal_4xx_first (bo : Backoffs) (enforce : Bool) (rest : List Att) (t : Int) (r : Resp) (lat : Nat)
    (h4 : Fatal4xx r.status) :
    request bo enforce (⟨.http r, lat⟩ :: rest) t = ⟨[t], [], .escalated (classify r.status), t + lat⟩ := by
  simp [request, run_cons, verdict_fatal r h4]

/-- a success ends the loop -/
theorem success_stops (bo : Backoffs) (enforce : Bool) (script : List Att) (t : Int)
    (j : Nat) (a : Att) (ha : script[j]? = some a) (hs : verdict a.fault = .success) :
    (request bo enforce script t).times.length ≤ j + 1 ∧
    ((request bo enforce script t).times.length = j + 1 → (request bo enforce script t).outcome = .ok) :=
  stops_at bo enforce script 0 t j a ha _ (Or.inl ⟨hs, rfl⟩)

/-- every attempt of the script is a transient failure (network error, timeout, 5xx, 403, 429) -/
def AllTransient (script : List Att) : Prop := ∀ a ∈ script, ∃ c ra, verdict a.fault = .retry c ra

/-- Transient failures are retried through the whole backoff list and then escalate: with a
    finite list `l` (from index `i`) and a script of transient failures only,
    * a script that outlasts the list gives exactly `len - i + 1` attempts and the error of the
      last attempt is the one that escalates;
    * a shorter script is retried to the end and the request then succeeds. -/
theorem transient_retried_from (l : List Int) (enforce : Bool) (script : List Att) (i : Nat) (t : Int)
    (hi : i ≤ l.length) (ht : AllTransient script) :
    (l.length - i < script.length →
      (run (ofList l) enforce script i t).times.length = l.length - i + 1 ∧
      ∃ a c ra, script[l.length - i]? = some a ∧ verdict a.fault = .retry c ra ∧
        (run (ofList l) enforce script i t).outcome = .escalated c) ∧
    (script.length ≤ l.length - i →
      (run (ofList l) enforce script i t).times.length = script.length + 1 ∧
      (run (ofList l) enforce script i t).outcome = .ok) := by
  induction script generalizing i t with
  | nil => simp [run]
  | cons a rest ih =>
    obtain ⟨c, ra, hv⟩ := ht a (by simp)
    have ht' : AllTransient rest := fun x hx => ht x (by simp [hx])
    rw [run_cons]
    simp only [hv]
    by_cases hlt : i < l.length
    · have hb : ofList l i = some l[i] := by simp [ofList, hlt]
      simp only [hb]
      have := ih (i + 1) (t + a.lat + slept (effDelay enforce ra l[i])) (by omega) ht'
      constructor
      · intro h
        have h' : l.length - (i + 1) < rest.length := by simp at h; omega
        obtain ⟨h1, a', c', ra', ha', hv', ho'⟩ := this.1 h'
        refine ⟨by simp [h1]; omega, a', c', ra', ?_, hv', ho'⟩
        have : l.length - i = (l.length - (i + 1)) + 1 := by omega
        rw [this, List.getElem?_cons_succ]; exact ha'
      · intro h
        have h' : rest.length ≤ l.length - (i + 1) := by simp at h; omega
        obtain ⟨h1, h2⟩ := this.2 h'
        exact ⟨by simp [h1], h2⟩
    · have hb : ofList l i = none := by simp [ofList]; omega
      have hz : l.length - i = 0 := by omega
      simp only [hb, hz]
      constructor
      · intro _; exact ⟨by simp, a, c, ra, by simp, hv, rfl⟩
      · intro h; simp at h

theorem transient_retried_then_escalates (l : List Int) (enforce : Bool) (script : List Att) (t : Int)
    (ht : AllTransient script) :
    (l.length < script.length →
      (request (ofList l) enforce script t).times.length = l.length + 1 ∧
      ∃ a c ra, script[l.length]? = some a ∧ verdict a.fault = .retry c ra ∧
        (request (ofList l) enforce script t).outcome = .escalated c) ∧
    (script.length ≤ l.length →
      (request (ofList l) enforce script t).times.length = script.length + 1 ∧
      (request (ofList l) enforce script t).outcome = .ok) := by
  have := transient_retried_from l enforce script 0 t (by omega) ht
  simpa [request] using this

/-- which HTTP responses are transient: exactly 5xx, 403 and 429 — whatever their body (a non-dict
    JSON value, unusable details: F6 fixed in ba57df1) -/
theorem transient_http_iff (r : Resp) :
    (∃ c ra, verdict (.http r) = .retry c ra) ↔ TransientStatus r.status := by
  constructor
  · rintro ⟨c, ra, h⟩
    unfold TransientStatus
    unfold verdict raises at h
    by_cases h4 : 400 ≤ r.status
    · simp only [h4, decide_true, if_true] at h
      by_cases hr : retryable (classify r.status) = true
      · unfold classify at hr
        repeat' split at hr
        all_goals first | omega | (simp [retryable] at hr)
      · simp [hr] at h
    · simp [h4] at h
  · intro h
    exact ⟨_, _, verdict_transient r h⟩

theorem ceilSec_ge (x : Int) : x ≤ ceilSec x ∧ ceilSec x < x + tickPerSec := by
  unfold ceilSec tickPerSec; omega

/-- F1 repaired (dee5a41, rounded up in 19d7f3b): a 429 whose `Retry-After` is an HTTP-date is
    retried like any other 429, and the next attempt — whenever there is one — starts no earlier
    than the date itself: the gap after the response is at least `max(0, when - now)`. -/
theorem retry_after_http_date (bo : Backoffs) (enforce : Bool) (script : List Att) (t : Int)
    (j : Nat) (tj tj' : Int) (a : Att) (r : Resp) (d : Int)
    (h0 : (request bo enforce script t).times[j]? = some tj)
    (h1 : (request bo enforce script t).times[j + 1]? = some tj')
    (ha : script[j]? = some a) (hf : a.fault = .http r) (hd : r.hdr = .date d) :
    (∃ c ra, verdict a.fault = .retry c ra) ∧
    0 ≤ tj' - (tj + a.lat) ∧ d ≤ tj' - (tj + a.lat) := by
  have hra : retryAfter r = some (if ceilSec d < 0 then 0 else ceilSec d) := by simp [retryAfter, hd]
  have := gap_ge_retry_after bo enforce script t j tj tj' a r _ h0 h1 ha hf hra
  have hge := (ceilSec_ge d).1
  obtain ⟨_, c, ra, _, hv, _⟩ := gap_eq_from bo enforce script 0 t j tj tj' a h0 h1 ha
  refine ⟨⟨c, ra, hv⟩, ?_, ?_⟩ <;> (split at this <;> omega)

/-- … and the requested delay itself never overshoots the date by a whole second -/
theorem http_date_delay_exact (r : Resp) (d : Int) (hd : r.hdr = .date d) (hpos : 0 ≤ d) :
    ∃ ra, retryAfter r = some ra ∧ d ≤ ra ∧ ra < d + tickPerSec := by
  have := ceilSec_ge d
  refine ⟨ceilSec d, ?_, this.1, this.2⟩
  have : ¬ ceilSec d < 0 := by omega
  simp [retryAfter, hd, this]

-- a date 2.5 s ahead is waited for 3 s (zero backoff): never earlier than requested
example :
    (request (ofList [0]) false [⟨.http ⟨429, .date 2560, .empty, none, false⟩, 0⟩] 0).times = [0, 3072] := by decide

/-- an answer that carries no usable Retry-After: the header is garbage or overflows `float()`
    (F1/F2 repaired), or there is no header and the body is not what the client expects — a non-dict
    JSON value, `details` a string/list, `retryAfterSeconds` not a number (F6 repaired) -/
def NoUsableRetryAfter (r : Resp) : Prop :=
  r.hdr = .garbage ∨ r.hdr = .overflow ∨
  (r.hdr = .absent ∧ (r.payload = .otherValue ∨ r.payload = .badDetails ∨ r.payload = .text ∨
    r.payload = .empty ∨ r.payload = .otherJson ∨ r.detBad = true))

/-- F1/F2/F6 repaired, positively: such an answer raises no foreign exception — it is retried or
    escalated by its status like any other (`transient_http_iff`, `fatal_4xx_immediate` do not look at
    the body) — and when it is retried, at any position of any script, the wait before the next
    attempt is exactly the configured backoff. -/
theorem unparsable_retry_after_uses_backoff (bo : Backoffs) (enforce : Bool) (script : List Att) (t : Int)
    (j : Nat) (a : Att) (r : Resp) (ha : script[j]? = some a) (hf : a.fault = .http r)
    (hg : NoUsableRetryAfter r) :
    retryAfter r = none ∧
    ∀ tj tj', (request bo enforce script t).times[j]? = some tj →
      (request bo enforce script t).times[j + 1]? = some tj' →
      ∃ b, bo j = some b ∧ tj' - (tj + a.lat) = slept b := by
  have hnone : retryAfter r = none := by
    unfold retryAfter
    rcases hg with hg | hg | ⟨hg, hp⟩
    · simp [hg]
    · simp [hg]
    · simp only [hg]
      unfold detailsRA
      rcases hp with hp | hp | hp | hp | hp | hp
      · simp [hp]
      · simp [hp]
      · simp [hp]
      · simp [hp]
      · simp [hp]
      · by_cases hs : r.payload = .statusJson
        · simp only [hs, if_true]; cases r.detRA <;> simp [hp]
        · simp [hs]
  refine ⟨hnone, fun tj tj' h0 h1 => ?_⟩
  obtain ⟨b, c, ra, hb, hv, hgap⟩ := gap_eq_from bo enforce script 0 t j tj tj' a h0 h1 ha
  rw [hf] at hv
  have := retry_ra r c ra hv
  rw [this, hnone] at hgap
  exact ⟨b, by simpa using hb, by simpa [effDelay] using hgap⟩

/-! ### "never waiting less than a server-requested Retry-After" — against what the server SENT -/

/-- Whatever the server asked for with a retried error answer — 429, 5xx or 403 (F7 fixed in
    f4c61b5); delay-seconds with or without a fraction (F5), under any spelling of the header name
    (F4), an HTTP-date (F1), or the body's `retryAfterSeconds` — the next attempt, whenever there is
    one, starts no earlier than that. No guard. -/
theorem gap_ge_requested (bo : Backoffs) (enforce : Bool) (script : List Att) (t : Int)
    (j : Nat) (tj tj' : Int) (a : Att) (r : Resp) (q : Int)
    (h0 : (request bo enforce script t).times[j]? = some tj)
    (h1 : (request bo enforce script t).times[j + 1]? = some tj')
    (ha : script[j]? = some a) (hf : a.fault = .http r) (hq : requested r = some q) :
    q ≤ tj' - (tj + a.lat) := by
  have key : ∃ ra, retryAfter r = some ra ∧ q ≤ ra := by
    unfold requested at hq
    unfold retryAfter
    cases hh : r.hdr with
    | absent =>
      simp only [hh] at hq ⊢
      unfold detailsRA
      by_cases hp : r.payload = .statusJson
      · simp only [hp, if_true] at hq ⊢
        cases hd : r.detRA with
        | none => simp [hd] at hq
        | some d =>
          simp only [hd] at hq ⊢
          by_cases hbad : r.detBad = true
          · simp [hbad] at hq
          · by_cases hz : d ≠ 0
            · simp only [hbad, Bool.false_eq_true, if_false] at hq ⊢
              rw [if_pos hz] at hq; rw [if_pos hz]
              have := (ceilSec_ge d).1
              exact ⟨ceilSec d, rfl, by injection hq with hq; omega⟩
            · simp only [hbad, Bool.false_eq_true, if_false] at hq
              rw [if_neg hz] at hq; cases hq
      · simp [hp] at hq
    | secs h =>
      simp only [hh] at hq ⊢
      have := (ceilSec_ge h).1
      exact ⟨ceilSec h, rfl, by injection hq with hq; omega⟩
    | otherCase h =>
      simp only [hh] at hq ⊢
      have := (ceilSec_ge h).1
      exact ⟨ceilSec h, rfl, by injection hq with hq; omega⟩
    | date d =>
      simp only [hh] at hq ⊢
      have := (ceilSec_ge d).1
      refine ⟨_, rfl, ?_⟩
      injection hq with hq
      split at hq <;> split <;> omega
    | garbage => simp [hh] at hq
    | overflow => simp [hh] at hq
  obtain ⟨ra, hra, hle⟩ := key
  have := gap_ge_retry_after bo enforce script t j tj tj' a r ra h0 h1 ha hf hra
  omega

/-- … and never a whole second more than asked, unless the backoff is longer: the value the loop
    works with is the request rounded up to whole seconds -/
theorem requested_rounded_up (r : Resp) (q : Int) (hq : requested r = some q) (hg : ∀ d, r.hdr ≠ .date d) :
    ∃ ra, retryAfter r = some ra ∧ q ≤ ra ∧ ra < q + tickPerSec := by
  unfold requested at hq
  unfold retryAfter
  cases hh : r.hdr with
  | absent =>
    simp only [hh] at hq ⊢
    unfold detailsRA
    by_cases hp : r.payload = .statusJson
    · simp only [hp, if_true] at hq ⊢
      cases hd : r.detRA with
      | none => simp [hd] at hq
      | some d =>
        simp only [hd] at hq ⊢
        by_cases hbad : r.detBad = true
        · simp [hbad] at hq
        · by_cases hz : d ≠ 0
          · simp only [hbad, Bool.false_eq_true, if_false] at hq ⊢
            rw [if_pos hz] at hq; rw [if_pos hz]
            have := ceilSec_ge d
            exact ⟨ceilSec d, rfl, by injection hq with hq; omega, by injection hq with hq; omega⟩
          · simp only [hbad, Bool.false_eq_true, if_false] at hq
            rw [if_neg hz] at hq; cases hq
    · simp [hp] at hq
  | secs h =>
    simp only [hh] at hq ⊢
    have := ceilSec_ge h
    exact ⟨ceilSec h, rfl, by injection hq with hq; omega, by injection hq with hq; omega⟩
  | otherCase h =>
    simp only [hh] at hq ⊢
    have := ceilSec_ge h
    exact ⟨ceilSec h, rfl, by injection hq with hq; omega, by injection hq with hq; omega⟩
  | date d => exact absurd hh (hg d)
  | garbage => simp [hh] at hq
  | overflow => simp [hh] at hq

/-! ### finding F9: the body read -/

/-- negation witness (finding F9): `api.get` — the server answers 200 at once, reading the body
    raises a network error: ONE attempt, the error escalates although three backoffs are left
    (`response.json()` is outside the retry loop). -/
theorem body_read_failure_not_retried_witness :
    (getJson (ofList [0, 0, 0]) false [] 0 true) = ⟨[0], [], .escalated .conn, 0⟩ := by decide

-- regressions of the repaired findings, evaluated by the model
-- F7: 503 + Retry-After: 10 with a 1 s backoff waits 10 s; 504 + details 10 too
example : (request (ofList [1024]) false [⟨.http ⟨503, .secs 10240, .empty, none, false⟩, 0⟩] 0).times = [0, 10240] := by decide
example : (request (ofList [1024]) false [⟨.http ⟨504, .absent, .statusJson, some 10240, false⟩, 0⟩] 0).times = [0, 10240] := by decide
-- F6: a 503 whose body is `[1]`, a 429 whose retryAfterSeconds is "soon", a 429 whose details is a string: retried
example : (request (ofList [0, 0, 0]) false [⟨.http ⟨503, .absent, .otherValue, none, false⟩, 0⟩] 0) = ⟨[0, 0], [0], .ok, 0⟩ := by decide
example : (request (ofList [0, 0, 0]) false [⟨.http ⟨429, .absent, .statusJson, none, true⟩, 0⟩] 0) = ⟨[0, 0], [0], .ok, 0⟩ := by decide
example : (request (ofList [0, 0, 0]) false [⟨.http ⟨429, .absent, .badDetails, none, false⟩, 0⟩] 0) = ⟨[0, 0], [0], .ok, 0⟩ := by decide
example : NoUsableRetryAfter ⟨429, .absent, .statusJson, none, true⟩ := Or.inr (Or.inr ⟨rfl, by simp⟩)

-- non-vacuity: concrete scripts that meet the hypotheses, evaluated by the model
example : (request (ofList [1024, 512]) false
    [⟨.http ⟨500, .absent, .empty, none, false⟩, 256⟩, ⟨.http ⟨429, .secs 3072, .empty, none, false⟩, 0⟩,
     ⟨.exc true false false false false, 128⟩, ⟨.http ⟨503, .absent, .empty, none, false⟩, 0⟩] 0)
    = ⟨[0, 1280, 4352], [1024, 3072], .escalated .conn, 4480⟩ := by decide
example : (request (ofList [1024]) true [⟨.http ⟨429, .absent, .statusJson, some 2048, false⟩, 0⟩] 0).times = [0, 2048] := by decide
example : Fatal4xx 404 ∧ Fatal4xx 401 ∧ Fatal4xx 422 := by unfold Fatal4xx; omega
example : AllTransient [⟨.http ⟨403, .absent, .empty, none, false⟩, 0⟩, ⟨.exc false true false false false, 3⟩] := by
  intro a ha; simp at ha; rcases ha with rfl | rfl
  · exact ⟨.forbidden, none, by decide⟩
  · exact ⟨.timeout, none, by decide⟩
example : retryAfter ⟨429, .secs 2560, .text, none, false⟩ = some 3072 := by decide   -- "2.5" → ceil(float()) = 3 s
example : (request (ofList [0]) false [⟨.http ⟨429, .secs 2560, .empty, none, false⟩, 0⟩] 0).times = [0, 3072] := by decide
example : (request (ofList [1024]) false [⟨.http ⟨429, .otherCase 5120, .empty, none, false⟩, 0⟩] 0).times = [0, 5120] := by decide
example : (request (ofList [0]) false [⟨.http ⟨429, .absent, .statusJson, some 1536, false⟩, 0⟩] 0).times = [0, 2048] := by decide
example : retryAfter ⟨429, .date (-700), .text, none, false⟩ = some 0 := by decide      -- a date in the past: max(0, …)
example : retryAfter ⟨429, .garbage, .statusJson, some 5120, false⟩ = none := by decide -- details not consulted
example : retryAfter ⟨429, .absent, .statusJson, some 0, false⟩ = none := by decide      -- retryAfterSeconds: 0 is falsy
example : retryAfter ⟨429, .secs 0, .statusJson, some 5120, false⟩ = some 0 := by decide -- header "0" is truthy

/-! ## `throttled` — for every delay configuration, every sequence of cycle outcomes -/

/-- cycles whose block raises an error of interest and whose 2nd sleep is not interrupted
    (any durations, gaps, `ran` flags, and wake-ups into the — never entered — 1st sleep) -/
def QuietErrors (cs : List (CycleIn × Nat)) : Prop :=
  ∀ c ∈ cs, c.1.body = .error true ∧ c.1.wake2 = none

theorem delays_follow_config_from (l : List Int) (p : Nat) (s : Throttler) (t : Int)
    (cs : List (CycleIn × Nat)) (h : AfterErrors l p s) (hq : QuietErrors cs) (k : Nat)
    (hk : k < cs.length) :
    ∃ o, (cycles (Delays.ofList l) s t cs)[k]? = some o ∧
      o.activated = l[min (p + k) (l.length - 1)]? ∧ o.shouldRun = true ∧ o.escaped = .none_ ∧
      o.sleep2 = (match o.activated with | some d => pauseLen d | none => 0) := by
  induction cs generalizing p s t k with
  | nil => simp at hk
  | cons c rest ih =>
    obtain ⟨⟨body, ran, dur, w1, w2⟩, gap⟩ := c
    have hc := hq _ (List.mem_cons_self ..)
    simp only at hc
    obtain ⟨hb, hw⟩ := hc
    subst hb hw
    have hstep := error_step l p s t ran dur w1 h
    simp only [cycles]
    cases k with
    | zero =>
      exact ⟨_, by simp, by simpa using hstep.1, hstep.2.2.1, hstep.2.2.2.1,
        by rw [hstep.1]; exact hstep.2.2.2.2.1⟩
    | succ k =>
      have hq' : QuietErrors rest := fun x hx => hq x (List.mem_cons_of_mem _ hx)
      obtain ⟨o, ho, ha, hs, he, hsl⟩ := ih (p + 1) _ _ hstep.2.1 hq' k (by simpa using hk)
      exact ⟨o, by simpa using ho, by rw [ha]; congr 2; omega, hs, he, hsl⟩

/-- The k-th consecutive error (counting from 0, starting from a fresh throttler) pauses the object
    for `delays[k]`, the last delay being repeated for ever; with an empty configuration: no pause.
    The pause is really served (`sleep2` = the chosen delay, inside the cycle), every such error is
    swallowed, and the block is allowed to run each time. -/
theorem delays_follow_config (l : List Int) (t : Int) (cs : List (CycleIn × Nat))
    (hq : QuietErrors cs) (k : Nat) (hk : k < cs.length) :
    ∃ o, (cycles (Delays.ofList l) Throttler.fresh t cs)[k]? = some o ∧
      o.activated = l[min k (l.length - 1)]? ∧ o.shouldRun = true ∧ o.escaped = .none_ ∧
      o.sleep2 = (match o.activated with | some d => pauseLen d | none => 0) := by
  have := delays_follow_config_from l 0 Throttler.fresh t cs (afterErrors_fresh l) hq k hk
  simpa using this

/-- With an empty configuration nothing is ever throttled, whatever happens in the blocks. -/
theorem empty_config_never_throttles (s : Throttler) (t : Int) (cs : List (CycleIn × Nat))
    (hs : s.activeUntil = none ∧ s.last = none) :
    ∀ o ∈ cycles (Delays.ofList []) s t cs,
      o.shouldRun = true ∧ o.sleep1 = 0 ∧ o.sleep2 = 0 ∧ o.activated = none ∧ o.st.activeUntil = none := by
  induction cs generalizing s t with
  | nil => simp [cycles]
  | cons c rest ih =>
    obtain ⟨i, gap⟩ := c
    have key : (cycle (Delays.ofList []) s t i).shouldRun = true ∧ (cycle (Delays.ofList []) s t i).sleep1 = 0 ∧
        (cycle (Delays.ofList []) s t i).sleep2 = 0 ∧ (cycle (Delays.ofList []) s t i).activated = none ∧
        (cycle (Delays.ofList []) s t i).st.activeUntil = none ∧ (cycle (Delays.ofList []) s t i).st.last = none := by
      obtain ⟨h1, h2⟩ := hs
      obtain ⟨b, ran, dur, w1, w2⟩ := i
      rw [cycle_inactive _ s t _ h1]
      unfold phase2 Delays.ofList
      cases b with
      | success => simp [h1]
      | baseExc => simp [h1, h2]
      | error oi => cases oi <;> simp [h1, h2, nextDelay, Delays.nth]
    intro o ho
    simp only [cycles, List.mem_cons] at ho
    rcases ho with rfl | ho
    · exact ⟨key.1, key.2.1, key.2.2.1, key.2.2.2.1, key.2.2.2.2.1⟩
    · exact ih _ _ ⟨key.2.2.2.2.1, key.2.2.2.2.2⟩ o ho

/-- A success (of a block that was allowed to run) resets the throttler completely: the next
    error starts again from `delays[0]`. -/
theorem success_resets (cfg : Delays) (s : Throttler) (t : Int) (i : CycleIn)
    (hb : i.body = .success) (hr : (cycle cfg s t i).shouldRun = true) :
    (cycle cfg s t i).st = Throttler.fresh ∧ (cycle cfg s t i).escaped = .none_ ∧
    (cycle cfg s t i).activated = none := by
  have hsr := (cycle_shouldRun cfg s t i).1
  rw [hr] at hsr
  have hnone : (phase1 s t i.wake1).2.activeUntil = none := by
    cases h : (phase1 s t i.wake1).2.activeUntil with
    | none => rfl
    | some u => simp [h] at hsr
  unfold cycle
  have := phase2_success cfg (phase1 s t i.wake1).2 (t + (phase1 s t i.wake1).1) (phase1 s t i.wake1).1 i hb
  exact ⟨this.2.2.1 hnone, this.1, this.2.1⟩

theorem success_resets_then_first_delay (l : List Int) (s : Throttler) (t t' : Int) (i : CycleIn)
    (ran : Bool) (dur : Nat) (w1 : Option Nat)
    (hb : i.body = .success) (hr : (cycle (Delays.ofList l) s t i).shouldRun = true) :
    (cycle (Delays.ofList l) (cycle (Delays.ofList l) s t i).st t' ⟨.error true, ran, dur, w1, none⟩).activated
      = l[0]? := by
  rw [(success_resets _ s t i hb hr).1]
  have := (error_step l 0 Throttler.fresh t' ran dur w1 (afterErrors_fresh l)).1
  simpa using this

/-- What leaves the context manager (every configuration — list, tuple, re-iterable, and since
    3ebc040 a scalar too): an `Exception` of interest raised by
    a block that was allowed to run never does; a BaseException (cancellation) always does; errors
    that are not of interest, or raised by a block that ran against `should_run = False`, are
    re-raised. -/
theorem swallowed (cfg : Delays) (s : Throttler) (t : Int) (i : CycleIn) :
    (i.body = .error true → (cycle cfg s t i).shouldRun = true →
      (cycle cfg s t i).escaped = .none_) ∧
    (i.body = .success → (cycle cfg s t i).escaped = .none_) ∧
    (i.body = .baseExc → ((cycle cfg s t i).shouldRun = true ∨ i.ran = true) →
      (cycle cfg s t i).escaped = .baseException) ∧
    (i.body = .error false → ((cycle cfg s t i).shouldRun = true ∨ i.ran = true) →
      (cycle cfg s t i).escaped = .exception) ∧
    (i.body = .error true → (cycle cfg s t i).shouldRun = false → i.ran = true →
      (cycle cfg s t i).escaped = .exception) := by
  have hsr := (cycle_shouldRun cfg s t i).1
  have hiff : (cycle cfg s t i).shouldRun = true ↔ (phase1 s t i.wake1).2.activeUntil = none := by
    rw [hsr]; cases (phase1 s t i.wake1).2.activeUntil <;> simp
  have hesc := phase2_escaped cfg (phase1 s t i.wake1).2 (t + (phase1 s t i.wake1).1) (phase1 s t i.wake1).1 i
  have hsuc := phase2_success cfg (phase1 s t i.wake1).2 (t + (phase1 s t i.wake1).1) (phase1 s t i.wake1).1 i
  have hc : cycle cfg s t i =
      phase2 cfg (phase1 s t i.wake1).2 (t + (phase1 s t i.wake1).1) (phase1 s t i.wake1).1 i := rfl
  refine ⟨?_, ?_, ?_, ?_, ?_⟩
  · intro hb h; rw [hc]; exact hesc.1 hb (hiff.mp h)
  · intro hb; rw [hc]; exact (hsuc hb).1
  · intro hb h; rw [hc]; exact hesc.2.1 hb (h.imp hiff.mp id)
  · intro hb h; rw [hc]; exact hesc.2.2.1 hb (h.imp hiff.mp id)
  · intro hb h hr; rw [hc]
    refine hesc.2.2.2 hb ?_ hr
    intro hn; rw [hiff.mpr hn] at h; cases h

/-- N objects on one clock, any interleaving of their cycles (structural containment; that one
    object's *sleep* does not hold up another's start time is not a theorem but the D tie: 1–3 real
    throttlers run concurrently on one virtual clock and each must follow its solo model run; and
    `worker_limit = None`, see ASSUMPTIONS): every object's throttler and every one of its cycle
    outputs in the product run are exactly those of the object running alone on its own events.
    In particular an object whose blocks never fail is never paused, whatever the others do. -/
theorem product_projection (cfg : Delays) (m : Memories) (es : List Event) (k : Nat) :
    (runProduct cfg m es).1 k = (runSolo cfg k (m k) es).1 ∧
    ((runProduct cfg m es).2.filter (fun p => p.1 = k)).map (·.2) = (runSolo cfg k (m k) es).2 := by
  induction es generalizing m with
  | nil => simp [runProduct, runSolo]
  | cons e rest ih =>
    simp only [runProduct, runSolo]
    by_cases he : e.obj = k
    · have hm : stepObject cfg m e.obj e.at_ e.inp k = (cycle cfg (m k) e.at_ e.inp).st := by
        simp [stepObject, he]
      have := ih (stepObject cfg m e.obj e.at_ e.inp)
      rw [hm] at this
      simp only [he, if_true, List.filter_cons, decide_true, List.map_cons]
      exact ⟨by rw [← he] at this ⊢; simpa [he] using this.1, by
        rw [← he] at this ⊢; simpa [he] using this.2⟩
    · have hm : stepObject cfg m e.obj e.at_ e.inp k = m k := by
        have : ¬ k = e.obj := fun h => he h.symm
        simp [stepObject, this]
      have := ih (stepObject cfg m e.obj e.at_ e.inp)
      rw [hm] at this
      simp only [he, if_false, List.filter_cons, decide_false]
      exact this

/-- Processing recovers once errors stop: a cycle whose 1st sleep is not interrupted — or that
    starts when the pause is already over, wake-up or not — always lets the block run, never before
    the pause is over, and if the block then succeeds the throttler is as new. -/
theorem recovers_after_errors_stop (cfg : Delays) (s : Throttler) (t : Int) (i : CycleIn)
    (hw : i.wake1 = none ∨ ∀ u, s.activeUntil = some u → u ≤ t) :
    (cycle cfg s t i).shouldRun = true ∧
    (∀ u, s.activeUntil = some u → u ≤ t + (cycle cfg s t i).sleep1) ∧
    (i.body = .success → (cycle cfg s t i).st = Throttler.fresh) := by
  have h1 := cycle_shouldRun cfg s t i
  have key : (phase1 s t i.wake1).2.activeUntil = none ∧
      ∀ u, s.activeUntil = some u → u ≤ t + (phase1 s t i.wake1).1 := by
    rcases hw with hw | hw
    · rw [hw]; exact phase1_sleep s t
    · unfold phase1
      cases hu : s.activeUntil with
      | none => simp [hu]
      | some u =>
        have hle := hw u hu
        have : aioSleep (u - t) i.wake1 = (0, true) := by
          unfold aioSleep; have : u - t ≤ 0 := by omega
          simp [this]
        simp [this]; omega
  have hsr : (cycle cfg s t i).shouldRun = true := by rw [h1.1, key.1]; rfl
  exact ⟨hsr, fun u hu => by rw [h1.2]; exact key.2 u hu, fun hb => (success_resets cfg s t i hb hsr).1⟩

/-- An interrupted pause is kept: when a wake-up (a new event for the same object) cuts the 2nd
    sleep short, the deadline stays in the throttler — the following cycles are governed by
    `paused_while_active` until it has passed, then by `recovers_after_errors_stop`. -/
theorem interrupted_pause_is_kept (cfg : Delays) (s : Throttler) (t : Int) (ran : Bool)
    (dur : Nat) (w1 : Option Nat) (w : Nat) (d : Int) (h : s.activeUntil = none)
    (hd : (nextDelay cfg.nth (s.src.getD 0) s.last).1 = some d) (hlt : (w : Int) < d) :
    (cycle cfg s t ⟨.error true, ran, dur, w1, some w⟩).st.activeUntil = some (t + dur + d) ∧
    (cycle cfg s t ⟨.error true, ran, dur, w1, some w⟩).sleep2 = w ∧
    (cycle cfg s t ⟨.error true, ran, dur, w1, some w⟩).escaped = .none_ := by
  rw [cycle_inactive _ s t _ h]
  unfold phase2
  have e : t + ↑dur + d - (t + ↑dur) = d := by omega
  have hs : aioSleep d (some w) = ((w : Int), false) := by
    unfold aioSleep
    have : ¬ d ≤ 0 := by omega
    simp [this, hlt]
  simp [h, hd, e, hs]

/-- F8 repaired, positively: a scalar `error_delays = d` behaves in every cycle, from every state,
    exactly like the one-item list `[d]` (so all the theorems above hold for it: the first error
    pauses `d`, every further one `d` again, nothing escapes). -/
theorem scalar_delays_is_one_item_list (d : Int) (s : Throttler) (t : Int) (i : CycleIn) :
    cycle (.scalar d) s t i = cycle (Delays.ofList [d]) s t i := by
  simp only [cycle, phase2, Delays.nth, Delays.ofList]

/-- … and while the pause lasts, a wake-up (new events for the same object) does not let the block
    run and changes nothing in the throttler. -/
theorem paused_while_active (cfg : Delays) (s : Throttler) (t : Int) (i : CycleIn) (u : Int) (w : Nat)
    (hu : s.activeUntil = some u) (hw : i.wake1 = some w) (hlt : (w : Int) < u - t) (hr : i.ran = false) :
    (cycle cfg s t i).shouldRun = false ∧ (cycle cfg s t i).st = s ∧ (cycle cfg s t i).escaped = .none_ := by
  unfold cycle
  rw [hw, phase1_interrupted s t u w hu hlt]
  have := phase2_skipped cfg s (t + (w : Int)) (w : Int) i u hu hr
  exact ⟨this.2.2, this.1, this.2.1⟩

-- non-vacuity
example : QuietErrors [(⟨.error true, false, 5, none, none⟩, 7), (⟨.error true, true, 0, some 3, none⟩, 0)] := by
  intro c hc; simp at hc; rcases hc with rfl | rfl <;> simp
example : ((cycles (Delays.ofList [1024, 2048]) Throttler.fresh 0
    [(⟨.error true, false, 0, none, none⟩, 0), (⟨.error true, false, 0, none, none⟩, 0),
     (⟨.error true, false, 0, none, none⟩, 0)]).map (·.activated)) = [some 1024, some 2048, some 2048] := by decide
example : (cycle (Delays.ofList [1024]) ⟨some 1, some 1024, some 5000⟩ 100 ⟨.success, false, 0, some 10, none⟩).shouldRun = false := by decide
example : (cycle (Delays.ofList [1024]) ⟨some 1, some 1024, some 5000⟩ 100 ⟨.success, false, 0, none, none⟩).st = Throttler.fresh := by decide
example : (cycle (Delays.scalar 5) Throttler.fresh 0 ⟨.error true, false, 0, none, none⟩).activated = some 5 := by decide

/-! ## The composition: a processing cycle whose API call escalates — every fault script, every backoff
   stream, every delay configuration, every throttler state -/

/-- An escalated API error never leaves the processing cycle, in whatever state the object's throttler
    is, whatever the script, the configurations and the wake-ups: nothing reaches the object's worker
    (which would stop the watcher and with it the operator). -/
theorem escalation_contained (bo : Backoffs) (enforce : Bool) (cfg : Delays) (s : Throttler) (t : Int)
    (script : List Att) (w1 w2 : Option Nat) :
    (processCycle bo enforce cfg s t script w1 w2).out.escaped = .none_ := by
  simp only [processCycle]
  have hsw := swallowed cfg s t (apiCycleIn bo enforce script (t + (phase1 s t w1).1) w1 w2)
  rcases apiCycleIn_body bo enforce script (t + (phase1 s t w1).1) w1 w2 with ⟨hb, _⟩ | ⟨hb, _⟩
  · exact hsw.2.1 hb
  · -- an error of interest: swallowed when the block ran; when it did not run, there was no block
    have hc := cycle_shouldRun cfg s t (apiCycleIn bo enforce script (t + (phase1 s t w1).1) w1 w2)
    cases hr : (cycle cfg s t (apiCycleIn bo enforce script (t + (phase1 s t w1).1) w1 w2)).shouldRun with
    | true => exact hsw.1 hb hr
    | false =>
      have hw : (apiCycleIn bo enforce script (t + (phase1 s t w1).1) w1 w2).wake1 = w1 := rfl
      rw [hc.1, hw] at hr
      cases hu : (phase1 s t w1).2.activeUntil with
      | none => simp [hu] at hr
      | some u =>
        have := phase2_skipped cfg (phase1 s t w1).2 (t + (phase1 s t w1).1) (phase1 s t w1).1
          (apiCycleIn bo enforce script (t + (phase1 s t w1).1) w1 w2) u hu rfl
        unfold cycle
        rw [hw]
        exact this.2.1

/-- An escalated API error pauses the object for the configured error delay, growing per consecutive
    error: after `p` consecutive failed cycles (`AfterErrors l p s`: the throttler is not active, `p`
    items of `error_delays = l` consumed) a cycle whose API call escalates — retries exhausted, or a
    fatal answer at once — activates `l[min p last]`, counted from the moment of the escalation
    (`r.fin`); with no new event meanwhile the pause is served inside the cycle; the throttler is then
    `AfterErrors l (p + 1)`. With an empty `l`: no pause, the cycle ends with the escalation. -/
theorem escalation_pauses_object (bo : Backoffs) (enforce : Bool) (l : List Int) (p : Nat) (s : Throttler)
    (t : Int) (script : List Att) (w1 : Option Nat) (c : ErrClass)
    (h : AfterErrors l p s) (he : (request bo enforce script t).outcome = .escalated c) :
    let po := processCycle bo enforce (Delays.ofList l) s t script w1 none
    po.run = some (request bo enforce script t) ∧
    po.out.activated = l[min p (l.length - 1)]? ∧
    po.out.fin = (request bo enforce script t).fin +
      (match l[min p (l.length - 1)]? with | some d => pauseLen d | none => 0) ∧
    po.out.escaped = .none_ ∧ AfterErrors l (p + 1) po.out.st := by
  intro po
  have hpo : po = ⟨some (request bo enforce script t),
      cycle (Delays.ofList l) s t (apiCycleIn bo enforce script t w1 none)⟩ :=
    processCycle_inactive bo enforce (Delays.ofList l) s t script w1 none h.1
  have hin : apiCycleIn bo enforce script t w1 none =
      ⟨.error true, false, (apiCycleIn bo enforce script t w1 none).dur, w1, none⟩ := by
    simp [apiCycleIn, he, apiBody]
  have hst := error_step l p s t false (apiCycleIn bo enforce script t w1 none).dur w1 h
  rw [← hin] at hst
  have hd := apiCycleIn_dur bo enforce script t w1 none
  rw [hpo]
  refine ⟨rfl, hst.1, ?_, hst.2.2.2.1, hst.2.1⟩
  have h1 := hst.2.2.2.2.2
  have h2 := hst.2.2.2.2.1
  rw [h2] at h1
  show (cycle (Delays.ofList l) s t (apiCycleIn bo enforce script t w1 none)).fin = _
  cases hl : l[min p (l.length - 1)]? with
  | none => simp only [hl] at h1 ⊢; omega
  | some d0 => simp only [hl] at h1 ⊢; omega

/-- … and if a new event of the object interrupts that pause (`w < d` ticks into it), the deadline
    `r.fin + d` stays in the throttler: until then the object's cycles make no request
    (`paused_object_makes_no_request`), other objects are not concerned (`product_projection`). -/
theorem escalation_pause_interrupted_is_kept (bo : Backoffs) (enforce : Bool) (cfg : Delays) (s : Throttler)
    (t : Int) (script : List Att) (w1 : Option Nat) (w : Nat) (d : Int) (c : ErrClass)
    (h : s.activeUntil = none) (he : (request bo enforce script t).outcome = .escalated c)
    (hd : (nextDelay cfg.nth (s.src.getD 0) s.last).1 = some d) (hlt : (w : Int) < d) :
    (processCycle bo enforce cfg s t script w1 (some w)).out.st.activeUntil
      = some ((request bo enforce script t).fin + d) := by
  rw [processCycle_inactive bo enforce cfg s t script w1 (some w) h]
  have hin : apiCycleIn bo enforce script t w1 (some w) =
      ⟨.error true, false, (apiCycleIn bo enforce script t w1 (some w)).dur, w1, some w⟩ := by
    simp [apiCycleIn, he, apiBody]
  have := (interrupted_pause_is_kept cfg s t false (apiCycleIn bo enforce script t w1 (some w)).dur w1 w d h hd hlt).1
  rw [← hin] at this
  have hdur := apiCycleIn_dur bo enforce script t w1 (some w)
  simp only
  rw [this]
  congr 1
  omega

/-- While the pause lasts, a new event of the object (a wake-up `w` ticks into the rest of the pause)
    makes no request at all and changes nothing in the throttler. -/
theorem paused_object_makes_no_request (bo : Backoffs) (enforce : Bool) (cfg : Delays) (s : Throttler)
    (t : Int) (script : List Att) (u : Int) (w : Nat) (w2 : Option Nat)
    (hu : s.activeUntil = some u) (hlt : (w : Int) < u - t) :
    (processCycle bo enforce cfg s t script (some w) w2).run = none ∧
    (processCycle bo enforce cfg s t script (some w) w2).out.st = s ∧
    (processCycle bo enforce cfg s t script (some w) w2).out.shouldRun = false := by
  have hp := phase1_interrupted s t u w hu hlt
  have hpw := paused_while_active cfg s t
    (apiCycleIn bo enforce script (t + (phase1 s t (some w)).1) (some w) w2) u w hu rfl hlt rfl
  simp only [processCycle]
  refine ⟨?_, hpw.2.1, hpw.1⟩
  rw [hp]; simp [hu]

/-- Processing recovers once errors stop, and a success resets the growth: a cycle that starts when
    the pause is over (or sleeps through its rest undisturbed) makes its API call — never before the
    deadline — and if the call succeeds the throttler is as new: the next escalation pauses `l[0]`
    again (`escalation_pauses_object` with `p = 0`). -/
theorem recovers_and_resets (bo : Backoffs) (enforce : Bool) (cfg : Delays) (s : Throttler) (t : Int)
    (script : List Att) (w1 w2 : Option Nat)
    (hw : w1 = none ∨ ∀ u, s.activeUntil = some u → u ≤ t) :
    ∃ r, (processCycle bo enforce cfg s t script w1 w2).run = some r ∧
      (∀ u, s.activeUntil = some u → ∀ t0 ∈ r.times, u ≤ t0) ∧
      (r.outcome = .ok → (processCycle bo enforce cfg s t script w1 w2).out.st = Throttler.fresh) := by
  have hrec := recovers_after_errors_stop cfg s t
    (apiCycleIn bo enforce script (t + (phase1 s t w1).1) w1 w2) hw
  have hc := cycle_shouldRun cfg s t (apiCycleIn bo enforce script (t + (phase1 s t w1).1) w1 w2)
  have hw1 : (apiCycleIn bo enforce script (t + (phase1 s t w1).1) w1 w2).wake1 = w1 := rfl
  have hnone : (phase1 s t w1).2.activeUntil = none := by
    have := hrec.1
    rw [hc.1, hw1] at this
    cases hu : (phase1 s t w1).2.activeUntil with
    | none => rfl
    | some u => simp [hu] at this
  refine ⟨request bo enforce script (t + (phase1 s t w1).1), by simp [processCycle, hnone], ?_, ?_⟩
  · intro u hu t0 ht0
    have hge := hrec.2.1 u hu
    rw [hc.2, hw1] at hge
    -- every attempt starts at or after the start of the call
    have : ∀ (scr : List Att) (i : Nat) (t1 : Int), ∀ x ∈ (run bo enforce scr i t1).times, t1 ≤ x := by
      intro scr
      induction scr with
      | nil => intro i t1 x hx; simp [run] at hx; omega
      | cons a rest ih =>
        intro i t1 x hx
        rw [run_cons] at hx
        cases hv : verdict a.fault with
        | success => simp [hv] at hx; omega
        | raise c => simp [hv] at hx; omega
        | retry c ra =>
          cases hb : bo i with
          | none => simp [hv, hb] at hx; omega
          | some b =>
            simp only [hv, hb, List.mem_cons] at hx
            rcases hx with rfl | hx
            · omega
            · have := ih (i + 1) _ x hx
              have := slept_nonneg (effDelay enforce ra b)
              omega
    have := this script 0 (t + (phase1 s t w1).1) t0 ht0
    omega
  · intro hok
    have hb : (apiCycleIn bo enforce script (t + (phase1 s t w1).1) w1 w2).body = .success := by
      simp [apiCycleIn, hok, apiBody]
    exact hrec.2.2 hb

-- non-vacuity: two backoffs exhausted by 500 / connection error / timeout, then the 4 s pause; a fatal 409 at once
example : (processCycle (ofList [1024, 2048]) false (Delays.ofList [4096, 8192]) Throttler.fresh 48
    [⟨.http ⟨500, .absent, .statusJson, none, false⟩, 16⟩, ⟨.exc true false false false false, 16⟩,
     ⟨.exc false true false false false, 4112⟩] none none).out.fin = 48 + 16 + 1024 + 16 + 2048 + 4112 + 4096 := by decide
example : ((processCycles (ofList [1024]) false (Delays.ofList [4096, 8192]) Throttler.fresh
    [(0, [⟨.http ⟨409, .absent, .statusJson, none, false⟩, 16⟩], none, none),
     (5000, [⟨.http ⟨400, .absent, .statusJson, none, false⟩, 16⟩], none, none),
     (20000, [], none, none),
     (30000, [⟨.http ⟨410, .absent, .statusJson, none, false⟩, 16⟩], none, none)]).map (·.out.activated))
    = [some 4096, some 8192, none, some 4096] := by decide
example : AfterErrors [4096, 8192] 1 ⟨some 1, some 4096, none⟩ := by simp [AfterErrors]

/-! ## `patching.patch_obj` between the API client and the throttler — which escalations pause the object

The cycle's API work is not one call but one `patch_obj`: up to four `api.patch` calls (merge-patch of the
object, of its /status, JSON-patch of the object, of its /status) and an error filter of its own. The property's
"other 4xx escalate at once … an escalated error pauses that object" has to survive that filter: it may keep
back ONLY 'the object is gone' (404) and a failed resourceVersion `test` of a JSON-patch (422 there). -/

/-- An escalated API error of ANY of the cycle's calls pauses the object — unless it is a 404, or a 422 answered
    to a JSON-patch: after `p` consecutive failed cycles, a cycle whose first unanswered call (of kind `k`)
    escalates as `c` at time `f` activates `l[min p last]`, counted from `f`; the later calls are not made;
    nothing reaches the worker; the throttler is then `AfterErrors l (p + 1)`. -/
theorem patch_escalation_pauses_object (bo : Backoffs) (enforce : Bool) (l : List Int) (p : Nat) (s : Throttler)
    (t : Int) (calls : List (PKind × List Att)) (w1 : Option Nat) (k : PKind) (c : ErrClass) (f : Int)
    (h : AfterErrors l p s) (hf : FirstFailure bo enforce calls t k c f)
    (h404 : c ≠ .notFound) (h422 : ¬ (c = .unprocessable ∧ k.isJson = true)) :
    let po := processCycleP patchCatch bo enforce (Delays.ofList l) s t calls w1 none
    po.run = some (patchObj patchCatch bo enforce calls t) ∧
    (patchObj patchCatch bo enforce calls t).ending = .raised c ∧
    po.out.activated = l[min p (l.length - 1)]? ∧
    po.out.fin = f + (match l[min p (l.length - 1)]? with | some d => pauseLen d | none => 0) ∧
    po.out.escaped = .none_ ∧ AfterErrors l (p + 1) po.out.st := by
  intro po
  have hd := first_failure_decides patchCatch bo enforce calls t k c f hf
  have hr : patchCatch k c = .raised c := (patchCatch_raised_iff k c).mpr ⟨h404, h422⟩
  have hpo : po = ⟨some (patchObj patchCatch bo enforce calls t),
      cycle (Delays.ofList l) s t (patchCycleIn patchCatch bo enforce calls t w1 none)⟩ :=
    processCycleP_inactive patchCatch bo enforce (Delays.ofList l) s t calls w1 none h.1
  have hin : patchCycleIn patchCatch bo enforce calls t w1 none =
      ⟨.error true, false, (patchCycleIn patchCatch bo enforce calls t w1 none).dur, w1, none⟩ := by
    simp [patchCycleIn, hd.1, hr, patchBody]
  have hst := error_step l p s t false (patchCycleIn patchCatch bo enforce calls t w1 none).dur w1 h
  rw [← hin] at hst
  have hdur := patchCycleIn_dur patchCatch bo enforce calls t w1 none
  rw [hd.2] at hdur
  rw [hpo]
  refine ⟨rfl, by rw [hd.1, hr], hst.1, ?_, hst.2.2.2.1, hst.2.1⟩
  have h1 := hst.2.2.2.2.2
  have h2 := hst.2.2.2.2.1
  rw [h2] at h1
  show (cycle (Delays.ofList l) s t (patchCycleIn patchCatch bo enforce calls t w1 none)).fin = _
  cases hl : l[min p (l.length - 1)]? with
  | none => simp only [hl] at h1 ⊢; omega
  | some d0 => simp only [hl] at h1 ⊢; omega

/-- 'other 4xx escalate at once' through `patch_obj`: an answer that the retry loop raises at once
    (`verdict = raise c`: every 4xx but 403/429 — HTTP 422 included) to the first attempt of a MERGE-patch call
    (of the object or of its /status), the calls before it answered, is ONE attempt, and pauses the object. -/
theorem merge_patch_4xx_pauses_object (bo : Backoffs) (enforce : Bool) (l : List Int) (p : Nat) (s : Throttler)
    (t : Int) (pre post : List (PKind × List Att)) (k : PKind) (a : Att) (more : List Att) (w1 : Option Nat)
    (c : ErrClass) (h : AfterErrors l p s)
    (hpre : (patchObj patchCatch bo enforce pre t).ending = .applied)
    (hk : k.isJson = false) (hv : verdict a.fault = .raise c) (h404 : c ≠ .notFound) :
    let t1 := (patchObj patchCatch bo enforce pre t).fin
    let po := processCycleP patchCatch bo enforce (Delays.ofList l) s t (pre ++ (k, a :: more) :: post) w1 none
    (request bo enforce (a :: more) t1).times = [t1] ∧
    po.out.activated = l[min p (l.length - 1)]? ∧
    po.out.fin = t1 + a.lat + (match l[min p (l.length - 1)]? with | some d => pauseLen d | none => 0) ∧
    po.out.escaped = .none_ ∧ AfterErrors l (p + 1) po.out.st := by
  intro t1 po
  have hreq : request bo enforce (a :: more) t1 = ⟨[t1], [], .escalated c, t1 + a.lat⟩ := by
    simp [request, run_cons, hv]
  -- the calls before it are answered: the first failure is this call
  have hff : ∀ (pre : List (PKind × List Att)) (t : Int),
      (patchObj patchCatch bo enforce pre t).ending = .applied →
      FirstFailure bo enforce (pre ++ (k, a :: more) :: post) t k c
        ((patchObj patchCatch bo enforce pre t).fin + a.lat) := by
    intro pre
    induction pre with
    | nil =>
      intro t _
      have hr : request bo enforce (a :: more) t = ⟨[t], [], .escalated c, t + a.lat⟩ := by
        simp [request, run_cons, hv]
      have := FirstFailure.here (bo := bo) (enforce := enforce) k (a :: more) post t c (by rw [hr])
      rw [hr] at this
      simpa [patchObj] using this
    | cons kc rest ih =>
      intro t hap
      obtain ⟨k0, script⟩ := kc
      cases ho : (request bo enforce script t).outcome with
      | ok =>
        rw [patchObj_cons_ok patchCatch bo enforce k0 script rest t ho] at hap ⊢
        exact .later k0 script _ t k c _ ho (ih _ hap)
      | escalated c0 =>
        rw [patchObj_cons_escalated patchCatch bo enforce k0 script rest t c0 ho] at hap
        -- the filter never turns an escalation into `applied`
        exfalso
        simp only [patchCatch] at hap
        split at hap
        · cases hap
        · split at hap <;> cases hap
  have h422 : ¬ (c = .unprocessable ∧ k.isJson = true) := by simp [hk]
  have := patch_escalation_pauses_object bo enforce l p s t (pre ++ (k, a :: more) :: post) w1 k c _ h
    (hff pre t hpre) h404 h422
  exact ⟨by rw [hreq], this.2.2.1, this.2.2.2.1, this.2.2.2.2.1, this.2.2.2.2.2⟩

/-- … whereas the two answers the filter keeps back are no errors of the object: a 404 of any call ('gone') and
    a 422 of a JSON-patch call (newer changes exist: the patch is carried over) end the cycle like a success —
    no pause, and the growth of the delays is reset. -/
theorem gone_or_conflict_is_no_error (bo : Backoffs) (enforce : Bool) (cfg : Delays) (s : Throttler)
    (t : Int) (calls : List (PKind × List Att)) (w1 w2 : Option Nat) (k : PKind) (c : ErrClass) (f : Int)
    (h : s.activeUntil = none) (hf : FirstFailure bo enforce calls t k c f)
    (hc : c = .notFound ∨ (c = .unprocessable ∧ k.isJson = true)) :
    let po := processCycleP patchCatch bo enforce cfg s t calls w1 w2
    po.out.activated = none ∧ po.out.escaped = .none_ ∧ po.out.st = Throttler.fresh := by
  intro po
  have hd := first_failure_decides patchCatch bo enforce calls t k c f hf
  have hb : (patchCycleIn patchCatch bo enforce calls t w1 w2).body = .success := by
    simp only [patchCycleIn, hd.1]
    rcases hc with rfl | ⟨rfl, hk⟩
    · simp [patchCatch, patchBody]
    · simp [patchCatch, hk, patchBody]
  have hpo : po = ⟨some (patchObj patchCatch bo enforce calls t),
      cycle cfg s t (patchCycleIn patchCatch bo enforce calls t w1 w2)⟩ :=
    processCycleP_inactive patchCatch bo enforce cfg s t calls w1 w2 h
  have hsr : (cycle cfg s t (patchCycleIn patchCatch bo enforce calls t w1 w2)).shouldRun = true := by
    rw [(cycle_shouldRun cfg s t _).1]
    show (phase1 s t w1).2.activeUntil.isNone = true
    rw [phase1_inactive s t w1 h]; simp [h]
  have := success_resets cfg s t (patchCycleIn patchCatch bo enforce calls t w1 w2) hb hsr
  rw [hpo]
  exact ⟨this.2.2, this.2.1, this.1⟩

/-- The filter must look at the KIND of the call. With one `except APIUnprocessableEntityError` around all four
    calls (`patchCatchAny422`) the property fails: an HTTP 422 answered to the merge-patch of the object — an
    'other 4xx', escalated at once by the API client — does not pause the object at all (4 s configured), the
    throttler is as new; the real filter pauses it (`merge_patch_4xx_pauses_object`). -/
theorem any_422_swallowed_witness :
    let calls : List (PKind × List Att) := [(.mergeBody, [⟨.http ⟨422, .absent, .statusJson, none, false⟩, 16⟩])]
    (processCycleP patchCatchAny422 (ofList [1024]) false (Delays.ofList [4096, 8192]) Throttler.fresh 0
        calls none none).out.activated = none ∧
    (processCycleP patchCatchAny422 (ofList [1024]) false (Delays.ofList [4096, 8192]) Throttler.fresh 0
        calls none none).out.fin = 16 ∧
    (processCycleP patchCatch (ofList [1024]) false (Delays.ofList [4096, 8192]) Throttler.fresh 0
        calls none none).out.activated = some 4096 ∧
    (processCycleP patchCatch (ofList [1024]) false (Delays.ofList [4096, 8192]) Throttler.fresh 0
        calls none none).out.fin = 16 + 4096 := by decide

-- non-vacuity: the object's merge-patch answered, its /status merge-patch refused with 422: one attempt, 4 s
example : FirstFailure (ofList [1024]) false
    [(.mergeBody, []), (.mergeStatus, [⟨.http ⟨422, .absent, .statusJson, none, false⟩, 16⟩]), (.jsonBody, [])] 48
    .mergeStatus .unprocessable 64 :=
  .later _ _ _ _ _ _ _ (by decide) (by exact .here _ _ _ _ _ (by decide))
example : ((processCyclesP patchCatch (ofList [1024]) false (Delays.ofList [4096, 8192]) Throttler.fresh
    [(0, [(.jsonBody, [⟨.http ⟨422, .absent, .statusJson, none, false⟩, 16⟩])], none, none),
     (100, [(.mergeBody, []), (.mergeStatus, [⟨.http ⟨422, .absent, .statusJson, none, false⟩, 16⟩])], none, none),
     (9000, [(.mergeBody, [⟨.http ⟨404, .absent, .statusJson, none, false⟩, 16⟩]), (.mergeStatus, [])], none, none),
     (9100, [(.mergeBody, [⟨.http ⟨503, .absent, .statusJson, none, false⟩, 16⟩,
                           ⟨.http ⟨418, .absent, .statusJson, none, false⟩, 16⟩])], none, none)]).map
      (fun o => (o.out.activated, o.run.map (fun r => (r.runs.length, r.ending)))))
    = [(none, some (1, .postponed)), (some 4096, some (2, .raised .unprocessable)),
       (none, some (1, .gone)), (some 4096, some (1, .raised .client))] := by decide
example : verdict (.http ⟨422, .absent, .statusJson, none, false⟩) = .raise .unprocessable := by decide

/-! ## `Vault` + `authenticated` + authenticator — for every label list, any number of requesters -/

section Vault
open V

/-- A 401 triggers a single re-authentication, however many requests are hit. In every reachable
    state: the number of authentication activities ever started is bounded by the number of
    emptiness episodes (`_ready` True → False), and every emptiness episode is paid for by the
    removal of a *distinct* vault item (`removed` has no duplicates: one item is removed at most
    once, whoever and how many report it) or by a call that found a ready vault already empty
    (a re-authentication that delivered nothing usable). While an activity runs the vault is not
    ready — no second activity can start (`authStart` needs an idle authenticator) — and
    re-authentication only ever starts on an empty vault. -/
theorem single_reauth (s : St) (h : Reach s) :
    s.episodes ≤ s.flips ∧ s.flips ≤ s.removed.length + s.emptyHits ∧ s.removed.Nodup ∧
    (s.auth = .running → s.ready = false) ∧ (s.ready = false → s.cur = []) := by
  obtain ⟨⟨a, b, c, d⟩, hi, _⟩ := inv_of_reach s h
  refine ⟨?_, d, hi.2.2.2.2.1, a, b⟩
  rw [← c]; omega

/-- "Single" in the everyday sense: as long as every login delivers something usable (no `populate`
    has left the vault empty), there is at most one authentication activity per *distinct* invalidated
    vault item — however many requests were hit by the 401 on it — plus the initial authentication of
    a vault that was constructed empty. (When a login delivers nothing, every requester that then
    reports its 401 legitimately asks again: `single_reauth` counts those as `emptyHits`.) -/
theorem single_reauth_when_logins_deliver (s : St) (h : Reach s) (hd : s.emptyPops = 0) :
    s.episodes ≤ s.removed.length + (if s.startedEmpty then 1 else 0) ∧ s.removed.Nodup := by
  obtain ⟨a, b, c, d⟩ := single_reauth s h
  obtain ⟨_, he⟩ := invEmpty_of_reach s h
  unfold InvEmpty at he
  refine ⟨?_, c⟩
  rw [hd] at he
  omega

/-- … and the other requesters hit by the same 401: invalidating a credential that is no longer
    the current one (somebody else already reported it, or it was replaced) touches nothing in the
    vault, blocks nobody and starts nothing, as long as some credential is available. -/
theorem stale_invalidation_is_noop (s : St) (r : Nat) (k : Key) (it : Item)
    (hr : s.reqs r = .invalidating k it) (hnc : isCurrent s.cur k it = false) (hne : s.cur ≠ []) :
    step s (.inval r) = some (setPc s r (.postYield k it)) := by
  have he : s.cur.isEmpty = false := by cases hc : s.cur <;> simp_all
  simp only [step, hr]
  unfold isCurrent at hnc
  cases hl : lookup k s.cur with
  | none => simp [invalMiss, he]
  | some c =>
    simp only [hl] at hnc
    have : ¬ c.id = it.id := by simpa using hnc
    simp [this, invalMiss, he]

/-- once an item has been removed by an invalidation it is never current again: every further
    invalidation of it is the no-op above -/
theorem removed_item_never_current (s : St) (h : Reach s) (k : Key) (it : Item)
    (hrem : it.id ∈ s.removed) : isCurrent s.cur k it = false := by
  obtain ⟨_, hi, _⟩ := inv_of_reach s h
  unfold isCurrent
  cases hl : lookup k s.cur with
  | none => rfl
  | some c => simpa using (hi.2.2.2.2.2 it.id hrem).2 k c hl

/-- (`_partial`: "fresh" is the F3 window — not equal to any of the last 3 credentials invalidated
    under that key with that priority; in F3's witnesses (b), (c) the blocked requester proceeds with
    the very value it was 401'd on. Guard of the path: the vault is ready and non-empty, i.e. the
    login delivered something.)
    After a re-authentication all blocked requests proceed with fresh credentials: in a reachable
    state whose vault is ready and non-empty, a requester blocked inside `invalidate` can run
    through `invalidate` → the post-yield check → a new selection, and what it gets is a current
    item — whichever top-priority one `select()` picks — that is not equal to any remembered
    invalid credential of that key. The vault itself is untouched by that. -/
theorem all_proceed_fresh_partial (s : St) (h : Reach s) (r : Nat) (k : Key) (it : Item)
    (hr : s.reqs r = .invalWaiting k it) (hready : s.ready = true) (hne : s.cur ≠ [])
    (k' : Key) (c : Item) (hl : lookup k' s.cur = some c) (htop : isTop s.cur c = true) :
    (∃ s', V.run s [.invalWake r, .post r, .acquire r k'] = some s' ∧ s'.reqs r = .using k' c ∧
       s'.cur = s.cur ∧ s'.ready = true) ∧
    (∀ j ∈ lastN historyBound (s.invAll k'), ¬ matches_ j c) := by
  obtain ⟨_, hi, hh⟩ := inv_of_reach s h
  have he : s.cur.isEmpty = false := by cases hc : s.cur <;> simp_all
  have hstale : isCurrent s.cur k it = false := hi.2.2.1 r k it (by rw [hr]; rfl)
  refine ⟨⟨setPc (setPc (setPc s r (.postYield k it)) r .acquiring) r (.using k' c), ?_, by simp [setPc], rfl, hready⟩, ?_⟩
  · simp [V.run, step, hr, hready, he, setPc, hstale, hl, htop]
  · intro j hj
    rw [← hh.2 k'] at hj
    exact hh.1 k' c hl j hj

/-- a non-empty vault always offers `select()` a top-priority item (so the hypothesis of
    `all_proceed_fresh` can be met) -/
theorem selectable (s : St) (h : Reach s) (hne : s.cur ≠ []) :
    ∃ k c, lookup k s.cur = some c ∧ isTop s.cur c = true :=
  exists_top s.cur (keysNodup_of_reach s h) hne

/-! ### "invalidated credentials are not reused"

  Full statement (FALSE of the code — finding F3, three witnesses below):
    Reach s → step s (.acquire r k) = some s' → s'.reqs r = .using k it →
      ∀ k0 j, j ∈ s.invAll k0 → j.info ≠ it.info
  i.e. a credential value that was invalidated (under whatever key, with whatever priority, however
  long ago) is never handed out again. The code remembers only `_invalid[key][-2:] + [item]` — the
  last `historyBound = 3` items PER KEY — and compares with dataclass `==` (value AND priority). The
  `_partial` theorem carries exactly that guard. -/

theorem invalid_not_reused_partial (s s' : St) (h : Reach s) (r : Nat) (k : Key) (it : Item)
    (hs : step s (.acquire r k) = some s') (hu : s'.reqs r = .using k it) :
    ∀ j ∈ lastN historyBound (s.invAll k), ¬ matches_ j it := by
  obtain ⟨_, _, hh⟩ := inv_of_reach s h
  simp only [step] at hs
  split at hs
  · rename_i it0 hreq hrdy hl
    split at hs
    · simp at hs; subst hs
      simp [setPc] at hu
      subst hu
      intro j hj
      rw [← hh.2 k] at hj
      exact hh.1 k it0 hl j hj
    · simp at hs
  · simp at hs

/-- … and a repeated invalid credential offered by the login handler is refused by `populate` -/
theorem invalid_refused_by_populate (s : St) (h : Reach s) (src : List (Key × Nat × Int))
    (k : Key) (it : Item) (hl : lookup k (populated s src).cur = some it) :
    ∀ j ∈ lastN historyBound (s.invAll k), ¬ matches_ j it := by
  obtain ⟨_, hi, hh⟩ := inv_of_reach s h
  have := invHist_populated s src hh hi
  intro j hj
  have hj' : j ∈ (populated s src).inv k := by
    simp only [populated]; rw [hh.2 k]; exact hj
  exact this.1 k it hl j hj'

/-- the negation of the full statement, as a property of one acquisition: a *new* selection
    (`step … (.acquire r k)`) hands out an item whose credential value equals that of a *different*,
    previously invalidated item -/
def Reserved (src : List (Key × Nat × Int)) (ls : List Label) (r : Nat) (k : Key) : Prop :=
  ∃ s s' it k0 j, V.run (init src) ls = some s ∧ step s (.acquire r k) = some s' ∧
    s'.reqs r = .using k it ∧ j ∈ s.invAll k0 ∧ j.info = it.info ∧ j.id ≠ it.id

private theorem reserved_of (src : List (Key × Nat × Int)) (ls : List Label) (r : Nat) (k k0 : Key)
    (it j : Item)
    (h1 : (V.run (init src) (ls ++ [.acquire r k])).map (fun s => s.reqs r) = some (.using k it))
    (h2 : ∃ l, (V.run (init src) ls).map (fun s => s.invAll k0) = some l ∧ j ∈ l)
    (hinfo : j.info = it.info) (hid : j.id ≠ it.id) : Reserved src ls r k := by
  obtain ⟨l, h2, hm⟩ := h2
  cases hs : V.run (init src) ls with
  | none => simp [hs] at h2
  | some s =>
    cases hs' : V.run (init src) (ls ++ [.acquire r k]) with
    | none => simp [hs'] at h1
    | some s' =>
      simp only [hs', Option.map_some, Option.some.injEq] at h1
      simp only [hs, Option.map_some, Option.some.injEq] at h2
      exact ⟨s, s', it, k0, j, hs, step_of_runs _ s s' ls _ hs hs', h1, by rw [h2]; exact hm, hinfo, hid⟩

private def round (r : Nat) (k : Key) (n : Nat) (p : Int) : List Label :=
  [.unauth r, .inval r, .authStart, .populate [(k, n, p)], .invalWake r, .post r]

/-- F3 (a): the history holds 3 items per key — the 4th-oldest invalidated credential of a key IS
    accepted by `populate` and served again (credentials 1, 2, 3, 4 invalidated in turn, then the
    login handler offers 1 again). -/
theorem invalid_reused_beyond_history_witness :
    Reserved [(0, 1, 0)]
      ([.start 0, .acquire 0 0] ++ round 0 0 2 0 ++ [.acquire 0 0] ++ round 0 0 3 0 ++ [.acquire 0 0] ++
        round 0 0 4 0 ++ [.acquire 0 0] ++ round 0 0 1 0) 0 0 :=
  reserved_of _ _ 0 0 0 ⟨4, 1, 0⟩ ⟨0, 1, 0⟩ (by decide)
    ⟨[⟨0, 1, 0⟩, ⟨1, 2, 0⟩, ⟨2, 3, 0⟩, ⟨3, 4, 0⟩], by decide, by simp⟩ rfl (by decide)

/-- F3 (b): the history is per vault key — the credential invalidated under key 0 is accepted and
    served when a login handler offers it under key 1 (two login handlers, same kubeconfig). -/
theorem invalid_reused_under_other_key_witness :
    Reserved [(0, 1, 0)]
      [.start 0, .acquire 0 0, .unauth 0, .inval 0, .authStart, .populate [(1, 1, 0)], .invalWake 0, .post 0]
      0 1 :=
  reserved_of _ _ 0 1 0 ⟨1, 1, 0⟩ ⟨0, 1, 0⟩ (by decide) ⟨[⟨0, 1, 0⟩], by decide, by simp⟩ rfl (by decide)

/-- F3 (c): the comparison includes the priority — the same credential value with another priority
    under the same key is accepted and served. -/
theorem invalid_reused_with_other_priority_witness :
    Reserved [(0, 1, 0)]
      [.start 0, .acquire 0 0, .unauth 0, .inval 0, .authStart, .populate [(0, 1, 5)], .invalWake 0, .post 0]
      0 0 :=
  reserved_of _ _ 0 0 0 ⟨1, 1, 5⟩ ⟨0, 1, 0⟩ (by decide) ⟨[⟨0, 1, 0⟩], by decide, by simp⟩ rfl (by decide)

/-- A 401 *triggers* a re-authentication and the blocked requests can be released: from every
    reachable state with `_ready = False` the authenticator's path to `populate` is enabled — whatever
    the requesters do — and after it the vault is ready again with exactly what `populate` accepted. -/
theorem reauth_possible (s : St) (hr : s.ready = false) (src : List (Key × Nat × Int)) :
    ∃ ls s', V.run s ls = some s' ∧ s'.ready = true ∧ s'.auth = .idle ∧
      s'.cur = (accept s.inv src s.cur s.nextId).1 ∧ s'.reqs = s.reqs := by
  cases ha : s.auth with
  | idle =>
    exact ⟨[.authStart, .populate src], populated { s with auth := .running, episodes := s.episodes + 1 } src,
      by simp [V.run, step, ha, hr], rfl, rfl, rfl, rfl⟩
  | running =>
    exact ⟨[.populate src], populated s src, by simp [V.run, step, ha], rfl, rfl, rfl, rfl⟩

/-- the "Reached an impossible state" RuntimeError of `authenticated` is indeed unreachable -/
theorem no_impossible_state (s : St) (h : Reach s) (r : Nat) : s.reqs r ≠ .done .impossible :=
  (inv_of_reach s h).2.1.2.2.2.1 r

-- non-vacuity: three requesters hit by the same 401, one re-authentication, all proceed
example :
    ((V.run (init [(7, 10, 0)])
      [.start 0, .start 1, .start 2, .acquire 0 7, .acquire 1 7, .acquire 2 7,
       .unauth 0, .inval 0, .authStart, .unauth 1, .inval 1, .unauth 2, .inval 2,
       .populate [(7, 11, 0)],
       .invalWake 2, .post 2, .acquire 2 7, .invalWake 0, .invalWake 1, .post 0, .post 1,
       .acquire 0 7, .acquire 1 7, .ok 0, .ok 1, .ok 2]).map
      (fun s => ((s.episodes, s.flips, s.removed), (s.reqs 0, s.reqs 1, s.reqs 2))))
    = some ((1, 1, [0]), (.done .ok, .done .ok, .done .ok)) := by decide
-- the login handler offers the same credential again: refused, the blocked request gets LoginError
example :
    ((V.run (init [(7, 10, 0)])
      [.start 0, .acquire 0 7, .unauth 0, .inval 0, .authStart, .populate [(7, 10, 0)], .invalWake 0]).map
      (fun s => (s.cur.length, s.reqs 0, s.ready)))
    = some (0, .done .loginError, true) := by decide
-- a late 401 on the replaced credential: the stale invalidation is a no-op
example :
    ((V.run (init [(7, 10, 0)])
      [.start 0, .start 1, .acquire 0 7, .acquire 1 7, .unauth 0, .inval 0, .authStart,
       .populate [(7, 11, 0)], .unauth 1, .inval 1]).map
      (fun s => (s.episodes, s.flips, s.ready, s.reqs 1)))
    = some (1, 1, true, .postYield 7 ⟨0, 10, 0⟩) := by decide

end Vault

end Kopf.C12
