/-
  C12 — property theorems only (request loop, throttler, vault LTS).
  Infrastructure errors are retried, then contained per object, never fatal.
-/
import Kopf.Lemmas.C12_Request
namespace Kopf.C12

/-! ## The retry loop of `api.request` — for every fault script, every backoff stream -/

/-- attempts ≤ len(backoffs) + 1, for every finite backoff list and every script.
    (general form: starting at backoff index `i`) -/
theorem attempts_bound_from (l : List Int) (enforce : Bool) (script : List Att) (i : Nat) (t : Int) :
    (run (ofList l) enforce script i t).times.length ≤ (l.length - i) + 1 := by
  induction script generalizing i t with
  | nil => simp [run]
  | cons a rest ih =>
    rw [run_cons]
    cases verdict a.fault with
    | success => simp
    | raise c => simp
    | retry c ra =>
      cases hb : ofList l i with
      | none => simp
      | some b =>
        have hi : i < l.length := by
          unfold ofList at hb
          exact (List.getElem?_eq_some_iff.mp hb).1
        have := ih (i + 1) (t + a.lat + slept (effDelay enforce ra b))
        simp only [List.length_cons]
        omega

theorem attempts_bound (l : List Int) (enforce : Bool) (script : List Att) (t : Int) :
    (request (ofList l) enforce script t).times.length ≤ l.length + 1 := by
  have := attempts_bound_from l enforce script 0 t
  simpa [request] using this

/-- a scalar configuration allows exactly one retry; an empty one none -/
theorem attempts_bound_scalar (b : Int) (enforce : Bool) (script : List Att) (t : Int) :
    (request (ofScalar b) enforce script t).times.length ≤ 2 :=
  attempts_bound [b] enforce script t

theorem attempts_bound_empty (enforce : Bool) (script : List Att) (t : Int) :
    (request (ofList []) enforce script t).times.length ≤ 1 :=
  attempts_bound [] enforce script t

/-- Between the end of attempt `j` (its start + its latency) and the start of attempt `j+1` the
    loop waited at least the `j`-th configured backoff — for every backoff stream (finite or not),
    every script, whenever a next attempt exists. Hypothesis: `enforce_retry_after` is off (with it
    on, a 429's Retry-After *replaces* the backoff, as documented). -/
theorem gap_ge_backoff_from (bo : Backoffs) (script : List Att) (i : Nat) (t : Int)
    (j : Nat) (tj tj' : Int) (a : Att)
    (h0 : (run bo false script i t).times[j]? = some tj)
    (h1 : (run bo false script i t).times[j + 1]? = some tj')
    (ha : script[j]? = some a) :
    ∃ b, bo (i + j) = some b ∧ b ≤ tj' - (tj + a.lat) := by
  induction script generalizing i t j with
  | nil => simp at ha
  | cons a0 rest ih =>
    rw [run_cons] at h0 h1
    cases hv : verdict a0.fault with
    | success => simp [hv] at h1
    | raise c => simp [hv] at h1
    | retry c ra =>
      cases hb : bo i with
      | none => simp [hv, hb] at h1
      | some b =>
        simp only [hv, hb] at h0 h1
        cases j with
        | zero =>
          simp at ha h0 h1
          obtain ⟨tl, htl⟩ := run_times_head bo false rest (i + 1) (t + a0.lat + slept (effDelay false ra b))
          rw [htl] at h1
          simp at h1
          refine ⟨b, by simpa using hb, ?_⟩
          subst ha h0
          have := slept_ge (effDelay false ra b)
          have := effDelay_ge_backoff ra b
          omega
        | succ j =>
          simp only [List.getElem?_cons_succ] at h0 h1 ha
          obtain ⟨b', hb', hle⟩ := ih (i + 1) _ j h0 h1 ha
          exact ⟨b', by rw [← hb']; congr 1; omega, hle⟩

theorem gap_ge_backoff (bo : Backoffs) (script : List Att) (t : Int) (j : Nat) (tj tj' : Int) (a : Att)
    (h0 : (request bo false script t).times[j]? = some tj)
    (h1 : (request bo false script t).times[j + 1]? = some tj')
    (ha : script[j]? = some a) :
    ∃ b, bo j = some b ∧ b ≤ tj' - (tj + a.lat) := by
  have := gap_ge_backoff_from bo script 0 t j tj tj' a h0 h1 ha
  simpa using this

end Kopf.C12
