/-
  C15 — "invoked", not only "selected": the link to C02.

  C15's own theorems (Kopf/Props/C15.lean) are about what `get_handlers(cause)` *selects*. Which of
  the selected handlers are *invoked* in a given pass is C02's subject (recorded progress: awake,
  not finished, lifecycle, retries/timeout pre-checks): C02's `Cfg.selected` is exactly
  `get_handlers(cause)` and `Cfg.owned` is `get_resource_handlers(resource)`. This file instantiates
  C02's configuration from a C15 registry and cause, discharges C02's side condition
  `selected ⊆ owned` from the C15 model, and composes `C02.invoked_selected_awake` with
  `selected_sound` / `match_eq_doc_*`:

    * `invoked_sound`     — every handler invoked in the pass is registered, passes the cause-kind
                             gate and satisfies all its declared criteria (`matchHandler`), and is
                             not asleep;
    * `invoked_doc`       — … hence, for update handlers and under the guards of
                             `match_eq_doc_partial`, its documented criteria (`DocSpec`) hold;
    * `unmatched_never_invoked` — a handler id none of whose registrations qualifies is not invoked.

    * `matching_due_invoked` / `matching_invoked_fresh` — the converse ("exactly", ⊇ direction) for the
                             changing registry under the all-at-once lifecycle, composing
                             `C02.due_invoked_all_at_once`: a handler that passes gate ∧ match, is not a
                             resuming handler already finished in this process (/repo 6c4463d) and is
                             still due (awake, within retries/timeout) IS invoked in this pass; for a
                             fresh object every such handler is invoked with retry 0.

  The split, stated: a matching handler that already succeeded, sleeps until its retry time, or
  waits for its turn under a one-by-one/asap lifecycle is selected and not invoked in this pass;
  when and how often a selected handler runs is C02 (`no_rerun`, `once_per_cycle`,
  `closed_iff_all_finished`) and C03 (convergence). "Invoked = selected" for on.event / daemon /
  timer / index handlers has no theorem (the cycle tie observes it on the real code). The statements
  are id-level (`C02.Id`): with two functions registered under one id they do not say which one ran.
  This module is kept apart from Props/C15.lean so that it alone depends on C02.
-/
import Kopf.Props.C15
import Kopf.Props.C02
namespace Kopf.C15

variable {V : Type} [PyVal V]

/-- `cause.reason.value` -/
def reasonName : C05.Reason → String
  | .create => "create" | .update => "update" | .delete => "delete" | .resume => "resume"
  | .noop => "noop" | .free => "free" | .gone => "gone"

/-- the configuration of the pass `process_changing_cause` runs for registry `hs` and cause `c`:
    `owned = get_resource_handlers(resource)` (all handlers of the resource, deduplicated),
    `selected = get_handlers(cause)`; limits and lifecycle are C02's parameters. -/
def c02Cfg (hs : List (Handler V)) (c : Cause V) (limits : C02.Id → C02.Limits)
    (lifecycle : C02.Lifecycle) (resumed : List String := []) : C02.Cfg :=
  { owned := ids (dedup (hs.filter matchesResource)),
    selected := ids (causeHandlers hs c resumed),
    limits := limits, reason := reasonName c.kind.reason, lifecycle := lifecycle }

/-- membership in `cause_handlers` -/
theorem mem_causeHandlers (hs : List (Handler V)) (c : Cause V) (resumed : List String) (h : Handler V) :
    h ∈ causeHandlers hs c resumed ↔
      h ∈ getHandlersChanging hs c [] ∧ ¬(h.kind.initial = true ∧ h.id ∈ resumed) := by
  simp only [causeHandlers, resumedKeepCore, List.mem_filter, Bool.not_eq_true', Bool.and_eq_false_iff,
    List.contains_eq_mem, decide_eq_false_iff_not, and_congr_right_iff]
  intro _
  cases h.kind.initial <;> simp

/-- THE WHOLE CYCLE, change handlers, soundness (unguarded; every variant, object state, event type): a
    handler id the cycle passes to the handling belongs to a registered handler that passes the cause-kind
    gate and ALL of `match`, for a cause that has handlers, and is not a resuming handler finished here -/
theorem cycle_handle_sound (v : Repairs) (r : Registry V) (cs : Causes V) (o : Obj) (stopped : List String)
    (is : List String) (hh : Effect.handle is ∈ cycleAt v r cs o stopped) (i : String) (hi : i ∈ is) :
    C05.handlerReasons.contains cs.changing.kind.reason = true ∧
    ∃ h ∈ r.changing, h.id = i ∧ gate h cs.changing = true ∧ matchHandler h cs.changing = true ∧
      ¬(h.kind.initial = true ∧ h.id ∈ o.resumed) := by
  have hx := cycle_handle_exact v r cs o stopped is hh
  cases hr : C05.handlerReasons.contains cs.changing.kind.reason with
  | false =>
    rw [hx, hr] at hi
    simp at hi
  | true =>
    rw [hx, hr] at hi
    simp only [if_true, ids, List.mem_map] at hi
    obtain ⟨h, hm, rfl⟩ := hi
    obtain ⟨hg, hk⟩ := (mem_causeHandlers _ _ _ h).1 hm
    obtain ⟨h1, _, h3, h4⟩ := (selected_sound r.changing cs.changing [] h).1 hg
    exact ⟨rfl, h, h1, rfl, h3, h4, hk⟩

/-- … and completeness, in a process in which no resuming handler has finished for the object yet: every
    registered handler that passes the gate and `match` has its id passed to the handling -/
theorem cycle_handle_complete (v : Repairs) (r : Registry V) (cs : Causes V) (o : Obj) (stopped : List String)
    (is : List String) (hh : Effect.handle is ∈ cycleAt v r cs o stopped) (hres : o.resumed = [])
    (hr : C05.handlerReasons.contains cs.changing.kind.reason = true)
    (h : Handler V) (hm : h ∈ r.changing) (hg : gate h cs.changing = true) (hmt : matchHandler h cs.changing = true) :
    h.id ∈ is := by
  rw [cycle_handle_exact v r cs o stopped is hh]
  simp only [hr, if_true, ids, List.mem_map]
  obtain ⟨h', hm', hk⟩ := ((selected_iff r.changing cs.changing [] h.key).1).2 ⟨h, hm, rfl, by simp, hg, hmt⟩
  refine ⟨h', (mem_causeHandlers _ _ _ h').2 ⟨hm', by simp [hres]⟩, ?_⟩
  simpa [Handler.key] using congrArg Prod.snd hk

/-- C02's side condition, from the C15 model: what a cause selects is owned by the resource
    (a lemma, not a property statement) -/
theorem selected_sub_owned (hs : List (Handler V)) (c : Cause V) (limits : C02.Id → C02.Limits)
    (lc : C02.Lifecycle) (resumed : List String) :
    ∀ i ∈ (c02Cfg hs c limits lc resumed).selected, i ∈ (c02Cfg hs c limits lc resumed).owned := by
  intro i hi
  simp only [c02Cfg, ids, List.mem_map] at hi ⊢
  obtain ⟨h, hh, rfl⟩ := hi
  obtain ⟨hmem, _, _, hm⟩ := (selected_sound hs c [] h).1 ((mem_causeHandlers hs c resumed h).1 hh).1
  have hres : matchesResource h = true := by
    simp only [matchHandler, matchCore, matchAtoms, Bool.and_eq_true] at hm
    exact hm.1.1.1.1.1.1
  have hk : h.key ∈ (hs.filter matchesResource).map Handler.key :=
    List.mem_map.2 ⟨h, List.mem_filter.2 ⟨hmem, hres⟩, rfl⟩
  obtain ⟨h', hh', hkey⟩ := List.mem_map.1 ((dedup_ids_same _ _).2 hk)
  exact ⟨h', hh', congrArg Prod.snd hkey⟩

/-- every handler invoked in the pass satisfies its declared criteria, is awake, and is not a
    resuming handler that already finished for this object in this process -/
theorem invoked_sound (hs : List (Handler V)) (c : Cause V) (limits : C02.Id → C02.Limits)
    (lc : C02.Lifecycle) (resumed : List String) (P : C02.Store) (now now1 : C02.Tick)
    (exec : C02.Id → Nat → C02.Outcome) (i : C02.Id) (n : Nat)
    (hinv : (i, n) ∈ (C02.cycle (c02Cfg hs c limits lc resumed) P now now1 exec).invoked) :
    (∃ h ∈ hs, h.id = i ∧ gate h c = true ∧ matchHandler h c = true ∧
      ¬(h.kind.initial = true ∧ h.id ∈ resumed)) ∧
    (∀ r d, P i = some r → r.delayed = some d → d ≤ now) := by
  obtain ⟨hsel, hawake⟩ := C02.invoked_selected_awake (c02Cfg hs c limits lc resumed) P now now1 exec
    (selected_sub_owned hs c limits lc resumed) i n hinv
  refine ⟨?_, hawake⟩
  simp only [c02Cfg, ids, List.mem_map] at hsel
  obtain ⟨h, hh, rfl⟩ := hsel
  obtain ⟨hg', hkeep⟩ := (mem_causeHandlers hs c resumed h).1 hh
  obtain ⟨hmem, _, hg, hm⟩ := (selected_sound hs c [] h).1 hg'
  exact ⟨h, hmem, rfl, hg, hm, hkeep⟩

/-- … hence its documented criteria hold — under the guards of `match_eq_doc_partial` (findings
    C15-F1/F2) for every registered handler -/
theorem invoked_doc_partial [PyLaw V] (hs : List (Handler V)) (c : Cause V) (limits : C02.Id → C02.Limits)
    (lc : C02.Lifecycle) (resumed : List String) (P : C02.Store) (now now1 : C02.Tick)
    (exec : C02.Id → Nat → C02.Outcome) (i : C02.Id) (n : Nat)
    (hguards : ∀ h ∈ hs, TokenFree h c ∧ OldOnlyFree h c)
    (hinv : (i, n) ∈ (C02.cycle (c02Cfg hs c limits lc resumed) P now now1 exec).invoked) :
    ∃ h ∈ hs, h.id = i ∧ gate h c = true ∧ DocSpec h c := by
  obtain ⟨⟨h, hmem, hid, hg, hm, _⟩, _⟩ := invoked_sound hs c limits lc resumed P now now1 exec i n hinv
  obtain ⟨g1, g2⟩ := hguards h hmem
  exact ⟨h, hmem, hid, hg, (match_eq_doc_partial h c g1 g2).1 hm⟩

/-- a handler id none of whose registrations passes gate ∧ match is not invoked, whatever the
    recorded progress, the lifecycle and the outcomes are -/
theorem unmatched_never_invoked (hs : List (Handler V)) (c : Cause V) (limits : C02.Id → C02.Limits)
    (lc : C02.Lifecycle) (resumed : List String) (P : C02.Store) (now now1 : C02.Tick)
    (exec : C02.Id → Nat → C02.Outcome)
    (i : C02.Id) (hno : ∀ h ∈ hs, h.id = i → (gate h c && matchHandler h c) = false) (n : Nat) :
    (i, n) ∉ (C02.cycle (c02Cfg hs c limits lc resumed) P now now1 exec).invoked := by
  intro hinv
  obtain ⟨⟨h, hmem, hid, hg, hm, _⟩, _⟩ := invoked_sound hs c limits lc resumed P now now1 exec i n hinv
  have := hno h hmem hid
  simp [hg, hm] at this

/-- the id of a qualifying registration is among the pass's `cause_handlers` -/
theorem qualifying_selected (hs : List (Handler V)) (c : Cause V) (limits : C02.Id → C02.Limits)
    (lc : C02.Lifecycle) (resumed : List String) (h : Handler V) (hmem : h ∈ hs)
    (hg : gate h c = true) (hm : matchHandler h c = true) (hres : h.id ∉ resumed) :
    h.id ∈ (c02Cfg hs c limits lc resumed).selected := by
  obtain ⟨h', hh', hk⟩ := ((selected_iff hs c [] h.key).1).2 ⟨h, hmem, rfl, by simp, hg, hm⟩
  have hid : h'.id = h.id := congrArg Prod.snd hk
  simp only [c02Cfg, ids, List.mem_map]
  exact ⟨h', (mem_causeHandlers hs c resumed h').2 ⟨hh', fun x => hres (hid ▸ x.2)⟩, hid⟩

/-- THE CONVERSE (all-at-once lifecycle): a registered handler that passes the cause-kind gate and
    all its declared criteria, whose id is not among the resuming handlers already finished here,
    and that is still due (not finished, not sleeping, within its retries/timeout) IS invoked in this
    pass, with `retry` = its recorded attempts -/
theorem matching_due_invoked (hs : List (Handler V)) (c : Cause V) (limits : C02.Id → C02.Limits)
    (resumed : List String) (P : C02.Store) (now now1 : C02.Tick) (exec : C02.Id → Nat → C02.Outcome)
    (hr : C02.handlerReasons.contains (reasonName c.kind.reason) = true)
    (h : Handler V) (hmem : h ∈ hs) (hg : gate h c = true) (hm : matchHandler h c = true)
    (hres : h.id ∉ resumed)
    (haw : (C02.startRec (c02Cfg hs c limits .allAtOnce resumed) P now
      (C02.extras (c02Cfg hs c limits .allAtOnce resumed) P now) h.id).awakened now = true)
    (hpre : C02.precheckFails (limits h.id) (C02.startRec (c02Cfg hs c limits .allAtOnce resumed) P now
      (C02.extras (c02Cfg hs c limits .allAtOnce resumed) P now) h.id) now = false) :
    (h.id, match P h.id with | some r => r.retries | none => 0) ∈
      (C02.cycle (c02Cfg hs c limits .allAtOnce resumed) P now now1 exec).invoked := by
  have hsel := qualifying_selected hs c limits .allAtOnce resumed h hmem hg hm hres
  exact C02.due_invoked_all_at_once (c02Cfg hs c limits .allAtOnce resumed) P now now1 exec hr rfl h.id hsel
    (selected_sub_owned hs c limits .allAtOnce resumed h.id hsel) haw hpre

/-- … in particular on a fresh object (no progress records, no limits): every handler whose gate and
    criteria hold is invoked, with retry 0 — together with `invoked_sound`: invoked = matching -/
theorem matching_invoked_fresh (hs : List (Handler V)) (c : Cause V) (now now1 : C02.Tick)
    (exec : C02.Id → Nat → C02.Outcome)
    (hr : C02.handlerReasons.contains (reasonName c.kind.reason) = true)
    (h : Handler V) (hmem : h ∈ hs) (hg : gate h c = true) (hm : matchHandler h c = true) :
    (h.id, 0) ∈ (C02.cycle (c02Cfg hs c (fun _ => ⟨none, none⟩) .allAtOnce []) (fun _ => none) now now1 exec).invoked := by
  have := matching_due_invoked hs c (fun _ => ⟨none, none⟩) [] (fun _ => none) now now1 exec hr h hmem hg hm
    (by simp)
    (by simp [C02.startRec, C02.fresh, C02.Rec.awakened, C02.Rec.finished, C02.Rec.sleeping])
    (by simp [C02.precheckFails])
  simpa using this

/-- sub-handlers (finding C15-F8, repaired by /repo 17e5c42): in the pass over a sub-registry -- of a
    deletion handler too, on an object marked for deletion -- a sub-handler (`field_needs_change` falsy)
    whose declared criteria hold IS invoked (fresh object, all-at-once): no cause-kind condition at all -/
theorem subhandler_matching_invoked_fresh (hs : List (Handler V)) (c : Cause V) (now now1 : C02.Tick)
    (exec : C02.Id → Nat → C02.Outcome)
    (hr : C02.handlerReasons.contains (reasonName c.kind.reason) = true)
    (h : Handler V) (hmem : h ∈ hs) (hsub : IsSubHandler h) (hnf : h.fieldNeedsChange = false)
    (hm : matchHandler h c = true) :
    (h.id, 0) ∈ (C02.cycle (c02Cfg hs c (fun _ => ⟨none, none⟩) .allAtOnce []) (fun _ => none) now now1 exec).invoked :=
  matching_invoked_fresh hs c now now1 exec hr h hmem (by rw [subhandler_gate h c hsub, hnf]; rfl) hm

-- non-vacuity: the two sub-handlers of a deletion handler on a marked, labelled object are both invoked
example :
    let ex : C02.Id → Nat → C02.Outcome := fun _ _ => { final := true, delay := none, error := false, subrefs := [] }
    (C02.cycle (c02Cfg [wSub 1 "del/a", wSub 2 "del/b" false (some [("lk", .present)])] (wDel (some "v"))
        (fun _ => ⟨none, none⟩) .allAtOnce) (fun _ => none) 0 1 ex).invoked = [("del/a", 0), ("del/b", 0)] := by decide

-- non-vacuity: an `on.create(labels={'lk': PRESENT})` handler on a fresh labelled object is invoked
-- (retry 0), so the hypothesis of `invoked_sound` is met by a concrete pass; without the label the
-- same pass invokes nothing
example :
    let h : Handler J := { wH true .unset false .unset .unset (some [("lk", .present)]) with
                           field := none, kind := { reason := some .create, initial := false, deletedOptIn := false } }
    let ex : C02.Id → Nat → C02.Outcome := fun _ _ => { final := true, delay := none, error := false, subrefs := [] }
    (C02.cycle (c02Cfg [h] (wC true none none none (some "v")) (fun _ => ⟨none, none⟩) .allAtOnce)
        (fun _ => none) 0 1 ex).invoked = [("h", 0)] ∧
    (C02.cycle (c02Cfg [h] (wC true none none none none) (fun _ => ⟨none, none⟩) .allAtOnce)
        (fun _ => none) 0 1 ex).invoked = [] := by decide

end Kopf.C15
