/-
  C15 — "invoked", not only "selected": the link to C02.

  C15's own theorems (Kopf/Props/C15.lean) are about what `get_handlers(cause)` *selects*. Which of
  the selected handlers are *invoked* in a given pass is C02's subject (recorded progress: awake,
  not finished, lifecycle, retries/timeout pre-checks): C02's `Cfg.selected` is exactly
  `get_handlers(cause)` and `Cfg.owned` is `get_resource_handlers(resource)`. This file instantiates
  C02's configuration from a C15 registry and cause, discharges C02's side condition
  `selected ⊆ owned` from the C15 model, and composes `C02.invoked_selected_awake` with
  `selected_sound` / `match_eq_doc_*`:

    * `invoked_sound`     — every handler invoked in the pass is registered, passes the cause-kind
                             gate and satisfies all its declared criteria (`matchHandler`), and is
                             not asleep;
    * `invoked_doc`       — … hence, for update handlers and under the guards of
                             `match_eq_doc_partial`, its documented criteria (`DocSpec`) hold;
    * `unmatched_never_invoked` — a handler id none of whose registrations qualifies is not invoked.

  The split, stated: the converse ("every handler whose criteria hold IS invoked") is not a C15
  fact — a matching handler that already succeeded, sleeps until its retry time, or waits for its
  turn under a one-by-one lifecycle is selected and not invoked in this pass; when and how often a
  selected handler runs is C02 (`no_rerun`, `once_per_cycle`, `closed_iff_all_finished`) and C03
  (convergence). This module is kept apart from Props/C15.lean so that it alone depends on C02.
-/
import Kopf.Props.C15
import Kopf.Props.C02
namespace Kopf.C15

variable {V : Type} [PyVal V]

/-- `cause.reason.value` -/
def reasonName : C05.Reason → String
  | .create => "create" | .update => "update" | .delete => "delete" | .resume => "resume"
  | .noop => "noop" | .free => "free" | .gone => "gone"

/-- the configuration of the pass `process_changing_cause` runs for registry `hs` and cause `c`:
    `owned = get_resource_handlers(resource)` (all handlers of the resource, deduplicated),
    `selected = get_handlers(cause)`; limits and lifecycle are C02's parameters. -/
def c02Cfg (hs : List (Handler V)) (c : Cause V) (limits : C02.Id → C02.Limits)
    (lifecycle : C02.Lifecycle) : C02.Cfg :=
  { owned := ids (dedup (hs.filter matchesResource)),
    selected := ids (getHandlersChanging hs c []),
    limits := limits, reason := reasonName c.kind.reason, lifecycle := lifecycle }

/-- C02's side condition, from the C15 model: what a cause selects is owned by the resource -/
theorem selected_sub_owned (hs : List (Handler V)) (c : Cause V) (limits : C02.Id → C02.Limits)
    (lc : C02.Lifecycle) : ∀ i ∈ (c02Cfg hs c limits lc).selected, i ∈ (c02Cfg hs c limits lc).owned := by
  intro i hi
  simp only [c02Cfg, ids, List.mem_map] at hi ⊢
  obtain ⟨h, hh, rfl⟩ := hi
  obtain ⟨hmem, _, _, hm⟩ := (selected_sound hs c [] h).1 hh
  have hres : matchesResource h = true := by
    simp only [matchHandler, matchCore, matchAtoms, Bool.and_eq_true] at hm
    exact hm.1.1.1.1.1.1
  have hk : h.key ∈ (hs.filter matchesResource).map Handler.key :=
    List.mem_map.2 ⟨h, List.mem_filter.2 ⟨hmem, hres⟩, rfl⟩
  obtain ⟨h', hh', hkey⟩ := List.mem_map.1 ((dedup_ids_same _ _).2 hk)
  exact ⟨h', hh', congrArg Prod.snd hkey⟩

/-- every handler invoked in the pass satisfies its declared criteria, and is awake -/
theorem invoked_sound (hs : List (Handler V)) (c : Cause V) (limits : C02.Id → C02.Limits)
    (lc : C02.Lifecycle) (P : C02.Store) (now now1 : C02.Tick) (exec : C02.Id → Nat → C02.Outcome)
    (i : C02.Id) (n : Nat)
    (hinv : (i, n) ∈ (C02.cycle (c02Cfg hs c limits lc) P now now1 exec).invoked) :
    (∃ h ∈ hs, h.id = i ∧ gate h c = true ∧ matchHandler h c = true) ∧
    (∀ r d, P i = some r → r.delayed = some d → d ≤ now) := by
  obtain ⟨hsel, hawake⟩ := C02.invoked_selected_awake (c02Cfg hs c limits lc) P now now1 exec
    (selected_sub_owned hs c limits lc) i n hinv
  refine ⟨?_, hawake⟩
  simp only [c02Cfg, ids, List.mem_map] at hsel
  obtain ⟨h, hh, rfl⟩ := hsel
  obtain ⟨hmem, _, hg, hm⟩ := (selected_sound hs c [] h).1 hh
  exact ⟨h, hmem, rfl, hg, hm⟩

/-- … hence its documented criteria hold (under the guards of `match_eq_doc_partial`, which are
    void for update handlers except the two callback/token ones) -/
theorem invoked_doc (hs : List (Handler V)) (c : Cause V) (limits : C02.Id → C02.Limits)
    (lc : C02.Lifecycle) (P : C02.Store) (now now1 : C02.Tick) (exec : C02.Id → Nat → C02.Outcome)
    (i : C02.Id) (n : Nat)
    (hguards : ∀ h ∈ hs, TokenBlind h ∧ NoTokenLit h ∧ OldOnlyFree h c)
    (hinv : (i, n) ∈ (C02.cycle (c02Cfg hs c limits lc) P now now1 exec).invoked) :
    ∃ h ∈ hs, h.id = i ∧ gate h c = true ∧ DocSpec h c := by
  obtain ⟨⟨h, hmem, hid, hg, hm⟩, _⟩ := invoked_sound hs c limits lc P now now1 exec i n hinv
  obtain ⟨g1, g2, g3⟩ := hguards h hmem
  exact ⟨h, hmem, hid, hg, (match_eq_doc_partial h c g1 g2 g3).1 hm⟩

/-- a handler id none of whose registrations passes gate ∧ match is not invoked, whatever the
    recorded progress, the lifecycle and the outcomes are -/
theorem unmatched_never_invoked (hs : List (Handler V)) (c : Cause V) (limits : C02.Id → C02.Limits)
    (lc : C02.Lifecycle) (P : C02.Store) (now now1 : C02.Tick) (exec : C02.Id → Nat → C02.Outcome)
    (i : C02.Id) (hno : ∀ h ∈ hs, h.id = i → (gate h c && matchHandler h c) = false) (n : Nat) :
    (i, n) ∉ (C02.cycle (c02Cfg hs c limits lc) P now now1 exec).invoked := by
  intro hinv
  obtain ⟨⟨h, hmem, hid, hg, hm⟩, _⟩ := invoked_sound hs c limits lc P now now1 exec i n hinv
  have := hno h hmem hid
  simp [hg, hm] at this

-- non-vacuity: an `on.create(labels={'lk': PRESENT})` handler on a fresh labelled object is invoked
-- (retry 0), so the hypothesis of `invoked_sound` is met by a concrete pass; without the label the
-- same pass invokes nothing
example :
    let h : Handler J := { wH true .unset false .unset .unset (some [("lk", .present)]) with
                           field := none, kind := ⟨some .create, false, false⟩ }
    let ex : C02.Id → Nat → C02.Outcome := fun _ _ => { final := true, delay := none, error := false, subrefs := [] }
    (C02.cycle (c02Cfg [h] (wC true none none none (some "v")) (fun _ => ⟨none, none⟩) .allAtOnce)
        (fun _ => none) 0 1 ex).invoked = [("h", 0)] ∧
    (C02.cycle (c02Cfg [h] (wC true none none none none) (fun _ => ⟨none, none⟩) .allAtOnce)
        (fun _ => none) 0 1 ex).invoked = [] := by decide

end Kopf.C15
