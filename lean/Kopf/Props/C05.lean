/-
  C05 — property theorems only. Each event maps to exactly one cause; handler kinds are exclusive.
-/
import Kopf.Model.C05_Cause
namespace Kopf.C05

/-- The property's precedence list, written declaratively (no if-chain). -/
def Spec : Reason → In → Prop
  | .gone,   i => i.deleted = true
  | .free,   i => i.deleted = false ∧ i.marked = true ∧ i.blocked = false
  | .delete, i => i.deleted = false ∧ i.marked = true ∧ i.blocked = true
  | .create, i => i.deleted = false ∧ i.marked = false ∧ i.oldAbsent = true
  | .resume, i => i.deleted = false ∧ i.marked = false ∧ i.oldAbsent = false ∧
                  i.diffNonEmpty = false ∧ i.initial = true
  | .noop,   i => i.deleted = false ∧ i.marked = false ∧ i.oldAbsent = false ∧
                  i.diffNonEmpty = false ∧ i.initial = false
  | .update, i => i.deleted = false ∧ i.marked = false ∧ i.oldAbsent = false ∧
                  i.diffNonEmpty = true

theorem detect_spec (i : In) (r : Reason) : detectReason i = r ↔ Spec r i := by
  rcases i with ⟨d, m, b, o, df, ini⟩
  cases d <;> cases m <;> cases b <;> cases o <;> cases df <;> cases ini <;> cases r <;>
    simp [detectReason, Spec]

/-- exactly one cause per event -/
theorem exactly_one (i : In) : ∃ r, Spec r i ∧ ∀ r', Spec r' i → r' = r := by
  refine ⟨detectReason i, (detect_spec i _).1 rfl, ?_⟩
  intro r' h
  exact ((detect_spec i r').2 h).symm

/-- Creation/update handlers are never invoked on an object marked for deletion. -/
theorem no_create_update_on_marked (h : Shape) (i : In)
    (hk : h.reason = some .create ∨ h.reason = some .update)
    (hinv : invocableS h i = true) : i.marked = false := by
  rcases i with ⟨d, m, b, o, df, ini⟩
  rcases h with ⟨hr, hi, hd, hn⟩
  cases d <;> cases m <;> cases b <;> cases o <;> cases df <;> cases ini <;>
    rcases hk with hk | hk <;> simp_all [invocableS, detect, detectReason, gateS, handlerReasons]

/-- … nor are `@kopf.on.field` handlers, which carry no cause kind of their own (`reason=None`, not
    resuming, `field_needs_change=True`) and are "effective only when the object is updated"
    (docs/handlers.rst): since /repo 345a874 the gateS keeps them off the objects marked for deletion
    (before, a field changed shortly before the deletion request made them run in the deletion cause). -/
theorem no_field_on_marked (h : Shape) (i : In) (hk : h.reason = none) (hni : h.initial = false)
    (hnc : h.needsChange = true) (hinv : invocableS h i = true) : i.marked = false := by
  rcases i with ⟨d, m, b, o, df, ini⟩
  rcases h with ⟨hr, hi, hd, hn⟩
  cases d <;> cases m <;> cases b <;> cases o <;> cases df <;> cases ini <;>
    simp_all [invocableS, detect, detectReason, gateS, handlerReasons]

/-- A handler without a cause kind (field, resuming, or a sub-handler) runs in handled causes only
    (create/update/delete/resume): never for gone/released/no-op events; on a marked object only in the
    deletion cause, i.e. while the framework's finalizer still holds the object — and then it is a resuming
    handler or one that needs no change of a field (a sub-handler), never a field handler. -/
theorem kindless_only_in_handled_causes (h : Shape) (i : In) (hk : h.reason = none)
    (hinv : invocableS h i = true) :
    (detect i).reason ∈ handlerReasons ∧
      (i.marked = true → (detect i).reason = .delete ∧ i.blocked = true ∧
        (h.initial = true ∨ h.needsChange = false)) := by
  rcases i with ⟨d, m, b, o, df, ini⟩
  rcases h with ⟨hr, hi, hd, hn⟩
  cases hi <;> cases hd <;> cases hn <;> cases d <;> cases m <;> cases b <;> cases o <;> cases df <;>
    cases ini <;> simp_all [invocableS, detect, detectReason, gateS, handlerReasons]

-- regression of the repaired behaviour: the former witness (a field handler in a deletion cause) is rejected
example : invocableS ⟨none, false, false, true⟩ ⟨false, true, true, false, true, false⟩ = false := by decide
-- … while the same handler still runs for an update of an unmarked object
example : invocableS ⟨none, false, false, true⟩ ⟨false, false, true, false, true, false⟩ = true := by decide

/-! ### The top-level view used by the C14/C03 models is the same gate -/

/-- `gate` (top-level handlers: reason-less and not resuming = on.field) is `gateS` on the handler's shape. -/
theorem gate_eq_shape (h : Handler) (c : Cause) : gate h c = gateS h.shape c := by
  rcases h with ⟨hr, hi, hd⟩
  rcases c with ⟨cr, ci, cm⟩
  cases hr <;> cases hi <;> cases cm <;> simp [gate, gateS, Handler.shape]

theorem invocable_eq_shape (h : Handler) (i : In) : invocable h i = invocableS h.shape i := by
  simp [invocable, invocableS, gate_eq_shape]

/-- the shapes of top-level handlers are well-formed -/
theorem shape_wellFormed (h : Handler) : wellFormed h.shape = true := by
  rcases h with ⟨hr, hi, hd⟩
  cases hr <;> cases hi <;> simp [wellFormed, Handler.shape]

/-! ### Sub-handlers are of the kind of their parent (/repo 17e5c42) -/

/-- A sub-handler-shaped handler (no cause kind, not resuming, no change of a field needed: what
    `kopf.execute(fns=…)` builds, and what `@kopf.subhandler`/`kopf.register` build under every parent but
    on.update/on.field) passes the gateS for EVERY cause — marked or not: it is selected iff its own
    filters match (`Tie.sub_gate_is_match` says the same of the extracted code). -/
theorem sub_of_delete_selected (h : Shape) (c : Cause) (hk : h.reason = none)
    (hni : h.initial = false) (hnc : h.needsChange = false) : gateS h c = true := by
  rcases h with ⟨hr, hi, hd, hn⟩
  simp_all [gateS]

/-- Whenever a (constructible) parent handler is invoked, each of its sub-handlers — inheriting
    (`subOf p`) or plain (`plainSub`) — passes the gateS for that same cause: a sub-handler runs exactly
    when its parent does (own filters aside). This is what 345a874 broke for deletion handlers. -/
theorem sub_follows_parent (p : Shape) (i : In) (hw : wellFormed p = true) :
    subInvocable p (subOf p) i = invocableS p i ∧ subInvocable p plainSub i = invocableS p i := by
  rcases i with ⟨d, m, b, o, df, ini⟩
  rcases p with ⟨pr, pi, pd, pn⟩
  rcases pr with _ | pr
  · cases pi <;> cases pn <;> cases m <;> cases d <;> cases b <;>
      simp_all [wellFormed, subInvocable, invocableS, subOf, plainSub, gateS, detect, detectReason, handlerReasons]
  · cases pr <;> cases pi <;> cases pn <;> cases m <;> cases d <;> cases b <;>
      simp_all [wellFormed, subInvocable, invocableS, subOf, plainSub, gateS, detect, detectReason, handlerReasons]

/-- well-formedness is what every constructible handler has: the decorators' shapes … -/
theorem decorated_wellFormed (h : Shape) (hd : decorated h = true) : wellFormed h = true := by
  rcases h with ⟨hr, hi, hd', hn⟩
  cases hi <;> cases hn <;> cases hd' <;> simp_all [decorated, wellFormed]

/-- … and sub-handlers at any depth (so `sub_follows_parent` applies to sub-sub-handlers as well). -/
theorem sub_wellFormed (p : Shape) : wellFormed (subOf p) = true ∧ wellFormed plainSub = true := by
  simp [wellFormed, subOf, plainSub]

/-- The sub-handlers of a deletion handler are invoked in the deletion cause (marked and still held). -/
theorem sub_of_delete_invocable (i : In) (hd : i.deleted = false) (hm : i.marked = true)
    (hb : i.blocked = true) :
    subInvocable ⟨some .delete, false, false, false⟩ (subOf ⟨some .delete, false, false, false⟩) i = true ∧
    subInvocable ⟨some .delete, false, false, false⟩ plainSub i = true := by
  rcases i with ⟨d, m, b, o, df, ini⟩
  simp_all [subInvocable, invocableS, subOf, plainSub, gateS, detect, detectReason, handlerReasons]

/-- … and only there: whatever the shape of the sub-handler. -/
theorem sub_of_delete_only_while_held (p s : Shape) (i : In) (hk : p.reason = some .delete)
    (hinv : subInvocable p s i = true) : i.deleted = false ∧ i.marked = true ∧ i.blocked = true := by
  rcases i with ⟨d, m, b, o, df, ini⟩
  rcases p with ⟨pr, pi, pd, pn⟩
  cases d <;> cases m <;> cases b <;> cases o <;> cases df <;> cases ini <;>
    simp_all [subInvocable, invocableS, detect, detectReason, gateS, handlerReasons]

/-- Sub-handlers of creation/update/field handlers never run on an object marked for deletion,
    whatever their own shape (they are reached through their parent only). -/
theorem no_sub_of_create_update_field_on_marked (p s : Shape) (i : In)
    (hk : p.reason = some .create ∨ p.reason = some .update ∨
          (p.reason = none ∧ p.initial = false ∧ p.needsChange = true))
    (hinv : subInvocable p s i = true) : i.marked = false := by
  rcases i with ⟨d, m, b, o, df, ini⟩
  rcases p with ⟨pr, pi, pd, pn⟩
  cases d <;> cases m <;> cases b <;> cases o <;> cases df <;> cases ini <;>
    rcases hk with hk | hk | hk <;>
    simp_all [subInvocable, invocableS, detect, detectReason, gateS, handlerReasons]

/-- Regression witness: the gateS of /repo 345a874..17e5c42 (`gateOld`) rejected the sub-handlers of a
    deletion handler in the deletion cause (so the parent finished at once and the object was released
    without their work); the current gateS selects them. -/
theorem old_gate_sub_regression_witness :
    gateOld plainSub ⟨.delete, false, true⟩ = false ∧ gateS plainSub ⟨.delete, false, true⟩ = true ∧
    gateOld (subOf ⟨some .delete, false, false, false⟩) ⟨.delete, false, true⟩ = false ∧
    gateS (subOf ⟨some .delete, false, false, false⟩) ⟨.delete, false, true⟩ = true := by decide

/-- … and both gates agree everywhere else: on unmarked objects, and on every handler that is not a
    sub-handler shape (the fix changed nothing but that). -/
theorem old_gate_differs_only_for_subs (h : Shape) (c : Cause) :
    gateOld h c = gateS h c ∨
      (h.reason = none ∧ h.initial = false ∧ h.needsChange = false ∧ c.marked = true) := by
  rcases h with ⟨hr, hi, hd, hn⟩
  rcases c with ⟨cr, ci, cm⟩
  cases hr <;> cases hi <;> cases hn <;> cases cm <;> simp [gateOld, gateS]

/-- Deletion handlers only while marked for deletion and still held by the own finalizer. -/
theorem delete_only_while_held (h : Shape) (i : In) (hk : h.reason = some .delete)
    (hinv : invocableS h i = true) :
    i.deleted = false ∧ i.marked = true ∧ i.blocked = true := by
  rcases i with ⟨d, m, b, o, df, ini⟩
  rcases h with ⟨hr, hi, hd, hn⟩
  cases d <;> cases m <;> cases b <;> cases o <;> cases df <;> cases ini <;>
    simp_all [invocableS, detect, detectReason, gateS, handlerReasons]

/-- No change handler of any kind for gone / released / no-op events. -/
theorem none_for_gone_free_noop (h : Shape) (i : In)
    (hr : detectReason i = .gone ∨ detectReason i = .free ∨ detectReason i = .noop) :
    invocableS h i = false := by
  rcases hr with hr | hr | hr <;> simp [invocableS, detect, hr, handlerReasons]

/-- Resume handlers never on creation; on objects being deleted only when opted in;
    and only for a first sight. -/
theorem resume_needs_initial_and_optin (h : Shape) (i : In) (hi : h.initial = true)
    (hinv : invocableS h i = true) :
    i.initial = true ∧ detectReason i ≠ .create ∧ (i.marked = true → h.deletedOptIn = true) := by
  rcases i with ⟨d, m, b, o, df, ini⟩
  rcases h with ⟨hr, hi', hd, hn⟩
  cases d <;> cases m <;> cases b <;> cases o <;> cases df <;> cases ini <;> cases hd <;>
    simp_all [invocableS, detect, detectReason, gateS, handlerReasons]

/-- Handler kinds with a reason are mutually exclusive in one event. -/
theorem kinds_exclusive (h₁ h₂ : Shape) (i : In) (r₁ r₂ : Reason)
    (e₁ : h₁.reason = some r₁) (e₂ : h₂.reason = some r₂)
    (i₁ : invocableS h₁ i = true) (i₂ : invocableS h₂ i = true) : r₁ = r₂ := by
  have a₁ : r₁ = (detect i).reason := by
    simp [invocableS, gateS, e₁] at i₁; exact i₁.2.1.1
  have a₂ : r₂ = (detect i).reason := by
    simp [invocableS, gateS, e₂] at i₂; exact i₂.2.1.1
  rw [a₁, a₂]

/-! ### The whole pass `process_resource_causes` (detection, finalizer cycles, handling) -/

/-- The pass invokes nothing that detection + the two gates would not: every "never invoked" clause above
    holds of `invocableRC` / `subInvocableRC` as well (corollaries below). -/
theorem rc_le (h : Shape) (i : In) (mb : Bool) (hinv : invocableRC h i mb = true) : invocableS h i = true := by
  simp [invocableRC] at hinv; exact hinv.2

theorem rc_sub_le (p s : Shape) (i : In) (mb : Bool) (hinv : subInvocableRC p s i mb = true) :
    subInvocable p s i = true := by
  simp [subInvocableRC, invocableRC] at hinv
  simp [subInvocable, hinv.1.2, hinv.2]

theorem rc_no_create_update_field_on_marked (h : Shape) (i : In) (mb : Bool)
    (hk : h.reason = some .create ∨ h.reason = some .update ∨
          (h.reason = none ∧ h.initial = false ∧ h.needsChange = true))
    (hinv : invocableRC h i mb = true) : i.marked = false := by
  have h' := rc_le h i mb hinv
  rcases hk with hk | hk | ⟨h1, h2, h3⟩
  · exact no_create_update_on_marked h i (Or.inl hk) h'
  · exact no_create_update_on_marked h i (Or.inr hk) h'
  · exact no_field_on_marked h i h1 h2 h3 h'

theorem rc_delete_only_while_held (h : Shape) (i : In) (mb : Bool) (hk : h.reason = some .delete)
    (hinv : invocableRC h i mb = true) : i.deleted = false ∧ i.marked = true ∧ i.blocked = true :=
  delete_only_while_held h i hk (rc_le h i mb hinv)

theorem rc_none_for_gone_free_noop (h : Shape) (i : In) (mb : Bool)
    (hr : detectReason i = .gone ∨ detectReason i = .free ∨ detectReason i = .noop) :
    invocableRC h i mb = false := by
  simp [invocableRC, none_for_gone_free_noop h i hr]

/-- What the finalizer cycles add: a deletion handler runs only while the finalizer is REQUIRED (by a mandatory
    deletion handler, a daemon or a timer): optional deletion handlers on their own never run — the cycle that
    would run them removes the finalizer instead (docs: "optional=True: … called only if the finalizer is there
    for other reasons"). -/
theorem rc_delete_needs_requirement (h : Shape) (i : In) (mb : Bool) (hk : h.reason = some .delete)
    (hinv : invocableRC h i mb = true) : mb = true := by
  have hb := (rc_delete_only_while_held h i mb hk hinv).2.2
  cases mb <;> simp_all [invocableRC, finalizerCycle]

/-- … and no change handler at all runs on an unmarked object in the cycle in which the required finalizer
    is still absent (creation handlers wait for the finalizer). -/
theorem rc_nothing_before_the_finalizer (h : Shape) (i : In) (hm : i.marked = false) (hb : i.blocked = false) :
    invocableRC h i true = false := by
  simp [invocableRC, finalizerCycle, hm, hb]

/-- Outside the finalizer cycles the pass is exactly detection + the two gates. -/
theorem rc_eq_outside_finalizer_cycles (h : Shape) (i : In) (mb : Bool) (hf : finalizerCycle i mb = false) :
    invocableRC h i mb = invocableS h i := by
  simp [invocableRC, hf]

-- non-vacuity
example : invocableRC ⟨some .delete, false, false, false⟩ ⟨false, true, true, false, false, false⟩ true = true := by decide
example : invocableRC ⟨some .delete, false, false, false⟩ ⟨false, true, true, false, false, false⟩ false = false := by decide
example : invocableRC ⟨some .create, false, false, false⟩ ⟨false, false, false, true, true, false⟩ false = true := by decide
example : finalizerCycle ⟨false, true, false, false, false, false⟩ true = false := by decide

-- non-vacuity: the hypotheses are met by concrete inputs
example : invocableS ⟨some .delete, false, false, false⟩ ⟨false, true, true, false, false, false⟩ = true := by decide
example : invocableS ⟨none, true, true, false⟩ ⟨false, true, true, false, false, true⟩ = true := by decide
example : invocableS ⟨some .update, false, false, true⟩ ⟨false, false, false, false, true, true⟩ = true := by decide
-- sub-handlers: of a deletion handler in the deletion cause; of an update handler (inheriting) in an update
example : subInvocable ⟨some .delete, false, false, false⟩ plainSub ⟨false, true, true, false, true, false⟩ = true := by decide
example : subInvocable ⟨some .update, false, false, true⟩ (subOf ⟨some .update, false, false, true⟩)
    ⟨false, false, true, false, true, false⟩ = true := by decide
-- `wellFormed` is needed in `sub_follows_parent`: a (non-constructible) resuming handler that needs a change
-- would run on a marked object while its inheriting sub-handler is held back
example : invocableS ⟨none, true, true, true⟩ ⟨false, true, true, false, false, true⟩ = true ∧
    subInvocable ⟨none, true, true, true⟩ (subOf ⟨none, true, true, true⟩) ⟨false, true, true, false, false, true⟩ = false := by decide
example : decorated ⟨some .delete, false, false, false⟩ = true := by decide

end Kopf.C05
