/-
  C05 — property theorems only. Each event maps to exactly one cause; handler kinds are exclusive.
-/
import Kopf.Model.C05_Cause
namespace Kopf.C05

/-- The property's precedence list, written declaratively (no if-chain). -/
def Spec : Reason → In → Prop
  | .gone,   i => i.deleted = true
  | .free,   i => i.deleted = false ∧ i.marked = true ∧ i.blocked = false
  | .delete, i => i.deleted = false ∧ i.marked = true ∧ i.blocked = true
  | .create, i => i.deleted = false ∧ i.marked = false ∧ i.oldAbsent = true
  | .resume, i => i.deleted = false ∧ i.marked = false ∧ i.oldAbsent = false ∧
                  i.diffNonEmpty = false ∧ i.initial = true
  | .noop,   i => i.deleted = false ∧ i.marked = false ∧ i.oldAbsent = false ∧
                  i.diffNonEmpty = false ∧ i.initial = false
  | .update, i => i.deleted = false ∧ i.marked = false ∧ i.oldAbsent = false ∧
                  i.diffNonEmpty = true

theorem detect_spec (i : In) (r : Reason) : detectReason i = r ↔ Spec r i := by
  rcases i with ⟨d, m, b, o, df, ini⟩
  cases d <;> cases m <;> cases b <;> cases o <;> cases df <;> cases ini <;> cases r <;>
    simp [detectReason, Spec]

/-- exactly one cause per event -/
theorem exactly_one (i : In) : ∃ r, Spec r i ∧ ∀ r', Spec r' i → r' = r := by
  refine ⟨detectReason i, (detect_spec i _).1 rfl, ?_⟩
  intro r' h
  exact ((detect_spec i r').2 h).symm

/-- Creation/update handlers are never invoked on an object marked for deletion. -/
theorem no_create_update_on_marked (h : Handler) (i : In)
    (hk : h.reason = some .create ∨ h.reason = some .update)
    (hinv : invocable h i = true) : i.marked = false := by
  rcases i with ⟨d, m, b, o, df, ini⟩
  rcases h with ⟨hr, hi, hd⟩
  cases d <;> cases m <;> cases b <;> cases o <;> cases df <;> cases ini <;>
    rcases hk with hk | hk <;> simp_all [invocable, detect, detectReason, gate, handlerReasons]

/-- … nor are `@kopf.on.field` handlers, which carry no cause kind of their own (`reason=None`, not
    resuming) and are "effective only when the object is updated" (docs/handlers.rst): since /repo 345a874
    the gate keeps them off the objects marked for deletion (before, a field changed shortly before the
    deletion request made them run in the deletion cause). -/
theorem no_field_on_marked (h : Handler) (i : In) (hk : h.reason = none) (hni : h.initial = false)
    (hinv : invocable h i = true) : i.marked = false := by
  rcases i with ⟨d, m, b, o, df, ini⟩
  rcases h with ⟨hr, hi, hd⟩
  cases d <;> cases m <;> cases b <;> cases o <;> cases df <;> cases ini <;>
    simp_all [invocable, detect, detectReason, gate, handlerReasons]

/-- A handler without a cause kind (field or resuming) runs in handled causes only (create/update/
    delete/resume): never for gone/released/no-op events; on a marked object only in the deletion cause,
    i.e. while the framework's finalizer still holds the object — and then it is a resuming handler. -/
theorem kindless_only_in_handled_causes (h : Handler) (i : In) (hk : h.reason = none)
    (hinv : invocable h i = true) :
    (detect i).reason ∈ handlerReasons ∧
      (i.marked = true → (detect i).reason = .delete ∧ i.blocked = true ∧ h.initial = true) := by
  rcases i with ⟨d, m, b, o, df, ini⟩
  rcases h with ⟨hr, hi, hd⟩
  cases hi <;> cases hd <;> cases d <;> cases m <;> cases b <;> cases o <;> cases df <;> cases ini <;>
    simp_all [invocable, detect, detectReason, gate, handlerReasons]

-- regression of the repaired behaviour: the former witness (a field handler in a deletion cause) is rejected
example : invocable ⟨none, false, false⟩ ⟨false, true, true, false, true, false⟩ = false := by decide
-- … while the same handler still runs for an update of an unmarked object
example : invocable ⟨none, false, false⟩ ⟨false, false, true, false, true, false⟩ = true := by decide

/-- Deletion handlers only while marked for deletion and still held by the own finalizer. -/
theorem delete_only_while_held (h : Handler) (i : In) (hk : h.reason = some .delete)
    (hinv : invocable h i = true) :
    i.deleted = false ∧ i.marked = true ∧ i.blocked = true := by
  rcases i with ⟨d, m, b, o, df, ini⟩
  rcases h with ⟨hr, hi, hd⟩
  cases d <;> cases m <;> cases b <;> cases o <;> cases df <;> cases ini <;>
    simp_all [invocable, detect, detectReason, gate, handlerReasons]

/-- No change handler of any kind for gone / released / no-op events. -/
theorem none_for_gone_free_noop (h : Handler) (i : In)
    (hr : detectReason i = .gone ∨ detectReason i = .free ∨ detectReason i = .noop) :
    invocable h i = false := by
  rcases hr with hr | hr | hr <;> simp [invocable, detect, hr, handlerReasons]

/-- Resume handlers never on creation; on objects being deleted only when opted in;
    and only for a first sight. -/
theorem resume_needs_initial_and_optin (h : Handler) (i : In) (hi : h.initial = true)
    (hinv : invocable h i = true) :
    i.initial = true ∧ detectReason i ≠ .create ∧ (i.marked = true → h.deletedOptIn = true) := by
  rcases i with ⟨d, m, b, o, df, ini⟩
  rcases h with ⟨hr, hi', hd⟩
  cases d <;> cases m <;> cases b <;> cases o <;> cases df <;> cases ini <;> cases hd <;>
    simp_all [invocable, detect, detectReason, gate, handlerReasons]

/-- Handler kinds with a reason are mutually exclusive in one event. -/
theorem kinds_exclusive (h₁ h₂ : Handler) (i : In) (r₁ r₂ : Reason)
    (e₁ : h₁.reason = some r₁) (e₂ : h₂.reason = some r₂)
    (i₁ : invocable h₁ i = true) (i₂ : invocable h₂ i = true) : r₁ = r₂ := by
  have a₁ : r₁ = (detect i).reason := by
    simp [invocable, gate, e₁] at i₁; exact i₁.2.1.1
  have a₂ : r₂ = (detect i).reason := by
    simp [invocable, gate, e₂] at i₂; exact i₂.2.1.1
  rw [a₁, a₂]

-- non-vacuity: the hypotheses are met by concrete inputs
example : invocable ⟨some .delete, false, false⟩ ⟨false, true, true, false, false, false⟩ = true := by decide
example : invocable ⟨none, true, true⟩ ⟨false, true, true, false, false, true⟩ = true := by decide
example : invocable ⟨some .update, false, false⟩ ⟨false, false, false, false, true, true⟩ = true := by decide

end Kopf.C05
