/-
  C05 — property theorems only. Each event maps to exactly one cause; handler kinds are exclusive.
-/
import Kopf.Model.C05_Cause
import Kopf.Lemmas.C05_Record
namespace Kopf.C05

/-- The property's precedence list, written declaratively (no if-chain). -/
def Spec : Reason → In → Prop
  | .gone,   i => i.deleted = true
  | .free,   i => i.deleted = false ∧ i.marked = true ∧ i.blocked = false
  | .delete, i => i.deleted = false ∧ i.marked = true ∧ i.blocked = true
  | .create, i => i.deleted = false ∧ i.marked = false ∧ i.oldAbsent = true
  | .resume, i => i.deleted = false ∧ i.marked = false ∧ i.oldAbsent = false ∧
                  i.diffNonEmpty = false ∧ i.initial = true
  | .noop,   i => i.deleted = false ∧ i.marked = false ∧ i.oldAbsent = false ∧
                  i.diffNonEmpty = false ∧ i.initial = false
  | .update, i => i.deleted = false ∧ i.marked = false ∧ i.oldAbsent = false ∧
                  i.diffNonEmpty = true

theorem detect_spec (i : In) (r : Reason) : detectReason i = r ↔ Spec r i := by
  rcases i with ⟨d, m, b, o, df, ini⟩
  cases d <;> cases m <;> cases b <;> cases o <;> cases df <;> cases ini <;> cases r <;>
    simp [detectReason, Spec]

/-- exactly one cause per event -/
theorem exactly_one (i : In) : ∃ r, Spec r i ∧ ∀ r', Spec r' i → r' = r := by
  refine ⟨detectReason i, (detect_spec i _).1 rfl, ?_⟩
  intro r' h
  exact ((detect_spec i r').2 h).symm

/-- Creation/update handlers are never invoked on an object marked for deletion. -/
theorem no_create_update_on_marked (h : Shape) (i : In)
    (hk : h.reason = some .create ∨ h.reason = some .update)
    (hinv : invocableS h i = true) : i.marked = false := by
  rcases i with ⟨d, m, b, o, df, ini⟩
  rcases h with ⟨hr, hi, hd, hn⟩
  cases d <;> cases m <;> cases b <;> cases o <;> cases df <;> cases ini <;>
    rcases hk with hk | hk <;> simp_all [invocableS, detect, detectReason, gateS, handlerReasons]

/-- … nor are `@kopf.on.field` handlers, which carry no cause kind of their own (`reason=None`, not
    resuming, `field_needs_change=True`) and are "effective only when the object is updated"
    (docs/handlers.rst): since /repo 345a874 the gateS keeps them off the objects marked for deletion
    (before, a field changed shortly before the deletion request made them run in the deletion cause). -/
theorem no_field_on_marked (h : Shape) (i : In) (hk : h.reason = none) (hni : h.initial = false)
    (hnc : h.needsChange = true) (hinv : invocableS h i = true) : i.marked = false := by
  rcases i with ⟨d, m, b, o, df, ini⟩
  rcases h with ⟨hr, hi, hd, hn⟩
  cases d <;> cases m <;> cases b <;> cases o <;> cases df <;> cases ini <;>
    simp_all [invocableS, detect, detectReason, gateS, handlerReasons]

/-- A handler without a cause kind (field, resuming, or a sub-handler) runs in handled causes only
    (create/update/delete/resume): never for gone/released/no-op events; on a marked object only in the
    deletion cause, i.e. while the framework's finalizer still holds the object — and then it is a resuming
    handler or one that needs no change of a field (a sub-handler), never a field handler. -/
theorem kindless_only_in_handled_causes (h : Shape) (i : In) (hk : h.reason = none)
    (hinv : invocableS h i = true) :
    (detect i).reason ∈ handlerReasons ∧
      (i.marked = true → (detect i).reason = .delete ∧ i.blocked = true ∧
        (h.initial = true ∨ h.needsChange = false)) := by
  rcases i with ⟨d, m, b, o, df, ini⟩
  rcases h with ⟨hr, hi, hd, hn⟩
  cases hi <;> cases hd <;> cases hn <;> cases d <;> cases m <;> cases b <;> cases o <;> cases df <;>
    cases ini <;> simp_all [invocableS, detect, detectReason, gateS, handlerReasons]

-- regression of the repaired behaviour: the former witness (a field handler in a deletion cause) is rejected
example : invocableS ⟨none, false, false, true⟩ ⟨false, true, true, false, true, false⟩ = false := by decide
-- … while the same handler still runs for an update of an unmarked object
example : invocableS ⟨none, false, false, true⟩ ⟨false, false, true, false, true, false⟩ = true := by decide

/-! ### The top-level view used by the C14/C03 models is the same gate -/

/-- `gate` (top-level handlers: reason-less and not resuming = on.field) is `gateS` on the handler's shape. -/
theorem gate_eq_shape (h : Handler) (c : Cause) : gate h c = gateS h.shape c := by
  rcases h with ⟨hr, hi, hd⟩
  rcases c with ⟨cr, ci, cm⟩
  cases hr <;> cases hi <;> cases cm <;> simp [gate, gateS, Handler.shape]

theorem invocable_eq_shape (h : Handler) (i : In) : invocable h i = invocableS h.shape i := by
  simp [invocable, invocableS, gate_eq_shape]

/-- the shapes of top-level handlers are well-formed -/
theorem shape_wellFormed (h : Handler) : wellFormed h.shape = true := by
  rcases h with ⟨hr, hi, hd⟩
  cases hr <;> cases hi <;> simp [wellFormed, Handler.shape]

/-! ### Sub-handlers are of the kind of their parent (/repo 17e5c42) -/

/-- A sub-handler-shaped handler (no cause kind, not resuming, no change of a field needed: what
    `kopf.execute(fns=…)` builds, and what `@kopf.subhandler`/`kopf.register` build under every parent but
    on.update/on.field) passes the gateS for EVERY cause — marked or not: it is selected iff its own
    filters match (`Tie.sub_gate_is_match` says the same of the extracted code). -/
theorem sub_of_delete_selected (h : Shape) (c : Cause) (hk : h.reason = none)
    (hni : h.initial = false) (hnc : h.needsChange = false) : gateS h c = true := by
  rcases h with ⟨hr, hi, hd, hn⟩
  simp_all [gateS]

/-- Whenever a (constructible) parent handler is invoked, each of its sub-handlers — inheriting
    (`subOf p`) or plain (`plainSub`) — passes the gateS for that same cause: a sub-handler runs exactly
    when its parent does (own filters aside). This is what 345a874 broke for deletion handlers. -/
theorem sub_follows_parent (p : Shape) (i : In) (hw : wellFormed p = true) :
    subInvocable p (subOf p) i = invocableS p i ∧ subInvocable p plainSub i = invocableS p i := by
  rcases i with ⟨d, m, b, o, df, ini⟩
  rcases p with ⟨pr, pi, pd, pn⟩
  rcases pr with _ | pr
  · cases pi <;> cases pn <;> cases m <;> cases d <;> cases b <;>
      simp_all [wellFormed, subInvocable, invocableS, subOf, plainSub, gateS, detect, detectReason, handlerReasons]
  · cases pr <;> cases pi <;> cases pn <;> cases m <;> cases d <;> cases b <;>
      simp_all [wellFormed, subInvocable, invocableS, subOf, plainSub, gateS, detect, detectReason, handlerReasons]

/-- well-formedness is what every constructible handler has: the decorators' shapes … -/
theorem decorated_wellFormed (h : Shape) (hd : decorated h = true) : wellFormed h = true := by
  rcases h with ⟨hr, hi, hd', hn⟩
  cases hi <;> cases hn <;> cases hd' <;> simp_all [decorated, wellFormed]

/-- … and sub-handlers at any depth (so `sub_follows_parent` applies to sub-sub-handlers as well). -/
theorem sub_wellFormed (p : Shape) : wellFormed (subOf p) = true ∧ wellFormed plainSub = true := by
  simp [wellFormed, subOf, plainSub]

/-- The sub-handlers of a deletion handler are invoked in the deletion cause (marked and still held). -/
theorem sub_of_delete_invocable (i : In) (hd : i.deleted = false) (hm : i.marked = true)
    (hb : i.blocked = true) :
    subInvocable ⟨some .delete, false, false, false⟩ (subOf ⟨some .delete, false, false, false⟩) i = true ∧
    subInvocable ⟨some .delete, false, false, false⟩ plainSub i = true := by
  rcases i with ⟨d, m, b, o, df, ini⟩
  simp_all [subInvocable, invocableS, subOf, plainSub, gateS, detect, detectReason, handlerReasons]

/-- … and only there: whatever the shape of the sub-handler. -/
theorem sub_of_delete_only_while_held (p s : Shape) (i : In) (hk : p.reason = some .delete)
    (hinv : subInvocable p s i = true) : i.deleted = false ∧ i.marked = true ∧ i.blocked = true := by
  rcases i with ⟨d, m, b, o, df, ini⟩
  rcases p with ⟨pr, pi, pd, pn⟩
  cases d <;> cases m <;> cases b <;> cases o <;> cases df <;> cases ini <;>
    simp_all [subInvocable, invocableS, detect, detectReason, gateS, handlerReasons]

/-- Sub-handlers of creation/update/field handlers never run on an object marked for deletion,
    whatever their own shape (they are reached through their parent only). -/
theorem no_sub_of_create_update_field_on_marked (p s : Shape) (i : In)
    (hk : p.reason = some .create ∨ p.reason = some .update ∨
          (p.reason = none ∧ p.initial = false ∧ p.needsChange = true))
    (hinv : subInvocable p s i = true) : i.marked = false := by
  rcases i with ⟨d, m, b, o, df, ini⟩
  rcases p with ⟨pr, pi, pd, pn⟩
  cases d <;> cases m <;> cases b <;> cases o <;> cases df <;> cases ini <;>
    rcases hk with hk | hk | hk <;>
    simp_all [subInvocable, invocableS, detect, detectReason, gateS, handlerReasons]

/-- Regression witness: the gateS of /repo 345a874..17e5c42 (`gateOld`) rejected the sub-handlers of a
    deletion handler in the deletion cause (so the parent finished at once and the object was released
    without their work); the current gateS selects them. -/
theorem old_gate_sub_regression_witness :
    gateOld plainSub ⟨.delete, false, true⟩ = false ∧ gateS plainSub ⟨.delete, false, true⟩ = true ∧
    gateOld (subOf ⟨some .delete, false, false, false⟩) ⟨.delete, false, true⟩ = false ∧
    gateS (subOf ⟨some .delete, false, false, false⟩) ⟨.delete, false, true⟩ = true := by decide

/-- … and both gates agree everywhere else: on unmarked objects, and on every handler that is not a
    sub-handler shape (the fix changed nothing but that). -/
theorem old_gate_differs_only_for_subs (h : Shape) (c : Cause) :
    gateOld h c = gateS h c ∨
      (h.reason = none ∧ h.initial = false ∧ h.needsChange = false ∧ c.marked = true) := by
  rcases h with ⟨hr, hi, hd, hn⟩
  rcases c with ⟨cr, ci, cm⟩
  cases hr <;> cases hi <;> cases hn <;> cases cm <;> simp [gateOld, gateS]

/-- Deletion handlers only while marked for deletion and still held by the own finalizer. -/
theorem delete_only_while_held (h : Shape) (i : In) (hk : h.reason = some .delete)
    (hinv : invocableS h i = true) :
    i.deleted = false ∧ i.marked = true ∧ i.blocked = true := by
  rcases i with ⟨d, m, b, o, df, ini⟩
  rcases h with ⟨hr, hi, hd, hn⟩
  cases d <;> cases m <;> cases b <;> cases o <;> cases df <;> cases ini <;>
    simp_all [invocableS, detect, detectReason, gateS, handlerReasons]

/-- No change handler of any kind for gone / released / no-op events. -/
theorem none_for_gone_free_noop (h : Shape) (i : In)
    (hr : detectReason i = .gone ∨ detectReason i = .free ∨ detectReason i = .noop) :
    invocableS h i = false := by
  rcases hr with hr | hr | hr <;> simp [invocableS, detect, hr, handlerReasons]

/-- Resume handlers never on creation; on objects being deleted only when opted in;
    and only for a first sight. -/
theorem resume_needs_initial_and_optin (h : Shape) (i : In) (hi : h.initial = true)
    (hinv : invocableS h i = true) :
    i.initial = true ∧ detectReason i ≠ .create ∧ (i.marked = true → h.deletedOptIn = true) := by
  rcases i with ⟨d, m, b, o, df, ini⟩
  rcases h with ⟨hr, hi', hd, hn⟩
  cases d <;> cases m <;> cases b <;> cases o <;> cases df <;> cases ini <;> cases hd <;>
    simp_all [invocableS, detect, detectReason, gateS, handlerReasons]

/-- Handler kinds with a reason are mutually exclusive in one event. -/
theorem kinds_exclusive (h₁ h₂ : Shape) (i : In) (r₁ r₂ : Reason)
    (e₁ : h₁.reason = some r₁) (e₂ : h₂.reason = some r₂)
    (i₁ : invocableS h₁ i = true) (i₂ : invocableS h₂ i = true) : r₁ = r₂ := by
  have a₁ : r₁ = (detect i).reason := by
    simp [invocableS, gateS, e₁] at i₁; exact i₁.2.1.1
  have a₂ : r₂ = (detect i).reason := by
    simp [invocableS, gateS, e₂] at i₂; exact i₂.2.1.1
  rw [a₁, a₂]

/-! ### The whole pass `process_resource_causes` (detection, finalizer cycles, handling) -/

/-- The pass invokes nothing that detection + the two gates would not: every "never invoked" clause above
    holds of `invocableRC` / `subInvocableRC` as well (corollaries below). -/
theorem rc_le (h : Shape) (i : In) (mb : Bool) (hinv : invocableRC h i mb = true) : invocableS h i = true := by
  simp [invocableRC] at hinv; exact hinv.2

theorem rc_sub_le (p s : Shape) (i : In) (mb : Bool) (hinv : subInvocableRC p s i mb = true) :
    subInvocable p s i = true := by
  simp [subInvocableRC, invocableRC] at hinv
  simp [subInvocable, hinv.1.2, hinv.2]

theorem rc_no_create_update_field_on_marked (h : Shape) (i : In) (mb : Bool)
    (hk : h.reason = some .create ∨ h.reason = some .update ∨
          (h.reason = none ∧ h.initial = false ∧ h.needsChange = true))
    (hinv : invocableRC h i mb = true) : i.marked = false := by
  have h' := rc_le h i mb hinv
  rcases hk with hk | hk | ⟨h1, h2, h3⟩
  · exact no_create_update_on_marked h i (Or.inl hk) h'
  · exact no_create_update_on_marked h i (Or.inr hk) h'
  · exact no_field_on_marked h i h1 h2 h3 h'

theorem rc_delete_only_while_held (h : Shape) (i : In) (mb : Bool) (hk : h.reason = some .delete)
    (hinv : invocableRC h i mb = true) : i.deleted = false ∧ i.marked = true ∧ i.blocked = true :=
  delete_only_while_held h i hk (rc_le h i mb hinv)

theorem rc_none_for_gone_free_noop (h : Shape) (i : In) (mb : Bool)
    (hr : detectReason i = .gone ∨ detectReason i = .free ∨ detectReason i = .noop) :
    invocableRC h i mb = false := by
  simp [invocableRC, none_for_gone_free_noop h i hr]

/-- What the finalizer cycles add: a deletion handler runs only while the finalizer is REQUIRED (by a mandatory
    deletion handler, a daemon or a timer): optional deletion handlers on their own never run — the cycle that
    would run them removes the finalizer instead (docs: "optional=True: … called only if the finalizer is there
    for other reasons"). -/
theorem rc_delete_needs_requirement (h : Shape) (i : In) (mb : Bool) (hk : h.reason = some .delete)
    (hinv : invocableRC h i mb = true) : mb = true := by
  have hb := (rc_delete_only_while_held h i mb hk hinv).2.2
  cases mb <;> simp_all [invocableRC, finalizerCycle]

/-- … and no change handler at all runs on an unmarked object in the cycle in which the required finalizer
    is still absent (creation handlers wait for the finalizer). -/
theorem rc_nothing_before_the_finalizer (h : Shape) (i : In) (hm : i.marked = false) (hb : i.blocked = false) :
    invocableRC h i true = false := by
  simp [invocableRC, finalizerCycle, hm, hb]

/-- Outside the finalizer cycles the pass is exactly detection + the two gates. -/
theorem rc_eq_outside_finalizer_cycles (h : Shape) (i : In) (mb : Bool) (hf : finalizerCycle i mb = false) :
    invocableRC h i mb = invocableS h i := by
  simp [invocableRC, hf]

-- non-vacuity
example : invocableRC ⟨some .delete, false, false, false⟩ ⟨false, true, true, false, false, false⟩ true = true := by decide
example : invocableRC ⟨some .delete, false, false, false⟩ ⟨false, true, true, false, false, false⟩ false = false := by decide
example : invocableRC ⟨some .create, false, false, false⟩ ⟨false, false, false, true, true, false⟩ false = true := by decide
example : finalizerCycle ⟨false, true, false, false, false, false⟩ true = false := by decide

-- non-vacuity: the hypotheses are met by concrete inputs
example : invocableS ⟨some .delete, false, false, false⟩ ⟨false, true, true, false, false, false⟩ = true := by decide
example : invocableS ⟨none, true, true, false⟩ ⟨false, true, true, false, false, true⟩ = true := by decide
example : invocableS ⟨some .update, false, false, true⟩ ⟨false, false, false, false, true, true⟩ = true := by decide
-- sub-handlers: of a deletion handler in the deletion cause; of an update handler (inheriting) in an update
example : subInvocable ⟨some .delete, false, false, false⟩ plainSub ⟨false, true, true, false, true, false⟩ = true := by decide
example : subInvocable ⟨some .update, false, false, true⟩ (subOf ⟨some .update, false, false, true⟩)
    ⟨false, false, true, false, true, false⟩ = true := by decide
-- `wellFormed` is needed in `sub_follows_parent`: a (non-constructible) resuming handler that needs a change
-- would run on a marked object while its inheriting sub-handler is held back
example : invocableS ⟨none, true, true, true⟩ ⟨false, true, true, false, false, true⟩ = true ∧
    subInvocable ⟨none, true, true, true⟩ (subOf ⟨none, true, true, true⟩) ⟨false, true, true, false, false, true⟩ = false := by decide
example : decorated ⟨some .delete, false, false, false⟩ = true := by decide

/-! ### Whose record is it: the fact "never handled" comes from the object's OWN record (Model/C05_Record)
  "Handled" is the framework's own record on that object: for a ReplicaSet owned by a Deployment the names marked
  "-ofDRS" (the plain names there carry what Kubernetes copied down from the Deployment), for everything else the
  plain names; under a status storage the status field; under a multi-storage any of its sub-storages. All of it
  for EVERY key former `keysOf` (`make_keys`), every record name, all annotations. -/

/-- The storage's answer depends on nothing but the object's own names: two objects of the same kind and owners whose
    annotations agree under those names (and whose status field agrees) have the same stored state — whatever else
    they carry (records of their owners, of other operators, under look-alike names). -/
theorem fetch_reads_own_record_only {E} (ss : List Storage) (o o' : Obj E)
    (hk : o'.kind = o.kind) (ho : o'.ownerKinds = o.ownerKinds) (hs : o'.statusRecord = o.statusRecord)
    (ha : ∀ keysOf key, Storage.ann keysOf key ∈ ss →
            ∀ k ∈ ownKeys keysOf key o, lookup k o'.annotations = lookup k o.annotations) :
    fetchMulti ss o' = fetchMulti ss o := by
  apply firstSome_congr
  intro s hsmem
  cases s with
  | status => simp [fetchSimple, hs]
  | ann keysOf key =>
    have hkeys : ownKeys keysOf key o' = ownKeys keysOf key o := by
      simp [ownKeys, markKey, isDRS, hk, ho]
    simp only [fetchSimple, fetchAnn, hkeys]
    exact firstSome_congr _ _ _ (ha keysOf key hsmem)

/-- No record of its own under any of the configured storages ⇔ the storage has nothing ("never handled"). -/
theorem never_handled_iff_no_own_record {E} (ss : List Storage) (o : Obj E) :
    fetchMulti ss o = none ↔ ∀ s ∈ ss, NoOwnRecord s o := by
  simp [fetchMulti, firstSome_none_iff, fetchSimple_none_iff]

/-- What the storage returns IS a record of the object's own: stored under one of its own names (or in the status
    field), never anything found elsewhere. -/
theorem fetched_is_own_record {E} (ss : List Storage) (o : Obj E) (e : E) (h : fetchMulti ss o = some e) :
    (Storage.status ∈ ss ∧ o.statusRecord = some e) ∨
    ∃ keysOf key, Storage.ann keysOf key ∈ ss ∧ ∃ k ∈ ownKeys keysOf key o, lookup k o.annotations = some e := by
  obtain ⟨s, hs, hf⟩ := firstSome_some_mem _ _ _ h
  cases s with
  | status => exact Or.inl ⟨hs, hf⟩
  | ann keysOf key =>
    obtain ⟨k, hk, hl⟩ := firstSome_some_mem _ _ _ hf
    exact Or.inr ⟨keysOf, key, hs, k, hk, hl⟩

/-- THE CLAUSE: an object without a record of its own, not gone and not marked for deletion, is a CREATION whatever
    else it carries, whether or not it is a first sight: the creation handlers are invocable, the update handlers,
    the resuming ones and the field-less kinds of other causes are not. -/
theorem never_handled_is_creation {E} (ss : List Storage) (o : Obj E) (blocked diff initial : Bool)
    (hown : ∀ s ∈ ss, NoOwnRecord s o) :
    let i := factsOf false false blocked (fetchMulti ss o) diff initial
    detectReason i = .create ∧
    invocableS ⟨some .create, false, false, false⟩ i = true ∧
    (∀ h : Shape, h.reason = some .update ∨ h.reason = some .delete ∨ h.initial = true → invocableS h i = false) := by
  have hn : fetchMulti ss o = none := (never_handled_iff_no_own_record ss o).2 hown
  simp only [hn, factsOf, Option.isNone_none]
  refine ⟨by simp [detectReason], by simp [invocableS, detect, detectReason, gateS, handlerReasons], ?_⟩
  intro h hk
  rcases h with ⟨hr, hi, hd, hn'⟩
  rcases hk with hk | hk | hk <;> cases initial <;>
    simp_all [invocableS, detect, detectReason, gateS, handlerReasons]

/-- … and an object WITH a record of its own is never a creation. -/
theorem handled_is_not_creation {E} (ss : List Storage) (o : Obj E) (e : E) (d m b diff initial : Bool)
    (h : fetchMulti ss o = some e) :
    detectReason (factsOf d m b (fetchMulti ss o) diff initial) ≠ .create := by
  rcases hd : d <;> rcases hm : m <;> rcases hb : b <;> rcases hdf : diff <;> rcases hi : initial <;>
    simp [h, factsOf, detectReason]

/-- The fall-back of seeded change C05g changes nothing for objects that are not a Deployment's ReplicaSets (their
    own names ARE the plain ones: nothing is left to fall back to) … -/
theorem fallback_agrees_off_DRS {E} (keysOf : String → List String) (key : String) (o : Obj E)
    (h : isDRS o = false) : fetchAnnFallback keysOf key o = fetchAnn keysOf key o := by
  simp only [fetchAnnFallback, fetchAnn, ownKeys_plain keysOf key o h, filter_not_contains_self, List.append_nil]

/-- … and nothing for objects that have a record of their own … -/
theorem fallback_agrees_when_handled {E} (keysOf : String → List String) (key : String) (o : Obj E) (e : E)
    (h : fetchAnn keysOf key o = some e) : fetchAnnFallback keysOf key o = some e := by
  simp only [fetchAnnFallback]
  exact firstSome_append_of_some _ _ _ _ h

/-- … but it breaks the clause exactly where the marks exist for: a never-handled ReplicaSet of a Deployment that
    carries the DEPLOYMENT's propagated record is taken for handled — an update (or, unchanged and at first sight,
    a resume) instead of a creation: the update handler is invocable, the creation handler is not. -/
theorem fallback_witness :
    ∃ (o : Obj Nat) (keysOf : String → List String) (key : String),
      NoOwnRecord (.ann keysOf key) o ∧ fetchAnn keysOf key o = none ∧
      fetchAnnFallback keysOf key o = some 7 ∧
      (let i := factsOf false false true (fetchAnnFallback keysOf key o) true false
       detectReason i = .update ∧ invocableS ⟨some .update, false, false, true⟩ i = true ∧
       invocableS ⟨some .create, false, false, false⟩ i = false) ∧
      detectReason (factsOf false false true (fetchAnn keysOf key o) true false) = .create :=
  ⟨⟨"ReplicaSet", ["Deployment"], [("kopf.zalando.org/last-handled-configuration", some 7)], none⟩,
   fun n => ["kopf.zalando.org/" ++ n], "last-handled-configuration",
   (fetchAnn_none_iff _ _ _).1 (by decide), by decide, by decide, by decide, by decide⟩

-- non-vacuity of the hypotheses: a Deployment's ReplicaSet carrying only its owner's record has no own record …
example : NoOwnRecord (.ann (fun n => ["p/" ++ n]) "lhc")
    (⟨"ReplicaSet", ["Other", "Deployment"], [("p/lhc", some 1), ("q/lhc-ofDRS", some 2)], none⟩ : Obj Nat) :=
  (fetchAnn_none_iff _ _ _).1 (by decide)
-- … one carrying its own record (next to the owner's) is handled, and the storage returns its own
example : fetchMulti [.ann (fun n => ["p/" ++ n]) "lhc", .status]
    (⟨"ReplicaSet", ["Deployment"], [("p/lhc", some 1), ("p/lhc-ofDRS", some 2)], some 3⟩ : Obj Nat) = some 2 := by decide
-- … a standalone ReplicaSet goes by the plain name; a look-alike "-ofDRS" record is not its own
example : fetchAnn (fun n => ["p/" ++ n]) "lhc"
    (⟨"ReplicaSet", [], [("p/lhc-ofDRS", some 2)], none⟩ : Obj Nat) = none := by decide
example : fetchAnn (fun n => ["p/" ++ n]) "lhc"
    (⟨"ReplicaSet", ["ReplicaSet"], [("p/lhc-ofDRS", some 2), ("p/lhc", none), ("p/lhc", some 4)], none⟩ : Obj Nat) = none := by
  decide

end Kopf.C05
