/-
  C19 — Watch coverage and continuity under reconnects, 410s, pauses and cluster changes.
  Property theorems only. `run init as` ranges over EVERY script `as : List Act` of the adversary
  (object changes, deliveries, bookmarks, EOF / connection errors / timeouts, in-stream and HTTP 410,
  request failures, unknown ERROR, garbage, compaction, pause / notice / resume / unblock timing);
  `runHist empty hist` over EVERY history of revised insights. No bound on lengths or versions.
-/
import Kopf.Lemmas.C19_Watch
import Kopf.Lemmas.C19_Ensemble
import Kopf.Lemmas.C19_Orchestrator
namespace Kopf.C19

/-! ## Within one watch -/

/-- **No change is skipped (invariant).** Whatever the adversary did: the resume point never passes
    the server (`since ≤ srv`), and every stored version up to `since` has reached the consumer — as a
    watch event, or through a listing made at or after it. Versions above `since` are the ones a
    `watch since` will still be sent (`deliver_in_order`) or a re-list will cover
    (`relist_covers_everything`). -/
theorem no_skip_inv (as : List Act) :
    let w := run init as
    w.listRv ≤ w.since ∧ w.since ≤ w.srv ∧ ∀ e ∈ w.log, e.rv ≤ w.since → Covered w e := by
  have h := inv_run inv_init as
  exact ⟨h.list_le, h.since_le, h.cover⟩

/-- **No change is lost (quiescence).** Whenever the stream is open and the server has nothing more
    to send, every change ever made has reached the consumer (event, or a listing at/after it). -/
theorem no_skip (as : List Act) :
    let w := run init as
    w.phase = .streaming → nextEntry w.log w.since = none → ∀ e ∈ w.log, Covered w e := by
  intro w _ hn e he
  exact (inv_run inv_init as).cover e he (nextEntry_none hn e he)

/-- The next line of an open watch is the *least* version above `since`: it is yielded, becomes
    the new `since`, and nothing between the old and the new `since` exists. -/
theorem deliver_in_order (as : List Act) (e : Entry) :
    let w := run init as
    w.phase = .streaming → nextEntry w.log w.since = some e →
      (step w .deliver).outs = .event e.kind e.key e.rv :: w.outs ∧ (step w .deliver).since = e.rv ∧
      ∀ e' ∈ w.log, w.since < e'.rv → e.rv ≤ e'.rv := by
  intro w hph hn
  refine ⟨by simp [step, hph, hn, emit], by simp [step, hph, hn, emit], ?_⟩
  intro e' he' hgt
  by_cases hle : e'.rv ≤ e.rv
  · rcases nextEntry_least (inv_run inv_init as).sorted hn e' he' hle with h | h
    · omega
    · subst h; exact Nat.le_refl _
  · omega

example : (run init [.wake, .change 1 .added true, .respond, .respond, .change 1 .modified true,
    .change 2 .added true, .deliver]).outs.head? = some (.event .modified 1 2) := by decide

/-- **Resume point.** Every watch request carries exactly the latest version seen before it (the rv
    of the most recent listing / event / bookmark) — never an older, never a newer one. -/
theorem resume_point (as : List Act) : resumeOK (run init as).outs = true :=
  (inv_run inv_init as).resume

example : resumeOK [.reqWatch 7, .bookmark 7, .event .modified 1 5, .reqWatch 3, .listed 3, .reqList] = true := by decide
example : resumeOK [.reqWatch 5, .bookmark 7, .event .modified 1 5, .reqWatch 3, .listed 3, .reqList] = false := by decide

/-- **Too old (410) → re-list — both forms.** An ERROR 410 line in the middle of a stream, and the
    answer to a too-old `since` — whether the server sends it as an in-stream ERROR event or as HTTP 410
    on the watch request itself (`w.http410` is not constrained) — end the stream without an exception;
    after the backoff the client lists afresh (unless paused: then it waits, and lists on un-pause —
    `fresh_list_on_resume`). The listing then covers everything: `relist_covers_everything`. -/
theorem relist_on_410 (w : World) :
    (w.phase = .streaming →
        (step w .err410).phase = .backoff ∧ (step w .err410).outs = w.outs) ∧
    (w.phase = .connecting → w.since < w.horizon →
        (step w .respond).phase = .backoff ∧ (step w .respond).outs = w.outs) ∧
    (w.phase = .backoff → w.paused = false →
        (step w .wake).phase = .listing ∧ (step w .wake).outs = .reqList :: w.outs) := by
  refine ⟨?_, ?_, ?_⟩
  · intro h; simp [step, h, toBackoff]
  · intro h hs
    by_cases hp : w.pauseSeen = true <;> by_cases hh : w.http410 = true <;> simp [step, h, hs, hh, hp, toBackoff]
  · intro h hp; simp [step, h, hp, startListing, emit]

/-- A listing covers everything the server holds at that moment: after it nothing is missing. -/
theorem relist_covers_everything (as : List Act) :
    let w := run init as
    w.phase = .listing → ∀ e ∈ (step w .respond).log, Covered (step w .respond) e := by
  intro w hph e he
  have h : Inv (step w .respond) := inv_step (inv_run inv_init as) _
  have hlog : (step w .respond).log = w.log := by
    simp only [step, hph, rewatch]; split <;> rfl
  have hl : (step w .respond).listRv = w.srv := by
    simp only [step, hph, rewatch]; split <;> rfl
  rw [hlog] at he
  left
  rw [hl]
  exact (inv_run inv_init as).bound e he

/-- **HTTP 410 never kills the stream.** No request answer `respond` (this is the act that carries the
    HTTP 410) ever makes the client fail: the only exits to `failed` are an unknown ERROR event, a
    non-JSON line, and a fatal (non-410, non-429) API error. -/
theorem respond_never_fails (w : World) (h : w.phase ≠ .failed) : (step w .respond).phase ≠ .failed := by
  cases hph : w.phase <;> simp [step, hph, rewatch, toBackoff, emit] <;> (repeat' split) <;> simp_all

/-- The former witness of the HTTP-form defect (kopf before e006454), now a regression example: list,
    watch, an undelivered change, EOF, compaction, HTTP 410 on the re-watch — the client backs off,
    re-lists, and the change reaches the consumer through the listing; the same holds in in-stream mode. -/
example :
    let w := run init [.wake, .respond, .respond, .setHttp410 true, .change 1 .added true, .drop .eof, .compact 1,
                       .respond, .wake, .respond]
    w.phase = .connecting ∧ w.outs.head? = some (.reqWatch 1) ∧ Out.item 1 1 ∈ w.outs ∧
      ∀ e ∈ w.log, e.rv ≤ w.listRv := by decide

example :
    let w := run init [.wake, .respond, .respond, .change 1 .added true, .drop .eof, .compact 1, .respond,
                       .wake, .respond]
    w.phase = .connecting ∧ w.outs.head? = some (.reqWatch 1) ∧ Out.item 1 1 ∈ w.outs := by decide

/-- **An unknown ERROR event is never skipped:** it raises out of the stream, at once. -/
theorem unknown_error_raises (w : World) (h : w.phase = .streaming) :
    (step w .errUnknown).phase = .failed ∧ (step w .errUnknown).outs = .raised .unknownError :: w.outs := by
  simp [step, h, fail, emit]

/-- Once an exception has left `infinite_watch`, nothing is yielded or requested any more. -/
theorem failed_is_final (w : World) (h : w.phase = .failed) (as : List Act) :
    (run w as).phase = .failed ∧ (run w as).outs = w.outs := by
  induction as generalizing w with
  | nil => exact ⟨h, rfl⟩
  | cons b bs ih =>
      have h1 : (step w b).phase = .failed ∧ (step w b).outs = w.outs := by
        cases b <;> simp only [step, h] <;> (try split) <;> simp_all
      have := ih _ h1.1
      exact ⟨this.1, by rw [← h1.2]; exact this.2⟩

/-- **While paused nothing is listed or watched.** From the moment the pause has been noticed
    (`Quiet`: the pause-waiter of the running `streaming_block` is done, or no block is running) and
    for as long as the toggle stays on, no act whatsoever — responses, failures, stream lines, EOFs,
    timeouts, the end of the backoff — makes the client send a request. -/
theorem paused_silent (w : World) (hq : Quiet w) (hp : w.paused = true) (as : List Act)
    (hres : Act.resume ∉ as) : reqCount (run w as).outs = reqCount w.outs := by
  induction as generalizing w with
  | nil => rfl
  | cons a as ih =>
      have ha : a ≠ .resume := fun h => hres (h ▸ List.mem_cons_self)
      have hrest : Act.resume ∉ as := fun h => hres (List.mem_cons_of_mem _ h)
      obtain ⟨hq', hc⟩ := quiet_step_paused hq hp a
      show reqCount (run (step w a) as).outs = reqCount w.outs
      rw [ih _ hq' (paused_step hp ha) hrest, hc]

/-- The hypothesis of `paused_silent` is met as soon as the pause is noticed, in every phase. -/
theorem pause_noticed_is_quiet (w : World) (hp : w.paused = true) : Quiet (step w .notice) := by
  unfold Quiet
  cases hph : w.phase <;> simp [step, hp, hph, toBackoff]

example : let w := run init [.wake, .respond, .respond, .pause, .notice]
    Quiet w ∧ w.paused = true ∧ w.phase = .backoff := by
  refine ⟨Or.inl (by decide), by decide, by decide⟩

/-- **Watching restarts with a fresh listing on resume.** From a quiet state, whatever happens next,
    among everything observed from then on (`new`) the first request is a list — never a `watch since`
    an old version. -/
theorem fresh_list_on_resume (w : World) (hq : Quiet w) (as : List Act) :
    ∃ new, (run w as).outs = new ++ w.outs ∧ ∀ v, oldestReq new ≠ some (.reqWatch v) := by
  refine ⟨(run { w with outs := [] } as).outs, run_outs w as, ?_⟩
  intro v
  have h0 : FirstIsList { w with outs := [] } := Or.inr ⟨rfl, hq⟩
  rcases firstIsList_run h0 as with h | ⟨h, _⟩ <;> rw [h] <;> simp

/-- `outs` is only a record: no reaction reads it. -/
theorem outs_is_ghost (w : World) (os : List Out) (a : Act) :
    step { w with outs := os } a
      = { step { w with outs := [] } a with outs := (step { w with outs := [] } a).outs ++ os } :=
  step_ghost w os a

example : oldestReq (run { (run init [.wake, .respond, .respond, .pause, .notice]) with outs := [] }
    [.wake, .change 1 .added true, .resume, .unblock, .respond]).outs = some .reqList := by decide
example : (run init [.wake, .respond, .respond, .pause, .notice, .wake, .change 1 .added true, .resume, .unblock, .respond]).outs
    = [.reqWatch 1, .listed 1, .item 1 1, .reqList, .reqWatch 0, .listed 0, .reqList] := by decide

/-! ## Across watches: the ensemble -/

open Ens

/-- One `adjust_tasks`, as sets of keys: what stays is what was there and is not redundant; what is
    added is exactly the missing targets. -/
theorem adjust_keys (e : Ensemble) (ins : Insights) (k : Key) :
    k ∈ (adjust e ins).keys ↔ (Live e k ∧ remaining ins k = true) ∨ Target ins k :=
  adjust_keys_iff

/-- **At most one watch per key**, for every history of revisions and of tasks dying on their own. -/
theorem watchers_nodup (evs : List Ev) : (runEvs Ens.empty evs).keys.Nodup :=
  runEvs_nodup (by simp [Ens.empty, Ensemble.keys])

/-- A watch that stays served and is still running is not restarted (same task); every other task of
    the result is fresh. -/
theorem kept_tasks_kept (e : Ensemble) (ins : Insights) :
    (∀ t ∈ e.watchers, remaining ins t.1 = true → t.2 ∉ e.dead → t ∈ (adjust e ins).watchers) ∧
    (∀ t ∈ (adjust e ins).watchers, (t ∈ e.watchers ∧ remaining ins t.1 = true ∧ t.2 ∉ e.dead) ∨ e.next ≤ t.2) := by
  unfold adjust
  obtain ⟨h1, h2⟩ := @spawn_watchers (pairs ins) (terminate e ins)
  constructor
  · intro t ht hr hd
    exact h1 t (terminate_watchers.mpr ⟨ht, hr, hd⟩)
  · intro t ht
    rcases h2 t ht with h | h
    · exact Or.inl (terminate_watchers.mp h)
    · exact Or.inr h

/-- **After a pass every served pair has a live watcher, and no dead task is left** — for every history
    in which watcher tasks may die on their own (HTTP 404 while a CRD is away, …) at any time between
    the passes: a dead task under a still-served key is replaced, not kept (kopf 9ef1bcb; before it the
    key of the dead task blocked the respawn: C19-F4). -/
theorem served_pairs_have_live_watcher (evs : List Ev) (ins : Insights) :
    let e := runEvs Ens.empty (evs ++ [.pass ins])
    (∀ k, Target ins k → Live e k) ∧ (∀ t ∈ e.watchers, t.2 ∉ e.dead) := by
  intro e
  have he : e = adjust (runEvs Ens.empty evs) ins := runEvs_append _ _ _
  have hb : Below (runEvs Ens.empty evs) := below_runEvs below_empty
  have hall := adjust_all_live hb ins
  rw [← he] at hall
  refine ⟨?_, hall⟩
  intro k hk
  have hmem : k ∈ e.keys := by rw [he]; exact adjust_keys_iff.mpr (Or.inr hk)
  obtain ⟨i, hi⟩ := mem_keys.mp hmem
  exact ⟨i, hi, hall (k, i) hi⟩

/-- the C19-F4 situation: the CRD goes away, the watcher dies on 404, the CRD is back before any pass
    has seen it absent — the next pass replaces the dead task (task 0 → task 1) -/
example :
    let e := runEvs Ens.empty [.pass ⟨[⟨"ct", false⟩], [some "a"]⟩, .die ("ct", none), .pass ⟨[⟨"ct", false⟩], [some "a"]⟩]
    e.watchers = [(("ct", none), 1)] ∧ e.dead = [0] := by decide

/-- the operator serves the whole cluster: `insights.namespaces = {None}` at every revision -/
def Clusterwide (h : List Insights) : Prop := ∀ ins ∈ h, ins.namespaces = [none]
/-- the operator serves named namespaces: `None` is never among them -/
def Namespaced (h : List Insights) : Prop := ∀ ins ∈ h, none ∉ ins.namespaces
/-- a resource (group, version, plural) does not change its scope during the history -/
def ScopeStable (h : List Insights) : Prop :=
  ∀ i ∈ h, ∀ j ∈ h, ∀ r ∈ i.watched, ∀ r' ∈ j.watched, r.name = r'.name → r.namespaced = r'.namespaced

/-- **Exactly the served pairs are watched**, after every history of additions and removals of
    resources and namespaces: the watcher keys are `{(r, ns) | r served, ns served}` with `ns := None`
    for cluster-scoped `r` — nothing else, nothing missing (and each once: `watchers_nodup`).

    Full statement wanted by the property: the same without the guard "some namespace is served or no
    served resource is cluster-scoped". That is false of the code: `terminate_redundancies` always keeps
    namespace `None` (`insights.namespaces | {None}`), see `exactly_one_watch_lingering_witness`. -/
theorem exactly_one_watch_partial (pre : List Ev) (last : Insights)
    (hscope : ScopeStable (pre.flatMap Ev.insights ++ [last]))
    (hmode : Clusterwide (pre.flatMap Ev.insights ++ [last]) ∨
      (Namespaced (pre.flatMap Ev.insights ++ [last]) ∧ (last.namespaces ≠ [] ∨ ∀ r ∈ last.watched, r.namespaced = true)))
    (k : Key) :
    k ∈ (runEvs Ens.empty (pre ++ [.pass last])).keys ↔ Target last k := by
  rw [runEvs_append, adjust_keys_iff]
  constructor
  · rintro (⟨hk, hr⟩ | h)
    · obtain ⟨ins0, hi0, r0, hr0, n0, hn0, hk0⟩ :=
        origin (hist0 := []) (evs := pre) (e := Ens.empty) (by simp [Ens.empty, Ensemble.keys]) k (live_mem_keys hk)
      simp only [List.nil_append] at hi0
      obtain ⟨hns, r, hrw, hname⟩ := remaining_iff.mp hr
      have hi0' : ins0 ∈ pre.flatMap Ev.insights ++ [last] := List.mem_append_left _ hi0
      have hl' : last ∈ pre.flatMap Ev.insights ++ [last] := by simp
      have hsc : r0.namespaced = r.namespaced :=
        hscope ins0 hi0' last hl' r0 hr0 r hrw (by rw [hname, hk0]; rfl)
      subst hk0
      cases hnsd : r0.namespaced
      · -- cluster-scoped: the key is (name, None); it is a target iff some namespace is served
        have hrn : r.namespaced = false := by rw [← hsc, hnsd]
        have hne : ∃ n, n ∈ last.namespaces := by
          rcases hmode with hc | ⟨_, hg | hg⟩
          · exact ⟨none, by rw [hc last hl']; simp⟩
          · cases hl : last.namespaces with
            | nil => exact absurd hl hg
            | cons n _ => exact ⟨n, by simp⟩
          · have := hg r hrw; rw [hrn] at this; cases this
        obtain ⟨n, hn⟩ := hne
        refine ⟨r, hrw, n, hn, ?_⟩
        simp only [dkey, hnsd, hrn] at hname ⊢
        simp [hname]
      · -- namespaced: the key is (name, n0)
        have hrn : r.namespaced = true := by rw [← hsc, hnsd]
        simp only [dkey, hnsd, if_true] at hns hname
        have hin : n0 ∈ last.namespaces := by
          rcases hns with h | h
          · exact h
          · rcases hmode with hc | ⟨hn, _⟩
            · rw [hc last hl', h]; simp
            · exact absurd (h ▸ hn0) (hn ins0 hi0')
        refine ⟨r, hrw, n0, hin, ?_⟩
        simp only [dkey, hnsd, hrn, if_true]
        simp [hname]
    · exact h
  · intro h
    exact Or.inr h

/-- the hypotheses are met by a namespaced operator whose namespaces and kinds come and go -/
example :
    let pre : List Ev := [.pass ⟨[⟨"kex", true⟩, ⟨"ct", false⟩], [some "a", some "b"]⟩, .die ("kex", some "b"),
                          .pass ⟨[⟨"ct", false⟩], [some "a"]⟩]
    let last : Insights := ⟨[⟨"kex", true⟩, ⟨"ct", false⟩], [some "b"]⟩
    ScopeStable (pre.flatMap Ev.insights ++ [last]) ∧ Namespaced (pre.flatMap Ev.insights ++ [last]) ∧ last.namespaces ≠ [] ∧
    (runEvs Ens.empty (pre ++ [.pass last])).watchers = [(("ct", none), 2), (("kex", some "b"), 3)] := by
  refine ⟨?_, ?_, by decide, by decide⟩
  · unfold ScopeStable; decide
  · unfold Namespaced; decide

/-- a cluster-wide operator with two namespaced kinds and one cluster-scoped kind, one of them removed and re-added -/
example : (runHist Ens.empty
    [⟨[⟨"kex", true⟩, ⟨"ct", false⟩], [none]⟩, ⟨[⟨"ct", false⟩], [none]⟩, ⟨[⟨"kex", true⟩, ⟨"ct", false⟩], [none]⟩]).watchers
    = [(("ct", none), 1), (("kex", none), 2)] := by decide

/-- **The guard is needed.** A namespaced operator serving a cluster-scoped resource: once the last
    served namespace disappears, the watcher of the cluster-scoped resource stays (its key's namespace is
    `None`, which `terminate_redundancies` never considers redundant) although no (resource, namespace)
    pair is served any more — while the same insights reached without that namespace ever existing
    give no watcher at all. The set of watches is not a function of what is served. -/
theorem exactly_one_watch_lingering_witness :
    let served : Insights := ⟨[⟨"ct", false⟩], []⟩
    (runHist Ens.empty [⟨[⟨"ct", false⟩], [some "a"]⟩, served]).keys = [("ct", none)] ∧
    (runHist Ens.empty [served]).keys = [] ∧
    ¬ Target served ("ct", none) := by
  refine ⟨by decide, by decide, ?_⟩
  rintro ⟨_, _, n, hn, _⟩
  simp at hn


/-! ## The orchestrator around `insights.revised`: revisions arriving at any time -/

open Orch in
/-- **A revision cannot fall into a pass, and never goes unnoticed.** With the pass running under the
    lock (the code as it is): an observer can revise the insights only while the orchestrator is inside
    `wait()`, and afterwards the orchestrator is notified — a pass will follow. -/
theorem revise_wakes (ls : List Orch.Label) (s s' : Orch.State) (ins' : Insights)
    (hr : Orch.run (Orch.init true) ls = some s) (hs : Orch.step s (.revise ins') = some s') :
    (s.pc = .waiting ∨ s.pc = .notified) ∧ s'.pc = .notified ∧ s'.ins = ins' := by
  have hl := (Orch.oinv_run Orch.oinv_init hr).locked
  simp only [Orch.step] at hs
  cases hpc : s.pc <;> simp [Orch.lockFree, hpc, hl] at hs <;> subst hs <;> simp [hpc]

open Orch in
/-- A notified orchestrator can always go on: a started pass runs to its end (back to `wait()`). -/
theorem pass_progress (s : Orch.State) (h : s.pc ≠ .waiting) :
    ∃ l s', (l = .acquire ∨ l = .termDone ∨ l = .spawnAll) ∧ Orch.step s l = some s' := by
  cases hpc : s.pc with
  | waiting => exact absurd hpc h
  | notified => exact ⟨.acquire, { s with pc := .stopping s.ins }, Or.inl rfl, by simp [Orch.step, hpc]⟩
  | stopping snap => exact ⟨.termDone, { s with ens := terminate s.ens snap, pc := .spawning }, Or.inr (Or.inl rfl), by simp [Orch.step, hpc]⟩
  | spawning => exact ⟨.spawnAll, { s with ens := spawn s.ens (pairs s.ins), pc := .waiting, hist := s.hist ++ [s.ins] }, Or.inr (Or.inr rfl), by simp [Orch.step, hpc]⟩

open Orch in
/-- **No lost wake-up.** For every interleaving of observer revisions and orchestrator segments: whenever
    the orchestrator is quiescent (in `wait()`, not notified) and anything was ever revised, the ensemble
    is exactly what `adjust_tasks` over a history of insights ENDING WITH THE CURRENT ONES produces — the
    latest revision has been applied in full (one snapshot per pass, every snapshot a real revision). -/
theorem no_lost_wakeup (ls : List Orch.Label) (s : Orch.State)
    (hr : Orch.run (Orch.init true) ls = some s) (hq : Orch.Quiescent s) (hrev : s.revs ≠ []) :
    ∃ pre, s.ens = runHist Ens.empty (pre ++ [s.ins]) ∧ ∀ i ∈ pre ++ [s.ins], i ∈ s.revs := by
  have h := Orch.oinv_run Orch.oinv_init hr
  have hp := h.pcInv
  unfold Orch.Quiescent at hq
  simp only [Orch.PcInv, hq] at hp
  obtain ⟨he, hor⟩ := hp
  rcases hor with ⟨h0, _⟩ | ⟨pre, hpre⟩
  · exact absurd h0 hrev
  · exact ⟨pre, by rw [he, hpre], by rw [← hpre]; exact h.histIn⟩

open Orch in
/-- **Exactly the served pairs are watched, with revisions arriving at any time** — the asynchronous
    lift of `exactly_one_watch_partial` (same guard, stated over every revision ever made): at
    quiescence the watcher keys are the served pairs of the CURRENT insights. -/
theorem exactly_one_watch_async_partial (ls : List Orch.Label) (s : Orch.State)
    (hr : Orch.run (Orch.init true) ls = some s) (hq : Orch.Quiescent s) (hrev : s.revs ≠ [])
    (hscope : ∀ i ∈ s.revs, ∀ j ∈ s.revs, ∀ r ∈ i.watched, ∀ r' ∈ j.watched, r.name = r'.name → r.namespaced = r'.namespaced)
    (hmode : (∀ i ∈ s.revs, i.namespaces = [none]) ∨
      ((∀ i ∈ s.revs, none ∉ i.namespaces) ∧ (s.ins.namespaces ≠ [] ∨ ∀ r ∈ s.ins.watched, r.namespaced = true)))
    (k : Key) : k ∈ s.ens.keys ↔ Target s.ins k := by
  obtain ⟨pre, he, hin⟩ := no_lost_wakeup ls s hr hq hrev
  rw [he, runHist_eq_runEvs, List.map_append, List.map_cons, List.map_nil]
  apply exactly_one_watch_partial (pre.map Ev.pass) s.ins
  · rw [flatMap_insights_map_pass]
    intro i hi j hj
    exact hscope i (hin i hi) j (hin j hj)
  · rw [flatMap_insights_map_pass]
    rcases hmode with hc | ⟨hn, hg⟩
    · exact Or.inl (fun i hi => hc i (hin i hi))
    · exact Or.inr ⟨fun i hi => hn i (hin i hi), hg⟩

/-- a run with two revisions squeezed in before the orchestrator gets the lock back -/
example :
    (Orch.run (Orch.init true)
      [.revise ⟨[⟨"kex", true⟩], [some "a", some "c"]⟩, .acquire, .termDone, .spawnAll,
       .revise ⟨[⟨"kex", true⟩], [some "c"]⟩, .revise ⟨[⟨"kex", true⟩], [some "b"]⟩, .acquire, .termDone, .spawnAll]).map
      (fun s => (s.pc, s.ens.keys)) = some (.waiting, [("kex", some "b")]) := by decide

/-- under the lock a revision in the middle of a pass is simply not enabled -/
example :
    (Orch.run (Orch.init true)
      [.revise ⟨[⟨"kex", true⟩], [some "a"]⟩, .acquire, .revise ⟨[⟨"kex", true⟩], [some "b"]⟩]).isNone = true := by decide

/-- **Releasing the lock before the pass loses wake-ups.** In the variant whose pass runs outside
    `async with insights.revised` (`lockedPass = false`): ns a and c served; a is deleted → a pass starts
    and suspends stopping a's watcher (its handler is in flight); meanwhile c is deleted and b created —
    nobody waits on the condition, the notification is lost; the pass drops a with its old snapshot and
    spawns b from the live insights. The orchestrator ends quiescent watching {c, b}; served is {b}. -/
theorem unlocked_pass_loses_wakeup_witness :
    ∃ (ls : List Orch.Label) (s : Orch.State),
      Orch.run (Orch.init false) ls = some s ∧ Orch.Quiescent s ∧
      s.ens.keys = [("kex", some "c"), ("kex", some "b")] ∧ ¬ Target s.ins ("kex", some "c") := by
  refine ⟨[.revise ⟨[⟨"kex", true⟩], [some "a", some "c"]⟩, .acquire, .termDone, .spawnAll,
           .revise ⟨[⟨"kex", true⟩], [some "c"]⟩, .acquire,
           .revise ⟨[⟨"kex", true⟩], [some "b"]⟩, .termDone, .spawnAll], _, rfl, by unfold Orch.Quiescent; decide, by decide, ?_⟩
  rintro ⟨r, hr, n, hn, hk⟩
  simp at hr hn
  subst hr hn
  simp [dkey] at hk

end Kopf.C19
