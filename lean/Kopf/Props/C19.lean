/-
  C19 — Watch coverage and continuity under reconnects, 410s, pauses and cluster changes.
  Property theorems only. `run init as` ranges over EVERY script `as : List Act` of the adversary
  (object changes, deliveries, bookmarks, EOF / connection errors / timeouts, in-stream and HTTP 410,
  request failures and re-sent attempts, unknown ERROR, garbage, compaction, pause / notice / resume /
  unblock timing); `runEvs empty evs` over EVERY history of revised insights and of watcher tasks dying on
  their own; `Orch.run (Orch.init true) ls` over EVERY interleaving of observer revisions, task deaths
  and the orchestrator's segments. No bound on lengths or versions.
  Statement vocabulary: `Covered`, `viewOf`, `stateAt`, `Quiet`, `recover`, `resumeOK`, `oldestReq`,
  `reqCount`, `attemptCount` (Model/C19_Watch); `evView`, `AllDelivered`, `OnlyChanges`, `reviseAll`, `lastWord`, `NsEv.exists_` (Model/C19_Insights); `servedOf`, `patchKinds`, `NoCoreReadOnly` (Model/C19_Resources); `Target`, `Live`, `remaining` (Model/C19_Ensemble);
  `Quiescent` (Model/C19_Orchestrator); `RelistsAfter` (Model/C19_Watch); `Clusterwide`, `Namespaced`, `ScopeStable` (here).
-/
import Kopf.Lemmas.C19_Insights
import Kopf.Lemmas.C19_Ensemble
import Kopf.Lemmas.C19_Orchestrator
import Kopf.Lemmas.C19_OrchSkip
import Kopf.Model.C19_Wiring
import Kopf.Lemmas.C19_Resources
import Kopf.Lemmas.C19_Discovery
namespace Kopf.C19

/-! ## Within one watch -/

/-- **The consumer's knowledge is the server's state at `since`** — at every moment, for every object,
    whatever the adversary did. "Knowledge" = the last thing the consumer was handed about the object:
    a watch event, or its presence/absence in the latest completed listing (`viewOf`); the server's state
    at version `since` = the latest stored version not above `since`, if it is not a deletion
    (`stateAt`). So nothing up to `since` is missing or stale, and `since` never passes the server. -/
theorem consumer_view_is_server_state (as : List Act) (k : Nat) :
    let w := run init as
    viewOf w.outs k = stateAt w.log w.since k ∧ w.since ≤ w.srv :=
  ⟨(vinv_run as inv_init vinv_init).view k, (inv_run inv_init as).since_le⟩

/-- **No change is skipped (invariant, per stored version).** Every stored version up to `since` has
    reached the consumer — as a watch event, or through a listing made at or after it (what such a
    listing hands over: `listing_yields_live`; what it means for the consumer's knowledge:
    `consumer_view_is_server_state`). Versions above `since` are the ones a `watch since` will still be
    sent (`deliver_in_order`) or a re-list will cover. -/
theorem no_skip_inv (as : List Act) :
    let w := run init as
    w.listRv ≤ w.since ∧ w.since ≤ w.srv ∧ ∀ e ∈ w.log, e.rv ≤ w.since → Covered w e := by
  have h := inv_run inv_init as
  exact ⟨h.list_le, h.since_le, h.cover⟩

/-- **No change is lost (quiescence).** Whenever the stream is open and the server has nothing more to
    send, the consumer knows the CURRENT state of every object (its final version, or that it is gone),
    and every version ever stored was delivered as an event or covered by a listing.
    (Safety at quiescence; that quiescence can always be reached: `quiescence_reachable`.) -/
theorem no_skip (as : List Act) :
    let w := run init as
    w.phase = .streaming → nextEntry w.log w.since = none →
      (∀ k, viewOf w.outs k = stateAt w.log w.srv k) ∧ ∀ e ∈ w.log, Covered w e := by
  intro w _ hn
  have hall := nextEntry_none hn
  refine ⟨?_, fun e he => (inv_run inv_init as).cover e he (hall e he)⟩
  intro k
  rw [(vinv_run as inv_init vinv_init).view k]
  unfold stateAt
  rw [filter_le_of_bound hall, filter_le_of_bound (inv_run inv_init as).bound]

example :
    let w := run init [.wake, .change 1 .added true, .respond, .respond, .change 2 .added true, .change 1 .deleted true,
                       .deliver, .deliver]
    w.phase = .streaming ∧ nextEntry w.log w.since = none ∧ viewOf w.outs 1 = none ∧ viewOf w.outs 2 = some 2 := by
  decide

/-- **What a listing hands over.** When a listing is answered, the consumer gets — before anything
    else, each exactly once, followed by `LISTED` with the listing's resourceVersion — one item for
    every object whose latest stored version is not a deletion, carrying that version; nothing for
    deleted objects; and then (unless a pause was noticed) the watch request from that very version. -/
theorem listing_yields_live (as : List Act) :
    let w := run init as
    w.phase = .listing →
      ∃ blk, (step w .respond).outs
              = (if w.pauseSeen then [] else [Out.reqWatch w.srv]) ++ (.listed w.srv :: blk ++ w.outs) ∧
        blk.Nodup ∧
        ∀ o, o ∈ blk ↔ ∃ e, lastOf w.log e.key = some e ∧ e.kind ≠ .deleted ∧ o = .item e.key e.rv := by
  intro w hph
  refine ⟨itemsBlock w.log, respond_listing_outs w hph, itemsBlock_nodup (inv_run inv_init as).sorted, ?_⟩
  intro o
  rw [itemsBlock_mem]
  constructor
  · rintro ⟨e, he, rfl⟩
    have := mem_liveItems.mp he
    exact ⟨e, this.2.2, this.2.1, rfl⟩
  · rintro ⟨e, hl, hd, rfl⟩
    exact ⟨e, mem_liveItems.mpr ⟨(lastOf_mem hl).1, hd, hl⟩, rfl⟩

example : (run init [.wake, .change 1 .added true, .change 2 .added true, .change 1 .modified true,
    .change 2 .deleted true, .respond]).outs = [.reqWatch 4, .listed 4, .item 1 3, .reqList] := by decide

/-- **The limit of list+watch: a deletion inside a re-list gap is never announced.** The object was
    handed to the consumer (listed), is deleted while the stream is down (here: after an in-stream 410,
    before the re-list; the same in a pause or a backoff), and the fresh listing simply does not contain
    it: the stream is open again, nothing is pending, every version counts as covered, the consumer's
    knowledge as *defined by `viewOf`* is right (absent) — but no `DELETED` for it was yielded (see
    `outs`), and none is pending (events come only from `deliver`: `deliver_in_order`). kopf's consumers do not diff a listing against what they hold, so handlers, indices and
    memories of that object are never told (finding C19-F5). -/
theorem deleted_in_relist_gap_witness :
    let w := run init [.wake, .change 1 .added true, .respond, .respond, .err410, .change 1 .deleted true,
                       .wake, .respond, .respond]
    w.phase = .streaming ∧ nextEntry w.log w.since = none ∧
    w.outs = [.reqWatch 2, .listed 2, .reqList, .reqWatch 1, .listed 1, .item 1 1, .reqList] ∧
    (⟨2, 1, .deleted⟩ : Entry) ∈ w.log ∧ Covered w ⟨2, 1, .deleted⟩ ∧ viewOf w.outs 1 = none := by
  refine ⟨by decide, by decide, by decide, by decide, Or.inl (by decide), by decide⟩

/-- The next line of an open watch is the *least* version above `since`: it is yielded, becomes
    the new `since`, and nothing between the old and the new `since` exists. -/
theorem deliver_in_order (as : List Act) (e : Entry) :
    let w := run init as
    w.phase = .streaming → nextEntry w.log w.since = some e →
      (step w .deliver).outs = .event e.kind e.key e.rv :: w.outs ∧ (step w .deliver).since = e.rv ∧
      ∀ e' ∈ w.log, w.since < e'.rv → e.rv ≤ e'.rv := by
  intro w hph hn
  refine ⟨by simp [step, hph, hn, emit], by simp [step, hph, hn, emit], ?_⟩
  intro e' he' hgt
  by_cases hle : e'.rv ≤ e.rv
  · rcases nextEntry_least (inv_run inv_init as).sorted hn e' he' hle with h | h
    · omega
    · subst h; exact Nat.le_refl _
  · omega

example : (run init [.wake, .change 1 .added true, .respond, .respond, .change 1 .modified true,
    .change 2 .added true, .deliver]).outs.head? = some (.event .modified 1 2) := by decide

/-- **Resume point.** Every watch request carries exactly the latest version seen before it (the rv
    of the most recent listing / event / bookmark) — never an older, never a newer one. -/
theorem resume_point (as : List Act) : resumeOK (run init as).outs = true :=
  (inv_run inv_init as).resume

example : resumeOK [.reqWatch 7, .bookmark 7, .event .modified 1 5, .reqWatch 3, .listed 3, .reqList] = true := by decide
example : resumeOK [.reqWatch 5, .bookmark 7, .event .modified 1 5, .reqWatch 3, .listed 3, .reqList] = false := by decide

/-- **Too old (410) → re-list — both forms, run-level.** An ERROR 410 line in the middle of a stream, and
    the answer to a too-old `since` — whether the server sends it as an in-stream ERROR event or as HTTP
    410 on the watch request itself (`w.http410` is not constrained; a noticed pause does not matter
    either) — end the stream without an exception, and from then on, for every continuation, the first
    request is a fresh listing (`RelistsAfter`). What that listing hands over: `listing_yields_live`. -/
theorem relist_on_410 (w : World) :
    (w.phase = .streaming → RelistsAfter w (step w .err410)) ∧
    (w.phase = .connecting → w.since < w.horizon → RelistsAfter w (step w .respond)) := by
  refine ⟨?_, ?_⟩
  · intro h
    exact relistsAfter_of_backoff (by simp [step, h, toBackoff]) (by simp [step, h, toBackoff])
  · intro h hs
    apply relistsAfter_of_backoff <;>
      by_cases hp : w.pauseSeen = true <;> by_cases hh : w.http410 = true <;> simp [step, h, hs, hh, hp, toBackoff]

/-- **HTTP 410 never kills the stream.** No request answer `respond` (this is the act that carries the
    HTTP 410) ever makes the client fail: the only exits to `failed` are an unknown ERROR event, a
    non-JSON line, and a fatal (non-410, non-429) API error. -/
theorem respond_never_fails (w : World) (h : w.phase ≠ .failed) : (step w .respond).phase ≠ .failed := by
  cases hph : w.phase <;> simp [step, hph, rewatch, toBackoff, emit] <;> (repeat' split) <;> simp_all

/-- The former witness of the HTTP-form defect (kopf before e006454), now a regression example: list,
    watch, an undelivered change, EOF, compaction, HTTP 410 on the re-watch — the client backs off,
    re-lists, and the change reaches the consumer through the listing; the same holds in in-stream mode. -/
example :
    let w := run init [.wake, .respond, .respond, .setHttp410 true, .change 1 .added true, .drop .eof, .compact 1,
                       .respond, .wake, .respond]
    w.phase = .connecting ∧ w.outs.head? = some (.reqWatch 1) ∧ Out.item 1 1 ∈ w.outs ∧
      ∀ e ∈ w.log, e.rv ≤ w.listRv := by decide

example :
    let w := run init [.wake, .respond, .respond, .change 1 .added true, .drop .eof, .compact 1, .respond,
                       .wake, .respond]
    w.phase = .connecting ∧ w.outs.head? = some (.reqWatch 1) ∧ Out.item 1 1 ∈ w.outs := by decide

/-- **An unknown ERROR event is never skipped:** it raises out of the stream, at once. (Since kopf
    9ef1bcb the failed watcher then stops the whole operator: C20 `stream_failure_stops_all`.) -/
theorem unknown_error_raises (w : World) (h : w.phase = .streaming) :
    (step w .errUnknown).phase = .failed ∧ (step w .errUnknown).outs = .raised .unknownError :: w.outs := by
  simp [step, h, fail, emit]

/-- Once an exception has left `infinite_watch`, nothing is yielded or requested any more (nor is any
    later change covered: `no_skip` is about open streams; what becomes of the operator is C20's subject). -/
theorem failed_is_final (w : World) (h : w.phase = .failed) (as : List Act) :
    (run w as).phase = .failed ∧ (run w as).outs = w.outs := by
  induction as generalizing w with
  | nil => exact ⟨h, rfl⟩
  | cons b bs ih =>
      have h1 : (step w b).phase = .failed ∧ (step w b).outs = w.outs := by
        cases b <;> simp only [step, h] <;> (try split) <;> simp_all
      have := ih _ h1.1
      exact ⟨this.1, by rw [← h1.2]; exact this.2⟩

/-- **While paused nothing is listed or watched.** From the moment the pause has been noticed (`Quiet`) and
    for as long as the toggle stays on, NOTHING is observed, whatever the server, the network and the clocks
    do: no request is started, no attempt of an earlier request is re-sent, no listed item, no watch event,
    no bookmark is yielded — the record of observations does not change at all. A listing in progress
    (even asleep between its retries) and a pending watch request are cancelled at the notice, an open
    response is closed (kopf d8da165 for the watch request, 64c8f5e for the listing; before them the
    attempts went on and a late listing was yielded while paused: C19-F2, now a regression case).
    Not covered: between `.pause` and `.notice` (the waiter task has not run yet) requests may still go out. -/
theorem paused_silent (pre : List Act) (hq : Quiet (run init pre)) (hp : (run init pre).paused = true)
    (as : List Act) (hres : Act.resume ∉ as) :
    (run (run init pre) as).outs = (run init pre).outs := by
  have hc : ConnFresh (run init pre) := connFresh_run connFresh_init pre
  generalize run init pre = w at hq hp hc
  induction as generalizing w with
  | nil => rfl
  | cons a as ih =>
      have ha : a ≠ .resume := fun h => hres (h ▸ List.mem_cons_self)
      have hrest : Act.resume ∉ as := fun h => hres (List.mem_cons_of_mem _ h)
      show (run (step w a) as).outs = _
      rw [ih hrest (step w a) (quiet_step_paused hq hp a).1 (paused_step hp ha) (connFresh_step hc a),
        quiet_paused_step_outs hq hc hp a]

/-- the former witnesses of C19-F2 (a listing, resp. a watch request, in its retry loop when the pause is
    noticed; a listing answered during the pause), now regression examples: nothing is re-sent or yielded -/
example :
    let w := run init [.wake, .retry, .pause, .notice]
    Quiet w ∧ w.paused = true ∧ w.phase = .backoff ∧
    (run w [.retry, .respond, .change 1 .added true, .wake, .retry, .respond]).outs = w.outs := by
  refine ⟨Or.inl (by decide), by decide, by decide, by decide⟩

example :
    let w := run init [.wake, .respond, .drop .eof, .retry, .pause, .notice]
    w.phase = .backoff ∧ Quiet w ∧ (run w [.retry, .wake, .retry, .respond, .deliver]).outs = w.outs := by
  refine ⟨by decide, Or.inr (Or.inl (by decide)), by decide⟩

/-- The hypothesis of `paused_silent` is met as soon as the pause is noticed, in every phase. -/
theorem pause_noticed_is_quiet (w : World) (hp : w.paused = true) : Quiet (step w .notice) := by
  unfold Quiet
  cases hph : w.phase <;> simp [step, hp, hph, toBackoff]

example : let w := run init [.wake, .respond, .respond, .pause, .notice]
    Quiet w ∧ w.paused = true ∧ w.phase = .backoff := by
  refine ⟨Or.inl (by decide), by decide, by decide⟩

/-- **Watching restarts with a fresh listing on resume.** From a quiet state (pause noticed, or between
    two streaming blocks), whatever happens next, among everything observed from then on (`new`) the
    first request is a list — never a `watch since` an old version. (Safety; that it does restart under a
    cooperative environment: `quiescence_reachable`.) -/
theorem fresh_list_on_resume (w : World) (hq : Quiet w) (as : List Act) :
    ∃ new, (run w as).outs = new ++ w.outs ∧ ∀ v, oldestReq new ≠ some (.reqWatch v) := by
  refine ⟨(run { w with outs := [] } as).outs, run_outs w as, ?_⟩
  intro v
  have h0 : FirstIsList { w with outs := [] } := Or.inr ⟨rfl, hq⟩
  rcases firstIsList_run h0 as with h | ⟨h, _⟩ <;> rw [h] <;> simp

example : (run init [.wake, .respond, .respond, .pause, .notice, .wake, .change 1 .added true, .resume, .unblock, .respond]).outs
    = [.reqWatch 1, .listed 1, .item 1 1, .reqList, .reqWatch 0, .listed 0, .reqList] := by decide

/-- **Quiescence is reachable (possibility).** From every state that has not failed — paused, blocked,
    in a backoff, mid-request, streaming with a backlog, after any faults — a cooperative environment
    (`recover`: un-pause, end what is going on, let the backoff pass, answer the listing and the watch
    request) brings the client to an open stream with nothing pending; there `no_skip` applies: the
    consumer knows the current state of every object. No fairness is assumed or proved: the adversary may
    also never cooperate. -/
theorem quiescence_reachable (as : List Act) :
    let w := run init as
    w.phase ≠ .failed →
      let w' := run w recover
      w'.phase = .streaming ∧ nextEntry w'.log w'.since = none ∧ w'.paused = false ∧
      ∀ k, viewOf w'.outs k = stateAt w'.log w'.srv k := by
  intro w hnf w'
  have hi : Inv w := inv_run inv_init as
  have hv : VInv w := vinv_run as inv_init vinv_init
  have hsplit : w' = run (run w [.resume, .err410, .failReq .tooMany, .unblock, .wake]) [.respond, .respond] := by
    show run w recover = _
    exact run_append w [.resume, .err410, .failReq .tooMany, .unblock, .wake] [.respond, .respond]
  obtain ⟨h1, h2, h3, h4, h5, h6⟩ := recover_to_listing w hnf
  obtain ⟨g1, g2, g3⟩ := listing_to_streaming _ h1 h2 (by rw [h5, h6]; exact hv.hor)
    (by rw [h4, h5]; exact hi.bound)
  rw [← hsplit] at g1 g2 g3
  refine ⟨g1, g2, by rw [g3, h3], ?_⟩
  have hrun : w' = run init (as ++ recover) := by
    show run (run init as) recover = _
    rw [run_append]
  have := no_skip (as ++ recover)
  simp only [] at this
  rw [← hrun] at this
  exact (this g1 g2).1

example : let w := run (run init [.wake, .change 1 .added true, .respond, .pause, .notice, .respond, .change 1 .modified true]) recover
    w.phase = .streaming ∧ viewOf w.outs 1 = some 2 := by decide


/-! ## From the cluster to the insights: which namespaces are served -/

/-- **The served namespaces follow the cluster — partial.** `insights.namespaces` (`evView`: the observer's
    own listing, then the EVENTS of the namespace watch-stream; its listings are ignored) equals the
    cluster's namespaces as of the stream's position, for every history of the cluster before the start
    (`pre`), and every adversary script afterwards — under the exact guard `AllDelivered`: every change
    since the observer's own listing went through the stream as an event. At quiescence that is the
    CURRENT set of namespaces.

    Full statement wanted by the property ("for every history of namespace additions and removals … served
    pair"): the same without the guard. False of the code: `listed_namespace_ignored_witness` (C19-F8). -/
theorem insights_follow_cluster_partial (pre as : List Act) (hpre : OnlyChanges pre) :
    let w0 := run init pre
    let w := run w0 as
    AllDelivered w0.srv w →
      (∀ k, evView (stateAt w0.log w0.srv) w.outs k = stateAt w.log (max w0.srv w.since) k) ∧
      (w.phase = .streaming → nextEntry w.log w.since = none →
        ∀ k, evView (stateAt w0.log w0.srv) w.outs k = stateAt w.log w.srv k) := by
  intro w0 w had
  have hi0 : Inv w0 := inv_run inv_init pre
  have hI : IInv (stateAt w0.log w0.srv) w0.srv w := iinv_run as hi0 (iinv_start pre hpre)
  refine ⟨hI.main had, ?_⟩
  intro hph hn k
  rw [hI.main had k]
  have hi : Inv w := inv_run hi0 as
  have hall := nextEntry_none hn
  unfold stateAt
  have h1 : w.log.filter (fun x => decide (x.rv ≤ max w0.srv w.since)) = w.log := by
    apply filter_le_of_bound; intro e he; have := hall e he; omega
  rw [h1, filter_le_of_bound hi.bound]

/-- the guard is met by a run in which the namespaces change only while the stream is open -/
example :
    let pre : List Act := [.change 1 .added true]
    let as : List Act := [.wake, .respond, .respond, .change 2 .added true, .deliver, .change 1 .deleted true, .deliver]
    OnlyChanges pre ∧ AllDelivered (run init pre).srv (run (run init pre) as) ∧
    evView (stateAt (run init pre).log (run init pre).srv) (run (run init pre) as).outs 1 = none ∧
    evView (stateAt (run init pre).log (run init pre).srv) (run (run init pre) as).outs 2 = some 2 := by
  refine ⟨?_, ?_, by decide, by decide⟩
  · intro a ha; simp at ha; subst ha; exact ⟨1, .added, true, rfl⟩
  · intro e he h1 h2
    have : e ∈ [(⟨1, 1, .added⟩ : Entry), ⟨2, 2, .added⟩, ⟨3, 1, .deleted⟩] := he
    simp at this
    rcases this with rfl | rfl | rfl
    · exact absurd h1 (by decide)
    · decide
    · decide

/-- **The guard is needed (C19-F8): a namespace that appears or vanishes while the namespace watch is down
    is never served / never un-served.** (a) start-up: namespace 2 is created between the observer's own
    listing and the stream's first listing; (b) re-list gap: after an in-stream 410 ("This is normal"),
    during the backoff, namespace 3 is created and namespace 1 deleted. In both runs the stream is open
    again with nothing pending, the listings contained the truth (`viewOf`), but the insights still show
    the old world: 2 resp. 3 are not served, 1 is still served — until the operator restarts. -/
theorem listed_namespace_ignored_witness :
    (let pre : List Act := [.change 1 .added true]
     let w := run (run init pre) [.change 2 .added true, .wake, .respond, .respond]
     OnlyChanges pre ∧ w.phase = .streaming ∧ nextEntry w.log w.since = none ∧
     viewOf w.outs 2 = some 2 ∧ stateAt w.log w.srv 2 = some 2 ∧
     evView (stateAt (run init pre).log (run init pre).srv) w.outs 2 = none) ∧
    (let pre : List Act := [.change 1 .added true]
     let w := run (run init pre) [.wake, .respond, .respond, .err410, .change 3 .added true, .change 1 .deleted true,
                                  .wake, .respond, .respond]
     w.phase = .streaming ∧ nextEntry w.log w.since = none ∧
     stateAt w.log w.srv 3 = some 2 ∧ stateAt w.log w.srv 1 = none ∧
     evView (stateAt (run init pre).log (run init pre).srv) w.outs 3 = none ∧
     evView (stateAt (run init pre).log (run init pre).srv) w.outs 1 = some 1) := by
  refine ⟨⟨?_, by decide, by decide, by decide, by decide, by decide⟩,
    ⟨by decide, by decide, by decide, by decide, by decide, by decide⟩⟩
  intro a ha; simp at ha; subst ha; exact ⟨1, .added, true, rfl⟩

/-! ### Terminating namespaces: `revise_namespaces` reads deletionTimestamp + status.conditions -/

theorem mem_nsAdd {served : List Nat} {k x : Nat} : x ∈ nsAdd served k ↔ x = k ∨ x ∈ served := by
  unfold nsAdd
  by_cases hc : served.contains k = true
  · rw [if_pos hc]
    have : k ∈ served := by simpa using hc
    constructor
    · exact Or.inr
    · rintro (h | h)
      · exact h ▸ this
      · exact h
  · rw [if_neg hc]; simp

theorem mem_reviseNs_of_ne {served : List Nat} {e : NsEv} {k : Nat} (h : k ≠ e.key) :
    k ∈ reviseNs served e ↔ k ∈ served := by
  unfold reviseNs
  split
  · split
    · simp [mem_nsAdd, h]
    · exact Iff.rfl
  · split
    · simp [List.mem_filter, h]
    · split
      · simp [mem_nsAdd, h]
      · exact Iff.rfl

/-- one iteration of `revise_namespaces`, by membership: an item about ANOTHER namespace, and a DELETED event that
    still carries a True condition (`mute`: log only), change nothing for `k`; every other item about a matching `k`
    decides alone — served iff it says that the namespace exists -/
theorem mem_reviseNs_iff {served : List Nat} {e : NsEv} {k : Nat} (hm : e.key = k → e.matched = true) :
    k ∈ reviseNs served e ↔ (if e.key = k ∧ e.mute = false then e.exists_ = true else k ∈ served) := by
  by_cases hk : e.key = k
  · have hmt := hm hk
    obtain ⟨gone, mark, key, matched⟩ := e
    simp only at hk hmt
    subst hk hmt
    cases gone <;> cases mark <;>
      simp [reviseNs, NsEv.deleted, NsEv.blockers, NsEv.mute, NsEv.exists_, mem_nsAdd, List.mem_filter]
  · have : ¬ (e.key = k ∧ e.mute = false) := fun h => hk h.1
    rw [if_neg this]
    exact mem_reviseNs_of_ne (fun h => hk h.symm)

/-- **The served namespaces are a function of what exists, not of the order in which it was seen** — `revise_namespaces`
    characterised exactly, for EVERY sequence of items (listed bodies and events, of any namespaces, in any order, from
    any earlier contents of `insights.namespaces`): a namespace `k` that matches the operator's patterns is served iff
    the last item about it (`lastWord`: the last one that is not a DELETED-with-a-True-condition, which is only logged)
    says that it exists — not a DELETED event, and the body live or Terminating with content / finalizers remaining;
    with no such item at all, iff it was served before. Nothing else of the history matters: not what was served
    before, not how many items came, not whether the namespace was ever seen alive (kopf 40faad4; before it a namespace
    first seen while Terminating was never added: C19-F9, `old_revise_unserved_at_first_sight_regression`). -/
theorem served_iff_last_word (served : List Nat) (es : List NsEv) (k : Nat)
    (hm : ∀ e ∈ es, e.key = k → e.matched = true) :
    k ∈ reviseAll served es ↔
      match lastWord k es with
      | some e => e.exists_ = true
      | none => k ∈ served := by
  induction es generalizing served with
  | nil => exact Iff.rfl
  | cons e es ih =>
      have ih' := ih (reviseNs served e) (fun x hx => hm x (List.mem_cons_of_mem _ hx))
      show k ∈ reviseAll (reviseNs served e) es ↔ _
      rw [ih']
      simp only [lastWord]
      cases hl : lastWord k es with
      | some l => exact Iff.rfl
      | none =>
          simp only []
          rw [mem_reviseNs_iff (hm e List.mem_cons_self)]
          by_cases hc : e.key = k ∧ e.mute = false
          · rw [if_pos hc]; simp [hc.1, hc.2]
          · rw [if_neg hc]
            have : (decide (e.key = k) && !e.mute) = false := by
              by_cases hk : e.key = k
              · have : e.mute = true := by
                  cases hmu : e.mute
                  · exact absurd ⟨hk, hmu⟩ hc
                  · rfl
                simp [this]
              · simp [hk]
            simp [this]

/-- **Every existing matching namespace is served, whatever the history** (the positive statement that C19-F9 negated):
    if the last word about `k` says that it exists — in particular: Terminating with something remaining, seen for the
    FIRST time, in the start-up listing after an operator restart — `k` is in `insights.namespaces`, for every earlier
    contents and every sequence of items; and if the last word says it is gone, `k` is not. -/
theorem existing_namespace_served (served : List Nat) (es : List NsEv) (k : Nat) (e : NsEv)
    (hm : ∀ x ∈ es, x.key = k → x.matched = true) (hl : lastWord k es = some e) :
    (e.exists_ = true → k ∈ reviseAll served es) ∧ (e.exists_ = false → k ∉ reviseAll served es) := by
  have h := served_iff_last_word served es k hm
  rw [hl] at h
  simp only [] at h
  exact ⟨fun hx => h.mpr hx, fun hx hk => by have := h.mp hk; rw [hx] at this; cases this⟩

/-- the hypotheses are met by the C19-F9 situation: the start-up listing shows namespace 1 Terminating with content
    remaining (nothing was served before), other namespaces come and go, a mute DELETED item does not count -/
example :
    let es : List NsEv := [⟨false, .blocked, 1, true⟩, ⟨false, .live, 2, true⟩, ⟨true, .live, 2, true⟩, ⟨true, .blocked, 1, true⟩]
    lastWord 1 es = some ⟨false, .blocked, 1, true⟩ ∧ reviseAll [] es = [1] ∧
    lastWord 2 es = some ⟨true, .live, 2, true⟩ := by decide

/-- **Two histories that end in the same cluster serve the same namespaces**: whatever was served before and whatever
    the two sequences of items were, if the last words about a matching `k` agree on whether it exists, `k` is served in
    both or in neither. -/
theorem served_independent_of_history (served served' : List Nat) (es es' : List NsEv) (k : Nat) (e e' : NsEv)
    (hm : ∀ x ∈ es, x.key = k → x.matched = true) (hm' : ∀ x ∈ es', x.key = k → x.matched = true)
    (hl : lastWord k es = some e) (hl' : lastWord k es' = some e') (hsame : e.exists_ = e'.exists_) :
    k ∈ reviseAll served es ↔ k ∈ reviseAll served' es' := by
  have h := served_iff_last_word served es k hm
  have h' := served_iff_last_word served' es' k hm'
  rw [hl] at h; rw [hl'] at h'
  simp only [] at h h'
  rw [h, h', hsame]

/-- seen alive first, or Terminating at first sight; served before or not: the same verdict -/
example :
    let es : List NsEv := [⟨false, .live, 1, true⟩, ⟨false, .blocked, 1, true⟩]
    let es' : List NsEv := [⟨false, .blocked, 1, true⟩]
    lastWord 1 es = some ⟨false, .blocked, 1, true⟩ ∧ lastWord 1 es' = some ⟨false, .blocked, 1, true⟩ ∧
    reviseAll [] es = [1] ∧ reviseAll [] es' = [1] ∧ reviseAll [7] es' = [1, 7] := by decide

/-- **Only matching namespaces are ever added.** -/
theorem unmatched_never_added (served : List Nat) (es : List NsEv) (k : Nat) (hk : k ∈ reviseAll served es) :
    k ∈ served ∨ ∃ e ∈ es, e.key = k ∧ e.matched = true := by
  induction es generalizing served with
  | nil => exact Or.inl hk
  | cons e es ih =>
      rcases ih (reviseNs served e) hk with h | ⟨x, hx, hxk⟩
      · by_cases hke : k = e.key
        · by_cases hmt : e.matched = true
          · exact Or.inr ⟨e, List.mem_cons_self, hke.symm, hmt⟩
          · left
            have hmf : e.matched = false := by cases hh : e.matched <;> simp_all
            unfold reviseNs at h
            rw [hmf] at h
            simp only [Bool.false_and, Bool.false_eq_true, if_false] at h
            split at h
            · exact h
            · split at h
              · exact (List.mem_filter.mp h).1
              · exact h
        · exact Or.inl ((mem_reviseNs_of_ne hke).mp h)
      · exact Or.inr ⟨x, List.mem_cons_of_mem _ hx, hxk⟩

example : reviseAll [] [⟨false, .live, 5, false⟩, ⟨false, .blocked, 6, false⟩, ⟨false, .live, 1, true⟩] = [1] := by decide

/-- **A served namespace stays served for as long as it exists — through its whole Terminating phase.** Whatever is
    handed to `revise_namespaces` (listed bodies, events, of any namespaces, in any order): if every item about
    namespace `k` says that it exists (not a DELETED event; the body live, or marked for deletion with some
    condition still True), `k` stays in `insights.namespaces`. So the objects in a namespace that is being deleted
    — the ones that carry the operator's finalizers and hold the deletion up — keep being watched.
    (No hypothesis on `matched`: nothing is ever discarded by such items.) -/
theorem terminating_namespace_stays_served (served : List Nat) (es : List NsEv) (k : Nat)
    (hk : k ∈ served) (hex : ∀ e ∈ es, e.key = k → e.exists_ = true) : k ∈ reviseAll served es := by
  induction es generalizing served with
  | nil => exact hk
  | cons e es ih =>
      apply ih
      · by_cases hke : k = e.key
        · have hx := hex e (by simp) hke.symm
          obtain ⟨gone, mark, key, matched⟩ := e
          simp only at hke
          subst hke
          cases gone <;> cases mark <;> cases matched <;> simp [NsEv.exists_] at hx <;>
            simp [reviseNs, NsEv.deleted, NsEv.blockers, mem_nsAdd, hk]
        · exact (mem_reviseNs_of_ne hke).mpr hk
      · intro e' he' hk'
        exact hex e' (by simp [he']) hk'

/-- the hypothesis is met through a realistic deletion: live, marked + blocked (twice), and other namespaces coming
    and going meanwhile; the namespace leaves the insights only with the item that says nothing remains -/
example :
    reviseAll [1, 2] [⟨false, .blocked, 1, true⟩, ⟨true, .live, 2, true⟩, ⟨false, .live, 3, true⟩, ⟨false, .blocked, 1, true⟩] = [3, 1] ∧
    reviseAll [3, 1] [⟨false, .finishing, 1, true⟩, ⟨true, .finishing, 1, true⟩] = [3] := by decide

/-- An item that says the namespace is gone — a DELETED event, or a Terminating body with no condition True — and
    carries no blocker removes it. -/
theorem namespace_gone_unserved (served : List Nat) (e : NsEv) (hd : e.deleted = true) (hb : e.blockers = false) :
    e.key ∉ reviseNs served e := by
  unfold reviseNs
  simp [hd, hb, List.mem_filter]

/-- **Regression: kopf before 40faad4 (C19-F9, fixed).** The old loop (`reviseNsOld`: `deleted and blockers` → log only)
    never adds a namespace that is ALREADY Terminating with something remaining when it is first seen, and no later item
    about it adds it while it stays blocked — while the same cluster state was served when the operator had seen the
    namespace alive before: what was served depended on the history. The repaired loop serves it in both histories
    (in general: `served_independent_of_history`). -/
theorem old_revise_unserved_at_first_sight_regression :
    reviseAllOld [] [⟨false, .blocked, 1, true⟩] = [] ∧
    reviseAllOld [] [⟨false, .live, 1, true⟩, ⟨false, .blocked, 1, true⟩] = [1] ∧
    (∀ es : List NsEv, (∀ e ∈ es, e.key = 1 → e.mark = .blocked) → 1 ∉ reviseAllOld [] es) ∧
    reviseAll [] [⟨false, .blocked, 1, true⟩] = [1] ∧
    reviseAll [] [⟨false, .live, 1, true⟩, ⟨false, .blocked, 1, true⟩] = [1] := by
  refine ⟨by decide, by decide, ?_, by decide, by decide⟩
  suffices h : ∀ (es : List NsEv) (served : List Nat), 1 ∉ served →
      (∀ e ∈ es, e.key = 1 → e.mark = .blocked) → 1 ∉ reviseAllOld served es from fun es => h es [] (by simp)
  intro es
  induction es with
  | nil => intro served hs _; exact hs
  | cons e es ih =>
      intro served hs hb
      apply ih
      · by_cases hke : 1 = e.key
        · have hm := hb e (by simp) hke.symm
          obtain ⟨gone, mark, key, matched⟩ := e
          simp at hm hke
          subst hm
          cases gone <;> simpa [reviseNsOld, NsEv.deleted, NsEv.blockers] using hs
        · intro h
          apply hs
          unfold reviseNsOld at h
          split at h
          · exact h
          · split at h
            · exact (List.mem_filter.mp h).1
            · split at h
              · rcases mem_nsAdd.mp h with h | h
                · exact absurd h hke
                · exact h
              · exact h
      · intro e' he' hk'
        exact hb e' (by simp [he']) hk'

/-! ### Which of the selected resources are served: `_disable_unsuitable_resources` -/

open Rsc in
/-- **`_disable_unsuitable_resources`, exactly.** A watched resource stays served iff it can be listed and watched and
    no patching selector selects it from among the read-only (list + watch, no patch) watched resources. -/
theorem served_resources_iff (watched : List Rsc.Res) (sels : List Rsc.Sel) (r : Rsc.Res) :
    r ∈ disableUnsuitable watched sels ↔
      r ∈ watched ∧ r.watchable = true ∧ ∀ s ∈ sels, r ∉ s.select (readOnly watched) :=
  mem_disableUnsuitable

open Rsc in
/-- **A read-only resource with on.event / index handlers only is served, whatever the other resources and their
    handlers are** (the positive statement that C19-F10 negated; kopf bde2793): if every handler whose selector
    accepts `r` is an on.event or an index handler — they never patch — and `r` can be listed and watched, `r` is
    served. Nothing is assumed about any other resource or any other handler. -/
theorem readonly_event_only_served (watched : List Rsc.Res) (hs : List Rsc.Handler) (r : Rsc.Res)
    (hr : r ∈ watched) (hw : r.watchable = true)
    (hev : ∀ h ∈ hs, h.sel.check r = true → h.kind = .watching ∨ h.kind = .indexing) :
    r ∈ servedOf patchKinds watched hs := by
  unfold servedOf
  rw [mem_disableUnsuitable]
  refine ⟨hr, hw, ?_⟩
  intro s hs' hm
  obtain ⟨h, hh, hk, rfl⟩ := mem_patchedSelectors.mp hs'
  have hc := (mem_select.mp hm).2.1
  rcases hev h hh hc with hk' | hk' <;> rw [hk'] at hk <;> cases hk

open Rsc in
/-- the C19-F10 situation: widgets (1) and kopfexamples (2) are both read-only; widgets has an on.event handler,
    kopfexamples an on.update handler: widgets is served, kopfexamples is not -/
example :
    let widgets : Rsc.Res := ⟨1, false, true, true, false⟩
    let kex : Rsc.Res := ⟨2, false, true, true, false⟩
    let hs : List Rsc.Handler := [⟨.watching, ⟨true, fun r => r.id == 1⟩⟩, ⟨.changing, ⟨true, fun r => r.id == 2⟩⟩]
    servedOf patchKinds [widgets, kex] hs = [widgets] := by decide

open Rsc in
/-- A resource that can be listed, watched and patched is served whatever the handlers and the other resources are. -/
theorem patchable_served (watched : List Rsc.Res) (sels : List Rsc.Sel) (r : Rsc.Res)
    (hr : r ∈ watched) (hw : r.watchable = true) (hp : r.canPatch = true) : r ∈ disableUnsuitable watched sels := by
  rw [mem_disableUnsuitable]
  refine ⟨hr, hw, fun s _ hm => ?_⟩
  have := (mem_readOnly.mp (mem_select.mp hm).1).2.1
  rw [hp] at this; cases this

open Rsc in
/-- **Nothing unsuitable is served**: what is served can be listed and watched; and a read-only resource that a daemon,
    timer or changing handler's selector accepts is not served — if that selector is not specific (a category,
    EVERYTHING), or the resource is in the core group, or no core-group resource is read-only (`NoCoreReadOnly`). -/
theorem unsuitable_not_served (watched : List Rsc.Res) (hs : List Rsc.Handler) (r : Rsc.Res) :
    (r ∈ servedOf patchKinds watched hs → r ∈ watched ∧ r.watchable = true) ∧
    (∀ h ∈ hs, (h.kind = .spawning ∨ h.kind = .changing) → h.sel.check r = true → r.canPatch = false →
      (h.sel.specific = false ∨ r.core = true ∨ NoCoreReadOnly watched) → r ∉ servedOf patchKinds watched hs) := by
  unfold servedOf
  refine ⟨fun h => ⟨(mem_disableUnsuitable.mp h).1, (mem_disableUnsuitable.mp h).2.1⟩, ?_⟩
  intro h hh hk hc hp hor hm
  obtain ⟨hr, hw, hno⟩ := mem_disableUnsuitable.mp hm
  have hsel : h.sel ∈ patchedSelectors patchKinds hs :=
    mem_patchedSelectors.mpr ⟨h, hh, by rcases hk with hk | hk <;> rw [hk] <;> rfl, rfl⟩
  apply hno h.sel hsel
  have hro : r ∈ readOnly watched := mem_readOnly.mpr ⟨hr, hp, hw⟩
  rcases hor with h1 | h1 | h1
  · exact mem_select.mpr ⟨hro, hc, fun h2 => by rw [h1] at h2; cases h2⟩
  · exact mem_select.mpr ⟨hro, hc, fun _ => Or.inl h1⟩
  · exact (mem_select_readOnly_of_noCore h1).mpr ⟨hro, hc⟩

open Rsc in
/-- **Whether a resource is served does not depend on the other resources — partial.** For two sets of watched
    resources that both contain `r` (the others: any, with any verbs), and the same handlers: `r` is served in both or in
    neither. Guard `NoCoreReadOnly`: no core-group (`v1`) resource that can be listed and watched lacks `patch` — true
    of every Kubernetes core API. Full statement wanted: the same without the guard; false of the code through
    `Selector.select`'s core-group priority: `core_priority_residue_witness`. -/
theorem served_independent_of_other_resources_partial (watched watched' : List Rsc.Res) (hs : List Rsc.Handler) (r : Rsc.Res)
    (hr : r ∈ watched) (hr' : r ∈ watched') (hn : NoCoreReadOnly watched) (hn' : NoCoreReadOnly watched') :
    r ∈ servedOf patchKinds watched hs ↔ r ∈ servedOf patchKinds watched' hs := by
  have key : ∀ (w : List Rsc.Res), r ∈ w → NoCoreReadOnly w →
      (r ∈ servedOf patchKinds w hs ↔
        r.watchable = true ∧ ∀ s ∈ patchedSelectors patchKinds hs, ¬ (r.canPatch = false ∧ s.check r = true)) := by
    intro w hw hnw
    unfold servedOf
    rw [mem_disableUnsuitable]
    constructor
    · rintro ⟨_, h2, h3⟩
      refine ⟨h2, fun s hs' ⟨hp, hc⟩ => h3 s hs' ?_⟩
      exact (mem_select_readOnly_of_noCore hnw).mpr ⟨mem_readOnly.mpr ⟨hw, hp, h2⟩, hc⟩
    · rintro ⟨h2, h3⟩
      refine ⟨hw, h2, fun s hs' hm => h3 s hs' ?_⟩
      obtain ⟨g1, g2⟩ := (mem_select_readOnly_of_noCore hnw).mp hm
      exact ⟨(mem_readOnly.mp g1).2.1, g2⟩
  rw [key watched hr hn, key watched' hr' hn']

open Rsc in
/-- the guard is met by any set without core-group resources, and by core resources with `patch` -/
example :
    let a : Rsc.Res := ⟨1, false, true, true, false⟩
    let pods : Rsc.Res := ⟨2, true, true, true, true⟩
    let b : Rsc.Res := ⟨3, false, true, true, false⟩
    let hs : List Rsc.Handler := [⟨.spawning, ⟨true, fun r => r.id == 3⟩⟩, ⟨.watching, ⟨false, fun _ => true⟩⟩]
    NoCoreReadOnly [a, pods] ∧ NoCoreReadOnly [a, b] ∧
    servedOf patchKinds [a, pods] hs = [a, pods] ∧ servedOf patchKinds [a, b] hs = [a] := by
  refine ⟨?_, ?_, by decide, by decide⟩ <;> (unfold NoCoreReadOnly; decide)

open Rsc in
/-- **The guard is needed: the core-group priority of `Selector.select` leaks into the patch check.** Resource 1 is not
    in the core group, read-only, and accepted by a specific selector of a daemon (the daemon WILL run on it: handlers
    are matched by `check`). Alone it is dropped; beside a read-only core-group resource 2 that the same selector accepts,
    `select` hides it behind the core one, and it stays served. (No Kubernetes core resource is watchable without being
    patchable, so this is not reachable on a real cluster: an observation about the code, not a finding.) -/
theorem core_priority_residue_witness :
    let r : Rsc.Res := ⟨1, false, true, true, false⟩
    let c : Rsc.Res := ⟨2, true, true, true, false⟩
    let hs : List Rsc.Handler := [⟨.spawning, ⟨true, fun _ => true⟩⟩]
    r ∉ servedOf patchKinds [r] hs ∧ r ∈ servedOf patchKinds [r, c] hs ∧ ¬ NoCoreReadOnly [r, c] := by
  refine ⟨by decide, by decide, ?_⟩
  intro h
  have := h ⟨2, true, true, true, false⟩ (by simp) rfl rfl
  cases this

open Rsc in
/-- **Regression: kopf before bde2793 (C19-F10, fixed).** The old function dropped ALL read-only resources as soon as a
    patching selector selected ANY of them: widgets (1; on.event only) was dropped because kopfexamples (2) was read-only
    under an on.update handler, and was served when kopfexamples could be patched — whether a resource was served
    depended on another resource. The repaired function serves widgets in both. -/
theorem old_disable_depends_on_others_regression :
    let widgets : Rsc.Res := ⟨1, false, true, true, false⟩
    let kexRO : Rsc.Res := ⟨2, false, true, true, false⟩
    let kexRW : Rsc.Res := ⟨2, false, true, true, true⟩
    let sels : List Rsc.Sel := patchedSelectors patchKinds [⟨.watching, ⟨true, fun r => r.id == 1⟩⟩, ⟨.changing, ⟨true, fun r => r.id == 2⟩⟩]
    widgets ∉ disableUnsuitableOld [widgets, kexRO] sels ∧ widgets ∈ disableUnsuitableOld [widgets, kexRW] sels ∧
    widgets ∈ disableUnsuitable [widgets, kexRO] sels ∧ widgets ∈ disableUnsuitable [widgets, kexRW] sels := by
  decide

/-! ### The operator's pause reaches every resource watch-stream (the hand-over of `operator_paused`) -/

/-- With all three hand-overs in place a watch-stream of the operator is the watch-stream of `Model/C19_Watch`:
    `paused_silent`, `pause_noticed_is_quiet`, `fresh_list_on_resume` … hold for each of them under the OPERATOR's
    pause toggle. (That the code's hand-overs are in place is `Tie.pause_wired`, re-proved on every run.) -/
theorem wired_stream_is_the_stream (x : Wiring) (hx : x.wired = true) (w : World) (as : List Act) :
    opRun x w as = run w as := by
  induction as generalizing w with
  | nil => rfl
  | cons a as ih => simp [opRun, run, opStep, hx, ih]

/-- **Any dropped hand-over un-pauses the streams silently**: the operator is paused and its pause-waiters have
    run, the reconnect backoff ends — the wired stream blocks (no observation at all), the unwired one sends a
    LIST request; nothing fails, nothing is logged. (White-box mutant m1; the whole-operator pause runs catch it
    with a replay.) -/
theorem unwired_stream_lists_while_paused_witness (x : Wiring) (hx : x.wired = false) :
    (opRun x init [.pause, .notice, .wake]).outs = [.reqList] ∧
    (opRun x init [.pause, .notice, .wake]).phase = .listing ∧
    (run init [.pause, .notice, .wake]).outs = [] ∧ (run init [.pause, .notice, .wake]).phase = .blocked := by
  refine ⟨?_, ?_, by decide, by decide⟩ <;> simp [opRun, opStep, hx] <;> decide

/-! ## Across watches: the ensemble -/

open Ens

/-- One `adjust_tasks`, as sets of keys: what stays is what was there and is not redundant; what is
    added is exactly the missing targets. -/
theorem adjust_keys (e : Ensemble) (ins : Insights) (k : Key) :
    k ∈ (adjust e ins).keys ↔ (Live e k ∧ remaining ins k = true) ∨ Target ins k :=
  adjust_keys_iff

/-- **At most one watcher task per key**, for every history of revisions and of tasks dying on their own.
    (That a replaced task has really ENDED before its successor starts is `await aiotasks.stop(...)` in
    `terminate_redundancies`, which has no timeout: the model's pass is atomic on that ground — an
    assumption, exercised by the tie, not a theorem.) -/
theorem watchers_nodup (evs : List Ev) : (runEvs Ens.empty evs).keys.Nodup :=
  runEvs_nodup (by simp [Ens.empty, Ensemble.keys])

/-- A watch that stays served and is still running is not restarted (same task); every other task of
    the result is fresh. -/
theorem kept_tasks_kept (e : Ensemble) (ins : Insights) :
    (∀ t ∈ e.watchers, remaining ins t.1 = true → t.2 ∉ e.dead → t ∈ (adjust e ins).watchers) ∧
    (∀ t ∈ (adjust e ins).watchers, (t ∈ e.watchers ∧ remaining ins t.1 = true ∧ t.2 ∉ e.dead) ∨ e.next ≤ t.2) := by
  unfold adjust
  obtain ⟨h1, h2⟩ := @spawn_watchers (pairs ins) (terminate e ins)
  constructor
  · intro t ht hr hd
    exact h1 t (terminate_watchers.mpr ⟨ht, hr, hd⟩)
  · intro t ht
    rcases h2 t ht with h | h
    · exact Or.inl (terminate_watchers.mp h)
    · exact Or.inr h

/-- **After a pass every served pair has a live watcher, and no dead task is left** — for every history
    in which watcher tasks may die on their own (HTTP 404 while a CRD is away, …) at any time between
    the passes: a dead task under a still-served key is replaced, not kept (kopf 9ef1bcb; before it the
    key of the dead task blocked the respawn: C19-F4). -/
theorem served_pairs_have_live_watcher (evs : List Ev) (ins : Insights) :
    let e := runEvs Ens.empty (evs ++ [.pass ins])
    (∀ k, Target ins k → Live e k) ∧ (∀ t ∈ e.watchers, t.2 ∉ e.dead) := by
  intro e
  have he : e = adjust (runEvs Ens.empty evs) ins := runEvs_append _ _ _
  have hb : Below (runEvs Ens.empty evs) := below_runEvs below_empty
  have hall := adjust_all_live hb ins
  rw [← he] at hall
  refine ⟨?_, hall⟩
  intro k hk
  have hmem : k ∈ e.keys := by rw [he]; exact adjust_keys_iff.mpr (Or.inr hk)
  obtain ⟨i, hi⟩ := mem_keys.mp hmem
  exact ⟨i, hi, hall (k, i) hi⟩

/-- the C19-F4 situation: the CRD goes away, the watcher dies on 404, the CRD is back before any pass
    has seen it absent — the next pass replaces the dead task (task 0 → task 1) -/
example :
    let e := runEvs Ens.empty [.pass ⟨[⟨"ct", false⟩], [some "a"]⟩, .die ("ct", none), .pass ⟨[⟨"ct", false⟩], [some "a"]⟩]
    e.watchers = [(("ct", none), 1)] ∧ e.dead = [0] := by decide

/-- the operator serves the whole cluster: `insights.namespaces` is `{None}` — or still empty, as in the
    first revision of every real start-up (`resource_observer` revises the resources before
    `namespace_observer` has put `None` in) -/
def Clusterwide (h : List Insights) : Prop := ∀ ins ∈ h, ins.namespaces = [none] ∨ ins.namespaces = []
/-- the operator serves named namespaces: `None` is never among them -/
def Namespaced (h : List Insights) : Prop := ∀ ins ∈ h, none ∉ ins.namespaces
/-- a resource (group, version, plural) does not change its scope during the history -/
def ScopeStable (h : List Insights) : Prop :=
  ∀ i ∈ h, ∀ j ∈ h, ∀ r ∈ i.watched, ∀ r' ∈ j.watched, r.name = r'.name → r.namespaced = r'.namespaced

/-- **Exactly the served pairs are watched**, after every history of additions and removals of
    resources and namespaces: the watcher keys are `{(r, ns) | r served, ns served}` with `ns := None`
    for cluster-scoped `r` — nothing else, nothing missing (and each once: `watchers_nodup`).

    Guards: (1) the operator's mode is fixed: cluster-wide (`{None}`, possibly still empty earlier, `{None}`
    now) or namespaced (`None` never among the namespaces); (2) a resource keeps its scope (`ScopeStable`);
    (3) in namespaced mode: some namespace is served or no served resource is cluster-scoped.
    (3) is sufficient, not exact: the exact gap is history-dependent — "a key `(r, None)` of a cluster-scoped
    `r` was spawned while a namespace was served, and none is served now"; e.g. the first revision of a
    namespaced start-up, `[⟨[ct], []⟩]`, violates (3) although nothing lingers (keys = [] = targets).
    Full statement wanted by the property: the same without (3). That is false of the code: `terminate_redundancies` always keeps
    namespace `None` (`insights.namespaces | {None}`), see `exactly_one_watch_lingering_witness`. -/
theorem exactly_one_watch_partial (pre : List Ev) (last : Insights)
    (hscope : ScopeStable (pre.flatMap Ev.insights ++ [last]))
    (hmode : (Clusterwide (pre.flatMap Ev.insights ++ [last]) ∧ last.namespaces = [none]) ∨
      (Namespaced (pre.flatMap Ev.insights ++ [last]) ∧ (last.namespaces ≠ [] ∨ ∀ r ∈ last.watched, r.namespaced = true)))
    (k : Key) :
    k ∈ (runEvs Ens.empty (pre ++ [.pass last])).keys ↔ Target last k := by
  rw [runEvs_append, adjust_keys_iff]
  constructor
  · rintro (⟨hk, hr⟩ | h)
    · obtain ⟨ins0, hi0, r0, hr0, n0, hn0, hk0⟩ :=
        origin (hist0 := []) (evs := pre) (e := Ens.empty) (by simp [Ens.empty, Ensemble.keys]) k (live_mem_keys hk)
      simp only [List.nil_append] at hi0
      obtain ⟨hns, r, hrw, hname⟩ := remaining_iff.mp hr
      have hi0' : ins0 ∈ pre.flatMap Ev.insights ++ [last] := List.mem_append_left _ hi0
      have hl' : last ∈ pre.flatMap Ev.insights ++ [last] := by simp
      have hsc : r0.namespaced = r.namespaced :=
        hscope ins0 hi0' last hl' r0 hr0 r hrw (by rw [hname, hk0]; rfl)
      subst hk0
      cases hnsd : r0.namespaced
      · -- cluster-scoped: the key is (name, None); it is a target iff some namespace is served
        have hrn : r.namespaced = false := by rw [← hsc, hnsd]
        have hne : ∃ n, n ∈ last.namespaces := by
          rcases hmode with ⟨_, hc⟩ | ⟨_, hg | hg⟩
          · exact ⟨none, by rw [hc]; simp⟩
          · cases hl : last.namespaces with
            | nil => exact absurd hl hg
            | cons n _ => exact ⟨n, by simp⟩
          · have := hg r hrw; rw [hrn] at this; cases this
        obtain ⟨n, hn⟩ := hne
        refine ⟨r, hrw, n, hn, ?_⟩
        simp only [dkey, hnsd, hrn] at hname ⊢
        simp [hname]
      · -- namespaced: the key is (name, n0)
        have hrn : r.namespaced = true := by rw [← hsc, hnsd]
        simp only [dkey, hnsd, if_true] at hns hname
        have hin : n0 ∈ last.namespaces := by
          rcases hns with h | h
          · exact h
          · rcases hmode with ⟨_, hc⟩ | ⟨hn, _⟩
            · rw [hc, h]; simp
            · exact absurd (h ▸ hn0) (hn ins0 hi0')
        refine ⟨r, hrw, n0, hin, ?_⟩
        simp only [dkey, hnsd, hrn, if_true]
        simp [hname]
    · exact h
  · intro h
    exact Or.inr h

/-- the hypotheses are met by a namespaced operator whose namespaces and kinds come and go -/
example :
    let pre : List Ev := [.pass ⟨[⟨"kex", true⟩, ⟨"ct", false⟩], [some "a", some "b"]⟩, .die ("kex", some "b"),
                          .pass ⟨[⟨"ct", false⟩], [some "a"]⟩]
    let last : Insights := ⟨[⟨"kex", true⟩, ⟨"ct", false⟩], [some "b"]⟩
    ScopeStable (pre.flatMap Ev.insights ++ [last]) ∧ Namespaced (pre.flatMap Ev.insights ++ [last]) ∧ last.namespaces ≠ [] ∧
    (runEvs Ens.empty (pre ++ [.pass last])).watchers = [(("ct", none), 2), (("kex", some "b"), 3)] := by
  refine ⟨?_, ?_, by decide, by decide⟩
  · unfold ScopeStable; decide
  · unfold Namespaced; decide

/-- the REAL start-up of a cluster-wide operator: the resources are revised first (no namespace yet, no
    watcher), then `None` arrives: the guard holds and every kind gets its one cluster-wide watcher -/
example :
    let pre : List Ev := [.pass ⟨[⟨"kex", true⟩, ⟨"ct", false⟩], []⟩]
    let last : Insights := ⟨[⟨"kex", true⟩, ⟨"ct", false⟩], [none]⟩
    ScopeStable (pre.flatMap Ev.insights ++ [last]) ∧ Clusterwide (pre.flatMap Ev.insights ++ [last]) ∧
    last.namespaces = [none] ∧
    (runEvs Ens.empty (pre ++ [.pass last])).keys = [("kex", none), ("ct", none)] := by
  refine ⟨?_, ?_, rfl, by decide⟩
  · unfold ScopeStable; decide
  · unfold Clusterwide; decide

/-- a cluster-wide operator with two namespaced kinds and one cluster-scoped kind, one of them removed and re-added -/
example : (runHist Ens.empty
    [⟨[⟨"kex", true⟩, ⟨"ct", false⟩], [none]⟩, ⟨[⟨"ct", false⟩], [none]⟩, ⟨[⟨"kex", true⟩, ⟨"ct", false⟩], [none]⟩]).watchers
    = [(("ct", none), 1), (("kex", none), 2)] := by decide

/-- **The guard is needed.** A namespaced operator serving a cluster-scoped resource: once the last
    served namespace disappears, the watcher of the cluster-scoped resource stays (its key's namespace is
    `None`, which `terminate_redundancies` never considers redundant) although no (resource, namespace)
    pair is served any more — while the same insights reached without that namespace ever existing
    give no watcher at all. The set of watches is not a function of what is served. -/
theorem exactly_one_watch_lingering_witness :
    let served : Insights := ⟨[⟨"ct", false⟩], []⟩
    (runHist Ens.empty [⟨[⟨"ct", false⟩], [some "a"]⟩, served]).keys = [("ct", none)] ∧
    (runHist Ens.empty [served]).keys = [] ∧
    ¬ Target served ("ct", none) := by
  refine ⟨by decide, by decide, ?_⟩
  rintro ⟨_, _, n, hn, _⟩
  simp at hn



/-! ## The orchestrator around `insights.revised`: revisions and task deaths arriving at any time -/

/-- **A started pass needs at most three more segments of the orchestrator to be back in `wait()`**
    (enabledness, not fairness: `termDone` is the redundant watchers having stopped — a handler that never
    returns keeps `aiotasks.stop()`, the pass and the lock of `insights.revised` forever; that is C20's
    "handlers honour cancellation"). Holds for every state, reachable or not. -/
theorem pass_progress (s : Orch.State) :
    ∃ ls, ls.length ≤ 3 ∧ (∀ l ∈ ls, l.isOrch = true) ∧ (Orch.run s ls).map (·.pc) = some .waiting := by
  cases hpc : s.pc with
  | waiting => exact ⟨[], by simp, by simp, by simp [Orch.run, hpc]⟩
  | notified =>
      exact ⟨[.acquire, .termDone, .spawnAll], by simp, by simp [Orch.Label.isOrch],
        by simp [Orch.run, Orch.step, hpc]⟩
  | stopping =>
      exact ⟨[.termDone, .spawnAll], by simp, by simp [Orch.Label.isOrch], by simp [Orch.run, Orch.step, hpc]⟩
  | spawning =>
      exact ⟨[.spawnAll], by simp, by simp [Orch.Label.isOrch], by simp [Orch.run, Orch.step, hpc]⟩

/-- **No lost wake-up.** For every interleaving of observer revisions, task deaths and orchestrator
    segments (the pass under the lock — the code as it is): whenever the orchestrator is quiescent (in
    `wait()`, not notified) and anything was ever revised, the ensemble is exactly what a history of passes
    ENDING WITH A PASS OVER THE CURRENT INSIGHTS produces, followed only by the deaths that happened since
    that pass looked at the tasks (`diedSince`) — the latest revision has been applied in full (one snapshot
    per pass, every snapshot a real revision). Safety at quiescence; reaching it: `pass_progress`. -/
theorem no_lost_wakeup (ls : List Orch.Label) (s : Orch.State)
    (hr : Orch.run (Orch.init true) ls = some s) (hq : Orch.Quiescent s) (hrev : s.revs ≠ []) :
    ∃ pre, s.ens = runEvs Ens.empty (pre ++ [.pass s.ins] ++ s.diedSince.map Ev.die) ∧
      ∀ i ∈ pre.flatMap Ev.insights ++ [s.ins], i ∈ s.revs := by
  have h := Orch.oinv_run Orch.oinv_init hr
  have hp := h.pcInv
  unfold Orch.Quiescent at hq
  simp only [Orch.PcInv, hq] at hp
  obtain ⟨he, _, hor⟩ := hp
  rcases hor with ⟨h0, _⟩ | ⟨pre, hpre⟩
  · exact absurd h0 hrev
  · refine ⟨pre, by rw [he, hpre], ?_⟩
    intro i hi
    apply h.histIn
    rw [hpre]
    simp only [List.flatMap_append, Orch.flatMap_insights_dies, List.append_nil, List.flatMap_cons,
      List.flatMap_nil, Ev.insights]
    exact hi

/-- **Exactly the served pairs are watched, with revisions and deaths arriving at any time** — the
    asynchronous lift of `exactly_one_watch_partial` (same guards, over every revision ever made; the
    cluster-wide form admits the empty start-up revisions): at quiescence the watcher keys are the served
    pairs of the CURRENT insights. Whether those watchers are running: `served_pairs_live_async_partial`. -/
theorem exactly_one_watch_async_partial (ls : List Orch.Label) (s : Orch.State)
    (hr : Orch.run (Orch.init true) ls = some s) (hq : Orch.Quiescent s) (hrev : s.revs ≠ [])
    (hscope : ∀ i ∈ s.revs, ∀ j ∈ s.revs, ∀ r ∈ i.watched, ∀ r' ∈ j.watched, r.name = r'.name → r.namespaced = r'.namespaced)
    (hmode : ((∀ i ∈ s.revs, i.namespaces = [none] ∨ i.namespaces = []) ∧ s.ins.namespaces = [none]) ∨
      ((∀ i ∈ s.revs, none ∉ i.namespaces) ∧ (s.ins.namespaces ≠ [] ∨ ∀ r ∈ s.ins.watched, r.namespaced = true)))
    (k : Key) : k ∈ s.ens.keys ↔ Target s.ins k := by
  obtain ⟨pre, he, hin⟩ := no_lost_wakeup ls s hr hq hrev
  rw [he, Orch.runEvs_append', Orch.runEvs_dies, Orch.killMany_keys]
  apply exactly_one_watch_partial pre s.ins
  · intro i hi j hj
    exact hscope i (hin i hi) j (hin j hj)
  · rcases hmode with ⟨hc, hl⟩ | ⟨hn, hg⟩
    · exact Or.inl ⟨fun i hi => hc i (hin i hi), hl⟩
    · exact Or.inr ⟨fun i hi => hn i (hin i hi), hg⟩

/-- **At quiescence every served pair has a running watcher — partial.** Guard: no death since the last
    pass looked at the tasks (`diedSince = []`; slightly broader than the gap: the death of a watcher whose
    pair is no longer served is harmless). Then every served pair is live and no dead task is in the ensemble.
    Full statement wanted by the property: the same without the guard. False of the code:
    `death_while_idle_witness` (finding C19-F6). -/
theorem served_pairs_live_async_partial (ls : List Orch.Label) (s : Orch.State)
    (hr : Orch.run (Orch.init true) ls = some s) (hq : Orch.Quiescent s) (hrev : s.revs ≠ [])
    (hnd : s.diedSince = []) :
    (∀ k, Target s.ins k → Live s.ens k) ∧ ∀ t ∈ s.ens.watchers, t.2 ∉ s.ens.dead := by
  obtain ⟨pre, he, _⟩ := no_lost_wakeup ls s hr hq hrev
  rw [hnd, List.map_nil, List.append_nil] at he
  rw [he]
  exact served_pairs_have_live_watcher pre s.ins

/-- **… and the guard is needed: a death while the orchestrator is idle stays unnoticed (C19-F6).** The
    watcher of a served pair exits on its own (HTTP 404) while the orchestrator waits: the death takes no
    lock and notifies nobody, the orchestrator stays quiescent, no segment of it is enabled, and the served
    pair has no running watcher until some revision of the insights happens to come. -/
theorem death_while_idle_witness :
    ∃ (ls : List Orch.Label) (s : Orch.State),
      Orch.run (Orch.init true) ls = some s ∧ Orch.Quiescent s ∧ Target s.ins ("kex", none) ∧
      ¬ Live s.ens ("kex", none) ∧ ∀ l, l.isOrch = true → Orch.step s l = none := by
  refine ⟨[.revise ⟨[⟨"kex", true⟩], [none]⟩, .acquire, .termDone, .spawnAll, .die ("kex", none)], _, rfl,
    by unfold Orch.Quiescent; decide, ⟨⟨"kex", true⟩, by simp, none, by simp, rfl⟩, ?_, ?_⟩
  · rintro ⟨i, hi, hd⟩
    have hw : (i = 0) := by
      have : (("kex", none), i) ∈ [((("kex" : String), (none : Option String)), 0)] := hi
      simpa using this
    subst hw
    exact hd (by decide)
  · intro l hl
    cases l <;> simp [Orch.Label.isOrch] at hl <;> rfl

/-- two revisions squeezed in before the orchestrator gets the lock back, the REAL cluster-wide start-up
    (first revision without namespaces), and a watcher dying and being replaced by the next pass -/
example :
    (Orch.run (Orch.init true)
      [.revise ⟨[⟨"kex", true⟩], []⟩, .revise ⟨[⟨"kex", true⟩], [none]⟩, .acquire, .termDone, .spawnAll,
       .die ("kex", none), .revise ⟨[⟨"kex", true⟩], [none]⟩, .acquire, .termDone, .spawnAll]).map
      (fun s => (decide (s.pc = .waiting), s.ens.watchers, s.ens.dead, s.diedSince.length, s.revs.length))
      = some (true, [((("kex", none) : Key), 1)], [0], 0, 3) := by rfl

/-- under the lock a revision in the middle of a pass is simply not enabled; a death is -/
example :
    (Orch.run (Orch.init true)
      [.revise ⟨[⟨"kex", true⟩], [some "a"]⟩, .acquire, .revise ⟨[⟨"kex", true⟩], [some "b"]⟩]).isNone = true ∧
    (Orch.run (Orch.init true)
      [.revise ⟨[⟨"kex", true⟩], [some "a"]⟩, .acquire, .die ("kex", some "a")]).isNone = true ∧
    (Orch.run (Orch.init true)
      [.revise ⟨[⟨"kex", true⟩], [some "a"]⟩, .acquire, .termDone, .spawnAll, .revise ⟨[⟨"kex", true⟩], [some "a"]⟩,
       .acquire, .die ("kex", some "a"), .termDone, .spawnAll]).map (fun s => (s.ens.watchers, s.ens.dead, s.diedSince.length))
      = some ([(("kex", some "a"), 0)], [0], 1) := by decide

/-- **Releasing the lock before the pass loses wake-ups.** In the variant whose pass runs outside
    `async with insights.revised` (`lockedPass = false`): ns a and c served; a is deleted → a pass starts
    and suspends stopping a's watcher (its handler is in flight); meanwhile c is deleted and b created —
    nobody waits on the condition, the notification is lost; the pass drops a with its old snapshot and
    spawns b from the live insights. The orchestrator ends quiescent watching {c, b}; served is {b}. -/
theorem unlocked_pass_loses_wakeup_witness :
    ∃ (ls : List Orch.Label) (s : Orch.State),
      Orch.run (Orch.init false) ls = some s ∧ Orch.Quiescent s ∧
      s.ens.keys = [("kex", some "c"), ("kex", some "b")] ∧ ¬ Target s.ins ("kex", some "c") := by
  refine ⟨[.revise ⟨[⟨"kex", true⟩], [some "a", some "c"]⟩, .acquire, .termDone, .spawnAll,
           .revise ⟨[⟨"kex", true⟩], [some "c"]⟩, .acquire,
           .revise ⟨[⟨"kex", true⟩], [some "b"]⟩, .termDone, .spawnAll], _, rfl, by unfold Orch.Quiescent; decide, by decide, ?_⟩
  rintro ⟨r, hr, n, hn, hk⟩
  simp at hr hn
  subst hr hn
  simp [dkey] at hk

/-! ## After a watcher has exited on its own: what a revision of the insights does -/

/-- **Any revision heals — also one that changes nothing.** From EVERY reachable state in which the
    orchestrator waits — whatever watchers have exited on their own since its last pass (`diedSince`, the
    residue C19-F6 leaves open) — and for EVERY revision `i` of the insights, in particular `i = s.ins` (an
    event of a CRD or a namespace that leaves what is served exactly as it was): the revision wakes the
    orchestrator, the three segments of its pass are enabled one after the other, and when it waits again
    every served pair has a RUNNING watcher and no exited task is left in the ensemble. This is the bound of
    C19-F6 ("… until the next revision"); it rests on the pass being unconditional after every wake-up:
    `skip_noop_revisions_witness`. (Deaths DURING the pass belong to the next round: `diedSince` of the
    resulting state.) -/
theorem any_revision_heals (ls : List Orch.Label) (s : Orch.State)
    (hr : Orch.run (Orch.init true) ls = some s) (hq : Orch.Quiescent s) (i : Insights) :
    ∃ s', Orch.run s [.revise i, .acquire, .termDone, .spawnAll] = some s' ∧ Orch.Quiescent s' ∧ s'.ins = i ∧
      s'.diedSince = [] ∧ (∀ k, Target i k → Live s'.ens k) ∧ ∀ t ∈ s'.ens.watchers, t.2 ∉ s'.ens.dead := by
  unfold Orch.Quiescent at hq
  have hp := (Orch.oinv_run Orch.oinv_init hr).pcInv
  simp only [Orch.PcInv, hq] at hp
  obtain ⟨he, hpend, _⟩ := hp
  refine ⟨Orch.afterPass s i, Orch.run_revise_pass hq i, rfl, rfl, hpend, ?_⟩
  have hens : (Orch.afterPass s i).ens = runEvs Ens.empty (s.hist ++ [.pass i]) := by
    show spawn (terminate s.ens i) (pairs i) = _
    rw [he, runEvs_append]; rfl
  rw [hens]
  exact served_pairs_have_live_watcher s.hist i

/-- a watcher exits while the orchestrator waits; an observer then revises the insights to what they were:
    the pass runs and the pair is watched again (task 1 replaces the exited task 0) -/
example :
    ∃ s, Orch.run (Orch.init true) [.revise ⟨[⟨"kex", true⟩], [none]⟩, .acquire, .termDone, .spawnAll,
      .die ("kex", none)] = some s ∧ Orch.Quiescent s ∧ s.diedSince = [("kex", none)] ∧
      ((Orch.run s [.revise s.ins, .acquire, .termDone, .spawnAll]).map (fun s' => (s'.ens.watchers, s'.ens.dead)))
        = some ([((("kex", none) : Key), 1)], [0]) :=
  ⟨_, rfl, by unfold Orch.Quiescent; decide, rfl, rfl⟩

/-- **… and the unconditional pass is what does it: an orchestrator that skips the revisions which leave the
    insights as they were never heals (the variant of Model/C19_OrchSkip; seeded change C19f).** A run of
    the variant: the served pair gets its watcher, the watcher exits on its own (HTTP 404), an observer
    revises the insights to the very same value — the CRD was gone and is back before the re-scan, or was
    merely touched. The orchestrator wakes, finds its snapshot unchanged and goes back to waiting: the pass
    cannot start (`acquire` is disabled), the served pair has no running watcher, and this stays so however
    many more such revisions follow (`∀ n`). Of the code as it is the same labels heal: `any_revision_heals`. -/
theorem skip_noop_revisions_witness :
    ∃ (ls : List OrchSkip.Label) (s : OrchSkip.State),
      OrchSkip.run OrchSkip.init ls = some s ∧ Orch.Quiescent s.base ∧ Target s.base.ins ("kex", none) ∧
      ¬ Live s.base.ens ("kex", none) ∧
      (∀ b, Orch.step s.base (.revise s.base.ins) = some b →
          OrchSkip.step ⟨b, s.last⟩ (.obs .acquire) = none) ∧
      ∀ n, ∃ s', OrchSkip.run s (OrchSkip.rounds s.base.ins n) = some s' ∧ Orch.Quiescent s'.base ∧
        s'.base.ins = s.base.ins ∧ ¬ Live s'.base.ens ("kex", none) := by
  have hnl : ¬ Live ({ watchers := [((("kex" : String), (none : Option String)), 0)], next := 1, dead := [0] } : Ensemble)
      ("kex", none) := by
    rintro ⟨i, hi, hd⟩
    have hw : (i = 0) := by
      have : (("kex", none), i) ∈ [((("kex" : String), (none : Option String)), 0)] := hi
      simpa using this
    subst hw
    exact hd (by decide)
  refine ⟨[.obs (.revise ⟨[⟨"kex", true⟩], [none]⟩), .obs .acquire, .obs .termDone, .obs .spawnAll,
           .obs (.die ("kex", none)), .obs (.revise ⟨[⟨"kex", true⟩], [none]⟩), .skip], _, rfl,
    by unfold Orch.Quiescent; decide, ⟨⟨"kex", true⟩, by simp, none, by simp, rfl⟩, hnl, ?_, ?_⟩
  · intro b hb
    have hins : b.ins = ⟨[⟨"kex", true⟩], [none]⟩ := by
      simp only [Orch.step] at hb
      split at hb
      · injection hb with hb; subst hb; rfl
      · exact absurd hb (by simp)
    exact OrchSkip.acquire_disabled (by show _ = some b.ins; rw [hins])
  · exact OrchSkip.rounds_not_live _ (by rfl) (by rfl) _ hnl

/-! ## Resource kinds appearing and disappearing: the CRD observer (Model/C19_Discovery) -/

/-- **The served resources of an API group are what the discovery showed at the LAST event of a CRD of that
    group** — for every history of items (listings, ADDED, MODIFIED, DELETED; any names, any generations, any
    scan results), from any earlier contents of the insights, whatever came before and whatever items of
    listings and events of OTHER groups came after. No guard: the kind of the event, the generation, the spec
    and the status of the CRD play no part. With the API server's contract — what a group serves changes only
    together with an event of one of its CRDs (the CRD stored, ESTABLISHED by a status-only update, its spec
    changed, the CRD removed) — this is the clause 'for every sequence of resource kinds appearing and
    disappearing': after the last event the insights hold the kinds that exist, and `served_pairs_have_live_watcher`
    gives each of them its watch. -/
theorem rescan_follows_discovery (w : Disc.Watched) (pre post : List Disc.Item) (it : Disc.Item)
    (hev : it.ty ≠ .listed) (hpost : ∀ x ∈ post, x.ty = .listed ∨ x.group ≠ it.group) :
    Disc.part (Disc.run w (pre ++ it :: post)) it.group = it.found.map (fun r => (it.group, r)) := by
  rw [Disc.run_append]
  show Disc.part (Disc.run (Disc.step (Disc.run w pre) it) post) it.group = _
  rw [Disc.part_run_other _ post it.group hpost]
  unfold Disc.step
  simp only [hev, if_false]
  exact Disc.part_rescan_same _ _ _

/-- a kind whose CRD is stored (ADDED: the scan finds nothing yet) and established half a second later by a
    status-only update (MODIFIED, generation 1 as before: now the scan finds resource 7) is served; an event of
    another group's CRD afterwards changes nothing about it -/
example : Disc.run [] [⟨.added, 0, 1, 0, []⟩, ⟨.modified, 0, 1, 0, [7]⟩, ⟨.modified, 5, 3, 1, [9]⟩] = [(0, 7), (1, 9)] := by decide

/-- a kind that the last event of its group's CRDs shows is served … -/
theorem appeared_kind_served (w : Disc.Watched) (pre post : List Disc.Item) (it : Disc.Item) (r : Nat)
    (hev : it.ty ≠ .listed) (hpost : ∀ x ∈ post, x.ty = .listed ∨ x.group ≠ it.group) (hr : r ∈ it.found) :
    (it.group, r) ∈ Disc.run w (pre ++ it :: post) := by
  have h := rescan_follows_discovery w pre post it hev hpost
  have hm : (it.group, r) ∈ Disc.part (Disc.run w (pre ++ it :: post)) it.group := by
    rw [h]; exact List.mem_map.mpr ⟨r, hr, rfl⟩
  exact (List.mem_filter.mp hm).1

/-- … and one that it does not show is not (a kind that disappeared, whatever the insights held before) -/
theorem vanished_kind_unserved (w : Disc.Watched) (pre post : List Disc.Item) (it : Disc.Item) (r : Nat)
    (hev : it.ty ≠ .listed) (hpost : ∀ x ∈ post, x.ty = .listed ∨ x.group ≠ it.group) (hr : r ∉ it.found) :
    (it.group, r) ∉ Disc.run w (pre ++ it :: post) := by
  intro hin
  have h := rescan_follows_discovery w pre post it hev hpost
  have hm : (it.group, r) ∈ Disc.part (Disc.run w (pre ++ it :: post)) it.group :=
    List.mem_filter.mpr ⟨hin, by simp⟩
  rw [h] at hm
  obtain ⟨r', hr', he⟩ := List.mem_map.mp hm
  have : r' = r := by injection he
  exact hr (this ▸ hr')

example : (0, 7) ∉ Disc.run [(0, 7), (1, 9)] [⟨.deleted, 0, 2, 0, []⟩] := by decide

/-- the events of one group's CRDs leave the served resources of every other group as they were -/
theorem other_groups_untouched (w : Disc.Watched) (its : List Disc.Item) (g : Nat)
    (h : ∀ x ∈ its, x.ty = .listed ∨ x.group ≠ g) : Disc.part (Disc.run w its) g = Disc.part w g :=
  Disc.part_run_other w its g h

/-- **… and it is the re-scan on EVERY event that does it: a processor that drops the MODIFIED events of a CRD
    whose generation it has already seen loses the kinds that appear at runtime (the variant `stepSkip` of
    Model/C19_Discovery; seeded change C19h).** Two histories within the API server's contract — (1) the CRD
    is stored while the operator runs (ADDED, generation 1: the scan finds nothing yet) and then established
    (MODIFIED, a status-only update, generation 1: the scan would find resource 7); (2) the CRD was stored
    before the operator started (an item of the listing, generation 1) and is established at runtime. Of the
    code as it is both end with the kind served (`rescan_follows_discovery`); the variant serves nothing, and
    this stays so however many more status-only updates of the CRD follow (`∀ n`: conditions, stored versions,
    annotations — each of them an event at which the discovery shows the kind). -/
theorem skip_known_generation_witness :
    ∃ (runtime listedFirst : List Disc.Item) (more : Disc.Item),
      more.ty = .modified ∧ more.found = [7] ∧
      (∀ n, Disc.run [] (runtime ++ List.replicate n more) = [(0, 7)] ∧
            (Disc.runSkip ⟨[], []⟩ (runtime ++ List.replicate n more)).watched = []) ∧
      (∀ n, Disc.run [] (listedFirst ++ List.replicate n more) = [(0, 7)] ∧
            (Disc.runSkip ⟨[], []⟩ (listedFirst ++ List.replicate n more)).watched = []) := by
  refine ⟨[⟨.added, 0, 1, 0, []⟩, ⟨.modified, 0, 1, 0, [7]⟩], [⟨.listed, 0, 1, 0, []⟩, ⟨.modified, 0, 1, 0, [7]⟩],
    ⟨.modified, 0, 1, 0, [7]⟩, rfl, rfl, ?_, ?_⟩ <;> intro n <;> refine ⟨?_, ?_⟩
  · rw [Disc.run_append]
    exact Disc.foldl_replicate_fixed Disc.step [(0, 7)] _ (by decide) n
  · rw [Disc.runSkip_append]
    have h : Disc.runSkip ⟨[], []⟩ [⟨.added, 0, 1, 0, []⟩, ⟨.modified, 0, 1, 0, [7]⟩] = ⟨[], [(0, 1)]⟩ := by decide
    rw [h]
    show ((List.replicate n _).foldl Disc.stepSkip _).watched = []
    rw [Disc.foldl_replicate_fixed Disc.stepSkip ⟨[], [(0, 1)]⟩ _ (by decide) n]
  · rw [Disc.run_append]
    exact Disc.foldl_replicate_fixed Disc.step [(0, 7)] _ (by decide) n
  · rw [Disc.runSkip_append]
    have h : Disc.runSkip ⟨[], []⟩ [⟨.listed, 0, 1, 0, []⟩, ⟨.modified, 0, 1, 0, [7]⟩] = ⟨[], [(0, 1)]⟩ := by decide
    rw [h]
    show ((List.replicate n _).foldl Disc.stepSkip _).watched = []
    rw [Disc.foldl_replicate_fixed Disc.stepSkip ⟨[], [(0, 1)]⟩ _ (by decide) n]

/-- the variant is not wrong about everything: a change of the spec (a new generation) is still followed -/
example : (Disc.runSkip ⟨[], []⟩ [⟨.added, 0, 1, 0, []⟩, ⟨.modified, 0, 1, 0, [7]⟩, ⟨.modified, 0, 2, 0, [7]⟩]).watched = [(0, 7)] := by
  decide


end Kopf.C19
