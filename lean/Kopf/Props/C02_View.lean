/-
  C02 — the view a pass is given after the operator's own progress-storing write (model: Kopf.Model.C02_View).
  With a test that accepts no older version (kopf's equality is one: `mEq_sound`) the pass the worker admits before the
  consistency timeout runs on the records the own write stored, so `no_rerun` / `retry_kwarg` speak about what IS recorded
  on the object. With the string order (seed C02h) they do not: witnesses on the history 98 → foreign 99 → own 100.
-/
import Kopf.Props.C02
import Kopf.Model.C02_View
namespace Kopf.C02

theorem mEq_sound : Sound mEq := by
  intro u e h
  simp [mEq] at h
  omega

/-- The view admitted behind the own write carries what that write recorded — for EVERY sound test, every queue. -/
theorem admitted_view_carries_own_write (m : Nat → Nat → Bool) (hs : Sound m) (e : Nat) (W : Store) (q : List View)
    (hq : CarriesFrom e W q) (v : View) (h : admitted m e q = some v) : v.P = W := by
  unfold admitted at h
  have hm := List.find?_some h
  have hv := List.mem_of_find?_eq_some h
  exact hq v hv (hs _ _ hm)

/-- A handler the own write records as finished is not invoked by the next admitted pass, whatever older views are queued. -/
theorem no_rerun_after_own_write (m : Nat → Nat → Bool) (hs : Sound m) (e : Nat) (W : Store) (q : List View)
    (hq : CarriesFrom e W q) (v : View) (h : admitted m e q = some v)
    (cfg : Cfg) (now now1 : Tick) (exec : Id → Nat → Outcome) (hsub : ∀ i ∈ cfg.selected, i ∈ cfg.owned)
    (i : Id) (n : Nat) (r : Rec) (hW : W i = some r) (hfin : r.finished = true) :
    (i, n) ∉ (cycle cfg v.P now now1 exec).invoked := by
  rw [admitted_view_carries_own_write m hs e W q hq v h]
  exact no_rerun cfg W now now1 exec hsub i n r hW hfin

/-- … and a handler it invokes gets `retry` = the attempts the own write recorded. -/
theorem retry_kwarg_after_own_write (m : Nat → Nat → Bool) (hs : Sound m) (e : Nat) (W : Store) (q : List View)
    (hq : CarriesFrom e W q) (v : View) (h : admitted m e q = some v)
    (cfg : Cfg) (now now1 : Tick) (exec : Id → Nat → Outcome) (hsub : ∀ i ∈ cfg.selected, i ∈ cfg.owned)
    (i : Id) (n : Nat) (hi : (i, n) ∈ (cycle cfg v.P now now1 exec).invoked) :
    n = (match W i with | some r => r.retries | none => 0) := by
  rw [admitted_view_carries_own_write m hs e W q hq v h] at hi
  exact retry_kwarg cfg W now now1 exec hsub i n hi

/-- The string order accepts an older version. -/
theorem string_order_unsound_witness : ¬ Sound mStr := by
  intro h
  have := h 99 100 (by decide)
  omega

/-- Between numbers of one width the string order is harmless on the seed's neighbours: what one-width histories see. -/
example : mStr 101 102 = false ∧ mStr 102 102 = true ∧ mEq 99 100 = false ∧ mEq 100 100 = true := by decide

private def okO : Outcome := { final := true, delay := none, error := false, subrefs := [] }
private def tmpO : Outcome := { final := false, delay := some 16, error := true, subrefs := [] }
private def wCfg : Cfg := { owned := ["a", "b"], selected := ["a", "b"], limits := fun _ => ⟨none, none⟩, reason := "create",
                            lifecycle := .allAtOnce }
private def wExec : Id → Nat → Outcome := fun i n => if i == "b" && n == 0 then tmpO else okO
private def wP0 : Store := fun _ => none
private def wW : Store := (cycle wCfg wP0 0 1 wExec).P'
private def wQ : List View := [⟨99, wP0⟩, ⟨100, wW⟩]

/-- The seed's history: the object handled at version 98 (`a` succeeds, `b` fails temporarily); somebody's write is 99, the
    own write recording that is 100; 99 and 100 are queued. The own write records `a` as finished and one attempt of `b`.
    kopf's test admits 100: `a` is not invoked, `b` is retried with retry 1. The string order admits 99: `a` is invoked
    again (and succeeds again), `b` is invoked with retry 0. -/
theorem string_order_reruns_witness :
    (∃ r, wW "a" = some r ∧ r.finished = true) ∧ (∃ r, wW "b" = some r ∧ r.retries = 1 ∧ r.finished = false) ∧
    CarriesFrom 100 wW wQ ∧
    (admitted mEq 100 wQ).map (·.ver) = some 100 ∧
    (∀ v, admitted mEq 100 wQ = some v → (cycle wCfg v.P 40 41 wExec).invoked = [("b", 1)]) ∧
    (admitted mStr 100 wQ).map (·.ver) = some 99 ∧
    (∀ v, admitted mStr 100 wQ = some v → (cycle wCfg v.P 40 41 wExec).invoked = [("a", 0), ("b", 0)]) := by
  refine ⟨⟨_, rfl, by decide⟩, ⟨_, rfl, by decide, by decide⟩, ?_, by decide, ?_, by decide, ?_⟩
  · intro v hv hle
    simp [wQ] at hv
    rcases hv with rfl | rfl
    · simp at hle
    · rfl
  · intro v hv
    have h1 : admitted mEq 100 wQ = some ⟨100, wW⟩ := rfl
    rw [h1] at hv
    cases hv
    decide
  · intro v hv
    have h1 : admitted mStr 100 wQ = some ⟨99, wP0⟩ := rfl
    rw [h1] at hv
    cases hv
    decide

end Kopf.C02
