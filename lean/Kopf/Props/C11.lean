/-
  C11 — property theorems only. Handler error policy: retry delays, permanence, retries/timeout limits.

  All statements are about the model of `execute_handler_once` / `HandlerState` / the gate of
  `execute_handlers_once` in `Kopf/Model/C11_Errors.lean`, for ALL limits, records, times, scripts of
  raised kinds / delays / call durations / batch positions, and restarts anywhere.
-/
import Kopf.Model.C11_Errors
import Kopf.Lemmas.C11_Errors
namespace Kopf.C11

/-! ## One execution: what each kind of failure leads to -/

/-- The verdict on a retryable failure asking for `delay` (`extra` = what the look-ahead adds):
    retried with exactly that delay, unless a limit is provably reached — and then it is final,
    a failure, and the reason is the limit. -/
def RetriedOrLimit (l : Limits) (r : Rec) (endT : Int) (o : Outcome) (delay : Option Int) (extra : Int) : Prop :=
  o.invoked = true ∧
  ((o = retryWith delay ∧
      (∀ t, l.timeout = some t → r.runtime endT + extra < t) ∧ (∀ k, l.retries = some k → r.retries + 1 < k)) ∨
   (o = finalWith .timeout ∧ ∃ t, l.timeout = some t ∧ r.runtime endT + extra ≥ t) ∨
   (o = finalWith .retries ∧ ∃ k, l.retries = some k ∧ r.retries + 1 ≥ k))

theorem retried_or_limit_of_lookahead (l : Limits) (r : Rec) (endT : Int) (delay : Option Int) (extra : Int) :
    RetriedOrLimit l r endT
      (match lookahead l r endT extra with
       | some e => finalWith e
       | none => retryWith delay) delay extra := by
  cases h : lookahead l r endT extra with
  | none =>
    refine ⟨rfl, Or.inl ⟨rfl, ?_, ?_⟩⟩
    · intro t ht
      unfold lookahead at h
      split at h
      · cases h
      · rename_i hto
        exact timedOut_false_of l _ t ht (by simpa using hto)
    · intro k hk
      unfold lookahead at h
      split at h
      · cases h
      · split at h
        · cases h
        · rename_i hro
          exact retriesOut_false_of l _ k hk (by simpa using hro)
  | some e =>
    rcases lookahead_some_cases h with ⟨rfl, hto⟩ | ⟨rfl, hro⟩
    · exact ⟨rfl, Or.inr (Or.inl ⟨rfl, (timedOut_true_iff _ _).1 hto⟩)⟩
    · exact ⟨rfl, Or.inr (Or.inr ⟨rfl, (retriesOut_true_iff _ _).1 hro⟩)⟩

theorem post_temporary_verdict (env : Env) (l : Limits) (r : Rec) (endT : Int) (d : Option Int) :
    RetriedOrLimit l r endT (post env l r endT (.temporary d)) d (orZero d) :=
  retried_or_limit_of_lookahead l r endT d (orZero d)

theorem post_arbitrary_verdict (env : Env) (l : Limits) (r : Rec) (endT : Int) (hm : l.mode env = .temporary) :
    RetriedOrLimit l r endT (post env l r endT .arbitrary) (some (l.backoffOr env)) (l.backoffOr env) := by
  simp only [post, hm]
  exact retried_or_limit_of_lookahead l r endT (some (l.backoffOr env)) (l.backoffOr env)

/-- A temporary error is retried with the requested delay (`None` stays `None`), unless the
    look-ahead shows that the next attempt would hit `retries`/`timeout`. -/
theorem temp_retried (env : Env) (l : Limits) (r : Rec) (now : Int) (dur : Nat) (d : Option Int)
    (h : precheck l r now = none) :
    RetriedOrLimit l r (now + dur) (classify env l r now dur (.temporary d)) d (orZero d) := by
  rw [classify_of_precheck_none h]
  exact post_temporary_verdict env l r (now + dur) d

/-- Without limits a temporary error is always retried, with exactly the requested delay. -/
theorem temp_retried_unlimited (env : Env) (l : Limits) (r : Rec) (now : Int) (dur : Nat) (d : Option Int)
    (ht : l.timeout = none) (hr : l.retries = none) :
    classify env l r now dur (.temporary d) = retryWith d := by
  simp [classify, precheck, timedOut, retriesOut, ht, hr, post, lookahead]

/-- A permanent error ends the handler: final, a failure, no delay; the record is finished. -/
theorem perm_final (env : Env) (l : Limits) (r : Rec) (now : Int) (dur : Nat) (t : Int)
    (h : precheck l r now = none) :
    classify env l r now dur .permanent = finalWith .raised ∧
    (withOutcome r t (classify env l r now dur .permanent)).failure = true ∧
    (withOutcome r t (classify env l r now dur .permanent)).success = false ∧
    (withOutcome r t (classify env l r now dur .permanent)).delayed = none := by
  rw [classify_of_precheck_none h]
  simp [post, finalWith, withOutcome]

/-- In ignored mode an arbitrary error counts as done: final, no exception, recorded as success. -/
theorem ignored_done (env : Env) (l : Limits) (r : Rec) (now : Int) (dur : Nat) (t : Int)
    (h : precheck l r now = none) (hm : l.mode env = .ignored) :
    classify env l r now dur .arbitrary = finalWith .none ∧
    (withOutcome r t (classify env l r now dur .arbitrary)).success = true ∧
    (withOutcome r t (classify env l r now dur .arbitrary)).failure = false := by
  rw [classify_of_precheck_none h]
  simp [post, hm, finalWith, withOutcome]

/-- An arbitrary error, by errors mode (the handler's own, else the default): permanent → final
    failure; ignored → done; temporary → retried after the backoff (the handler's own, else the
    configured default) unless a limit is provably reached. -/
theorem arbitrary_by_mode (env : Env) (l : Limits) (r : Rec) (now : Int) (dur : Nat)
    (h : precheck l r now = none) :
    (l.mode env = .permanent → classify env l r now dur .arbitrary = finalWith .raised) ∧
    (l.mode env = .ignored → classify env l r now dur .arbitrary = finalWith .none) ∧
    (l.mode env = .temporary →
      RetriedOrLimit l r (now + dur) (classify env l r now dur .arbitrary)
        (some (l.backoffOr env)) (l.backoffOr env)) := by
  rw [classify_of_precheck_none h]
  exact ⟨fun hm => by simp [post, hm], fun hm => by simp [post, hm],
    fun hm => post_arbitrary_verdict env l r (now + dur) hm⟩

/-- Pending sub-handlers: the parent is retried with the delay the children ask for (no look-ahead). -/
theorem children_retry (env : Env) (l : Limits) (r : Rec) (now : Int) (dur : Nat) (d : Option Int)
    (h : precheck l r now = none) :
    classify env l r now dur (.childrenRetry d) = retryWith d := by
  rw [classify_of_precheck_none h]; rfl

/-- The function is not called iff a limit is reached (timeout: runtime ≥ T; retries: stored count ≥ N),
    and then the outcome is a final failure naming the limit, recorded as failure. -/
theorem limits_refuse (env : Env) (l : Limits) (r : Rec) (now : Int) (dur : Nat) (x : Raised) (t : Int) :
    ((classify env l r now dur x).invoked = false ↔
      ((∃ T, l.timeout = some T ∧ now - r.started ≥ T) ∨ (∃ N, l.retries = some N ∧ r.retries ≥ N))) ∧
    ((classify env l r now dur x).invoked = false →
      (classify env l r now dur x).final = true ∧
      ((classify env l r now dur x).exc = .timeout ∨ (classify env l r now dur x).exc = .retries) ∧
      (withOutcome r t (classify env l r now dur x)).failure = true ∧
      (withOutcome r t (classify env l r now dur x)).success = false) := by
  constructor
  · rw [← Bool.not_eq_true, classify_invoked_iff, precheck_none_iff, ← timedOut_true_iff, ← retriesOut_true_iff]
    simp only [Rec.runtime]
    cases timedOut l (now - r.started) <;> cases retriesOut l r.retries <;> simp
  · intro hinv
    cases hp : precheck l r now with
    | none => rw [← Bool.not_eq_true, classify_invoked_iff] at hinv; exact absurd hp hinv
    | some e =>
      rw [classify_of_precheck_some hp]
      rcases precheck_some_ne_none hp with rfl | rfl <;> simp [withOutcome]

/-- The record is finished exactly when the outcome was final; success iff final without exception. -/
theorem final_finished (r : Rec) (t : Int) (o : Outcome) :
    (withOutcome r t o).finished = o.final ∧
    ((withOutcome r t o).success = true ↔ (o.final = true ∧ o.exc = .none)) ∧
    ((withOutcome r t o).failure = true ↔ (o.final = true ∧ o.exc ≠ .none)) := by
  refine ⟨withOutcome_finished r t o, ?_, ?_⟩ <;> simp [withOutcome]

/-! ## Whole histories: any cycle times, any batch positions, restarts anywhere -/

/-- Once finished (success or failure for good) the handler is never executed again. -/
theorem finished_never_runs (env : Env) (l : Limits) (now : Int) (r : Rec) (steps : List Step)
    (h : r.finished = true) : attempts (run env l now r steps) = [] :=
  attempts_run_finished env l steps now r h

/-- `b` comes after `a` in a history: not before `a`'s outcome was merged, and if `a` asked for a
    delay, not before that delay has passed since; and `a` was not final. -/
def After (a b : Attempt) : Prop :=
  a.merged ≤ b.time ∧ (∀ d, a.out.delay = some d → a.merged + d ≤ b.time) ∧ a.out.final = false

/-- Never sooner than the requested delay or backoff: EVERY later attempt (not only the next one)
    starts no earlier than the merge of the earlier outcome plus its delay, in every history. -/
theorem delay_respected (env : Env) (l : Limits) (steps : List Step) :
    ∀ (now : Int) (r : Rec), (attempts (run env l now r steps)).Pairwise After := by
  induction steps with
  | nil => intro now r; exact List.Pairwise.nil
  | cons s rest ih =>
    intro now r
    cases s with
    | restart dn => rw [run_restart, attempts_cons_restarted]; exact ih _ _
    | cycle dt wait x dur lag =>
      cases hg : r.awakened (now + dt) with
      | false => rw [run_cycle_idle _ _ _ _ _ _ _ _ _ _ hg, attempts_cons_idle]; exact ih _ _
      | true =>
        rw [run_cycle_awake _ _ _ _ _ _ _ _ _ _ hg, attempts_cons_att]
        refine List.Pairwise.cons ?_ (ih _ _)
        intro b hb
        obtain ⟨h1, h2, h3⟩ := run_lower env l rest _ _ b hb
        refine ⟨h1, ?_, ?_⟩
        · intro d hd
          exact h3 _ (attemptAt_delayed env l _ r x dur lag d hd)
        · rw [← attemptAt_finished]; exact h2

/-- The same for consecutive attempts, in the property's words:
    `attempt (n+1).time ≥ attempt n .end + delay n` (and `end ≥ time`). -/
theorem delay_respected_succ (env : Env) (l : Limits) (now : Int) (r : Rec) (steps : List Step)
    (n : Nat) (a b : Attempt)
    (ha : (attempts (run env l now r steps))[n]? = some a)
    (hb : (attempts (run env l now r steps))[n + 1]? = some b) :
    a.time ≤ a.endTime ∧ a.endTime ≤ b.time ∧ ∀ d, a.out.delay = some d → a.endTime + d ≤ b.time := by
  have hp := delay_respected env l steps now r
  obtain ⟨hn, rfl⟩ := List.getElem?_eq_some_iff.1 ha
  obtain ⟨hn1, rfl⟩ := List.getElem?_eq_some_iff.1 hb
  have hab : After _ _ := List.pairwise_iff_getElem.1 hp n (n + 1) hn hn1 (Nat.lt_succ_self n)
  have hmem : (attempts (run env l now r steps))[n] ∈ attempts (run env l now r steps) := List.getElem_mem hn
  -- every attempt is an `attemptAt`: time ≤ end ≤ merged
  have key : ∀ (steps : List Step) (now : Int) (r : Rec) (a : Attempt),
      a ∈ attempts (run env l now r steps) → a.time ≤ a.endTime ∧ a.endTime ≤ a.merged := by
    intro steps
    induction steps with
    | nil => intro now r a h; cases h
    | cons s rest ih =>
      intro now r a h
      cases s with
      | restart dn => rw [run_restart, attempts_cons_restarted] at h; exact ih _ _ a h
      | cycle dt wait x dur lag =>
        cases hg : r.awakened (now + dt) with
        | false => rw [run_cycle_idle _ _ _ _ _ _ _ _ _ _ hg, attempts_cons_idle] at h; exact ih _ _ a h
        | true =>
          rw [run_cycle_awake _ _ _ _ _ _ _ _ _ _ hg, attempts_cons_att] at h
          rcases List.mem_cons.1 h with rfl | h'
          · exact ⟨attemptAt_time_le_end .., attemptAt_end_le_merged ..⟩
          · exact ih _ _ a h'
  obtain ⟨k1, k2⟩ := key steps now r _ hmem
  obtain ⟨h1, h2, _⟩ := hab
  refine ⟨k1, by omega, ?_⟩
  intro d hd
  have := h2 d hd
  omega

/-- A final outcome (success, ignored error, permanent error, limit) is the last attempt. -/
theorem final_is_last (env : Env) (l : Limits) (now : Int) (r : Rec) (steps : List Step)
    (n : Nat) (a : Attempt) (ha : (attempts (run env l now r steps))[n]? = some a)
    (hf : a.out.final = true) : (attempts (run env l now r steps)).length = n + 1 := by
  have hp := delay_respected env l steps now r
  obtain ⟨hn, rfl⟩ := List.getElem?_eq_some_iff.1 ha
  apply Nat.le_antisymm _ hn
  apply Nat.le_of_not_lt
  intro hlt
  have hab : After _ _ := List.pairwise_iff_getElem.1 hp n (n + 1) hn hlt (Nat.lt_succ_self n)
  rw [hab.2.2] at hf
  cases hf

/-- With `retries = N` the function is invoked at most `N − (stored count)` more times — over any
    history, restarts included. -/
theorem retries_bound (env : Env) (l : Limits) (N : Int) (hN : l.retries = some N) (steps : List Step) :
    ∀ (now : Int) (r : Rec), (invocations (run env l now r steps)).length ≤ (N - r.retries).toNat := by
  induction steps with
  | nil => intro now r; simp [run, invocations, attempts]
  | cons s rest ih =>
    intro now r
    cases s with
    | restart dn => rw [run_restart]; exact ih _ _
    | cycle dt wait x dur lag =>
      cases hg : r.awakened (now + dt) with
      | false => rw [run_cycle_idle _ _ _ _ _ _ _ _ _ _ hg]; exact ih _ _
      | true =>
        rw [run_cycle_awake _ _ _ _ _ _ _ _ _ _ hg, invocations_cons_att]
        have ih' := ih (attemptAt env l (now + dt + wait) r x dur lag).merged
          (attemptAt env l (now + dt + wait) r x dur lag).recAfter
        rw [attemptAt_rec_retries] at ih'
        by_cases hi : (attemptAt env l (now + dt + wait) r x dur lag).out.invoked = true
        · have hp := (classify_invoked_iff env l r _ dur x).1 hi
          have hlt := retriesOut_false_of l _ N hN ((precheck_none_iff l r _).1 hp).2
          rw [if_pos hi]
          omega
        · rw [if_neg hi]; omega

/-- From scratch: at most `N` invocations with `retries = N` (none at all for `N ≤ 0`). -/
theorem retries_bound_scratch (env : Env) (l : Limits) (N : Int) (hN : l.retries = some N)
    (now t0 : Int) (steps : List Step) :
    (invocations (run env l now (fromScratch t0) steps)).length ≤ N.toNat := by
  have := retries_bound env l N hN steps now (fromScratch t0)
  simpa [fromScratch] using this

/-- The bound is tight: for every `N` there is a history with exactly `N` invocations
    (the code allows `N`, not `N+1` and not only `N−1`). -/
theorem retries_bound_tight (env : Env) (N : Nat) (b : Option Int) (m : Option Mode) :
    ∃ steps, (invocations (run env ⟨m, none, some N, b⟩ 0 (fromScratch 0) steps)).length = N := by
  refine ⟨List.replicate N (.cycle 0 0 (.childrenRetry none) 0 0), ?_⟩
  -- generalise: from any unfinished, undelayed record with k retries left, k cycles give k invocations
  suffices H : ∀ (k : Nat) (now : Int) (r : Rec), r.finished = false → r.delayed = none →
      r.retries + k = N →
      (invocations (run env ⟨m, none, some N, b⟩ now r
        (List.replicate k (.cycle 0 0 (.childrenRetry none) 0 0)))).length = k by
    exact H N 0 (fromScratch 0) rfl rfl (by simp [fromScratch])
  intro k
  induction k with
  | zero => intro now r _ _ _; rfl
  | succ k ih =>
    intro now r hf hd hk
    have hg : r.awakened (now + (0 : Nat)) = true := awakened_of hf (by simp [hd])
    rw [List.replicate_succ, run_cycle_awake _ _ _ _ _ _ _ _ _ _ hg]
    have hp : precheck ⟨m, none, some N, b⟩ r (now + (0 : Nat) + (0 : Nat)) = none := by
      rw [precheck_none_iff]
      refine ⟨by simp [timedOut], ?_⟩
      simp only [retriesOut, decide_eq_false_iff_not]
      omega
    have hc := children_retry env ⟨m, none, some N, b⟩ r (now + (0 : Nat) + (0 : Nat)) 0 none hp
    simp only [invocations, attempts_cons_att, List.filter_cons, attemptAt_out, hc, retryWith, if_true,
      List.length_cons]
    have := ih (attemptAt env ⟨m, none, some N, b⟩ (now + (0 : Nat) + (0 : Nat)) r (.childrenRetry none) 0 0).merged
      (attemptAt env ⟨m, none, some N, b⟩ (now + (0 : Nat) + (0 : Nat)) r (.childrenRetry none) 0 0).recAfter
      (by rw [attemptAt_finished, attemptAt_out, hc]; rfl)
      (by simp only [attemptAt, hc, retryWith, withOutcome])
      (by simp only [attemptAt_rec_retries]; omega)
    simp only [invocations] at this
    omega

/-- With `timeout = T` no invocation starts at runtime ≥ T (runtime counted from the record's
    `started`, the first cycle) — over any history, restarts and downtime included. -/
theorem timeout_bound (env : Env) (l : Limits) (T : Int) (hT : l.timeout = some T) (steps : List Step) :
    ∀ (now : Int) (r : Rec) (a : Attempt), a ∈ invocations (run env l now r steps) → a.time - r.started < T := by
  induction steps with
  | nil => intro now r a h; simp [run, invocations, attempts] at h
  | cons s rest ih =>
    intro now r a h
    cases s with
    | restart dn => rw [run_restart] at h; exact ih _ _ a h
    | cycle dt wait x dur lag =>
      cases hg : r.awakened (now + dt) with
      | false => rw [run_cycle_idle _ _ _ _ _ _ _ _ _ _ hg] at h; exact ih _ _ a h
      | true =>
        rw [run_cycle_awake _ _ _ _ _ _ _ _ _ _ hg] at h
        simp only [invocations, attempts_cons_att, List.filter_cons] at h
        split at h
        · rename_i hi
          rcases List.mem_cons.1 h with rfl | h'
          · simp only [attemptAt_out] at hi
            have hp := (classify_invoked_iff env l r _ dur x).1 hi
            have := timedOut_false_of l _ T hT ((precheck_none_iff l r _).1 hp).1
            simpa [Rec.runtime] using this
          · have := ih _ _ a h'
            simpa using this
        · have := ih _ _ a h
          simpa using this

/-- … and an execution at runtime ≥ T does not call the function and records a failure for good. -/
theorem timeout_refuses (env : Env) (l : Limits) (T : Int) (hT : l.timeout = some T) (steps : List Step) :
    ∀ (now : Int) (r : Rec) (a : Attempt), a ∈ attempts (run env l now r steps) → a.time - r.started ≥ T →
      a.out = { invoked := false, final := true, delay := none, exc := .timeout } ∧
      a.recAfter.failure = true ∧ a.recAfter.success = false ∧ a.recAfter.finished = true := by
  induction steps with
  | nil => intro now r a h; cases h
  | cons s rest ih =>
    intro now r a h hge
    cases s with
    | restart dn => rw [run_restart, attempts_cons_restarted] at h; exact ih _ _ a h hge
    | cycle dt wait x dur lag =>
      cases hg : r.awakened (now + dt) with
      | false => rw [run_cycle_idle _ _ _ _ _ _ _ _ _ _ hg, attempts_cons_idle] at h; exact ih _ _ a h hge
      | true =>
        rw [run_cycle_awake _ _ _ _ _ _ _ _ _ _ hg, attempts_cons_att] at h
        rcases List.mem_cons.1 h with rfl | h'
        · simp only [attemptAt_time] at hge
          have hp : precheck l r (now + dt + wait) = some .timeout := by
            simp only [precheck, timedOut, hT, Rec.runtime]
            rw [if_pos (by simpa using hge)]
          have hc := classify_of_precheck_some (env := env) (dur := dur) (x := x) hp
          simp only [attemptAt, hc, withOutcome, Rec.finished]
          simp
        · exact ih _ _ a h' (by simpa using hge)

/-- A cycle of a batch that merges at once (`lag = 0`) and is not waiting for sub-handlers. -/
def Step.plain : Step → Prop
  | .cycle _ _ x _ lag => lag = 0 ∧ ∀ d, x ≠ .childrenRetry d
  | .restart _ => True

/-- "after which it is recorded as failed for good", the part about sleeping: from a fresh record,
    when outcomes are merged at once and no sub-handlers are pending, the handler never sleeps past
    its timeout — every cycle at runtime ≥ T finds it finished or (by `timeout_refuses`) fails it.

    PARTIAL: the full statement (for all steps) is false — see `timeout_sleep_past_witness`: the
    look-ahead is computed when the call ends, `delayed` when the batch is merged (`lag`), and
    `HandlerChildrenRetry` has no look-ahead at all; then the failure is recorded at the first
    cycle after `delayed`, later than T. No attempt starts later than T in any case (`timeout_bound`). -/
theorem timeout_failed_for_good_partial (env : Env) (l : Limits) (T : Int) (hT : l.timeout = some T)
    (steps : List Step) (hplain : ∀ s ∈ steps, s.plain) :
    ∀ (now : Int) (r : Rec), (r.finished = true ∨ ∀ D, r.delayed = some D → D < r.started + T) →
      ∀ t done, Ev.idle t done ∈ run env l now r steps → t - r.started ≥ T → done = true := by
  induction steps with
  | nil => intro now r _ t done h; cases h
  | cons s rest ih =>
    have hrest : ∀ s ∈ rest, s.plain := fun s hs => hplain s (List.mem_cons_of_mem _ hs)
    intro now r hinv t done h hge
    cases s with
    | restart dn =>
      rw [run_restart] at h
      rcases List.mem_cons.1 h with h | h
      · cases h
      · exact ih hrest _ _ hinv t done h hge
    | cycle dt wait x dur lag =>
      obtain ⟨hlag, hx⟩ := hplain (.cycle dt wait x dur lag) List.mem_cons_self
      subst hlag
      cases hg : r.awakened (now + dt) with
      | false =>
        rw [run_cycle_idle _ _ _ _ _ _ _ _ _ _ hg] at h
        rcases List.mem_cons.1 h with h | h
        · injection h with h1 h2
          subst h1 h2
          -- not awake at runtime ≥ T: with the invariant it can only be finished
          cases hf : r.finished with
          | true => rfl
          | false =>
            exfalso
            rcases hinv with hinv | hinv
            · rw [hf] at hinv; cases hinv
            · have : r.awakened (now + dt) = true := awakened_of hf (fun D hD => by have := hinv D hD; omega)
              rw [hg] at this; cases this
        · exact ih hrest _ _ hinv t done h hge
      | true =>
        rw [run_cycle_awake _ _ _ _ _ _ _ _ _ _ hg] at h
        rcases List.mem_cons.1 h with h | h
        · cases h
        · refine ih hrest _ _ ?_ t done h (by simpa using hge)
          -- the invariant is kept by one execution
          simp only [attemptAt_started]
          cases hfin : (attemptAt env l (now + dt + wait) r x dur 0).out.final with
          | true => left; rw [attemptAt_finished]; exact hfin
          | false =>
            right
            intro D hD
            simp only [attemptAt_out] at hfin
            cases hp : precheck l r (now + dt + wait) with
            | some e => rw [classify_of_precheck_some hp] at hfin; cases hfin
            | none =>
              have hinvk : (classify env l r (now + dt + wait) dur x).invoked = true :=
                (classify_invoked_iff ..).2 hp
              have hcl := classify_of_precheck_none (env := env) (dur := dur) (x := x) hp
              simp only [attemptAt, withOutcome_delayed, endTime_invoked hinvk] at hD
              rw [hcl] at hD hfin
              cases x with
              | ok => simp [post, finalWith] at hfin
              | permanent => simp [post, finalWith] at hfin
              | childrenRetry d => exact absurd rfl (hx d)
              | temporary d =>
                have hro := post_temporary_verdict env l r (now + dt + wait + dur) d
                rcases hro.2 with ⟨heq, hlt, _⟩ | ⟨heq, _⟩ | ⟨heq, _⟩
                · rw [heq] at hD
                  have := hlt T hT
                  cases d with
                  | none => simp [retryWith] at hD
                  | some d' =>
                    simp only [retryWith, Option.some.injEq] at hD
                    simp only [Rec.runtime, orZero] at this
                    omega
                · rw [heq] at hfin; simp [finalWith] at hfin
                · rw [heq] at hfin; simp [finalWith] at hfin
              | arbitrary =>
                cases hm : l.mode env with
                | ignored => simp [post, hm, finalWith] at hfin
                | permanent => simp [post, hm, finalWith] at hfin
                | temporary =>
                  have hro := post_arbitrary_verdict env l r (now + dt + wait + dur) hm
                  rcases hro.2 with ⟨heq, hlt, _⟩ | ⟨heq, _⟩ | ⟨heq, _⟩
                  · rw [heq] at hD
                    have := hlt T hT
                    simp only [retryWith, Option.some.injEq] at hD
                    simp only [Rec.runtime] at this
                    omega
                  · rw [heq] at hfin; simp [finalWith] at hfin
                  · rw [heq] at hfin; simp [finalWith] at hfin

/-- The negation of the unguarded statement, by a concrete witness: a parent with `timeout = 10`
    whose children ask for 100 sleeps through its own deadline (a cycle at runtime 50 finds it
    unfinished and not due); it fails for good only at the first cycle after 100. -/
theorem timeout_sleep_past_witness :
    ∃ (env : Env) (l : Limits) (T : Int) (steps : List Step) (t : Int),
      l.timeout = some T ∧ Ev.idle t false ∈ run env l 0 (fromScratch 0) steps ∧ t - 0 ≥ T := by
  refine ⟨⟨.temporary, 60⟩, ⟨none, some 10, none, none⟩, 10,
    [.cycle 0 0 (.childrenRetry (some 100)) 0 0, .cycle 50 0 .ok 0 0], 50, rfl, ?_, by decide⟩
  decide

/-! ## Operator restarts (change handlers, sub-handlers: the record lives on the object) -/

/-- What a restart keeps: the stored record read back is the record (whenever it is read). -/
theorem restart_roundtrip (r : Rec) (now : Int) : fromStorage (toStorage r) now = r := roundtrip r now

theorem squashFrom_spec (env : Env) (l : Limits) (steps : List Step) :
    ∀ (now : Int) (acc : Nat) (r : Rec),
      attempts (run env l (now + acc) r steps) = attempts (run env l now r (squashFrom acc steps)) := by
  induction steps with
  | nil => intro now acc r; rfl
  | cons s rest ih =>
    intro now acc r
    cases s with
    | restart dn =>
      rw [run_restart, attempts_cons_restarted]
      simp only [squashFrom]
      rw [← ih now (acc + dn) r]
      congr 2
      omega
    | cycle dt wait x dur lag =>
      simp only [squashFrom]
      have e : now + ↑acc + ↑dt = now + ↑(acc + dt) := by omega
      cases hg : r.awakened (now + ↑acc + ↑dt) with
      | true =>
        rw [run_cycle_awake _ _ _ _ _ _ _ _ _ _ hg, run_cycle_awake _ _ _ _ _ _ _ _ _ _ (by rw [← e]; exact hg)]
        rw [attempts_cons_att, attempts_cons_att, ← e]
        congr 1
        have := ih (attemptAt env l (now + ↑acc + ↑dt + ↑wait) r x dur lag).merged 0
          (attemptAt env l (now + ↑acc + ↑dt + ↑wait) r x dur lag).recAfter
        simpa using this
      | false =>
        rw [run_cycle_idle _ _ _ _ _ _ _ _ _ _ hg, run_cycle_idle _ _ _ _ _ _ _ _ _ _ (by rw [← e]; exact hg)]
        rw [attempts_cons_idle, attempts_cons_idle, ← e]
        have := ih (now + ↑acc + ↑dt) 0 r
        simpa using this

/-- Restarts anywhere in a history change nothing but the clock: the attempts (times, retry
    numbers, outcomes, records) are those of the restart-free history in which every downtime is
    added to the wait before the next cycle. -/
theorem restart_invariant (env : Env) (l : Limits) (now : Int) (r : Rec) (steps : List Step) :
    attempts (run env l now r steps) = attempts (run env l now r (squash steps)) ∧
    ∀ s ∈ squash steps, ∀ dn, s ≠ .restart dn := by
  constructor
  · have := squashFrom_spec env l steps now 0 r
    simpa [squash] using this
  · have H : ∀ (steps : List Step) (acc : Nat), ∀ s ∈ squashFrom acc steps, ∀ dn, s ≠ .restart dn := by
      intro steps
      induction steps with
      | nil => intro acc s hs; cases hs
      | cons s' rest ih =>
        intro acc s hs dn
        cases s' with
        | restart d => exact ih _ s hs dn
        | cycle dt wait x dur lag =>
          simp only [squashFrom] at hs
          rcases List.mem_cons.1 hs with rfl | hs'
          · intro h; cases h
          · exact ih _ s hs' dn
    exact H steps 0

/-! ## The in-memory loops: activities, daemons, one retry series of a timer -/

/-- `run_activity`, `_daemon` and `_timer` (per series) are the same fold, woken exactly when
    `sleep(state.delay)` ends — so every theorem above holds for them. -/
theorem loop_is_run (env : Env) (l : Limits) (script : List (Raised × Nat)) :
    ∀ (now : Int) (r : Rec),
      attempts (run env l now r (loopSteps env l now r script)) = loopRun env l now r script := by
  induction script with
  | nil => intro now r; rfl
  | cons s rest ih =>
    intro now r
    obtain ⟨x, dur⟩ := s
    cases hf : r.finished with
    | true => simp [loopSteps, loopRun, hf, run, attempts]
    | false =>
      have hw := wakeTime_ge r now
      have e : now + ↑(wakeTime r now - now).toNat = wakeTime r now := by omega
      have hg : r.awakened (now + ↑(wakeTime r now - now).toNat) = true := by
        rw [e]; exact awakened_wakeTime hf now
      simp only [loopSteps, loopRun, hf, Bool.false_eq_true, if_false]
      rw [run_cycle_awake _ _ _ _ _ _ _ _ _ _ hg, attempts_cons_att, e]
      simp only [Int.natCast_zero, Int.add_zero]
      rw [ih]

theorem loop_retries_bound (env : Env) (l : Limits) (N : Int) (hN : l.retries = some N) (now : Int)
    (script : List (Raised × Nat)) :
    ((loopRun env l now (fromScratch now) script).filter (fun a => a.out.invoked)).length ≤ N.toNat := by
  rw [← loop_is_run]
  exact retries_bound_scratch env l N hN now now _

theorem loop_timeout_bound (env : Env) (l : Limits) (T : Int) (hT : l.timeout = some T) (now : Int)
    (script : List (Raised × Nat)) (a : Attempt)
    (ha : a ∈ loopRun env l now (fromScratch now) script) (hi : a.out.invoked = true) : a.time - now < T := by
  rw [← loop_is_run] at ha
  have := timeout_bound env l T hT (loopSteps env l now (fromScratch now) script) now (fromScratch now) a
    (List.mem_filter.2 ⟨ha, hi⟩)
  simpa [fromScratch] using this

theorem loop_delay_respected (env : Env) (l : Limits) (now : Int) (r : Rec) (script : List (Raised × Nat)) :
    (loopRun env l now r script).Pairwise After := by
  rw [← loop_is_run]
  exact delay_respected env l _ now r

/-! ## Timers: the whole life of one timer (after the repair of finding C11-F1, commit af4d77a)

  One retry series of `_timer` is `loopRun` (so `loop_retries_bound`, `loop_timeout_bound`,
  `loop_delay_respected`, `final_is_last` hold per series); a new series starts only after a
  success; a series that failed for good is the last thing the timer ever invokes. -/

def invokedOf (as : List Attempt) : List Attempt := as.filter (fun a => a.out.invoked)

/-- A timer whose record is a failure for good never invokes (or even executes) anything again. -/
theorem timer_failed_never_runs (env : Env) (l : Limits) (interval : Nat) (sharp : Bool) (now : Int) (r : Rec)
    (script : List (Raised × Nat)) (h : r.failure = true) : timerRun env l interval sharp now r script = [] := by
  cases script with
  | nil => rfl
  | cons s rest => obtain ⟨x, dur⟩ := s; simp [timerRun, h]

/-- After a final failure (PermanentError, permanent-mode error, retries or timeout exhausted) there is
    no further attempt in the timer's life: an attempt that is followed by another one did not fail. -/
theorem timer_failure_is_last (env : Env) (l : Limits) (interval : Nat) (sharp : Bool)
    (script : List (Raised × Nat)) :
    ∀ (now : Int) (r : Rec),
      (timerRun env l interval sharp now r script).Pairwise (fun a _ => a.recAfter.failure = false) := by
  induction script with
  | nil => intro now r; exact List.Pairwise.nil
  | cons s rest ih =>
    intro now r
    obtain ⟨x, dur⟩ := s
    cases hf : r.failure with
    | true => simp [timerRun, hf]
    | false =>
      simp only [timerRun, hf, Bool.false_eq_true, if_false]
      refine List.Pairwise.cons ?_ (ih _ _)
      intro b hb
      cases hfa : (attemptAt env l now (if r.finished = true then fromScratch now else r) x dur 0).recAfter.failure with
      | false => rfl
      | true => rw [timer_failed_never_runs _ _ _ _ _ _ _ hfa] at hb; cases hb

/-- `retries = N`, per series: every invocation in a timer's life has a retry number below `N`… -/
theorem timer_retry_lt (env : Env) (l : Limits) (N : Int) (hN : l.retries = some N) (interval : Nat) (sharp : Bool)
    (script : List (Raised × Nat)) :
    ∀ (now : Int) (r : Rec) (a : Attempt), a ∈ timerRun env l interval sharp now r script →
      a.out.invoked = true → a.retry < N := by
  induction script with
  | nil => intro now r a h; cases h
  | cons s rest ih =>
    intro now r a h hi
    obtain ⟨x, dur⟩ := s
    cases hf : r.failure with
    | true => simp [timerRun, hf] at h
    | false =>
      simp only [timerRun, hf, Bool.false_eq_true, if_false] at h
      rcases List.mem_cons.1 h with rfl | h'
      · simp only [attemptAt_out] at hi
        have hp := (classify_invoked_iff env l _ _ dur x).1 hi
        exact retriesOut_false_of l _ N hN ((precheck_none_iff l _ _).1 hp).2
      · exact ih _ _ a h' hi

/-- … and the retry numbers count up by one inside a series; a new series (retry 0 again) starts
    only right after a success. Hence at most `N` invocations per series, and with
    `timer_failure_is_last` a failed series is the last one. -/
theorem timer_retry_steps (env : Env) (l : Limits) (interval : Nat) (sharp : Bool) (script : List (Raised × Nat)) :
    ∀ (now : Int) (r : Rec) (n : Nat) (a b : Attempt),
      (timerRun env l interval sharp now r script)[n]? = some a →
      (timerRun env l interval sharp now r script)[n + 1]? = some b →
      (b.retry = a.retry + 1 ∧ a.recAfter.finished = false) ∨ (b.retry = 0 ∧ a.recAfter.success = true) := by
  induction script with
  | nil => intro now r n a b ha; simp [timerRun] at ha
  | cons s rest ih =>
    intro now r n a b ha hb
    obtain ⟨x, dur⟩ := s
    cases hf : r.failure with
    | true => simp [timerRun, hf] at ha
    | false =>
      simp only [timerRun, hf, Bool.false_eq_true, if_false] at ha hb
      cases n with
      | succ m =>
        rw [List.getElem?_cons_succ] at ha hb
        exact ih _ _ m a b ha hb
      | zero =>
        rw [List.getElem?_cons_zero] at ha
        rw [List.getElem?_cons_succ] at hb
        cases ha
        -- b is the head of the continuation
        cases rest with
        | nil => simp [timerRun] at hb
        | cons s' rest' =>
          obtain ⟨x', dur'⟩ := s'
          generalize hA : attemptAt env l now (if r.finished = true then fromScratch now else r) x dur 0 = A at hb ⊢
          cases hfa : A.recAfter.failure with
          | true => simp [timerRun, hfa] at hb
          | false =>
            simp only [timerRun, hfa, Bool.false_eq_true, if_false, List.getElem?_cons_zero,
              Option.some.injEq] at hb
            subst hb
            simp only [attemptAt_retry]
            cases hfin : A.recAfter.finished with
            | false => left; simp [hfin, ← hA]
            | true =>
              right
              have hs : A.recAfter.success = true := by
                simp only [Rec.finished, hfa, Bool.or_false] at hfin; exact hfin
              simp [fromScratch, hs]

/-- The count over the whole life: at most `N` invocations for the running series plus `N` for every
    success (each success opens one new series); a failure opens nothing. -/
def budget (N : Int) (r : Rec) : Nat :=
  if r.failure then 0 else if r.success then N.toNat else (N - r.retries).toNat

theorem timer_invocations_bound (env : Env) (l : Limits) (N : Int) (hN : l.retries = some N) (interval : Nat)
    (sharp : Bool) (script : List (Raised × Nat)) :
    ∀ (now : Int) (r : Rec),
      (invokedOf (timerRun env l interval sharp now r script)).length ≤
        budget N r + N.toNat * ((timerRun env l interval sharp now r script).filter
          (fun a => a.recAfter.success)).length := by
  induction script with
  | nil => intro now r; simp [timerRun, invokedOf]
  | cons s rest ih =>
    intro now r
    obtain ⟨x, dur⟩ := s
    cases hf : r.failure with
    | true => simp [timerRun, hf, invokedOf]
    | false =>
      simp only [timerRun, hf, Bool.false_eq_true, if_false]
      generalize hr0 : (if r.finished = true then fromScratch now else r) = r0
      have hb0 : budget N r = (N - r0.retries).toNat := by
        subst hr0
        cases hs : r.success with
        | true => simp [budget, hf, hs, Rec.finished, fromScratch]
        | false => simp [budget, hf, hs, Rec.finished]
      generalize hA : attemptAt env l now r0 x dur 0 = A
      have ih' := ih (timerNext interval sharp A) A.recAfter
      have hAr : A.recAfter.retries = r0.retries + 1 := by rw [← hA]; rfl
      have hAo : A.out = classify env l r0 now dur x := by rw [← hA]; rfl
      simp only [invokedOf, List.filter_cons] at ih' ⊢
      rw [hb0]
      by_cases hi : A.out.invoked = true
      · have hp := (classify_invoked_iff env l r0 now dur x).1 (hAo ▸ hi)
        have hlt := retriesOut_false_of l _ N hN ((precheck_none_iff l r0 now).1 hp).2
        rw [if_pos hi, List.length_cons]
        cases hfa : A.recAfter.failure with
        | true =>
          have hs : A.recAfter.success = false := by
            have := (final_finished r0 (A.merged) A.out)
            rw [← hA] at hfa ⊢
            simp only [attemptAt, withOutcome] at hfa ⊢
            cases h1 : (classify env l r0 now dur x).final <;> cases h2 : ((classify env l r0 now dur x).exc == Exc.none) <;>
              simp_all
          simp only [budget, hfa, if_true] at ih'
          rw [hs]; simp only [Bool.false_eq_true, if_false]
          omega
        | false =>
          cases hs : A.recAfter.success with
          | true =>
            simp only [budget, hfa, hs, Bool.false_eq_true, if_false, if_true] at ih'
            simp only [if_true, List.length_cons, Nat.mul_add, Nat.mul_one]
            omega
          | false =>
            simp only [budget, hfa, hs, Bool.false_eq_true, if_false, hAr] at ih'
            simp only [Bool.false_eq_true, if_false]
            omega
      · rw [if_neg hi]
        -- not invoked: a limit refused it, the record is a failure: nothing follows
        have hni : (classify env l r0 now dur x).invoked = false := by
          rw [← hAo]; simpa using hi
        have hfa : A.recAfter.failure = true := by
          rw [← hA]; exact ((limits_refuse env l r0 now dur x _).2 hni).2.2.1
        have hsu : A.recAfter.success = false := by
          rw [← hA]; exact ((limits_refuse env l r0 now dur x _).2 hni).2.2.2
        rw [timer_failed_never_runs _ _ _ _ _ _ _ hfa] at ih' ⊢
        simp [hsu]

/-- As long as the record is not finished, the timer's next step is the in-memory loop's next step. -/
theorem timer_series_is_loop (env : Env) (l : Limits) (interval : Nat) (sharp : Bool) (now : Int) (r : Rec)
    (x : Raised) (dur : Nat) (rest : List (Raised × Nat)) (hf : r.finished = false) :
    (timerRun env l interval sharp (wakeTime r now) r ((x, dur) :: rest)).head? =
      (loopRun env l now r ((x, dur) :: rest)).head? := by
  have hfl : r.failure = false := by
    simp only [Rec.finished, Bool.or_eq_false_iff] at hf; exact hf.2
  simp [timerRun, loopRun, hf, hfl]

-- non-vacuity: a timer (interval 10) whose function raises PermanentError is executed once, for ever
example : ((timerRun ⟨.temporary, 60⟩ ⟨none, none, none, none⟩ 10 false 0 (fromScratch 0)
    [(.permanent, 0), (.permanent, 0)]).map (fun a => (a.time, a.retry, a.out.invoked, a.recAfter.failure))) =
    [(0, 0, true, true)] := by decide
-- with retries = 1 a failing timer is invoked once in its life; after successes it starts new series
example : (invokedOf (timerRun ⟨.temporary, 60⟩ ⟨none, none, some 1, none⟩ 10 false 0 (fromScratch 0)
    [(.arbitrary, 0), (.arbitrary, 0), (.arbitrary, 0)])).length = 1 := by decide
example : ((timerRun ⟨.temporary, 60⟩ ⟨none, none, some 2, some 3⟩ 10 false 0 (fromScratch 0)
    [(.ok, 0), (.arbitrary, 0), (.ok, 0), (.arbitrary, 0), (.arbitrary, 0), (.ok, 0)]).map
    (fun a => (a.time, a.retry, a.recAfter.success, a.recAfter.failure))) =
    [(0, 0, true, false), (10, 0, false, false), (13, 1, true, false), (23, 0, false, false), (26, 1, false, true)] := by
  decide

/-! ## Non-vacuity: the hypotheses are met, the branches are taken -/

def envD : Env := ⟨.temporary, 61440⟩

-- `precheck = none` on a fresh record within limits; each kind of verdict occurs
example : precheck ⟨none, some 100, some 3, none⟩ (fromScratch 0) 5 = none := by decide
example : classify envD ⟨none, some 100, some 3, none⟩ (fromScratch 0) 5 0 (.temporary (some 7)) = retryWith (some 7) := by decide
example : classify envD ⟨none, some 100, some 3, none⟩ (fromScratch 0) 5 0 (.temporary (some 95)) = finalWith .timeout := by decide
example : classify envD ⟨none, none, some 1, none⟩ (fromScratch 0) 5 0 (.temporary (some 7)) = finalWith .retries := by decide
example : classify envD ⟨none, none, none, some 9⟩ (fromScratch 0) 5 0 .arbitrary = retryWith (some 9) := by decide
example : classify envD ⟨none, none, none, none⟩ (fromScratch 0) 5 0 .arbitrary = retryWith (some 61440) := by decide
example : Limits.mode envD ⟨some .ignored, none, none, none⟩ = .ignored := by decide
example : Limits.mode ⟨.ignored, 0⟩ ⟨none, none, none, none⟩ = .ignored := by decide
example : classify envD ⟨some .permanent, none, none, none⟩ (fromScratch 0) 5 0 .arbitrary = finalWith .raised := by decide
example : (classify envD ⟨none, some 5, none, none⟩ (fromScratch 0) 5 0 .ok).invoked = false := by decide
example : (classify envD ⟨none, none, some 0, none⟩ (fromScratch 0) 5 0 .ok).invoked = false := by decide

/-- a history with a restart in the middle of a sleep, an early wake-up (idle), three invocations
    with `retries = 3`, spacing by backoff then by the requested delay -/
def demoSteps : List Step :=
  [.cycle 0 0 .arbitrary 0 0, .cycle 16 0 .ok 0 0, .restart 100, .cycle 908 0 (.temporary (some 32)) 16 0,
   .cycle 32 0 .arbitrary 0 0, .cycle 5 0 .ok 0 0]

example : ((attempts (run envD ⟨none, none, some 3, some 1024⟩ 0 (fromScratch 0) demoSteps)).map
    (fun a => (a.time, a.retry, a.out.invoked, a.out.final))) =
    [(0, 0, true, false), (1024, 1, true, false), (1072, 2, true, true)] := by decide
example : (invocations (run envD ⟨none, none, some 3, some 1024⟩ 0 (fromScratch 0) demoSteps)).length = 3 := by decide
example : squash demoSteps = [.cycle 0 0 .arbitrary 0 0, .cycle 16 0 .ok 0 0, .cycle 1008 0 (.temporary (some 32)) 16 0,
   .cycle 32 0 .arbitrary 0 0, .cycle 5 0 .ok 0 0] := by decide
-- timeout_bound / timeout_refuses: an invocation inside T, a refusal at T
example : ((attempts (run envD ⟨none, some 50, none, some 10⟩ 0 (fromScratch 0)
    [.cycle 0 0 .arbitrary 0 0, .cycle 10 0 .arbitrary 0 0, .cycle 40 0 .ok 0 0])).map
    (fun a => (a.time, a.out.invoked, a.out.exc))) = [(0, true, .raised), (10, true, .raised), (50, false, .timeout)] := by
  decide
-- `Step.plain` is met by ordinary single-handler cycles
example : ∀ s ∈ demoSteps, s.plain := by
  intro s hs
  simp only [demoSteps, List.mem_cons, List.mem_nil_iff, or_false] at hs
  rcases hs with rfl | rfl | rfl | rfl | rfl | rfl <;> simp [Step.plain]
-- the in-memory loop: retried after the backoff, then after the requested delay, then done
example : ((loopRun envD ⟨none, none, none, some 1024⟩ 0 (fromScratch 0)
    [(.arbitrary, 0), (.temporary (some 16), 16), (.ok, 0)]).map (fun a => (a.time, a.retry, a.out.final))) =
    [(0, 0, false), (1024, 1, false), (1056, 2, true)] := by decide

end Kopf.C11
