/-
  C11 — property theorems only. Handler error policy: retry delays, permanence, retries/timeout limits.

  All statements are about the model of `execute_handler_once` / `HandlerState` / the gate of
  `execute_handlers_once` in `Kopf/Model/C11_Errors.lean`, for ALL limits, records, times, scripts of
  raised kinds / delays / call durations / batch positions, and restarts anywhere.
-/
import Kopf.Model.C11_Errors
import Kopf.Model.C11_Storage
import Kopf.Lemmas.C11_Errors
namespace Kopf.C11

/-! ## One execution: what each kind of failure leads to -/

/-- The verdict on a retryable failure asking for `delay` (`extra` = what the look-ahead adds):
    retried with exactly that delay, unless a limit is provably reached — and then it is final,
    a failure, and the reason is the limit. -/
def RetriedOrLimit (l : Limits) (r : Rec) (endT : Int) (o : Outcome) (delay : Option Int) (extra : Int) : Prop :=
  o.invoked = true ∧
  ((o = retryWith delay ∧
      (∀ t, l.timeout = some t → r.runtime endT + extra < t) ∧ (∀ k, l.retries = some k → r.retries + 1 < k)) ∨
   (o = finalWith .timeout ∧ ∃ t, l.timeout = some t ∧ r.runtime endT + extra ≥ t) ∨
   (o = finalWith .retries ∧ ∃ k, l.retries = some k ∧ r.retries + 1 ≥ k))

theorem retried_or_limit_of_lookahead (l : Limits) (r : Rec) (endT : Int) (delay : Option Int) (extra : Int) :
    RetriedOrLimit l r endT
      (match lookahead l r endT extra with
       | some e => finalWith e
       | none => retryWith delay) delay extra := by
  cases h : lookahead l r endT extra with
  | none =>
    refine ⟨rfl, Or.inl ⟨rfl, ?_, ?_⟩⟩
    · intro t ht
      unfold lookahead at h
      split at h
      · cases h
      · rename_i hto
        exact timedOut_false_of l _ t ht (by simpa using hto)
    · intro k hk
      unfold lookahead at h
      split at h
      · cases h
      · split at h
        · cases h
        · rename_i hro
          exact retriesOut_false_of l _ k hk (by simpa using hro)
  | some e =>
    rcases lookahead_some_cases h with ⟨rfl, hto⟩ | ⟨rfl, hro⟩
    · exact ⟨rfl, Or.inr (Or.inl ⟨rfl, (timedOut_true_iff _ _).1 hto⟩)⟩
    · exact ⟨rfl, Or.inr (Or.inr ⟨rfl, (retriesOut_true_iff _ _).1 hro⟩)⟩

theorem post_temporary_verdict (env : Env) (l : Limits) (r : Rec) (endT : Int) (d : Option Int) :
    RetriedOrLimit l r endT (post env l r endT (.temporary d)) d (orZero d) :=
  retried_or_limit_of_lookahead l r endT d (orZero d)

theorem post_arbitrary_verdict (env : Env) (l : Limits) (r : Rec) (endT : Int) (hm : l.mode env = .temporary) :
    RetriedOrLimit l r endT (post env l r endT .arbitrary) (some (l.backoffOr env)) (l.backoffOr env) := by
  simp only [post, hm]
  exact retried_or_limit_of_lookahead l r endT (some (l.backoffOr env)) (l.backoffOr env)

/-- A temporary error is retried with the requested delay (`None` stays `None`), unless the
    look-ahead shows that the next attempt would hit `retries`/`timeout`. -/
theorem temp_retried (env : Env) (l : Limits) (r : Rec) (now : Int) (dur : Nat) (d : Option Int)
    (h : precheck l r now = none) :
    RetriedOrLimit l r (now + dur) (classify env l r now dur (.temporary d)) d (orZero d) := by
  rw [classify_of_precheck_none h]
  exact post_temporary_verdict env l r (now + dur) d

/-- A permanent error ends the handler: final, a failure, no delay; the record is finished. -/
theorem perm_final (env : Env) (l : Limits) (r : Rec) (now : Int) (dur : Nat) (t : Int)
    (h : precheck l r now = none) :
    classify env l r now dur .permanent = finalWith .raised ∧
    (withOutcome r t (classify env l r now dur .permanent)).failure = true ∧
    (withOutcome r t (classify env l r now dur .permanent)).success = false ∧
    (withOutcome r t (classify env l r now dur .permanent)).delayed = none := by
  rw [classify_of_precheck_none h]
  simp [post, finalWith, withOutcome]

/-- In ignored mode an arbitrary error counts as done: final, no exception, recorded as success. -/
theorem ignored_done (env : Env) (l : Limits) (r : Rec) (now : Int) (dur : Nat) (t : Int)
    (h : precheck l r now = none) (hm : l.mode env = .ignored) :
    classify env l r now dur .arbitrary = finalWith .none ∧
    (withOutcome r t (classify env l r now dur .arbitrary)).success = true ∧
    (withOutcome r t (classify env l r now dur .arbitrary)).failure = false := by
  rw [classify_of_precheck_none h]
  simp [post, hm, finalWith, withOutcome]

/-- An arbitrary error, by errors mode (the handler's own, else the default): permanent → final
    failure; ignored → done; temporary → retried after the backoff (the handler's own, else the
    configured default) unless a limit is provably reached. -/
theorem arbitrary_by_mode (env : Env) (l : Limits) (r : Rec) (now : Int) (dur : Nat)
    (h : precheck l r now = none) :
    (l.mode env = .permanent → classify env l r now dur .arbitrary = finalWith .raised) ∧
    (l.mode env = .ignored → classify env l r now dur .arbitrary = finalWith .none) ∧
    (l.mode env = .temporary →
      RetriedOrLimit l r (now + dur) (classify env l r now dur .arbitrary)
        (some (l.backoffOr env)) (l.backoffOr env)) := by
  rw [classify_of_precheck_none h]
  exact ⟨fun hm => by simp [post, hm], fun hm => by simp [post, hm],
    fun hm => post_arbitrary_verdict env l r (now + dur) hm⟩

/-- The function is not called iff a limit is reached (timeout: runtime ≥ T; retries: stored count ≥ N),
    and then the outcome is a final failure naming the limit, recorded as failure. -/
theorem limits_refuse (env : Env) (l : Limits) (r : Rec) (now : Int) (dur : Nat) (x : Raised) (t : Int) :
    ((classify env l r now dur x).invoked = false ↔
      ((∃ T, l.timeout = some T ∧ now - r.started ≥ T) ∨ (∃ N, l.retries = some N ∧ r.retries ≥ N))) ∧
    ((classify env l r now dur x).invoked = false →
      (classify env l r now dur x).final = true ∧
      ((classify env l r now dur x).exc = .timeout ∨ (classify env l r now dur x).exc = .retries) ∧
      (withOutcome r t (classify env l r now dur x)).failure = true ∧
      (withOutcome r t (classify env l r now dur x)).success = false) := by
  constructor
  · rw [← Bool.not_eq_true, classify_invoked_iff, precheck_none_iff, ← timedOut_true_iff, ← retriesOut_true_iff]
    simp only [Rec.runtime]
    cases timedOut l (now - r.started) <;> cases retriesOut l r.retries <;> simp
  · intro hinv
    cases hp : precheck l r now with
    | none => rw [← Bool.not_eq_true, classify_invoked_iff] at hinv; exact absurd hp hinv
    | some e =>
      rw [classify_of_precheck_some hp]
      rcases precheck_some_ne_none hp with rfl | rfl <;> simp [withOutcome]

/-- The first execution of a record created at `t0` and reached `wait` ticks later is an invocation
    EXACTLY when `wait < T` and `0 < N` (for the limits that are set). -/
theorem fresh_invoked_iff (env : Env) (l : Limits) (t0 : Int) (wait dur : Nat) (x : Raised) :
    (classify env l (fromScratch t0) (t0 + wait) dur x).invoked = true ↔
      ((∀ T, l.timeout = some T → (wait : Int) < T) ∧ (∀ N, l.retries = some N → 0 < N)) := by
  rw [classify_invoked_iff, precheck_none_iff]
  simp only [timedOut, retriesOut, Rec.runtime, fromScratch]
  cases l.timeout <;> cases l.retries <;> simp <;> omega

/-! ## Whole histories with record continuity: any cycle times, batch positions, restarts between cycles

  `run` threads the record: every cycle sees what the previous one stored. The code re-reads the
  record from the event body (`State.from_storage(body=cause.body)`), so this is a GUARD, not a fact:
  `run` is `runEnv` restricted to cycles with `view = 0 ∧ stored = true` (`run_is_continuous_env`).
  The property quantifies over crash points and histories; over the unrestricted environment
  (`runEnv`: stale event bodies, lost patches, a kill between the handler call and the applied patch)
  the whole-history clauses are FALSE of the code, and the theorems below carry `_partial`:

    full statements (false):  `∀ hist steps, (attempts (runEnv … hist steps)).Pairwise After`
                              `l.retries = some N → (invocations (runEnv … [] steps)).length ≤ N`
                              `l.timeout = some T → ∀ a b ∈ invocations (runEnv …), b.time - a.time < T`
                              `r.finished → attempts (runEnv … (r :: h) steps) = []`
    exact guard:              every cycle has `view = 0 ∧ stored = true` (= `steps.map Step.lift`)
    negations by witness:     `kill_mid_exceeds_retries_witness`, `stale_view_breaks_delay_witness`,
                              `lost_patch_exceeds_timeout_witness`, `stale_view_reruns_finished_witness`
    what holds in EVERY environment: `env_invocation_within_seen_limits`, `env_gate_respected`
                              (each invocation is justified by the record version it was shown).
  Not a defect of kopf: a non-transactional handler call followed by a patch is at-least-once by
  nature (docs: handlers should be idempotent); the limits are enforced against the stored record. -/

/-- Once finished (success or failure for good) the handler is never executed again. -/
theorem finished_never_runs_partial (env : Env) (l : Limits) (now : Int) (r : Rec) (steps : List Step)
    (h : r.finished = true) : attempts (run env l now r steps) = [] :=
  attempts_run_finished env l steps now r h

/-- `b` comes after `a` in a history: not before `a`'s outcome was merged, and if `a` asked for a
    delay, not before that delay has passed since; and `a` was not final. -/
def After (a b : Attempt) : Prop :=
  a.merged ≤ b.time ∧ (∀ d, a.out.delay = some d → a.merged + d ≤ b.time) ∧ a.out.final = false

/-- Never sooner than the requested delay or backoff: EVERY later attempt (not only the next one)
    starts no earlier than the merge of the earlier outcome plus its delay, in every history. -/
theorem delay_respected_partial (env : Env) (l : Limits) (steps : List Step) :
    ∀ (now : Int) (r : Rec), (attempts (run env l now r steps)).Pairwise After := by
  induction steps with
  | nil => intro now r; exact List.Pairwise.nil
  | cons s rest ih =>
    intro now r
    cases s with
    | restart dn => rw [run_restart, attempts_cons_restarted]; exact ih _ _
    | cycle dt wait x dur lag =>
      cases hg : r.awakened (now + dt) with
      | false => rw [run_cycle_idle _ _ _ _ _ _ _ _ _ _ hg, attempts_cons_idle]; exact ih _ _
      | true =>
        rw [run_cycle_awake _ _ _ _ _ _ _ _ _ _ hg, attempts_cons_att]
        refine List.Pairwise.cons ?_ (ih _ _)
        intro b hb
        obtain ⟨h1, h2, h3⟩ := run_lower env l rest _ _ b hb
        refine ⟨h1, ?_, ?_⟩
        · intro d hd
          exact h3 _ (attemptAt_delayed env l _ r x dur lag d hd)
        · rw [← attemptAt_finished]; exact h2

/-- The same for consecutive attempts, in the property's words:
    `attempt (n+1).time ≥ attempt n .end + delay n` (and `end ≥ time`). -/
theorem delay_respected_succ_partial (env : Env) (l : Limits) (now : Int) (r : Rec) (steps : List Step)
    (n : Nat) (a b : Attempt)
    (ha : (attempts (run env l now r steps))[n]? = some a)
    (hb : (attempts (run env l now r steps))[n + 1]? = some b) :
    a.time ≤ a.endTime ∧ a.endTime ≤ b.time ∧ ∀ d, a.out.delay = some d → a.endTime + d ≤ b.time := by
  have hp := delay_respected_partial env l steps now r
  obtain ⟨hn, rfl⟩ := List.getElem?_eq_some_iff.1 ha
  obtain ⟨hn1, rfl⟩ := List.getElem?_eq_some_iff.1 hb
  have hab : After _ _ := List.pairwise_iff_getElem.1 hp n (n + 1) hn hn1 (Nat.lt_succ_self n)
  have hmem : (attempts (run env l now r steps))[n] ∈ attempts (run env l now r steps) := List.getElem_mem hn
  -- every attempt is an `attemptAt`: time ≤ end ≤ merged
  have key : ∀ (steps : List Step) (now : Int) (r : Rec) (a : Attempt),
      a ∈ attempts (run env l now r steps) → a.time ≤ a.endTime ∧ a.endTime ≤ a.merged := by
    intro steps
    induction steps with
    | nil => intro now r a h; cases h
    | cons s rest ih =>
      intro now r a h
      cases s with
      | restart dn => rw [run_restart, attempts_cons_restarted] at h; exact ih _ _ a h
      | cycle dt wait x dur lag =>
        cases hg : r.awakened (now + dt) with
        | false => rw [run_cycle_idle _ _ _ _ _ _ _ _ _ _ hg, attempts_cons_idle] at h; exact ih _ _ a h
        | true =>
          rw [run_cycle_awake _ _ _ _ _ _ _ _ _ _ hg, attempts_cons_att] at h
          rcases List.mem_cons.1 h with rfl | h'
          · exact ⟨attemptAt_time_le_end .., attemptAt_end_le_merged ..⟩
          · exact ih _ _ a h'
  obtain ⟨k1, k2⟩ := key steps now r _ hmem
  obtain ⟨h1, h2, _⟩ := hab
  refine ⟨k1, by omega, ?_⟩
  intro d hd
  have := h2 d hd
  omega

/-- A final outcome (success, ignored error, permanent error, limit) is the last attempt. -/
theorem final_is_last_partial (env : Env) (l : Limits) (now : Int) (r : Rec) (steps : List Step)
    (n : Nat) (a : Attempt) (ha : (attempts (run env l now r steps))[n]? = some a)
    (hf : a.out.final = true) : (attempts (run env l now r steps)).length = n + 1 := by
  have hp := delay_respected_partial env l steps now r
  obtain ⟨hn, rfl⟩ := List.getElem?_eq_some_iff.1 ha
  apply Nat.le_antisymm _ hn
  apply Nat.le_of_not_lt
  intro hlt
  have hab : After _ _ := List.pairwise_iff_getElem.1 hp n (n + 1) hn hlt (Nat.lt_succ_self n)
  rw [hab.2.2] at hf
  cases hf

/-- With `retries = N` the function is invoked at most `N − (stored count)` more times — over any
    history, restarts included. -/
theorem retries_bound_partial (env : Env) (l : Limits) (N : Int) (hN : l.retries = some N) (steps : List Step) :
    ∀ (now : Int) (r : Rec), (invocations (run env l now r steps)).length ≤ (N - r.retries).toNat := by
  induction steps with
  | nil => intro now r; simp [run, invocations, attempts]
  | cons s rest ih =>
    intro now r
    cases s with
    | restart dn => rw [run_restart]; exact ih _ _
    | cycle dt wait x dur lag =>
      cases hg : r.awakened (now + dt) with
      | false => rw [run_cycle_idle _ _ _ _ _ _ _ _ _ _ hg]; exact ih _ _
      | true =>
        rw [run_cycle_awake _ _ _ _ _ _ _ _ _ _ hg, invocations_cons_att]
        have ih' := ih (attemptAt env l (now + dt + wait) r x dur lag).merged
          (attemptAt env l (now + dt + wait) r x dur lag).recAfter
        rw [attemptAt_rec_retries] at ih'
        by_cases hi : (attemptAt env l (now + dt + wait) r x dur lag).out.invoked = true
        · have hp := (classify_invoked_iff env l r _ dur x).1 hi
          have hlt := retriesOut_false_of l _ N hN ((precheck_none_iff l r _).1 hp).2
          rw [if_pos hi]
          omega
        · rw [if_neg hi]; omega

/-- From scratch: at most `N` invocations with `retries = N` (none at all for `N ≤ 0`). -/
theorem retries_bound_scratch_partial (env : Env) (l : Limits) (N : Int) (hN : l.retries = some N)
    (now t0 : Int) (steps : List Step) :
    (invocations (run env l now (fromScratch t0) steps)).length ≤ N.toNat := by
  have := retries_bound_partial env l N hN steps now (fromScratch t0)
  simpa [fromScratch] using this

/-- The bound is tight: for every `N` there is a history with exactly `N` invocations
    (the code allows `N`, not `N+1` and not only `N−1`). -/
theorem retries_bound_tight (env : Env) (N : Nat) (b : Option Int) (m : Option Mode) :
    ∃ steps, (invocations (run env ⟨m, none, some N, b⟩ 0 (fromScratch 0) steps)).length = N := by
  refine ⟨List.replicate N (.cycle 0 0 (.childrenRetry none) 0 0), ?_⟩
  -- generalise: from any unfinished, undelayed record with k retries left, k cycles give k invocations
  suffices H : ∀ (k : Nat) (now : Int) (r : Rec), r.finished = false → r.delayed = none →
      r.retries + k = N →
      (invocations (run env ⟨m, none, some N, b⟩ now r
        (List.replicate k (.cycle 0 0 (.childrenRetry none) 0 0)))).length = k by
    exact H N 0 (fromScratch 0) rfl rfl (by simp [fromScratch])
  intro k
  induction k with
  | zero => intro now r _ _ _; rfl
  | succ k ih =>
    intro now r hf hd hk
    have hg : r.awakened (now + (0 : Nat)) = true := awakened_of hf (by simp [hd])
    rw [List.replicate_succ, run_cycle_awake _ _ _ _ _ _ _ _ _ _ hg]
    have hp : precheck ⟨m, none, some N, b⟩ r (now + (0 : Nat) + (0 : Nat)) = none := by
      rw [precheck_none_iff]
      refine ⟨by simp [timedOut], ?_⟩
      simp only [retriesOut, decide_eq_false_iff_not]
      omega
    have hc := children_retry env ⟨m, none, some N, b⟩ r (now + (0 : Nat) + (0 : Nat)) 0 none hp
    simp only [invocations, attempts_cons_att, List.filter_cons, attemptAt_out, hc, retryWith, if_true,
      List.length_cons]
    have := ih (attemptAt env ⟨m, none, some N, b⟩ (now + (0 : Nat) + (0 : Nat)) r (.childrenRetry none) 0 0).merged
      (attemptAt env ⟨m, none, some N, b⟩ (now + (0 : Nat) + (0 : Nat)) r (.childrenRetry none) 0 0).recAfter
      (by rw [attemptAt_finished, attemptAt_out, hc]; rfl)
      (by simp only [attemptAt, hc, retryWith, withOutcome])
      (by simp only [attemptAt_rec_retries]; omega)
    simp only [invocations] at this
    omega

/-- With `timeout = T` no invocation starts at runtime ≥ T (runtime counted from the record's
    `started`, the first cycle) — over any history, restarts and downtime included. -/
theorem timeout_bound_partial (env : Env) (l : Limits) (T : Int) (hT : l.timeout = some T) (steps : List Step) :
    ∀ (now : Int) (r : Rec) (a : Attempt), a ∈ invocations (run env l now r steps) → a.time - r.started < T := by
  induction steps with
  | nil => intro now r a h; simp [run, invocations, attempts] at h
  | cons s rest ih =>
    intro now r a h
    cases s with
    | restart dn => rw [run_restart] at h; exact ih _ _ a h
    | cycle dt wait x dur lag =>
      cases hg : r.awakened (now + dt) with
      | false => rw [run_cycle_idle _ _ _ _ _ _ _ _ _ _ hg] at h; exact ih _ _ a h
      | true =>
        rw [run_cycle_awake _ _ _ _ _ _ _ _ _ _ hg] at h
        simp only [invocations, attempts_cons_att, List.filter_cons] at h
        split at h
        · rename_i hi
          rcases List.mem_cons.1 h with rfl | h'
          · simp only [attemptAt_out] at hi
            have hp := (classify_invoked_iff env l r _ dur x).1 hi
            have := timedOut_false_of l _ T hT ((precheck_none_iff l r _).1 hp).1
            simpa [Rec.runtime] using this
          · have := ih _ _ a h'
            simpa using this
        · have := ih _ _ a h
          simpa using this

/-- … and an execution at runtime ≥ T does not call the function and records a failure for good. -/
theorem timeout_refuses (env : Env) (l : Limits) (T : Int) (hT : l.timeout = some T) (steps : List Step) :
    ∀ (now : Int) (r : Rec) (a : Attempt), a ∈ attempts (run env l now r steps) → a.time - r.started ≥ T →
      a.out = { invoked := false, final := true, delay := none, exc := .timeout } ∧
      a.recAfter.failure = true ∧ a.recAfter.success = false ∧ a.recAfter.finished = true := by
  induction steps with
  | nil => intro now r a h; cases h
  | cons s rest ih =>
    intro now r a h hge
    cases s with
    | restart dn => rw [run_restart, attempts_cons_restarted] at h; exact ih _ _ a h hge
    | cycle dt wait x dur lag =>
      cases hg : r.awakened (now + dt) with
      | false => rw [run_cycle_idle _ _ _ _ _ _ _ _ _ _ hg, attempts_cons_idle] at h; exact ih _ _ a h hge
      | true =>
        rw [run_cycle_awake _ _ _ _ _ _ _ _ _ _ hg, attempts_cons_att] at h
        rcases List.mem_cons.1 h with rfl | h'
        · simp only [attemptAt_time] at hge
          have hp : precheck l r (now + dt + wait) = some .timeout := by
            simp only [precheck, timedOut, hT, Rec.runtime]
            rw [if_pos (by simpa using hge)]
          have hc := classify_of_precheck_some (env := env) (dur := dur) (x := x) hp
          simp only [attemptAt, hc, withOutcome, Rec.finished]
          simp
        · exact ih _ _ a h' (by simpa using hge)

/-- A cycle whose retry outcome (if any) is merged at once (`lag = 0`; irrelevant for a function that
    returns or raises PermanentError: those outcomes are final) and that is not waiting for sub-handlers.
    A SUFFICIENT syntactic guard; the exact condition is the invariant it establishes: every retry
    outcome has `merged + delay < started + T`. -/
def Step.plain : Step → Prop
  | .cycle _ _ x _ lag => (lag = 0 ∨ x = .ok ∨ x = .permanent) ∧ ∀ d, x ≠ .childrenRetry d
  | .restart _ => True

/-- "after which it is recorded as failed for good", the part about sleeping: from a fresh record,
    when outcomes are merged at once and no sub-handlers are pending, the handler never sleeps past
    its timeout — every cycle at runtime ≥ T finds it finished or (by `timeout_refuses`) fails it.

    PARTIAL: the full statement (for all steps) is false — see `timeout_sleep_past_witness`: the
    look-ahead is computed when the call ends, `delayed` when the batch is merged (`lag`), and
    `HandlerChildrenRetry` has no look-ahead at all; then the failure is recorded at the first
    cycle after `delayed`, later than T. No attempt starts later than T in any case (`timeout_bound_partial`). -/
theorem timeout_failed_for_good_partial (env : Env) (l : Limits) (T : Int) (hT : l.timeout = some T)
    (steps : List Step) (hplain : ∀ s ∈ steps, s.plain) :
    ∀ (now : Int) (r : Rec), (r.finished = true ∨ ∀ D, r.delayed = some D → D < r.started + T) →
      ∀ t done, Ev.idle t done ∈ run env l now r steps → t - r.started ≥ T → done = true := by
  induction steps with
  | nil => intro now r _ t done h; cases h
  | cons s rest ih =>
    have hrest : ∀ s ∈ rest, s.plain := fun s hs => hplain s (List.mem_cons_of_mem _ hs)
    intro now r hinv t done h hge
    cases s with
    | restart dn =>
      rw [run_restart] at h
      rcases List.mem_cons.1 h with h | h
      · cases h
      · exact ih hrest _ _ hinv t done h hge
    | cycle dt wait x dur lag =>
      obtain ⟨hlag, hx⟩ := hplain (.cycle dt wait x dur lag) List.mem_cons_self
      cases hg : r.awakened (now + dt) with
      | false =>
        rw [run_cycle_idle _ _ _ _ _ _ _ _ _ _ hg] at h
        rcases List.mem_cons.1 h with h | h
        · injection h with h1 h2
          subst h1 h2
          -- not awake at runtime ≥ T: with the invariant it can only be finished
          cases hf : r.finished with
          | true => rfl
          | false =>
            exfalso
            rcases hinv with hinv | hinv
            · rw [hf] at hinv; cases hinv
            · have : r.awakened (now + dt) = true := awakened_of hf (fun D hD => by have := hinv D hD; omega)
              rw [hg] at this; cases this
        · exact ih hrest _ _ hinv t done h hge
      | true =>
        rw [run_cycle_awake _ _ _ _ _ _ _ _ _ _ hg] at h
        rcases List.mem_cons.1 h with h | h
        · cases h
        · refine ih hrest _ _ ?_ t done h (by simpa using hge)
          -- the invariant is kept by one execution
          simp only [attemptAt_started]
          cases hfin : (attemptAt env l (now + dt + wait) r x dur lag).out.final with
          | true => left; rw [attemptAt_finished]; exact hfin
          | false =>
            right
            intro D hD
            simp only [attemptAt_out] at hfin
            cases hp : precheck l r (now + dt + wait) with
            | some e => rw [classify_of_precheck_some hp] at hfin; cases hfin
            | none =>
              have hinvk : (classify env l r (now + dt + wait) dur x).invoked = true :=
                (classify_invoked_iff ..).2 hp
              have hcl := classify_of_precheck_none (env := env) (dur := dur) (x := x) hp
              simp only [attemptAt, withOutcome_delayed, endTime_invoked hinvk] at hD
              rw [hcl] at hD hfin
              cases x with
              | ok => simp [post, finalWith] at hfin
              | permanent => simp [post, finalWith] at hfin
              | childrenRetry d => exact absurd rfl (hx d)
              | temporary d =>
                have hl0 : lag = 0 := by
                  rcases hlag with h | h | h
                  · exact h
                  · cases h
                  · cases h
                subst hl0
                have hro := post_temporary_verdict env l r (now + dt + wait + dur) d
                rcases hro.2 with ⟨heq, hlt, _⟩ | ⟨heq, _⟩ | ⟨heq, _⟩
                · rw [heq] at hD
                  have := hlt T hT
                  cases d with
                  | none => simp [retryWith] at hD
                  | some d' =>
                    simp only [retryWith, Option.some.injEq] at hD
                    simp only [Rec.runtime, orZero] at this
                    omega
                · rw [heq] at hfin; simp [finalWith] at hfin
                · rw [heq] at hfin; simp [finalWith] at hfin
              | arbitrary =>
                cases hm : l.mode env with
                | ignored => simp [post, hm, finalWith] at hfin
                | permanent => simp [post, hm, finalWith] at hfin
                | temporary =>
                  have hl0 : lag = 0 := by
                    rcases hlag with h | h | h
                    · exact h
                    · cases h
                    · cases h
                  subst hl0
                  have hro := post_arbitrary_verdict env l r (now + dt + wait + dur) hm
                  rcases hro.2 with ⟨heq, hlt, _⟩ | ⟨heq, _⟩ | ⟨heq, _⟩
                  · rw [heq] at hD
                    have := hlt T hT
                    simp only [retryWith, Option.some.injEq] at hD
                    simp only [Rec.runtime] at this
                    omega
                  · rw [heq] at hfin; simp [finalWith] at hfin
                  · rw [heq] at hfin; simp [finalWith] at hfin

/-- The negation of the unguarded statement, by a concrete witness: a parent with `timeout = 10`
    whose children ask for 100 sleeps through its own deadline (a cycle at runtime 50 finds it
    unfinished and not due); it fails for good only at the first cycle after 100. -/
theorem timeout_sleep_past_witness :
    ∃ (env : Env) (l : Limits) (T : Int) (steps : List Step) (t : Int),
      l.timeout = some T ∧ Ev.idle t false ∈ run env l 0 (fromScratch 0) steps ∧ t - 0 ≥ T := by
  refine ⟨⟨.temporary, 60⟩, ⟨none, some 10, none, none⟩, 10,
    [.cycle 0 0 (.childrenRetry (some 100)) 0 0, .cycle 50 0 .ok 0 0], 50, rfl, ?_, by decide⟩
  decide

/-! ## The unrestricted environment: stale views, lost patches, kills in the middle of a cycle -/

/-- `run` is exactly the environment fold in which nothing is stale and nothing is lost. -/
theorem run_is_continuous_env (env : Env) (l : Limits) (steps : List Step) :
    ∀ (now : Int) (r : Rec) (h : List Rec),
      runEnv env l now (r :: h) (steps.map Step.lift) = run env l now r steps := by
  induction steps with
  | nil => intro now r h; rfl
  | cons s rest ih =>
    intro now r h
    cases s with
    | restart dn =>
      rw [run_restart]
      simp only [List.map_cons, Step.lift, runEnv_restart]
      rw [ih]
    | cycle dt wait x dur lag =>
      simp only [List.map_cons, Step.lift]
      cases hg : r.awakened (now + dt) with
      | true =>
        rw [run_cycle_awake _ _ _ _ _ _ _ _ _ _ hg,
          runEnv_cycle_awake _ _ _ _ _ _ _ _ _ _ _ _ (by rw [viewOf_zero]; exact hg)]
        simp only [viewOf_zero, if_true]
        rw [ih]
      | false =>
        rw [run_cycle_idle _ _ _ _ _ _ _ _ _ _ hg,
          runEnv_cycle_idle _ _ _ _ _ _ _ _ _ _ _ _ (by rw [viewOf_zero]; exact hg)]
        simp only [viewOf_zero]
        rw [ih]

/-- What holds whatever the environment does (any stored versions, any stale view, any lost patch,
    kills and restarts anywhere): every invocation is within the limits OF THE RECORD VERSION IT WAS
    SHOWN — its retry number is below `N`, and it starts less than `T` after that record's `started`. -/
theorem env_invocation_within_seen_limits (env : Env) (l : Limits) (steps : List EStep) :
    ∀ (now : Int) (hist : List Rec) (a : Attempt), a ∈ invocations (runEnv env l now hist steps) →
      (∀ N, l.retries = some N → a.retry < N) ∧ (∀ T, l.timeout = some T → a.time - a.recAfter.started < T) := by
  induction steps with
  | nil => intro now hist a h; simp [runEnv, invocations, attempts] at h
  | cons s rest ih =>
    intro now hist a h
    cases s with
    | restart dn => rw [runEnv_restart] at h; exact ih _ _ a h
    | skipped view stored dt => rw [runEnv_skipped] at h; exact ih _ _ a h
    | cycle view stored dt wait x dur lag =>
      cases hg : (viewOf hist view (now + dt)).awakened (now + dt) with
      | false => rw [runEnv_cycle_idle _ _ _ _ _ _ _ _ _ _ _ _ hg] at h; exact ih _ _ a h
      | true =>
        rw [runEnv_cycle_awake _ _ _ _ _ _ _ _ _ _ _ _ hg] at h
        simp only [invocations, attempts_cons_att, List.filter_cons] at h
        split at h
        · rename_i hi
          rcases List.mem_cons.1 h with rfl | h'
          · simp only [attemptAt_out] at hi
            have hp := (classify_invoked_iff env l _ _ dur x).1 hi
            obtain ⟨h1, h2⟩ := (precheck_none_iff l _ _).1 hp
            refine ⟨fun N hN => retriesOut_false_of l _ N hN h2, fun T hT => ?_⟩
            have := timedOut_false_of l _ T hT h1
            simpa [Rec.runtime] using this
          · exact ih _ _ a h'
        · exact ih _ _ a h

/-- … and the gate is respected on the shown version: an attempt happens only on a version that is
    unfinished and whose `delayed` has passed; a cycle shown a finished or sleeping version does nothing. -/
theorem env_gate_respected (env : Env) (l : Limits) (now : Int) (hist : List Rec) (view : Nat) (stored : Bool)
    (dt wait : Nat) (x : Raised) (dur lag : Nat) (rest : List EStep) :
    ((∃ a, (runEnv env l now hist (.cycle view stored dt wait x dur lag :: rest)).head? = some (.att a)) ↔
      ((viewOf hist view (now + dt)).finished = false ∧
        ∀ D, (viewOf hist view (now + dt)).delayed = some D → D ≤ now + dt)) := by
  cases hg : (viewOf hist view (now + dt)).awakened (now + dt) with
  | true =>
    rw [runEnv_cycle_awake _ _ _ _ _ _ _ _ _ _ _ _ hg]
    exact ⟨fun _ => ⟨awakened_not_finished hg, fun D hD => awakened_delayed_le hg hD⟩, fun _ => ⟨_, rfl⟩⟩
  | false =>
    rw [runEnv_cycle_idle _ _ _ _ _ _ _ _ _ _ _ _ hg]
    constructor
    · rintro ⟨a, ha⟩; simp at ha
    · rintro ⟨hf, hd⟩
      rw [awakened_of hf hd] at hg; cases hg

/-- NEGATION of the unguarded `retries_bound`: `retries = 1`, the operator is killed after the handler
    call and before the patch (`stored = false`, then a restart): the restarted operator invokes the
    handler again with the same retry number 0 — two invocations. -/
theorem kill_mid_exceeds_retries_witness :
    ∃ (env : Env) (l : Limits) (steps : List EStep), l.retries = some 1 ∧
      ((invocations (runEnv env l 0 [] steps)).map (fun a => (a.time, a.retry))) = [(0, 0), (5, 0)] :=
  ⟨⟨.temporary, 60⟩, ⟨none, none, some 1, none⟩,
    [.cycle 0 false 0 0 .arbitrary 0 0, .restart 5, .cycle 0 true 0 0 .arbitrary 0 0], rfl, by decide⟩

/-- NEGATION of the unguarded `delay_respected`: the handler asked for 100; the next event carries a
    stale body (the version before the write): it is invoked again at once, 1 tick later. -/
theorem stale_view_breaks_delay_witness :
    ∃ (env : Env) (l : Limits) (steps : List EStep) (a b : Attempt),
      attempts (runEnv env l 0 [] steps) = [a, b] ∧ a.out.delay = some 100 ∧ a.out.final = false ∧
      b.time = a.merged + 1 ∧ ¬ After a b := by
  refine ⟨⟨.temporary, 60⟩, ⟨none, none, none, none⟩,
    [.cycle 0 true 0 0 (.temporary (some 100)) 0 0, .cycle 1 true 1 0 .ok 0 0], _, _, rfl, by decide, by decide,
    by decide, ?_⟩
  intro h
  have := h.2.1 100 (by decide)
  revert this; decide

/-- NEGATION of the unguarded `timeout_bound`: `timeout = 10`; the first cycle's patch is lost, so no
    `started` was ever stored: 50 ticks later the handler starts from scratch and is invoked again. -/
theorem lost_patch_exceeds_timeout_witness :
    ∃ (env : Env) (l : Limits) (steps : List EStep), l.timeout = some 10 ∧
      ((invocations (runEnv env l 0 [] steps)).map (fun a => a.time)) = [0, 50] :=
  ⟨⟨.temporary, 60⟩, ⟨none, some 10, none, none⟩,
    [.cycle 0 false 0 0 (.temporary (some 5)) 0 0, .cycle 0 true 50 0 .ok 0 0], rfl, by decide⟩

/-- NEGATION of the unguarded `finished_never_runs`: a handler that succeeded is run again when the
    next event still carries the body from before the write. -/
theorem stale_view_reruns_finished_witness :
    ∃ (env : Env) (l : Limits) (steps : List EStep),
      ((attempts (runEnv env l 0 [] steps)).map (fun a => (a.retry, a.out.invoked, a.recAfter.success))) =
        [(0, true, true), (0, true, true)] :=
  ⟨⟨.temporary, 60⟩, ⟨none, none, none, none⟩, [.cycle 0 true 0 0 .ok 0 0, .cycle 1 true 3 0 .ok 0 0], by decide⟩

/-! ## The in-memory loops: activities, daemons, one retry series of a timer -/

/-- `run_activity`, `_daemon` and `_timer` (per series) are the same fold, woken exactly when
    `sleep(state.delay)` ends — so every theorem above holds for them. -/
theorem loop_is_run (env : Env) (l : Limits) (script : List (Raised × Nat)) :
    ∀ (now : Int) (r : Rec),
      attempts (run env l now r (loopSteps env l now r script)) = loopRun env l now r script := by
  induction script with
  | nil => intro now r; rfl
  | cons s rest ih =>
    intro now r
    obtain ⟨x, dur⟩ := s
    cases hf : r.finished with
    | true => simp [loopSteps, loopRun, hf, run, attempts]
    | false =>
      have hw := wakeTime_ge r now
      have e : now + ↑(wakeTime r now - now).toNat = wakeTime r now := by omega
      have hg : r.awakened (now + ↑(wakeTime r now - now).toNat) = true := by
        rw [e]; exact awakened_wakeTime hf now
      simp only [loopSteps, loopRun, hf, Bool.false_eq_true, if_false]
      rw [run_cycle_awake _ _ _ _ _ _ _ _ _ _ hg, attempts_cons_att, e]
      simp only [Int.natCast_zero, Int.add_zero]
      rw [ih]

theorem loop_retries_bound (env : Env) (l : Limits) (N : Int) (hN : l.retries = some N) (now : Int)
    (script : List (Raised × Nat)) :
    ((loopRun env l now (fromScratch now) script).filter (fun a => a.out.invoked)).length ≤ N.toNat := by
  rw [← loop_is_run]
  exact retries_bound_scratch_partial env l N hN now now _

theorem loop_timeout_bound (env : Env) (l : Limits) (T : Int) (hT : l.timeout = some T) (now : Int)
    (script : List (Raised × Nat)) (a : Attempt)
    (ha : a ∈ loopRun env l now (fromScratch now) script) (hi : a.out.invoked = true) : a.time - now < T := by
  rw [← loop_is_run] at ha
  have := timeout_bound_partial env l T hT (loopSteps env l now (fromScratch now) script) now (fromScratch now) a
    (List.mem_filter.2 ⟨ha, hi⟩)
  simpa [fromScratch] using this

theorem loop_delay_respected (env : Env) (l : Limits) (now : Int) (r : Rec) (script : List (Raised × Nat)) :
    (loopRun env l now r script).Pairwise After := by
  rw [← loop_is_run]
  exact delay_respected_partial env l _ now r

/-- "is retried" as progress of the self-driven loops: the loop gives up only on a FINISHED record.
    Every attempt that is followed by another one, or that still has script left, … — precisely: the
    loop makes one attempt per script element until the record is finished; if it made fewer attempts
    than there are elements, its last attempt finished the record (or it was finished from the start).
    A retry outcome is never the end of the series while the function has something left to do. -/
theorem loop_stops_only_when_finished (env : Env) (l : Limits) (script : List (Raised × Nat)) :
    ∀ (now : Int) (r : Rec), (loopRun env l now r script).length < script.length →
      r.finished = true ∨ ∃ a, (loopRun env l now r script).getLast? = some a ∧ a.recAfter.finished = true := by
  induction script with
  | nil => intro now r h; simp [loopRun] at h
  | cons s rest ih =>
    intro now r h
    obtain ⟨x, dur⟩ := s
    cases hf : r.finished with
    | true => left; rfl
    | false =>
      right
      simp only [loopRun, hf, Bool.false_eq_true, if_false, List.length_cons] at h ⊢
      have h' : (loopRun env l (attemptAt env l (wakeTime r now) r x dur 0).merged
          (attemptAt env l (wakeTime r now) r x dur 0).recAfter rest).length < rest.length := by omega
      rcases ih _ _ h' with hfin | ⟨a, ha, hafin⟩
      · refine ⟨attemptAt env l (wakeTime r now) r x dur 0, ?_, hfin⟩
        rw [loopRun_finished _ _ _ _ _ hfin]; rfl
      · refine ⟨a, ?_, hafin⟩
        rw [List.getLast?_cons, ha]; rfl

/-- … and an unfinished record with script left IS attempted next, exactly when its sleep ends. -/
theorem loop_retries_when_due (env : Env) (l : Limits) (now : Int) (r : Rec) (x : Raised) (dur : Nat)
    (rest : List (Raised × Nat)) (hf : r.finished = false) :
    (loopRun env l now r ((x, dur) :: rest)).head? = some (attemptAt env l (wakeTime r now) r x dur 0) := by
  simp [loopRun, hf]

example : (loopRun ⟨.temporary, 60⟩ ⟨none, none, none, none⟩ 0 (fromScratch 0)
    [(.temporary (some 0), 0), (.temporary none, 0), (.ok, 0), (.ok, 0)]).map
      (fun a => (a.time, a.retry, a.recAfter.finished)) = [(0, 0, false), (0, 1, false), (0, 2, true)] := by decide

/-! ## Records with TZ-naive timestamps (finding C11-F5, repaired by e01f630)

  Full statement (property: "… is retried … for change handlers also across operator restarts"): a
  cycle on a stored record of an unfinished handler whose delay has passed executes it, whatever the
  spelling of the record's timestamps (`stepStored = att`). True of the code since e01f630
  (`stored_is_step`, `naive_is_utc`); it was FALSE of the code before, for a record whose timestamps carry
  no UTC offset (written by a release before the TZ-aware clock, or by hand): the `naive_*` theorems are
  about that variant (`stepStoredRaw`: the parsed values taken as they are) and stay as regressions. -/

/-- Records spelled the way kopf spells them behave as everything above says: the gate, then the attempt. -/
theorem stored_aware_is_step (env : Env) (l : Limits) (r : Rec) (now : Int) (x : Raised) (dur : Nat) :
    stepStored env l ⟨false, false⟩ r now x dur =
      if r.awakened now then .att (attemptAt env l now r x dur 0) else .idle r.finished := by
  cases hf : r.finished <;> cases hs : r.sleeping now <;>
    simp [stepStored, stepStoredRaw, Spelling.asUtc, Rec.awakened, hf, hs]

/-- A record with TZ-naive timestamps is treated exactly as the same record (the same digits) with
    `+00:00`: whichever of `started` / `delayed` came back without an offset. -/
theorem naive_is_utc (env : Env) (l : Limits) (sp : Spelling) (r : Rec) (now : Int) (x : Raised) (dur : Nat) :
    stepStored env l sp r now x dur = stepStored env l ⟨false, false⟩ r now x dur := rfl

/-- Hence for EVERY spelling: the gate, then the attempt; no cycle raises on a stored record. -/
theorem stored_is_step (env : Env) (l : Limits) (sp : Spelling) (r : Rec) (now : Int) (x : Raised) (dur : Nat) :
    stepStored env l sp r now x dur =
      if r.awakened now then .att (attemptAt env l now r x dur 0) else .idle r.finished := by
  rw [naive_is_utc, stored_aware_is_step]

example : stepStored ⟨.temporary, 60⟩ ⟨none, some 10, some 5, none⟩ ⟨true, true⟩ ⟨0, none, some 100, 1, false, false⟩ 200 .ok 0
    ≠ .raised := by decide

/-- The variant before e01f630 agrees with the code on what kopf writes itself (no naive timestamp). -/
theorem raw_aware_is_stored (env : Env) (l : Limits) (r : Rec) (now : Int) (x : Raised) (dur : Nat) :
    stepStoredRaw env l ⟨false, false⟩ r now x dur = stepStored env l ⟨false, false⟩ r now x dur := rfl

/-- REGRESSION (finding C11-F5, the code before e01f630): an unfinished handler that is due and within its
    limits (one attempt made, retry asked for at 100, `retries = 5`, now 200) — on a record with a TZ-naive
    `delayed` the old cycle raised instead of executing it; the repaired one executes it. -/
theorem naive_record_never_retried_witness :
    ∃ (env : Env) (l : Limits) (r : Rec) (now : Int),
      r.awakened now = true ∧ precheck l r now = none ∧
      stepStoredRaw env l ⟨false, true⟩ r now .ok 0 = .raised ∧
      stepStored env l ⟨false, true⟩ r now .ok 0 = .att (attemptAt env l now r .ok 0 0) :=
  ⟨⟨.temporary, 60⟩, ⟨none, none, some 5, none⟩, ⟨0, none, some 100, 1, false, false⟩, 200, by decide, by decide, by decide, by decide⟩

/-- … and since a failed cycle stores nothing, it raised in EVERY later cycle, whatever the time: the
    handler was never executed again (until somebody removed the record by hand). -/
theorem naive_delayed_raises_forever (env : Env) (l : Limits) (r : Rec) (d : Int) (hf : r.finished = false)
    (hd : r.delayed = some d) (sn : Bool) (now : Int) (x : Raised) (dur : Nat) :
    stepStoredRaw env l ⟨sn, true⟩ r now x dur = .raised := by
  simp [stepStoredRaw, hf, hd]

/-- A TZ-naive `started` alone (no `delayed`: the first attempt asked for an immediate retry, or the
    record was created by a cycle that skipped the handler) was fatal as well, unless the handler is
    refused by `retries` without a timeout being set. -/
theorem naive_started_raises (env : Env) (l : Limits) (r : Rec) (hf : r.finished = false) (hd : r.delayed = none)
    (h : l.timeout.isSome = true ∨ retriesOut l r.retries = false) (now : Int) (x : Raised) (dur : Nat) :
    stepStoredRaw env l ⟨true, false⟩ r now x dur = .raised := by
  have hs : r.sleeping now = false := by simp [Rec.sleeping, hd]
  rcases h with h | h <;> simp [stepStoredRaw, hf, hs, h]

/-! ## The time zone of the operator's process plays no role

  Full statement (property: "never sooner than the requested delay", "no attempt starts later than T
  after the first one … for change handlers also across operator restarts"): the instants a stored
  record denotes — hence the gate, the limits and the whole execution on it — are the same in every
  process, whatever its local time zone (`TZ`, /etc/localtime) and whatever the spelling of the stored
  timestamps (any UTC offset, or none = UTC digits, as the older releases wrote). TRUE of the code
  (`zone_irrelevant`, `stored_zone_irrelevant`). The variant that normalises with `astimezone(utc)`
  (`stepStoredLocal`) agrees with the code in a UTC process and on everything kopf writes itself
  (`local_same_in_utc`, `local_same_on_aware`: why no test in a UTC environment tells them apart), and
  breaks both clauses anywhere else (`local_zone_*`). -/

/-- The code's reader gives back the instant that was written, for every offset and in every zone. -/
theorem zone_irrelevant (zone t : Int) (o : Option Int) : (Stamp.spell t o).asUtc zone = t := by
  cases o <;> simp [Stamp.spell, Stamp.asUtc]

theorem reread_asUtc (zone : Int) (os : Offsets) (r : Rec) : r.reread (Stamp.asUtc zone) os = r := by
  cases r with | mk st sp dl rt su fa =>
  cases sp <;> cases dl <;> simp [Rec.reread, zone_irrelevant]

/-- Hence one cycle on a stored record is the gate and the attempt on the record that was written, in EVERY
    zone and for EVERY spelling of its timestamps. -/
theorem stored_zone_irrelevant (zone : Int) (env : Env) (l : Limits) (os : Offsets) (r : Rec) (now : Int)
    (x : Raised) (dur : Nat) :
    stepStoredIn zone env l os r now x dur =
      if r.awakened now then .att (attemptAt env l now r x dur 0) else .idle r.finished := by
  rw [stepStoredIn, reread_asUtc, stored_is_step]

example : stepStoredIn (5 * 3600 * 1024) ⟨.temporary, 60⟩ ⟨none, none, some 5, none⟩ ⟨none, none, none⟩
    ⟨0, none, some 300, 1, false, false⟩ 200 .ok 0 = .idle false := by decide

/-- The variant reads a timestamp without an offset `zone` ticks off … -/
theorem local_shifts_naive (zone t : Int) : (Stamp.spell t none).asUtcLocal zone = t - zone := by
  simp [Stamp.spell, Stamp.asUtcLocal]

/-- … and everything else (what kopf itself writes: `+00:00`) as the code does: -/
theorem local_same_on_aware (zone t o : Int) : (Stamp.spell t (some o)).asUtcLocal zone = t := by
  simp [Stamp.spell, Stamp.asUtcLocal]

/-- in a UTC process (containers by default, CI, kopf's own tests) the two cannot be told apart at all. -/
theorem local_same_in_utc (zone : Int) (s : Stamp) : s.asUtcLocal 0 = s.asUtc zone := by
  cases s with | mk w o => cases o <;> simp [Stamp.asUtcLocal, Stamp.asUtc]

theorem local_step_same_in_utc (zone : Int) (env : Env) (l : Limits) (os : Offsets) (r : Rec) (now : Int)
    (x : Raised) (dur : Nat) :
    stepStoredLocal 0 env l os r now x dur = stepStoredIn zone env l os r now x dur := by
  have h : Stamp.asUtcLocal 0 = Stamp.asUtc zone := funext (local_same_in_utc zone)
  rw [stepStoredLocal, stepStoredIn, h]

/-- EAST of UTC the variant wakes every sleeping handler whose record has a naive `delayed` less than `zone`
    ahead: it is executed although its delay has not passed ("never sooner than the requested delay"). -/
theorem local_zone_east_wakes_sleeper (zone : Int) (env : Env) (l : Limits) (so sp : Option Int) (r : Rec) (d now : Int)
    (hf : r.finished = false) (hd : r.delayed = some d) (hsleep : now < d) (hz : d - zone ≤ now)
    (x : Raised) (dur : Nat) :
    r.sleeping now = true ∧
    ∃ a, stepStoredLocal zone env l ⟨so, sp, none⟩ r now x dur = .att a := by
  refine ⟨by simp [Rec.sleeping, hf, hd, hsleep], ?_⟩
  have hf' : (r.reread (Stamp.asUtcLocal zone) ⟨so, sp, none⟩).finished = false := by
    simpa [Rec.reread, Rec.finished] using hf
  have hs' : (r.reread (Stamp.asUtcLocal zone) ⟨so, sp, none⟩).sleeping now = false := by
    simp [Rec.sleeping, Rec.reread, hd, local_shifts_naive]
    intro _; omega
  refine ⟨attemptAt env l now (r.reread (Stamp.asUtcLocal zone) ⟨so, sp, none⟩) x dur 0, ?_⟩
  rw [stepStoredLocal, stored_is_step]
  simp [Rec.awakened, hf', hs']

/-- The seeded shape, east: first attempt a minute ago, `TemporaryError(delay=1h)`, the process at UTC+5 —
    the code sleeps, the variant invokes the function 59 minutes too soon. -/
theorem local_zone_retried_too_soon_witness :
    ∃ (zone : Int) (env : Env) (l : Limits) (r : Rec) (now : Int),
      r.sleeping now = true ∧
      stepStoredIn zone env l ⟨none, none, none⟩ r now .ok 0 = .idle false ∧
      ∃ a, stepStoredLocal zone env l ⟨none, none, none⟩ r now .ok 0 = .att a ∧ a.out.invoked = true :=
  ⟨18000, ⟨.temporary, 60⟩, ⟨none, none, some 10, none⟩, ⟨0, none, some 3660, 1, false, false⟩, 60,
    by decide, by decide, _, rfl, by decide⟩

/-- WEST of UTC the variant moves a naive `started` into the future: the runtime is negative, the strict
    timeout check and the look-ahead pass. The seeded shape: first attempt an hour ago, `timeout=600`, retry
    without delay, the process at UTC-5 — the code refuses the call and records the failure, the variant
    invokes the function 3600 after the first attempt and asks for more. -/
theorem local_zone_invoked_after_timeout_witness :
    ∃ (zone : Int) (env : Env) (l : Limits) (r : Rec) (now T : Int),
      l.timeout = some T ∧ r.runtime now > T ∧ r.awakened now = true ∧
      (∃ a, stepStoredIn zone env l ⟨none, none, none⟩ r now (.temporary none) 0 = .att a ∧
            a.out.invoked = false ∧ a.out.exc = .timeout ∧ a.recAfter.failure = true) ∧
      ∃ a, stepStoredLocal zone env l ⟨none, none, none⟩ r now (.temporary none) 0 = .att a ∧
           a.out.invoked = true ∧ a.out.final = false :=
  ⟨-18000, ⟨.temporary, 60⟩, ⟨none, some 600, none, none⟩, ⟨0, none, none, 1, false, false⟩, 3600, 600,
    rfl, by decide, by decide, ⟨_, rfl, by decide, by decide, by decide⟩, ⟨_, rfl, by decide, by decide⟩⟩

/-- In general, west of UTC: whatever the age of a record with a naive `started`, a process far enough west
    does not see the timeout (the strict check before the call passes). -/
theorem local_zone_west_hides_timeout (zone : Int) (l : Limits) (os : Offsets) (r : Rec) (now T : Int)
    (hso : os.started = none) (hT : l.timeout = some T) (hz : r.runtime now - T < -zone) :
    timedOut l ((r.reread (Stamp.asUtcLocal zone) os).runtime now) = false := by
  simp [timedOut, hT, Rec.runtime, Rec.reread, hso, local_shifts_naive] at *
  omega

/-! ## Stacked registrations: one function, one id, two reasons (f7d6401)

  "With retries=N a handler is invoked at most N times": a handler is ONE registration (one decorator
  with its own limits, bound to its reason), counted within the handling of one cause. A cause that
  supersedes another starts the other registration's count at zero; the function may run up to
  `N₁ + N₂` times in all, each registration within its own limit. -/

/-- Each of the two registrations keeps within its own `retries`, whatever the cycles of either handling
    (record continuity inside each handling, as for every `_partial` law of change handlers). -/
theorem namesake_retries_bound_partial (env : Env) (l1 l2 : Limits) (t0 t1 : Int) (s1 s2 : List Step) :
    (∀ N, l1.retries = some N → (invocations (namesakeFresh env l1 l2 t0 s1 t1 s2).1).length ≤ N.toNat) ∧
    (∀ N, l2.retries = some N → (invocations (namesakeFresh env l1 l2 t0 s1 t1 s2).2).length ≤ N.toNat) :=
  ⟨fun N h => retries_bound_scratch_partial env l1 N h t0 t0 s1,
   fun N h => retries_bound_scratch_partial env l2 N h t1 t1 s2⟩

/-- The second registration's first turn is on a fresh record: `retry = 0`, invoked iff its own limits
    allow a first invocation (`wait < T`, `0 < N`) — nothing of the namesake's series is held against it. -/
theorem namesake_starts_from_scratch (env : Env) (l1 l2 : Limits) (t0 t1 : Int) (s1 : List Step)
    (dt wait : Nat) (x : Raised) (dur lag : Nat) (rest : List Step) :
    ∃ a, (namesakeFresh env l1 l2 t0 s1 t1 (.cycle dt wait x dur lag :: rest)).2.head? = some (.att a) ∧
      a.retry = 0 ∧ a.time = t1 + dt + wait := by
  refine ⟨attemptAt env l2 (t1 + dt + wait) (fromScratch t1) x dur lag, ?_, rfl, rfl⟩
  simp [namesakeFresh, run, fromScratch_awakened]

/-- REGRESSION (the code before f7d6401; C03-N3 seen from here) and at the same time what the code STILL
    does one level down, for the sub-handlers of a stacked parent (open finding C11-F6): the update
    registration (no limit of its own) was invoked three times and waits for its retry; the deletion
    registration (`retries = 3`) takes over that record and is recorded as failed for good by `retries`
    WITHOUT A SINGLE INVOCATION — started from scratch it is invoked at once. -/
theorem namesake_inherits_refused_witness :
    ∃ (env : Env) (l1 l2 : Limits) (s1 s2 : List Step) (t1 : Int),
      (invocations (namesakeInherits env l1 l2 0 s1 t1 s2).2) = [] ∧
      ((attempts (namesakeInherits env l1 l2 0 s1 t1 s2).2).map (fun a => (a.retry, a.out.exc, a.recAfter.failure)))
        = [(3, .retries, true)] ∧
      ((attempts (namesakeFresh env l1 l2 0 s1 t1 s2).2).map (fun a => (a.retry, a.out.invoked))) = [(0, true)] :=
  ⟨⟨.temporary, 60⟩, ⟨none, none, none, some 10⟩, ⟨none, none, some 3, some 10⟩,
   [.cycle 0 0 .arbitrary 0 0, .cycle 10 0 .arbitrary 0 0, .cycle 10 0 .arbitrary 0 0], [.cycle 10 0 .ok 0 0], 20,
   by decide, by decide, by decide⟩

/-! ## `initial_delay=` of daemons and timers: the series' clock starts after it -/

/-- A spawned daemon (and the first series of a spawned timer: `timerRun` from `spawnedAt t0 d`) makes
    its first attempt `initial_delay` after the spawn, on a record created at that moment
    (`started = time`): the initial delay is not part of the `timeout`, and the first attempt IS an
    invocation as soon as `0 < T` and `0 < N`, whatever the delay. -/
theorem initial_delay_not_counted (env : Env) (l : Limits) (t0 : Int) (d : Nat) (x : Raised) (dur : Nat)
    (rest : List (Raised × Nat)) :
    ∃ a, (daemonRun env l t0 d ((x, dur) :: rest)).head? = some a ∧ a.time = t0 + d ∧ a.retry = 0 ∧
      a.recAfter.started = a.time ∧
      (a.out.invoked = true ↔ (∀ T, l.timeout = some T → 0 < T) ∧ (∀ N, l.retries = some N → 0 < N)) := by
  refine ⟨attemptAt env l (spawnedAt t0 d) (fromScratch (spawnedAt t0 d)) x dur 0, ?_, rfl, rfl, rfl, ?_⟩
  · simp [daemonRun, loopRun, fromScratch, Rec.finished, wakeTime]
  · have key := fresh_invoked_iff env l (spawnedAt t0 d) 0 dur x
    simp only [Int.natCast_zero, Int.add_zero, attemptAt_out] at key ⊢
    rw [key]

-- initial_delay 100 with timeout 10: invoked at 100 (the delay does not eat the timeout), refused at 110
example : (daemonRun ⟨.temporary, 60⟩ ⟨none, some 10, none, some 5⟩ 0 100 [(.arbitrary, 0), (.arbitrary, 0), (.ok, 0)]).map
    (fun a => (a.time, a.out.invoked, a.recAfter.started)) = [(100, true, 100), (105, true, 100)] := by decide

/-! ## A daemon across re-spawns -/

/-- Within one task a finished attempt is the last one (the loop ends on `state.done`). -/
theorem loop_finished_is_last (env : Env) (l : Limits) (script : List (Raised × Nat)) :
    ∀ (now : Int) (r : Rec), (loopRun env l now r script).Pairwise (fun a _ => a.recAfter.finished = false) := by
  induction script with
  | nil => intro now r; exact List.Pairwise.nil
  | cons s rest ih =>
    intro now r
    obtain ⟨x, dur⟩ := s
    cases hf : r.finished with
    | true => simp [loopRun, hf]
    | false =>
      simp only [loopRun, hf, Bool.false_eq_true, if_false]
      refine List.Pairwise.cons ?_ (ih _ _)
      intro b hb
      cases hfa : (attemptAt env l (wakeTime r now) r x dur 0).recAfter.finished with
      | false => rfl
      | true => rw [loopRun_finished _ _ _ _ _ hfa] at hb; cases hb

/-- "a permanent error … ends it without retry", "recorded as failed for good" — for a daemon over its
    whole existence for the object, every task and every re-spawn: after a final outcome (the function
    returned, or failed for good) the function is never invoked again. -/
theorem daemon_respawn_final_is_last (env : Env) (l : Limits) (tasks : List (Int × List (Raised × Nat))) :
    (daemonRespawnRun env l tasks).Pairwise (fun a _ => a.recAfter.finished = false) := by
  induction tasks with
  | nil => exact List.Pairwise.nil
  | cons tk rest ih =>
    obtain ⟨t0, script⟩ := tk
    simp only [daemonRespawnRun]
    have h1 := loop_finished_is_last env l script (spawnedAt t0 0) (fromScratch (spawnedAt t0 0))
    cases hany : (daemonRun env l t0 0 script).any (fun a => a.recAfter.finished) with
    | true => simpa [daemonRun] using h1
    | false =>
      simp only [Bool.false_eq_true, if_false]
      refine List.pairwise_append.2 ⟨by simpa [daemonRun] using h1, ih, ?_⟩
      intro a ha b _
      have := List.any_eq_false.1 hany a ha
      simpa using this

-- PermanentError in the first task: the daemon is not spawned again when the object matches again at 6;
-- a task stopped in the middle of its retries is
example : (daemonRespawnRun ⟨.temporary, 60⟩ ⟨none, none, none, none⟩
    [(0, [(.permanent, 0)]), (6, [(.ok, 0)])]).map (fun a => (a.time, a.retry, a.recAfter.failure)) = [(0, 0, true)] := by decide
example : (daemonRespawnRun ⟨.temporary, 60⟩ ⟨none, none, none, some 5⟩
    [(0, [(.arbitrary, 0)]), (6, [(.ok, 0)])]).map (fun a => (a.time, a.retry, a.recAfter.success)) =
    [(0, 0, false), (6, 0, true)] := by decide

/-! ## Timers: the whole life of one `_timer` task (after af4d77a, 9118944, a6c10de)

  `timerRun` has one script element per iteration of `_timer`'s loop and evaluates the same gate as
  every other driver (`awakened`); nothing about a failed timer is built into its definition: that a
  failed series is never executed again is DERIVED (`timer_failed_never_runs`) from the kept record
  (`timerState` re-creates the record only after a success / before a first attempt) and the gate. -/

def invokedOf (as : List Attempt) : List Attempt := as.filter (fun a => a.out.invoked)

/-- `b` comes after `a` in a timer's life (possibly in a later series): not before `a` was merged,
    and not before the delay `a` asked for has passed. -/
def Spaced (a b : Attempt) : Prop :=
  a.merged ≤ b.time ∧ ∀ d, a.out.delay = some d → a.merged + d ≤ b.time

/-- A record as a timer can have it: the count is not negative, and a finished record has made at
    least one execution (`fromScratch` has 0 and is unfinished; every execution adds 1). -/
def Rec.sane (r : Rec) : Prop := 0 ≤ r.retries ∧ (r.finished = true → r.retries ≠ 0)

theorem fromScratch_sane (t : Int) : (fromScratch t).sane := ⟨by simp [fromScratch], by simp [fromScratch, Rec.finished]⟩

theorem timerState_nonneg {r : Rec} (h0 : 0 ≤ r.retries) (now t : Int) : 0 ≤ (timerState r now t).retries := by
  rw [timerState_retries]
  unfold timerReset; split
  · simp [fromScratch]
  · exact h0

theorem attemptAt_sane (env : Env) (l : Limits) (t : Int) (r : Rec) (x : Raised) (dur lag : Nat) (h0 : 0 ≤ r.retries) :
    (attemptAt env l t r x dur lag).recAfter.sane := by
  constructor <;> rw [attemptAt_rec_retries]
  · omega
  · intro _; omega

/-- A timer whose record is a failure for good never executes anything again: every further
    iteration of its loop finds nothing awakened. -/
theorem timer_failed_never_runs (env : Env) (l : Limits) (iv : Nat) (sh : Bool) (script : List (Raised × Nat × Int)) :
    ∀ (now : Int) (r : Rec), r.sane → r.failure = true → attempts (timerRun env l iv sh now r script) = [] := by
  induction script with
  | nil => intro now r _ _; rfl
  | cons s rest ih =>
    intro now r hs h
    obtain ⟨x, dur, iu⟩ := s
    have hst : timerState r now (timerAt now iu) = r := timerState_failure h (hs.2 (finished_of_failure h)) now _
    rcases timerRun_step env l iv sh iu now r x dur rest with ⟨hg, _⟩ | ⟨_, he⟩
    · rw [hst, not_awakened_of_finished (finished_of_failure h)] at hg; cases hg
    · rw [he, attempts_cons_idle, hst]; exact ih _ _ hs h

/-- After a final failure (PermanentError, permanent-mode error, retries or timeout exhausted) there is
    no further attempt in the task's life: an attempt that is followed by another one did not fail. -/
theorem timer_failure_is_last (env : Env) (l : Limits) (iv : Nat) (sh : Bool) (script : List (Raised × Nat × Int)) :
    ∀ (now : Int) (r : Rec), r.sane →
      (attempts (timerRun env l iv sh now r script)).Pairwise (fun a _ => a.recAfter.failure = false) := by
  induction script with
  | nil => intro now r _; exact List.Pairwise.nil
  | cons s rest ih =>
    intro now r hs
    obtain ⟨x, dur, iu⟩ := s
    have hsa := attemptAt_sane env l (timerAt now iu) (timerState r now (timerAt now iu)) x dur 0
      (timerState_nonneg hs.1 now _)
    rcases timerRun_step env l iv sh iu now r x dur rest with ⟨_, he⟩ | ⟨hg, he⟩
    · rw [he, attempts_cons_att]
      refine List.Pairwise.cons ?_ (ih _ _ hsa)
      intro b hb
      cases hfa : (attemptAt env l (timerAt now iu) (timerState r now (timerAt now iu)) x dur 0).recAfter.failure with
      | false => rfl
      | true => rw [timer_failed_never_runs _ _ _ _ _ _ _ hsa hfa] at hb; cases hb
    · rw [he, attempts_cons_idle, (timerState_idle hg).1]; exact ih _ _ hs

/-- The head attempt of a timer's remaining life continues the running series (same retry number as
    the record) or, after a success, starts a new one with retry 0; after a failure there is none. -/
theorem timer_head_retry (env : Env) (l : Limits) (iv : Nat) (sh : Bool) (script : List (Raised × Nat × Int)) :
    ∀ (now : Int) (r : Rec) (b : Attempt), r.sane →
      (attempts (timerRun env l iv sh now r script)).head? = some b →
      (r.finished = false ∧ b.retry = r.retries) ∨ (r.finished = true ∧ r.failure = false ∧ b.retry = 0) := by
  induction script with
  | nil => intro now r b _ h; simp [timerRun, attempts] at h
  | cons s rest ih =>
    intro now r b hs h
    obtain ⟨x, dur, iu⟩ := s
    rcases timerRun_step env l iv sh iu now r x dur rest with ⟨hg, he⟩ | ⟨hg, he⟩
    · rw [he, attempts_cons_att] at h
      simp only [List.head?_cons, Option.some.injEq] at h
      subst h
      simp only [attemptAt_retry, timerState_retries]
      cases hf : r.finished with
      | false => left; rw [timerReset_unfinished hf]; exact ⟨rfl, rfl⟩
      | true =>
        cases hn : r.failure with
        | true => rw [timerState_failure hn (hs.2 hf), not_awakened_of_finished hf] at hg; cases hg
        | false => right; rw [timerReset_success hf hn]; exact ⟨rfl, rfl, rfl⟩
    · rw [he, attempts_cons_idle, (timerState_idle hg).1] at h
      exact ih _ _ b hs h

/-- `retries = N`, per series: every invocation in a timer's life has a retry number below `N`… -/
theorem timer_retry_lt (env : Env) (l : Limits) (N : Int) (hN : l.retries = some N) (iv : Nat) (sh : Bool)
    (script : List (Raised × Nat × Int)) :
    ∀ (now : Int) (r : Rec) (a : Attempt), a ∈ attempts (timerRun env l iv sh now r script) →
      a.out.invoked = true → a.retry < N := by
  induction script with
  | nil => intro now r a h; cases h
  | cons s rest ih =>
    intro now r a h hi
    obtain ⟨x, dur, iu⟩ := s
    rcases timerRun_step env l iv sh iu now r x dur rest with ⟨_, he⟩ | ⟨_, he⟩
    · rw [he, attempts_cons_att] at h
      rcases List.mem_cons.1 h with rfl | h'
      · simp only [attemptAt_out] at hi
        have hp := (classify_invoked_iff env l _ _ dur x).1 hi
        exact retriesOut_false_of l _ N hN ((precheck_none_iff l _ _).1 hp).2
      · exact ih _ _ a h' hi
    · rw [he, attempts_cons_idle] at h; exact ih _ _ a h hi

/-- … and the retry numbers count up by one inside a series; a new series (retry 0 again) starts
    only right after a success. Hence at most `N` invocations per series, and with
    `timer_failure_is_last` a failed series is the last one. -/
theorem timer_retry_steps (env : Env) (l : Limits) (iv : Nat) (sh : Bool) (script : List (Raised × Nat × Int)) :
    ∀ (now : Int) (r : Rec) (n : Nat) (a b : Attempt), r.sane →
      (attempts (timerRun env l iv sh now r script))[n]? = some a →
      (attempts (timerRun env l iv sh now r script))[n + 1]? = some b →
      (b.retry = a.retry + 1 ∧ a.recAfter.finished = false) ∨ (b.retry = 0 ∧ a.recAfter.success = true) := by
  induction script with
  | nil => intro now r n a b _ ha; simp [timerRun, attempts] at ha
  | cons s rest ih =>
    intro now r n a b hs ha hb
    obtain ⟨x, dur, iu⟩ := s
    have hsa := attemptAt_sane env l (timerAt now iu) (timerState r now (timerAt now iu)) x dur 0
      (timerState_nonneg hs.1 now _)
    rcases timerRun_step env l iv sh iu now r x dur rest with ⟨_, he⟩ | ⟨hg, he⟩
    · rw [he, attempts_cons_att] at ha hb
      cases n with
      | succ m =>
        rw [List.getElem?_cons_succ] at ha hb
        exact ih _ _ m a b hsa ha hb
      | zero =>
        rw [List.getElem?_cons_zero] at ha
        rw [List.getElem?_cons_succ, ← List.head?_eq_getElem?] at hb
        cases ha
        rcases timer_head_retry env l iv sh rest _ _ b hsa hb with ⟨hf, hr⟩ | ⟨hf, hn, hr⟩
        · left; exact ⟨by rw [hr]; rfl, hf⟩
        · right
          refine ⟨hr, ?_⟩
          simp only [Rec.finished, hn, Bool.or_false] at hf
          exact hf
    · rw [he, attempts_cons_idle, (timerState_idle hg).1] at ha hb
      exact ih _ _ n a b hs ha hb

/-- The count over the whole life: at most `N` invocations for the running series plus `N` for every
    success (each success opens one new series); a failure opens nothing. -/
def budget (N : Int) (r : Rec) : Nat :=
  if r.failure then 0 else if r.success then N.toNat else (N - r.retries).toNat

theorem timer_invocations_bound (env : Env) (l : Limits) (N : Int) (hN : l.retries = some N) (iv : Nat)
    (sh : Bool) (script : List (Raised × Nat × Int)) :
    ∀ (now : Int) (r : Rec), r.sane →
      (invokedOf (attempts (timerRun env l iv sh now r script))).length ≤
        budget N r + N.toNat * ((attempts (timerRun env l iv sh now r script)).filter
          (fun a => a.recAfter.success)).length := by
  induction script with
  | nil => intro now r _; simp [timerRun, attempts, invokedOf]
  | cons s rest ih =>
    intro now r hs
    obtain ⟨x, dur, iu⟩ := s
    rcases timerRun_step env l iv sh iu now r x dur rest with ⟨hg, he⟩ | ⟨hg, he⟩
    · rw [he, attempts_cons_att]
      have hb0 : budget N r = (N - (timerState r now (timerAt now iu)).retries).toNat := by
        rw [timerState_retries]
        cases hf : r.finished with
        | false =>
          rw [timerReset_unfinished hf]
          simp [budget, failure_false_of_unfinished hf, success_false_of_unfinished hf]
        | true =>
          cases hn : r.failure with
          | true => rw [timerState_failure hn (hs.2 hf), not_awakened_of_finished hf] at hg; cases hg
          | false =>
            have hsu : r.success = true := by simpa [Rec.finished, hn] using hf
            rw [timerReset_success hf hn]
            simp [budget, hn, hsu, fromScratch]
      have h1 := timerState_nonneg hs.1 now (timerAt now iu)
      generalize timerState r now (timerAt now iu) = r0 at hb0 h1 ⊢
      generalize hA : attemptAt env l (timerAt now iu) r0 x dur 0 = A
      have hsa : A.recAfter.sane := by rw [← hA]; exact attemptAt_sane env l _ r0 x dur 0 h1
      have ih' := ih (timerNext iv sh A) A.recAfter hsa
      have hAr : A.recAfter.retries = r0.retries + 1 := by rw [← hA]; rfl
      have hAo : A.out = classify env l r0 (timerAt now iu) dur x := by rw [← hA]; rfl
      simp only [invokedOf, List.filter_cons] at ih' ⊢
      rw [hb0]
      by_cases hi : A.out.invoked = true
      · have hp := (classify_invoked_iff env l r0 (timerAt now iu) dur x).1 (hAo ▸ hi)
        have hlt := retriesOut_false_of l _ N hN ((precheck_none_iff l r0 (timerAt now iu)).1 hp).2
        rw [if_pos hi, List.length_cons]
        cases hfa : A.recAfter.failure with
        | true =>
          have hsu : A.recAfter.success = false := by
            rw [← hA] at hfa ⊢
            simp only [attemptAt, withOutcome] at hfa ⊢
            cases h1 : (classify env l r0 (timerAt now iu) dur x).final <;>
              cases h2 : ((classify env l r0 (timerAt now iu) dur x).exc == Exc.none) <;> simp_all
          simp only [budget, hfa, if_true] at ih'
          rw [hsu]; simp only [Bool.false_eq_true, if_false]
          omega
        | false =>
          cases hsu : A.recAfter.success with
          | true =>
            simp only [budget, hfa, hsu, Bool.false_eq_true, if_false, if_true] at ih'
            simp only [if_true, List.length_cons, Nat.mul_add, Nat.mul_one]
            omega
          | false =>
            simp only [budget, hfa, hsu, Bool.false_eq_true, if_false, hAr] at ih'
            simp only [Bool.false_eq_true, if_false]
            omega
      · rw [if_neg hi]
        have hni : (classify env l r0 (timerAt now iu) dur x).invoked = false := by
          rw [← hAo]; simpa using hi
        have hfa : A.recAfter.failure = true := by
          rw [← hA]; exact ((limits_refuse env l r0 (timerAt now iu) dur x _).2 hni).2.2.1
        have hsu : A.recAfter.success = false := by
          rw [← hA]; exact ((limits_refuse env l r0 (timerAt now iu) dur x _).2 hni).2.2.2
        rw [timer_failed_never_runs _ _ _ _ _ _ _ hsa hfa] at ih' ⊢
        simp [hsu]
    · rw [he, attempts_cons_idle, (timerState_idle hg).1]
      exact ih _ _ hs

/-- ONE WHOLE SERIES of a timer is the in-memory loop: from an unfinished record that has made an
    attempt (or is fresh at its first execution) and once the idle wait is over (`iu ≤` the wake-up
    time), the timer's attempts up to and including the first one that finishes the record are
    exactly `loopRun`'s (same times, retry numbers, outcomes, records) — so everything proved for
    `loopRun` holds for every series. -/
theorem timer_series_is_loop (env : Env) (l : Limits) (iv : Nat) (sh : Bool) (script : List (Raised × Nat × Int)) :
    ∀ (now : Int) (r : Rec), r.finished = false → 0 ≤ r.retries → (∀ e ∈ script, e.2.2 ≤ wakeTime r now) →
      (r.retries = 0 → r = fromScratch (wakeTime r now)) →
      takeSeries (attempts (timerRun env l iv sh (wakeTime r now) r script)) = loopRun env l now r (plainScript script) := by
  induction script with
  | nil => intro now r _ _ _ _; rfl
  | cons s rest ih =>
    intro now r hf h0 hiu hfresh
    obtain ⟨x, dur, iu⟩ := s
    have hiu0 : iu ≤ wakeTime r now := hiu (x, dur, iu) (List.mem_cons_self ..)
    have hta : timerAt (wakeTime r now) iu = wakeTime r now := timerAt_of_le hiu0
    have hr : timerState r (wakeTime r now) (wakeTime r now) = r := by
      by_cases hz : r.retries = 0
      · rw [timerState_fresh0 hf hz]; exact (hfresh hz).symm
      · exact timerState_keep hf hz _ _
    rcases timerRun_step env l iv sh iu (wakeTime r now) r x dur rest with ⟨_, he⟩ | ⟨hg, _⟩
    · rw [he, attempts_cons_att, hta, hr]
      simp only [plainScript, List.map_cons, takeSeries, loopRun, hf, Bool.false_eq_true, if_false]
      cases hfa : (attemptAt env l (wakeTime r now) r x dur 0).recAfter.finished with
      | true => simp [loopRun_finished _ _ _ _ _ hfa]
      | false =>
        simp only [Bool.false_eq_true, if_false, timerNext, hfa]
        have h1 := wakeTime_ge (attemptAt env l (wakeTime r now) r x dur 0).recAfter
          (attemptAt env l (wakeTime r now) r x dur 0).merged
        have h2 := attemptAt_merged_ge env l (wakeTime r now) r x dur 0
        have := ih (attemptAt env l (wakeTime r now) r x dur 0).merged
          (attemptAt env l (wakeTime r now) r x dur 0).recAfter hfa (by rw [attemptAt_rec_retries]; omega) (by
          intro e he'
          have := hiu e (List.mem_cons_of_mem _ he')
          omega) (by intro hz; rw [attemptAt_rec_retries] at hz; omega)
        simp only [plainScript] at this
        rw [this]
    · rw [hta, hr, awakened_wakeTime hf] at hg; cases hg

/-- `timeout = T` over a timer's whole life: no invocation starts `T` or more after the start of its
    own series (`recAfter.started` is the series' `started`; since 9118944 that is the moment of the
    series' first execution, after the idle wait — see `timer_first_of_series_invoked`). -/
theorem timer_timeout_bound (env : Env) (l : Limits) (T : Int) (hT : l.timeout = some T) (iv : Nat) (sh : Bool)
    (script : List (Raised × Nat × Int)) :
    ∀ (now : Int) (r : Rec) (a : Attempt), a ∈ attempts (timerRun env l iv sh now r script) →
      a.out.invoked = true → a.time - a.recAfter.started < T := by
  induction script with
  | nil => intro now r a h; cases h
  | cons s rest ih =>
    intro now r a h hi
    obtain ⟨x, dur, iu⟩ := s
    rcases timerRun_step env l iv sh iu now r x dur rest with ⟨_, he⟩ | ⟨_, he⟩
    · rw [he, attempts_cons_att] at h
      rcases List.mem_cons.1 h with rfl | h'
      · simp only [attemptAt_out] at hi
        have hp := (classify_invoked_iff env l _ _ dur x).1 hi
        have := timedOut_false_of l _ T hT ((precheck_none_iff l _ _).1 hp).1
        simpa [Rec.runtime] using this
      · exact ih _ _ a h' hi
    · rw [he, attempts_cons_idle] at h; exact ih _ _ a h hi

theorem timerRun_lower (env : Env) (l : Limits) (iv : Nat) (sh : Bool) (script : List (Raised × Nat × Int)) :
    ∀ (now : Int) (r : Rec) (b : Attempt), b ∈ attempts (timerRun env l iv sh now r script) →
      now ≤ b.time ∧ (r.finished = false → r.retries ≠ 0 → ∀ D, r.delayed = some D → D ≤ b.time) := by
  induction script with
  | nil => intro now r b h; cases h
  | cons s rest ih =>
    intro now r b h
    obtain ⟨x, dur, iu⟩ := s
    have h4 := timerAt_ge now iu
    rcases timerRun_step env l iv sh iu now r x dur rest with ⟨hg, he⟩ | ⟨hg, he⟩
    · rw [he, attempts_cons_att] at h
      rcases List.mem_cons.1 h with rfl | h'
      · refine ⟨by simpa using h4, fun hf hz D hD => ?_⟩
        rw [timerState_keep hf hz] at hg
        simpa using awakened_delayed_le hg hD
      · have h1 := (ih _ _ b h').1
        have h2 := timerNext_ge iv sh (attemptAt env l (timerAt now iu) (timerState r now (timerAt now iu)) x dur 0)
        have h3 := attemptAt_merged_ge env l (timerAt now iu) (timerState r now (timerAt now iu)) x dur 0
        refine ⟨by omega, fun hf hz D hD => ?_⟩
        rw [timerState_keep hf hz] at hg
        have := awakened_delayed_le hg hD
        omega
    · rw [he, attempts_cons_idle, (timerState_idle hg).1] at h
      obtain ⟨h1, h2⟩ := ih _ _ b h
      have h3 := timerIdleNext_ge iv sh r (timerAt now iu)
      exact ⟨by omega, h2⟩

/-- "never sooner than the requested delay or backoff" over a timer's whole life: every later
    attempt — of the same or of a later series — starts no earlier than the merge of an earlier
    outcome plus the delay it asked for. -/
theorem timer_delay_respected (env : Env) (l : Limits) (iv : Nat) (sh : Bool) (script : List (Raised × Nat × Int)) :
    ∀ (now : Int) (r : Rec), 0 ≤ r.retries → (attempts (timerRun env l iv sh now r script)).Pairwise Spaced := by
  induction script with
  | nil => intro now r _; exact List.Pairwise.nil
  | cons s rest ih =>
    intro now r h0
    obtain ⟨x, dur, iu⟩ := s
    have h1' := timerState_nonneg h0 now (timerAt now iu)
    rcases timerRun_step env l iv sh iu now r x dur rest with ⟨_, he⟩ | ⟨hg, he⟩
    · rw [he, attempts_cons_att]
      refine List.Pairwise.cons ?_ (ih _ _ (by rw [attemptAt_rec_retries]; omega))
      intro b hb
      obtain ⟨h1, h2⟩ := timerRun_lower env l iv sh rest _ _ b hb
      have h3 := timerNext_ge iv sh (attemptAt env l (timerAt now iu) (timerState r now (timerAt now iu)) x dur 0)
      refine ⟨by omega, fun d hd => ?_⟩
      have hnf : (attemptAt env l (timerAt now iu) (timerState r now (timerAt now iu)) x dur 0).recAfter.finished = false := by
        rw [attemptAt_finished, attemptAt_out]
        exact classify_delay_not_final env l _ _ dur x d (by simpa using hd)
      exact h2 hnf (by rw [attemptAt_rec_retries]; omega) _ (attemptAt_delayed env l (timerAt now iu) _ x dur 0 d hd)
    · rw [he, attempts_cons_idle, (timerState_idle hg).1]; exact ih _ _ h0

/-- "T after the FIRST attempt", for timers (9118944): the first iteration of a series — a fresh
    task, or the iteration after a success — IS an invocation, however long the idle wait was, as
    soon as `0 < T` and `0 < N`; its record is created at that moment (`started = time`). -/
theorem timer_first_of_series_invoked (env : Env) (l : Limits) (iv : Nat) (sh : Bool) (iu now : Int)
    (r : Rec) (x : Raised) (dur : Nat) (rest : List (Raised × Nat × Int))
    (hr : r.finished = true ∧ r.failure = false ∨ r = fromScratch now)
    (hT : ∀ T, l.timeout = some T → 0 < T) (hN : ∀ N, l.retries = some N → 0 < N) :
    ∃ a, (timerRun env l iv sh now r ((x, dur, iu) :: rest)).head? = some (.att a) ∧ a.out.invoked = true ∧
      a.retry = 0 ∧ a.time = timerAt now iu ∧ a.recAfter.started = a.time := by
  have hr0 : timerState r now (timerAt now iu) = fromScratch (timerAt now iu) := by
    rcases hr with ⟨hf, hn⟩ | rfl
    · exact timerState_success hf hn now _
    · exact timerState_fresh0 rfl rfl now _
  rcases timerRun_step env l iv sh iu now r x dur rest with ⟨_, he⟩ | ⟨hg, _⟩
  · rw [he, hr0]
    refine ⟨_, rfl, ?_, rfl, rfl, rfl⟩
    have key := (fresh_invoked_iff env l (timerAt now iu) 0 dur x).2
      ⟨fun T h => by have := hT T h; omega, hN⟩
    simpa using key
  · rw [hr0, fromScratch_awakened] at hg; cases hg

-- regression of the repaired timer half of C11-F3 (was `timer_idle_timeout_never_invoked_witness`):
-- `idle = 2`, `timeout = 1`, `interval = 1`: invoked at 2, 3, 4, each a fresh series started at its call
example : ((attempts (timerRun ⟨.temporary, 60⟩ ⟨none, some 1, none, none⟩ 1 false 0 (fromScratch 0)
    (constIdle 2 [(.ok, 0), (.ok, 0), (.ok, 0)]))).map (fun a => (a.time, a.out.invoked, a.recAfter.started))) =
    [(2, true, 2), (3, true, 3), (4, true, 4)] := by decide
-- a timer (interval 10) whose function raises PermanentError is executed once; the following
-- iterations find nothing awakened (the record is kept, the loop sleeps its interval)
example : timerRun ⟨.temporary, 60⟩ ⟨none, none, none, none⟩ 10 false 0 (fromScratch 0)
    (constIdle 0 [(.permanent, 0), (.permanent, 0), (.ok, 0)]) =
    [.att (attemptAt ⟨.temporary, 60⟩ ⟨none, none, none, none⟩ 0 (fromScratch 0) .permanent 0 0),
     .idle 10 true, .idle 20 true] := by decide
-- with retries = 1 a failing timer is invoked once in its life; after successes it starts new series
example : (invokedOf (attempts (timerRun ⟨.temporary, 60⟩ ⟨none, none, some 1, none⟩ 10 false 0 (fromScratch 0)
    (constIdle 0 [(.arbitrary, 0), (.arbitrary, 0), (.arbitrary, 0)])))).length = 1 := by decide
example : ((attempts (timerRun ⟨.temporary, 60⟩ ⟨none, none, some 2, some 3⟩ 10 false 0 (fromScratch 0)
    (constIdle 0 [(.ok, 0), (.arbitrary, 0), (.ok, 0), (.arbitrary, 0), (.arbitrary, 0), (.ok, 0)]))).map
    (fun a => (a.time, a.retry, a.recAfter.success, a.recAfter.failure))) =
    [(0, 0, true, false), (10, 0, false, false), (13, 1, true, false), (23, 0, false, false), (26, 1, false, true)] := by
  decide
-- one series of a sharp timer with a timeout: invoked inside T, refused at T, spacing by backoff
example : ((attempts (timerRun ⟨.temporary, 60⟩ ⟨none, some 25, none, some 10⟩ 7 true 0 (fromScratch 0)
    (constIdle 0 [(.arbitrary, 1), (.arbitrary, 1), (.arbitrary, 1), (.ok, 0)]))).map (fun a => (a.time, a.out.invoked, a.out.exc))) =
    [(0, true, .raised), (11, true, .raised), (22, true, .timeout)] := by decide

/-! ## A timer across re-spawns (finding C11-F4, repaired by a6c10de)

  A task whose series failed for good puts the handler into `memory.forever_stopped`; after a stop with
  a reason (filter mismatch, pause) `process_spawning_cause` does not spawn it again (`respawnRun`). -/

/-- Over the timer's whole existence for the object — every task, every re-spawn — an attempt that
    is followed by another one did not fail: after a final failure the function is never invoked again. -/
theorem timer_respawn_failure_is_last (env : Env) (l : Limits) (iv : Nat) (sh : Bool)
    (tasks : List (Int × List (Raised × Nat × Int))) :
    (attempts (respawnRun env l iv sh tasks)).Pairwise (fun a _ => a.recAfter.failure = false) := by
  induction tasks with
  | nil => exact List.Pairwise.nil
  | cons tk rest ih =>
    obtain ⟨t0, script⟩ := tk
    simp only [respawnRun]
    rw [attempts_append]
    have h1 := timer_failure_is_last env l iv sh script t0 (fromScratch t0) (fromScratch_sane t0)
    cases hany : (attempts (timerRun env l iv sh t0 (fromScratch t0) script)).any (fun a => a.recAfter.failure) with
    | true => simpa [attempts] using h1
    | false =>
      simp only [Bool.false_eq_true, if_false]
      refine List.pairwise_append.2 ⟨h1, ih, ?_⟩
      intro a ha b _
      have := List.any_eq_false.1 hany a ha
      simpa using this

-- regression of C11-F4 (was `timer_respawn_runs_again_witness`): the function raises PermanentError at 0;
-- the task is stopped (filters mismatch) and the object matches again at 6: nothing is spawned
example : ((attempts (respawnRun ⟨.temporary, 60⟩ ⟨none, none, none, none⟩ 1 false
    [(0, constIdle 0 [(.permanent, 0), (.ok, 0)]), (6, constIdle 6 [(.permanent, 0)])])).map
    (fun a => (a.time, a.retry, a.out.invoked, a.recAfter.failure))) = [(0, 0, true, true)] := by decide
-- … while a timer stopped in the middle of a retry series IS re-spawned, from scratch
example : ((attempts (respawnRun ⟨.temporary, 60⟩ ⟨none, none, none, some 5⟩ 1 false
    [(0, constIdle 0 [(.arbitrary, 0)]), (6, constIdle 6 [(.ok, 0)])])).map (fun a => (a.time, a.retry, a.recAfter.success))) =
    [(0, 0, false), (6, 0, true)] := by decide

/-! ## "T after the FIRST attempt": the code measures from the record's creation (finding C11-F3)

  Full statement (property): the timeout clock starts with the first attempt, hence a handler is
  recorded as failed by timeout only after at least one invocation.
  False of the code for change handlers and sub-handlers: `started` is stamped when the record is
  created (`State.from_scratch()` at the top of the cycle), the strict pre-check runs when the
  handler's TURN comes (after the siblings selected before it; under `asap` in a later cycle).
  For timers it holds since 9118944 (`timer_first_of_series_invoked`, above).
  Exact characterisation + witness: -/

/-- NEGATION (finding C11-F3, batches): `timeout = 10`; a sibling handler of the same cycle runs 50
    ticks first (`wait = 50`): the handler is recorded as timed out without ever being invoked. -/
theorem timed_out_before_first_invocation_witness :
    ∃ (env : Env) (l : Limits) (steps : List Step), l.timeout = some 10 ∧
      invocations (run env l 0 (fromScratch 0) steps) = [] ∧
      ((attempts (run env l 0 (fromScratch 0) steps)).map (fun a => (a.time, a.out.exc == .timeout, a.recAfter.failure))) =
        [(50, true, true)] :=
  ⟨⟨.temporary, 60⟩, ⟨none, some 10, none, none⟩, [.cycle 0 50 .ok 0 0, .cycle 5 0 .ok 0 0], rfl, by decide, by decide⟩

/-! ## In-memory loops never sleep past their timeout -/

/-- Every retry outcome of an in-memory loop (activity, daemon, timer series; no sub-handlers there)
    is due before `started + T`: the loop never sleeps through its own deadline, so
    `timeout_failed_for_good_partial`'s guard is a fact for the self-driven drivers. -/
theorem loop_never_sleeps_past_timeout (env : Env) (l : Limits) (T : Int) (hT : l.timeout = some T)
    (script : List (Raised × Nat)) (hx : ∀ s ∈ script, ∀ d, s.1 ≠ .childrenRetry d) :
    ∀ (now : Int) (r : Rec) (a : Attempt), a ∈ loopRun env l now r script →
      ∀ d, a.out.delay = some d → a.merged + d < r.started + T := by
  induction script with
  | nil => intro now r a h; cases h
  | cons s rest ih =>
    intro now r a h d hd
    obtain ⟨x, dur⟩ := s
    cases hf : r.finished with
    | true => simp [loopRun, hf] at h
    | false =>
      simp only [loopRun, hf, Bool.false_eq_true, if_false] at h
      rcases List.mem_cons.1 h with rfl | h'
      · simp only [attemptAt_out] at hd
        cases hp : precheck l r (wakeTime r now) with
        | some e => rw [classify_of_precheck_some hp] at hd; cases hd
        | none =>
          have hinvk : (classify env l r (wakeTime r now) dur x).invoked = true := (classify_invoked_iff ..).2 hp
          have hm : (attemptAt env l (wakeTime r now) r x dur 0).merged = wakeTime r now + dur := by
            simp only [attemptAt, endTime_invoked hinvk]; omega
          rw [hm]
          rw [classify_of_precheck_none hp] at hd
          have fin : ∀ (dl : Option Int) (extra : Int) (o : Outcome), RetriedOrLimit l r (wakeTime r now + dur) o dl extra →
              o.delay = some d → dl = some d ∧ r.runtime (wakeTime r now + dur) + extra < T := by
            intro dl extra o ho hod
            rcases ho.2 with ⟨heq, hlt, _⟩ | ⟨heq, _⟩ | ⟨heq, _⟩
            · rw [heq] at hod; exact ⟨by simpa [retryWith] using hod, hlt T hT⟩
            · rw [heq] at hod; simp [finalWith] at hod
            · rw [heq] at hod; simp [finalWith] at hod
          cases x with
          | ok => simp [post, finalWith] at hd
          | permanent => simp [post, finalWith] at hd
          | childrenRetry d' => exact absurd rfl (hx (_, dur) List.mem_cons_self d')
          | temporary d' =>
            obtain ⟨h1, h2⟩ := fin _ _ _ (post_temporary_verdict env l r _ d') hd
            subst h1
            simp only [Rec.runtime, orZero] at h2
            omega
          | arbitrary =>
            cases hm' : l.mode env with
            | ignored => simp [post, hm', finalWith] at hd
            | permanent => simp [post, hm', finalWith] at hd
            | temporary =>
              obtain ⟨h1, h2⟩ := fin _ _ _ (post_arbitrary_verdict env l r _ hm') hd
              simp only [Option.some.injEq] at h1
              subst h1
              simp only [Rec.runtime] at h2
              omega
      · have := ih (fun s hs => hx s (List.mem_cons_of_mem _ hs)) _ _ a h' d hd
        simpa using this

/-! ## The retry number counts the handler's OWN attempts (whatever else happens in between)

  In every driver the state is updated with the outcomes of THIS iteration only
  (`state.with_outcomes(current_outcomes)`): a cycle in which the handler was not executed — it is
  sleeping while a sibling handler of the same activity / cause is retried — leaves its record
  untouched (`run`: the idle branch continues with the same `r`). Consequences, for every history: -/

/-- The n-th attempt has retry number `stored + n`: cycles in which the handler was not executed
    (idle cycles, restarts, other handlers' retries) neither increment it nor re-delay the handler. -/
theorem retry_counts_own_attempts_partial (env : Env) (l : Limits) (steps : List Step) :
    ∀ (now : Int) (r : Rec) (n : Nat) (a : Attempt),
      (attempts (run env l now r steps))[n]? = some a → a.retry = r.retries + n := by
  induction steps with
  | nil => intro now r n a h; simp [run, attempts] at h
  | cons s rest ih =>
    intro now r n a h
    cases s with
    | restart dn => rw [run_restart, attempts_cons_restarted] at h; exact ih _ _ n a h
    | cycle dt wait x dur lag =>
      cases hg : r.awakened (now + dt) with
      | false => rw [run_cycle_idle _ _ _ _ _ _ _ _ _ _ hg, attempts_cons_idle] at h; exact ih _ _ n a h
      | true =>
        rw [run_cycle_awake _ _ _ _ _ _ _ _ _ _ hg, attempts_cons_att] at h
        cases n with
        | zero => rw [List.getElem?_cons_zero] at h; cases h; simp
        | succ m =>
          rw [List.getElem?_cons_succ] at h
          have := ih _ _ m a h
          rw [attemptAt_rec_retries] at this
          omega

/-- A verdict "retries exceeded" names the limit and comes only after the stored count reached it. -/
theorem classify_exc_retries (env : Env) (l : Limits) (r : Rec) (now : Int) (dur : Nat) (x : Raised)
    (h : (classify env l r now dur x).exc = .retries) :
    ∃ N, l.retries = some N ∧
      (((classify env l r now dur x).invoked = false ∧ r.retries ≥ N) ∨
       ((classify env l r now dur x).invoked = true ∧ r.retries + 1 ≥ N)) := by
  cases hp : precheck l r now with
  | some e =>
    rw [classify_of_precheck_some hp] at h ⊢
    simp only at h
    subst h
    unfold precheck at hp
    split at hp
    · cases hp
    · split at hp
      · rename_i hro
        obtain ⟨N, hN, hge⟩ := (retriesOut_true_iff l _).1 hro
        exact ⟨N, hN, Or.inl ⟨rfl, hge⟩⟩
      · cases hp
  | none =>
    rw [classify_of_precheck_none hp] at h ⊢
    have key : ∀ (d : Option Int) (extra : Int) (o : Outcome), RetriedOrLimit l r (now + dur) o d extra →
        o.exc = .retries → ∃ N, l.retries = some N ∧ ((o.invoked = false ∧ r.retries ≥ N) ∨
          (o.invoked = true ∧ r.retries + 1 ≥ N)) := by
      intro d extra o ho he
      rcases ho.2 with ⟨heq, _⟩ | ⟨heq, _⟩ | ⟨heq, N, hN, hge⟩
      · rw [heq] at he; simp [retryWith] at he
      · rw [heq] at he; simp [finalWith] at he
      · exact ⟨N, hN, Or.inr ⟨ho.1, hge⟩⟩
    cases x with
    | ok => simp [post, finalWith] at h
    | permanent => simp [post, finalWith] at h
    | childrenRetry d => simp [post, retryWith] at h
    | temporary d => exact key _ _ _ (post_temporary_verdict env l r (now + dur) d) h
    | arbitrary =>
      cases hm : l.mode env with
      | ignored => simp [post, hm, finalWith] at h
      | permanent => simp [post, hm, finalWith] at h
      | temporary => exact key _ _ _ (post_arbitrary_verdict env l r (now + dur) hm) h

/-- "recorded as failed for good BY RETRIES only after N invocations": in a history from a fresh record,
    when the n-th attempt ends with the verdict "retries exceeded", all `n` earlier attempts were real
    invocations of this handler and, counting this one if it was invoked, there were at least `N`. -/
theorem retries_verdict_only_after_N_partial (env : Env) (l : Limits) (now t0 : Int) (steps : List Step)
    (n : Nat) (a : Attempt) (ha : (attempts (run env l now (fromScratch t0) steps))[n]? = some a)
    (he : a.out.exc = .retries) :
    (∀ m b, m < n → (attempts (run env l now (fromScratch t0) steps))[m]? = some b → b.out.invoked = true) ∧
    ∃ N, l.retries = some N ∧ (n : Int) + (if a.out.invoked then 1 else 0) ≥ N := by
  have hret := retry_counts_own_attempts_partial env l steps now (fromScratch t0) n a ha
  constructor
  · intro m b hm hb
    -- an earlier attempt is not final (`final_is_last_partial`), and a refusal is final
    cases hi : b.out.invoked with
    | true => rfl
    | false =>
      exfalso
      have hfin : b.out.final = true := by
        -- every attempt of a run is an `attemptAt`; a refusal is final by `limits_refuse`
        have key : ∀ (steps : List Step) (now : Int) (r : Rec) (b : Attempt),
            b ∈ attempts (run env l now r steps) → b.out.invoked = false → b.out.final = true := by
          intro steps
          induction steps with
          | nil => intro now r b h; cases h
          | cons s rest ih =>
            intro now r b h hb
            cases s with
            | restart dn => rw [run_restart, attempts_cons_restarted] at h; exact ih _ _ b h hb
            | cycle dt wait x dur lag =>
              cases hg : r.awakened (now + dt) with
              | false => rw [run_cycle_idle _ _ _ _ _ _ _ _ _ _ hg, attempts_cons_idle] at h; exact ih _ _ b h hb
              | true =>
                rw [run_cycle_awake _ _ _ _ _ _ _ _ _ _ hg, attempts_cons_att] at h
                rcases List.mem_cons.1 h with rfl | h'
                · exact ((limits_refuse env l r _ dur x 0).2 hb).1
                · exact ih _ _ b h' hb
        exact key steps now _ b (List.mem_of_getElem? hb) hi
      have hlen := final_is_last_partial env l now (fromScratch t0) steps m b hb hfin
      have hn := (List.getElem?_eq_some_iff.1 ha).1
      omega
  · -- the verdict itself
    have hmem : a ∈ attempts (run env l now (fromScratch t0) steps) := List.mem_of_getElem? ha
    have key : ∀ (steps : List Step) (now : Int) (r : Rec) (a : Attempt),
        a ∈ attempts (run env l now r steps) → a.out.exc = .retries →
        ∃ N, l.retries = some N ∧ a.retry + (if a.out.invoked then 1 else 0) ≥ N := by
      intro steps
      induction steps with
      | nil => intro now r a h; cases h
      | cons s rest ih =>
        intro now r a h he
        cases s with
        | restart dn => rw [run_restart, attempts_cons_restarted] at h; exact ih _ _ a h he
        | cycle dt wait x dur lag =>
          cases hg : r.awakened (now + dt) with
          | false => rw [run_cycle_idle _ _ _ _ _ _ _ _ _ _ hg, attempts_cons_idle] at h; exact ih _ _ a h he
          | true =>
            rw [run_cycle_awake _ _ _ _ _ _ _ _ _ _ hg, attempts_cons_att] at h
            rcases List.mem_cons.1 h with rfl | h'
            · simp only [attemptAt_out, attemptAt_retry] at he ⊢
              obtain ⟨N, hN, h1 | h1⟩ := classify_exc_retries env l r _ dur x he
              · exact ⟨N, hN, by simp only [h1.1]; simp; omega⟩
              · exact ⟨N, hN, by simp only [h1.1]; simp; omega⟩
            · exact ih _ _ a h' he
    obtain ⟨N, hN, hge⟩ := key steps now _ a hmem he
    refine ⟨N, hN, ?_⟩
    rw [hret] at hge
    simp only [fromScratch] at hge
    omega

/-! ## "is retried" and "is recorded as failed for good" as events (progress) -/

/-- A raised kind that can never count as success. -/
def Failing (env : Env) (l : Limits) (x : Raised) : Prop :=
  x ≠ .ok ∧ ¬ (x = .arbitrary ∧ l.mode env = .ignored)

theorem failing_never_succeeds (env : Env) (l : Limits) (r : Rec) (now : Int) (dur : Nat) (x : Raised)
    (hx : Failing env l x) : (classify env l r now dur x).exc ≠ .none := by
  cases hp : precheck l r now with
  | some e =>
    rw [classify_of_precheck_some hp]
    rcases precheck_some_ne_none hp with rfl | rfl <;> simp
  | none =>
    rw [classify_of_precheck_none hp]
    cases x with
    | ok => exact absurd rfl hx.1
    | permanent => simp [post, finalWith]
    | childrenRetry d => simp [post, retryWith]
    | temporary d =>
      have := (post_temporary_verdict env l r (now + dur) d).2
      rcases this with ⟨h, _⟩ | ⟨h, _⟩ | ⟨h, _⟩ <;> rw [h] <;> simp [retryWith, finalWith]
    | arbitrary =>
      cases hm : l.mode env with
      | ignored => exact absurd ⟨rfl, hm⟩ hx.2
      | permanent => simp [post, hm, finalWith]
      | temporary =>
        have := (post_arbitrary_verdict env l r (now + dur) hm).2
        rcases this with ⟨h, _⟩ | ⟨h, _⟩ | ⟨h, _⟩ <;> rw [h] <;> simp [retryWith, finalWith]

/-- "recorded as failed for good", `retries = N`: an in-memory loop (activity, daemon, timer series)
    whose function keeps failing ENDS with a failure record within `N − stored + 1` executions. -/
theorem loop_ends_failed_retries (env : Env) (l : Limits) (N : Int) (hN : l.retries = some N)
    (script : List (Raised × Nat)) :
    ∀ (now : Int) (r : Rec), r.finished = false → (∀ s ∈ script, Failing env l s.1) →
      script.length ≥ (N - r.retries).toNat + 1 →
      ∃ last, (loopRun env l now r script).getLast? = some last ∧ last.recAfter.failure = true ∧
        last.recAfter.success = false := by
  induction script with
  | nil => intro now r _ _ hlen; simp at hlen
  | cons s rest ih =>
    intro now r hf hx hlen
    obtain ⟨x, dur⟩ := s
    simp only [loopRun, hf, Bool.false_eq_true, if_false]
    generalize hA : attemptAt env l (wakeTime r now) r x dur 0 = A
    have hAo : A.out = classify env l r (wakeTime r now) dur x := by rw [← hA]; rfl
    have hexc : A.out.exc ≠ .none := by
      rw [hAo]; exact failing_never_succeeds env l r _ dur x (hx (x, dur) List.mem_cons_self)
    have hff := final_finished r A.merged A.out
    have hrec : A.recAfter = withOutcome r A.merged A.out := by rw [← hA]; rfl
    cases hfin : A.out.final with
    | true =>
      have hfa : A.recAfter.failure = true := by rw [hrec]; exact hff.2.2.2 ⟨hfin, hexc⟩
      have hsu : A.recAfter.success = false := by
        rw [hrec]
        cases hs : (withOutcome r A.merged A.out).success with
        | false => rfl
        | true => exact absurd (hff.2.1.1 hs).2 hexc
      rw [loopRun_finished _ _ _ _ _ (finished_of_failure hfa)]
      exact ⟨A, rfl, hfa, hsu⟩
    | false =>
      -- not final ⇒ it was invoked ⇒ the stored count was below N
      have hinv : A.out.invoked = true := by
        cases hi : A.out.invoked with
        | true => rfl
        | false =>
          rw [hAo] at hi
          have := ((limits_refuse env l r (wakeTime r now) dur x 0).2 hi).1
          rw [← hAo, hfin] at this; cases this
      have hp := (classify_invoked_iff env l r _ dur x).1 (hAo ▸ hinv)
      have hlt := retriesOut_false_of l _ N hN ((precheck_none_iff l r _).1 hp).2
      have hnf : A.recAfter.finished = false := by rw [hrec, hff.1]; exact hfin
      have hret : A.recAfter.retries = r.retries + 1 := by rw [← hA]; rfl
      obtain ⟨last, h1, h2, h3⟩ := ih A.merged A.recAfter hnf
        (fun s hs => hx s (List.mem_cons_of_mem _ hs))
        (by rw [hret]; simp only [List.length_cons] at hlen; omega)
      refine ⟨last, ?_, h2, h3⟩
      rw [List.getLast?_cons, h1]; rfl

/-- "recorded as failed for good", `timeout = T`: if every call takes at least one tick, a loop whose
    function keeps failing ends with a failure record within `T − runtime + 1` executions. -/
theorem loop_ends_failed_timeout (env : Env) (l : Limits) (T : Int) (hT : l.timeout = some T)
    (script : List (Raised × Nat)) :
    ∀ (now : Int) (r : Rec), r.finished = false → (∀ s ∈ script, Failing env l s.1 ∧ 1 ≤ s.2) →
      script.length ≥ (T - (now - r.started)).toNat + 1 →
      ∃ last, (loopRun env l now r script).getLast? = some last ∧ last.recAfter.failure = true ∧
        last.recAfter.success = false := by
  induction script with
  | nil => intro now r _ _ hlen; simp at hlen
  | cons s rest ih =>
    intro now r hf hx hlen
    obtain ⟨x, dur⟩ := s
    simp only [loopRun, hf, Bool.false_eq_true, if_false]
    generalize hA : attemptAt env l (wakeTime r now) r x dur 0 = A
    have hAo : A.out = classify env l r (wakeTime r now) dur x := by rw [← hA]; rfl
    have hexc : A.out.exc ≠ .none := by
      rw [hAo]; exact failing_never_succeeds env l r _ dur x (hx (x, dur) List.mem_cons_self).1
    have hff := final_finished r A.merged A.out
    have hrec : A.recAfter = withOutcome r A.merged A.out := by rw [← hA]; rfl
    cases hfin : A.out.final with
    | true =>
      have hfa : A.recAfter.failure = true := by rw [hrec]; exact hff.2.2.2 ⟨hfin, hexc⟩
      have hsu : A.recAfter.success = false := by
        rw [hrec]
        cases hs : (withOutcome r A.merged A.out).success with
        | false => rfl
        | true => exact absurd (hff.2.1.1 hs).2 hexc
      rw [loopRun_finished _ _ _ _ _ (finished_of_failure hfa)]
      exact ⟨A, rfl, hfa, hsu⟩
    | false =>
      have hinv : A.out.invoked = true := by
        cases hi : A.out.invoked with
        | true => rfl
        | false =>
          rw [hAo] at hi
          have := ((limits_refuse env l r (wakeTime r now) dur x 0).2 hi).1
          rw [← hAo, hfin] at this; cases this
      have hp := (classify_invoked_iff env l r _ dur x).1 (hAo ▸ hinv)
      have hlt := timedOut_false_of l _ T hT ((precheck_none_iff l r _).1 hp).1
      simp only [Rec.runtime] at hlt
      have hnf : A.recAfter.finished = false := by rw [hrec, hff.1]; exact hfin
      have hst : A.recAfter.started = r.started := by rw [← hA]; rfl
      have hw := wakeTime_ge r now
      have hdur := (hx (x, dur) List.mem_cons_self).2
      have hci : (classify env l r (wakeTime r now) dur x).invoked = true := by rw [← hAo]; exact hinv
      have hm : A.merged = wakeTime r now + dur := by
        rw [← hA]; simp only [attemptAt, endTime_invoked hci]; omega
      obtain ⟨last, h1, h2, h3⟩ := ih A.merged A.recAfter hnf
        (fun s hs => hx s (List.mem_cons_of_mem _ hs))
        (by rw [hst, hm]; simp only [List.length_cons] at hlen; simp only at hdur; omega)
      refine ⟨last, ?_, h2, h3⟩
      rw [List.getLast?_cons, h1]; rfl

/-! ## Sub-handlers: the delay a parent asks for is its children's -/

/-- What `kopf.execute()` makes of the sub-handlers' records after their batch: the parent's function
    returns iff every sub-handler is finished; otherwise it is retried (`children_retry`: no look-ahead)
    with a delay that is the SMALLEST remaining delay of the unfinished children: no child is due before
    it, and at least one child is awake when it has passed (so the parent's retry is not idle). A
    sub-handler's own history is a `run`: its cycles are its parent's invocations (any `steps`), its
    record is read from the stored body, so every `run` theorem above is about sub-handlers too. -/
theorem children_delay_is_earliest (subs : List Rec) (now : Int) :
    (childrenRaised subs now = .ok ↔ ∀ r ∈ subs, r.finished = true) ∧
    (∀ x, childrenRaised subs now = x → x ≠ .ok → ∃ d, x = .childrenRetry (some d) ∧ 0 ≤ d ∧
      (∀ r ∈ subs, r.finished = false → d ≤ remaining r now) ∧
      (∃ r ∈ subs, r.finished = false ∧ remaining r now = d ∧ r.awakened (now + d) = true)) := by
  unfold childrenRaised
  cases hm : minList ((subs.filter (fun r => !r.finished)).map (fun r => remaining r now)) with
  | none =>
    dsimp only
    have hnil := (minList_none_iff _).1 hm
    simp only [List.map_eq_nil_iff, List.filter_eq_nil_iff] at hnil
    refine ⟨⟨fun _ r hr => (by simpa using hnil r hr), fun _ => rfl⟩, fun x hx hne => absurd hx.symm hne⟩
  | some d =>
    dsimp only
    obtain ⟨hmem, hmin⟩ := minList_spec _ d hm
    obtain ⟨r0, hr0, hd0⟩ := List.mem_map.1 hmem
    obtain ⟨hr0s, hr0f⟩ := List.mem_filter.1 hr0
    have hr0f' : r0.finished = false := by simpa using hr0f
    have hrem_nonneg : ∀ r : Rec, 0 ≤ remaining r now := by
      intro r; unfold remaining; split
      · split <;> omega
      · omega
    refine ⟨⟨fun h => (by cases h), fun h => (by rw [h r0 hr0s] at hr0f'; cases hr0f')⟩, ?_⟩
    intro x hx _
    refine ⟨d, hx.symm, by rw [← hd0]; exact hrem_nonneg r0, ?_, ⟨r0, hr0s, hr0f', hd0, ?_⟩⟩
    · intro r hr hf
      exact hmin _ (List.mem_map.2 ⟨r, List.mem_filter.2 ⟨hr, by simpa using hf⟩, rfl⟩)
    · apply awakened_of hr0f'
      intro D hD
      rw [← hd0]; simp only [remaining, hD]
      split <;> omega

/-- The other half of the guard of `timeout_failed_for_good_partial`, alone (no pending children): a
    batch that merges 6 ticks after this handler's call ended (`lag = 6`; another handler of the same
    cycle is still running): look-ahead at the call's end says 0 + 5 < 10, `delayed` becomes 6 + 5 = 11;
    a cycle at runtime 10 = T finds the handler unfinished and not due. -/
theorem timeout_sleep_past_lag_witness :
    ∃ (env : Env) (l : Limits) (T : Int) (steps : List Step) (t : Int),
      l.timeout = some T ∧ (∀ s ∈ steps, ∀ dt w x du lg, s = .cycle dt w x du lg → ∀ d, x ≠ .childrenRetry d) ∧
      Ev.idle t false ∈ run env l 0 (fromScratch 0) steps ∧ t - 0 ≥ T := by
  refine ⟨⟨.temporary, 60⟩, ⟨none, some 10, none, none⟩, 10,
    [.cycle 0 0 (.temporary (some 5)) 0 6, .cycle 4 0 .ok 0 0], 10, rfl, ?_, by decide, by decide⟩
  intro s hs dt w x du lg he d
  simp only [List.mem_cons, List.mem_nil_iff, or_false] at hs
  rcases hs with rfl | rfl <;> cases he <;> simp

/-! ## Non-vacuity: the hypotheses are met, the branches are taken -/

def envD : Env := ⟨.temporary, 61440⟩

-- `precheck = none` on a fresh record within limits; each kind of verdict occurs
example : precheck ⟨none, some 100, some 3, none⟩ (fromScratch 0) 5 = none := by decide
example : classify envD ⟨none, some 100, some 3, none⟩ (fromScratch 0) 5 0 (.temporary (some 7)) = retryWith (some 7) := by decide
example : classify envD ⟨none, some 100, some 3, none⟩ (fromScratch 0) 5 0 (.temporary (some 95)) = finalWith .timeout := by decide
example : classify envD ⟨none, none, some 1, none⟩ (fromScratch 0) 5 0 (.temporary (some 7)) = finalWith .retries := by decide
example : classify envD ⟨none, none, none, some 9⟩ (fromScratch 0) 5 0 .arbitrary = retryWith (some 9) := by decide
example : classify envD ⟨none, none, none, none⟩ (fromScratch 0) 5 0 .arbitrary = retryWith (some 61440) := by decide
example : Limits.mode envD ⟨some .ignored, none, none, none⟩ = .ignored := by decide
example : Limits.mode ⟨.ignored, 0⟩ ⟨none, none, none, none⟩ = .ignored := by decide
example : classify envD ⟨some .permanent, none, none, none⟩ (fromScratch 0) 5 0 .arbitrary = finalWith .raised := by decide
example : (classify envD ⟨none, some 5, none, none⟩ (fromScratch 0) 5 0 .ok).invoked = false := by decide
example : (classify envD ⟨none, none, some 0, none⟩ (fromScratch 0) 5 0 .ok).invoked = false := by decide

/-- a history with a restart in the middle of a sleep, an early wake-up (idle), three invocations
    with `retries = 3`, spacing by backoff then by the requested delay -/
def demoSteps : List Step :=
  [.cycle 0 0 .arbitrary 0 0, .cycle 16 0 .ok 0 0, .restart 100, .cycle 908 0 (.temporary (some 32)) 16 0,
   .cycle 32 0 .arbitrary 0 0, .cycle 5 0 .ok 0 0]

example : ((attempts (run envD ⟨none, none, some 3, some 1024⟩ 0 (fromScratch 0) demoSteps)).map
    (fun a => (a.time, a.retry, a.out.invoked, a.out.final))) =
    [(0, 0, true, false), (1024, 1, true, false), (1072, 2, true, true)] := by decide
example : (invocations (run envD ⟨none, none, some 3, some 1024⟩ 0 (fromScratch 0) demoSteps)).length = 3 := by decide
example : squash demoSteps = [.cycle 0 0 .arbitrary 0 0, .cycle 16 0 .ok 0 0, .cycle 1008 0 (.temporary (some 32)) 16 0,
   .cycle 32 0 .arbitrary 0 0, .cycle 5 0 .ok 0 0] := by decide
-- timeout_bound_partial / timeout_refuses: an invocation inside T, a refusal at T
example : ((attempts (run envD ⟨none, some 50, none, some 10⟩ 0 (fromScratch 0)
    [.cycle 0 0 .arbitrary 0 0, .cycle 10 0 .arbitrary 0 0, .cycle 40 0 .ok 0 0])).map
    (fun a => (a.time, a.out.invoked, a.out.exc))) = [(0, true, .raised), (10, true, .raised), (50, false, .timeout)] := by
  decide
-- `Step.plain` is met by ordinary single-handler cycles
example : ∀ s ∈ demoSteps, s.plain := by
  intro s hs
  simp only [demoSteps, List.mem_cons, List.mem_nil_iff, or_false] at hs
  rcases hs with rfl | rfl | rfl | rfl | rfl | rfl <;> simp [Step.plain]
-- the in-memory loop: retried after the backoff, then after the requested delay, then done
example : ((loopRun envD ⟨none, none, none, some 1024⟩ 0 (fromScratch 0)
    [(.arbitrary, 0), (.temporary (some 16), 16), (.ok, 0)]).map (fun a => (a.time, a.retry, a.out.final))) =
    [(0, 0, false), (1024, 1, false), (1056, 2, true)] := by decide

-- ignored mode, the verdict itself (hypotheses of `ignored_done`)
example : precheck ⟨some .ignored, none, some 3, none⟩ (fromScratch 0) 5 = none ∧
    classify envD ⟨some .ignored, none, some 3, none⟩ (fromScratch 0) 5 0 .arbitrary = finalWith .none := by decide
-- `timeout_failed_for_good_partial` is not vacuous: plain steps, timeout = 50, and a cycle at runtime
-- 60 ≥ T that finds the handler finished (it was failed for good at 50)
def plainSteps : List Step :=
  [.cycle 0 0 .arbitrary 0 0, .cycle 10 0 .arbitrary 0 0, .cycle 40 0 .ok 0 0, .cycle 10 0 .ok 0 0]
example : (∀ s ∈ plainSteps, s.plain) ∧
    Ev.idle 60 true ∈ run envD ⟨none, some 50, none, some 10⟩ 0 (fromScratch 0) plainSteps := by
  refine ⟨?_, by decide⟩
  intro s hs
  simp only [plainSteps, List.mem_cons, List.mem_nil_iff, or_false] at hs
  rcases hs with rfl | rfl | rfl | rfl <;> simp [Step.plain]
-- `loop_ends_failed_retries`: retries = 2, three failing elements: the loop ends failed after 2 calls
example : ((loopRun envD ⟨none, none, some 2, some 16⟩ 0 (fromScratch 0)
    [(.arbitrary, 0), (.temporary (some 16), 0), (.arbitrary, 0)]).map
    (fun a => (a.retry, a.out.invoked, a.recAfter.failure))) = [(0, true, false), (1, true, true)] := by decide
-- `children_delay_is_earliest`: two pending children (due in 7 and in 3) and a finished one
example : childrenRaised [⟨0, none, some 17, 1, false, false⟩, ⟨0, none, some 13, 2, false, false⟩,
    ⟨0, some 5, none, 1, true, false⟩] 10 = .childrenRetry (some 3) := by decide
example : childrenRaised [⟨0, some 5, none, 1, true, false⟩, ⟨0, some 6, none, 1, false, true⟩] 10 = .ok := by decide
-- `retried_as_event` / `due_is_invoked`: the second cycle of `demoSteps` is too early (idle), the
-- fourth is due and invoked with retry 1
example : ((run envD ⟨none, none, some 3, some 1024⟩ 0 (fromScratch 0) demoSteps).map
    (fun e => match e with | .att a => some (a.time, a.retry) | _ => none)) =
    [some (0, 0), none, none, some (1024, 1), some (1072, 2), none] := by decide
-- `retries_verdict_only_after_N_partial`: retries = 2, an idle cycle in between (a sibling's retry): the
-- verdict "retries" comes with the second invocation, retry numbers 0, 1
example : ((attempts (run envD ⟨none, none, some 2, some 64⟩ 0 (fromScratch 0)
    [.cycle 0 0 .arbitrary 0 0, .cycle 16 0 .ok 0 0, .cycle 48 0 .arbitrary 0 0])).map
    (fun a => (a.retry, a.out.invoked, a.out.exc))) = [(0, true, .raised), (1, true, .retries)] := by decide
-- the environment fold with nothing stale and nothing lost is `run` (hypothesis of the `_partial`s)
example : runEnv envD ⟨none, none, some 3, some 1024⟩ 0 [fromScratch 0] (demoSteps.map Step.lift) =
    run envD ⟨none, none, some 3, some 1024⟩ 0 (fromScratch 0) demoSteps := by decide

/-! ## Where the record lives: several storages on one object (`MultiProgressStorage`, the default
    `SmartProgressStorage`): the limits and the delay are enforced against the record the handler's last
    attempt produced whatever an older release / a previous configuration left in a lower-priority place -/

/-- "The first storage has precedence": the record of the first place that has one is returned whole;
    what the places after it hold does not matter. -/
theorem multi_fetch_first (pre : List (Option Stored)) (s : Stored) (rest : List (Option Stored))
    (h : ∀ p ∈ pre, p = none) : multiFetch (pre ++ some s :: rest) = some s := by
  induction pre with
  | nil => rfl
  | cons p pre ih =>
    have hp : p = none := h p (List.mem_cons_self ..)
    subst hp
    simp only [List.cons_append, multiFetch]
    exact ih (fun q hq => h q (List.mem_cons_of_mem _ hq))

/-- Nothing anywhere: no record (the handler starts from scratch). -/
theorem multi_fetch_none (ps : List (Option Stored)) (h : ∀ p ∈ ps, p = none) : multiFetch ps = none := by
  induction ps with
  | nil => rfl
  | cons p ps ih =>
    have hp : p = none := h p (List.mem_cons_self ..)
    subst hp
    simp only [multiFetch]
    exact ih (fun q hq => h q (List.mem_cons_of_mem _ hq))

/-- What a cycle stored is what the next cycle reads, when the first place is written to (annotations in
    the default storage; any `MultiProgressStorage` of writing storages) — whatever the other places hold. -/
theorem store_then_fetch (s : Stored) (p : Option Stored) (rest : List (Bool × Option Stored)) :
    multiFetch (contents (multiStore s ((true, p) :: rest))) = some s := by
  simp [multiStore, contents, multiFetch]

/-- Record continuity across storages: with the record in the first (written) place, the whole history
    read through `multiFetch` is the history `run` of the plain model — for ALL contents of the lower-priority
    places (stale leftovers included), all steps and restarts. Every `_partial` theorem above
    (`retries_bound_partial`, `delay_respected_partial`, `timeout_bound_partial`, …) therefore holds for it. -/
theorem places_run_is_run (env : Env) (l : Limits) (steps : List Step) :
    ∀ (now : Int) (r : Rec) (rest : List (Bool × Option Stored)),
      runPlaces multiFetch env l now ((true, some (toStorage r)) :: rest) steps = run env l now r steps := by
  induction steps with
  | nil => intro now r rest; rfl
  | cons s tl ih =>
    intro now r rest
    cases s with
    | restart dn =>
      simp only [runPlaces, run, roundtrip]
      rw [ih]
    | cycle dt wait x dur lag =>
      have hr : readPlaces multiFetch ((true, some (toStorage r)) :: rest) (now + dt) = r := by
        simp [readPlaces, contents, multiFetch, roundtrip]
      simp only [runPlaces, run, hr]
      split
      · simp only [multiStore, if_true]
        rw [ih]
      · rw [ih]

/-- The upgrade / reconfiguration in the middle of a retry series: the first place is still empty, the
    record is where the previous configuration (or release) wrote it. The series goes on from that record:
    it is read as a fallback, the first executed cycle writes the first place, and from then on the
    leftover is never consulted again. -/
theorem upgrade_run_is_run (env : Env) (l : Limits) (steps : List Step) :
    ∀ (now : Int) (r : Rec) (w : Bool) (rest : List (Bool × Option Stored)),
      runPlaces multiFetch env l now ((true, none) :: (w, some (toStorage r)) :: rest) steps = run env l now r steps := by
  induction steps with
  | nil => intro now r w rest; rfl
  | cons s tl ih =>
    intro now r w rest
    cases s with
    | restart dn =>
      simp only [runPlaces, run, roundtrip]
      rw [ih]
    | cycle dt wait x dur lag =>
      have hr : readPlaces multiFetch ((true, none) :: (w, some (toStorage r)) :: rest) (now + dt) = r := by
        simp [readPlaces, contents, multiFetch, roundtrip]
      simp only [runPlaces, run, hr]
      split
      · simp only [multiStore, if_true]
        rw [places_run_is_run]
      · rw [ih]

/-- at most N invocations across an upgrade in the middle of the series (instance of `retries_bound_partial`
    through `upgrade_run_is_run`) -/
theorem upgrade_retries_bound_partial (env : Env) (l : Limits) (n : Int) (hn : l.retries = some n)
    (now : Int) (r : Rec) (w : Bool) (rest : List (Bool × Option Stored)) (steps : List Step) :
    (invocations (runPlaces multiFetch env l now ((true, none) :: (w, some (toStorage r)) :: rest) steps)).length
      ≤ (n - r.retries).toNat := by
  rw [upgrade_run_is_run]
  exact retries_bound_partial env l n hn steps now r

/-- NEGATION for the variant that combines the records of all places (later places overriding): retries = 2,
    one attempt recorded by the previous configuration in the legacy place. As the code is, one more
    invocation and the handler has failed for good; with `mergedFetch` the stale leftover shadows every
    record written since: invoked in every cycle, always with retry 1, the delay of 64 ignored. -/
theorem merged_fetch_exceeds_retries_witness :
    ∃ (env : Env) (l : Limits) (r : Rec) (steps : List Step), l.retries = some 2 ∧
      ((invocations (runPlaces multiFetch env l 0 [(true, none), (false, some (toStorage r))] steps)).map
        (fun a => (a.time, a.retry))) = [(1, 1)] ∧
      ((invocations (runPlaces mergedFetch env l 0 [(true, none), (false, some (toStorage r))] steps)).map
        (fun a => (a.time, a.retry))) = [(1, 1), (2, 1), (3, 1), (4, 1)] :=
  ⟨⟨.temporary, 60⟩, ⟨none, none, some 2, none⟩, ⟨-100, none, some (-40), 1, false, false⟩,
    [.cycle 1 0 (.temporary (some 64)) 0 0, .cycle 1 0 (.temporary (some 64)) 0 0,
     .cycle 1 0 (.temporary (some 64)) 0 0, .cycle 1 0 (.temporary (some 64)) 0 0], rfl, by decide, by decide⟩

/-- … and the delay: no limits, the handler asked for 64; with `mergedFetch` the next cycle, 1 tick later,
    invokes it again (the `delayed` of the leftover is long past). -/
theorem merged_fetch_breaks_delay_witness :
    ∃ (env : Env) (l : Limits) (r : Rec) (steps : List Step) (a b : Attempt),
      attempts (runPlaces mergedFetch env l 0 [(true, none), (false, some (toStorage r))] steps) = [a, b] ∧
      a.out.delay = some 64 ∧ a.out.final = false ∧ b.time = a.merged + 1 ∧ ¬ After a b ∧
      (attempts (runPlaces multiFetch env l 0 [(true, none), (false, some (toStorage r))] steps)).length = 1 := by
  refine ⟨⟨.temporary, 60⟩, ⟨none, none, none, none⟩, ⟨-100, none, some (-40), 1, false, false⟩,
    [.cycle 1 0 (.temporary (some 64)) 0 0, .cycle 1 0 (.temporary (some 64)) 0 0], _, _, rfl, by decide, by decide,
    by decide, ?_, by decide⟩
  intro h
  have := h.2.1 64 (by decide)
  revert this; decide

-- non-vacuity: a stale leftover in the second place (retries 1, long past `delayed`) under a fresh record
example : multiFetch [none, some (toStorage ⟨0, none, some 5, 1, false, false⟩)] =
    some (toStorage ⟨0, none, some 5, 1, false, false⟩) := by decide
example : runPlaces multiFetch envD ⟨none, none, some 3, some 1024⟩ 0
    [(true, some (toStorage (fromScratch 0))), (false, some (toStorage ⟨-100, none, some (-40), 1, false, false⟩))] demoSteps =
    run envD ⟨none, none, some 3, some 1024⟩ 0 (fromScratch 0) demoSteps := by decide

end Kopf.C11
