/-
  C09 — Daemon/timer lifecycle: one instance, started on match, stopped in stages. Property theorems only.

  The transition system (`Model/C09_Daemons.lean`) is the life of ONE (object, handler id) pair under
  any list of labels: processing cycles with arbitrary (matching, marked, paused, DELETED) inputs and
  arbitrary observations of the task, daemon-killer stages, the instance ending at any moment, time
  passing by any amounts. `Reach c s` = reachable from an initial state by ANY label list; there is no
  bound on the length, the times, the back-off/timeout values.
-/
import Kopf.Lemmas.C09_Timed
import Kopf.Lemmas.C09_Timer
import Kopf.Lemmas.C09_Escort
import Kopf.Lemmas.C09_Inventory
namespace Kopf.C09

def cfgEx0 : Cfg := { backoff := some 64, timeout := some 128, polling := 3840 }
def evEx0 : CycIn := { matching := true, marked := false, paused := false, deleted := false, ex1 := Ex.never, ex2 := Ex.never }

/-! ## at most one instance -/

/-- At any time at most one runner task of this id is alive, and it is alive exactly while the id is
    in `running_daemons`. -/
theorem at_most_one (c : Cfg) (s : St) (h : Reach c s) :
    s.live ≤ 1 ∧ (s.live = 1 ↔ s.run.isSome = true) := by
  have hl := (reach_inv h).live
  cases hr : s.run <;> simp [hr] at hl <;> simp [hl]

/-- An instance is created only in a step that starts with the id absent from the running map and no
    runner alive: a respawn happens strictly after the previous instance has ended. -/
theorem spawn_only_when_none (c : Cfg) (s s' : St) (l : Label) (h : Reach c s)
    (hs : step c s l = some s') (hne : s'.spawns ≠ s.spawns) :
    s.run = none ∧ s.live = 0 ∧ s'.spawns = s.spawns + 1 ∧
    ∃ inp, l = .cycle inp ∧ inp.marked = false ∧ inp.matching = true ∧ s.forever = false ∧
      blockedIn c inp s = false := by
  have hinv := reach_inv h
  have hsp := step_spawns hinv l hs
  cases l with
  | cycle inp =>
    simp only at hsp
    by_cases hc : (!inp.marked && inp.matching && !s.forever && s.run.isNone && !blockedIn c inp s) = true
    · simp only [hc, if_true] at hsp
      simp only [Bool.and_eq_true, Bool.not_eq_true', Option.isNone_iff_eq_none] at hc
      obtain ⟨⟨⟨⟨hm, hma⟩, hf⟩, hn⟩, hnb⟩ := hc
      have hl := hinv.live
      simp [hn] at hl
      exact ⟨hn, hl, hsp, inp, rfl, hm, hma, hf, hnb⟩
    · simp only [hc] at hsp
      exact absurd (by simpa using hsp) hne
  | tick d => exact absurd (by simpa using hsp) hne
  | exit => exact absurd (by simpa using hsp) hne
  | kBegin r => exact absurd (by simpa using hsp) hne
  | kSignal st => exact absurd (by simpa using hsp) hne
  | kCancel st => exact absurd (by simpa using hsp) hne
  | kAbandon st => exact absurd (by simpa using hsp) hne
  | pause => exact absurd (by simpa using hsp) hne
  | resume => exact absurd (by simpa using hsp) hne
  | kFinal => exact absurd (by simpa using hsp) hne
  | failForGood => exact absurd (by simpa using hsp) hne
  | exitBegin => exact absurd (by simpa using hsp) hne

/-! ## started when the object appears / starts matching -/

/-- A cycle for which `spawn_daemons` does not return at once (see `blockedIn`), on an unmarked object whose
    body matches, for a handler that has not exited on its own and has no instance, creates one. -/
theorem started_unless_blocked (c : Cfg) (s : St) (inp : CycIn) (h : Reach c s) (hk : s.known = true)
    (hm : inp.marked = false) (hmatch : inp.matching = true) (hf : s.forever = false) (hn : s.run = none)
    (hnb : blockedIn c inp s = false) :
    ∃ s', step c s (.cycle inp) = some s' ∧ s'.spawns = s.spawns + 1 := by
  refine ⟨(cycle c inp s).1, by simp [step, hk], ?_⟩
  have := (cycle_spec (reach_inv h) inp).2.2.2.2.1
  simpa [hm, hmatch, hf, hn, hnb] using this

/-- A cycle on a live (unmarked, not DELETED) object whose body matches, while the operator is not exiting,
    for a handler that has not exited on its own and has no instance, creates one. -/
theorem started_on_match (c : Cfg) (s : St) (inp : CycIn) (h : Reach c s) (hk : s.known = true)
    (hx : s.exitAt = none) (hdel : inp.deleted = false)
    (hm : inp.marked = false) (hmatch : inp.matching = true) (hf : s.forever = false) (hn : s.run = none) :
    ∃ s', step c s (.cycle inp) = some s' ∧ s'.spawns = s.spawns + 1 := by
  refine started_unless_blocked c s inp h hk hm hmatch hf hn ?_
  have hg : s.goneAt = none := by
    cases hg : s.goneAt with
    | none => rfl
    | some g => have := (reach_inv h).goneKnown (by rw [hg]; rfl); rw [hk] at this; cases this
  simp [blockedIn, hx, hdel, hg]

/-! ## an instance that exits on its own is not restarted -/

/-- The runner's `finally` with an unset stopper puts the id into `forever_stopped`. -/
theorem self_exit_is_remembered (c : Cfg) (s s' : St) (i : Inst) (hi : s.run = some i) (hown : i.reasons = [])
    (hs : step c s .exit = some s') : s'.forever = true ∧ s'.run = none := by
  simp only [step, hi, Option.some.injEq] at hs
  subst hs
  simp [endInst, hown]

/-- Once the id is in `forever_stopped`, no label list whatsoever creates an instance again; and when
    nothing runs (as after an own exit), nothing ever runs again. -/
theorem no_restart_after_self_exit (c : Cfg) (s s' : St) (ls : List Label) (h : Reach c s)
    (hf : s.forever = true) (hr : runs c s ls = some s') :
    s'.forever = true ∧ s'.spawns = s.spawns ∧ (s.run = none → s'.run = none ∧ s'.live = 0) :=
  runs_forever ls (reach_inv h) hf hr

/-! ## a timer that has failed for good is not started again either (since a6c10de)

  `_timer` puts its id into `forever_stopped` as soon as the series is done with a failure, while its
  task keeps running (it is not invoked again: af4d77a). The next processing cycle of the object then
  no longer selects the handler: the running task is stopped as a filter mismatch, and nothing — a filter
  mismatch and re-match, a pause and resume — ever spawns it again. -/

/-- the final failure is remembered at once, with the task still there -/
theorem final_failure_is_remembered (c : Cfg) (s s' : St) (hs : step c s .failForGood = some s') :
    s'.forever = true ∧ s'.run = s.run ∧ s.run.isSome = true := by
  obtain ⟨h1, h2⟩ := step_failForGood hs
  subst h1
  exact ⟨rfl, rfl, h2⟩

/-- after the final failure no label list creates an instance again, and the task that is still there is
    asked to stop (as not matching any more) by the very next processing cycle of a live object -/
theorem no_respawn_after_final_failure (c : Cfg) (s s1 s' : St) (ls : List Label) (h : Reach c s)
    (hs : step c s .failForGood = some s1) (hr : runs c s1 ls = some s') :
    s'.forever = true ∧ s'.spawns = s.spawns ∧
    (∀ inp s2, step c s1 (.cycle inp) = some s2 → inp.marked = false →
      ∀ i', s2.run = some i' → Reason.mismatch ∈ i'.reasons) := by
  obtain ⟨hf1, _, _⟩ := final_failure_is_remembered c s s1 hs
  have h1 := reach_step h _ hs
  obtain ⟨a, b, _⟩ := runs_forever ls (reach_inv h1) hf1 hr
  refine ⟨a, ?_, ?_⟩
  · rw [b, step_spawns (reach_inv h) _ hs]; simp
  · intro inp s2 hs2 hm i' hi'
    obtain ⟨e, _⟩ := step_cycle hs2
    subst e
    exact (cycle_spec (reach_inv h1) inp).2.2.2.2.2.2.2.1 hm (by simp [hf1]) i' hi'

/-- a timer fails for good at tick 40; the label edit that un-matches and re-matches it, a pause and a resume
    later: stopped as a mismatch at the next event, ended, never spawned again -/
example : ∃ s, runs { backoff := none, timeout := none, polling := 3840 } (St.init 0)
      [.cycle evEx0, .tick 40, .failForGood, .tick 10, .cycle evEx0, .exit, .tick 5, .cycle { evEx0 with matching := false },
       .cycle evEx0, .tick 14, .pause, .tick 64, .resume, .cycle evEx0] = some s ∧
    s.forever = true ∧ s.spawns = 1 ∧ s.run = none :=
  ⟨_, rfl, by decide, by decide, by decide⟩

/-! ## staged termination -/

/-- For the running instance: the task was cancelled only when the stop flag was at least `backoff`
    old, abandoned only when it was at least `backoff + timeout` old, and whatever else is in the
    stopper, a primary reason (the request to stop) is there and was set first (`when` is its time). -/
theorem staged (c : Cfg) (s : St) (i : Inst) (h : Reach c s) (hi : s.run = some i) :
    (∀ t, i.cancelAt = some t → ∃ w, i.when = some w ∧ w + c.b0 ≤ t ∧ t ≤ s.now) ∧
    (∀ t, i.abandonAt = some t → ∃ w, i.when = some w ∧ w + c.b0 + c.t0 ≤ t ∧ t ≤ s.now) ∧
    (Reason.cancelled ∈ i.reasons ↔ i.cancelAt.isSome = true) ∧
    (Reason.abandoned ∈ i.reasons ↔ i.abandonAt.isSome = true) ∧
    (i.reasons ≠ [] → (∃ p ∈ i.reasons, p.primary = true) ∧ ∃ w, i.when = some w ∧ w ≤ s.now) := by
  have hinv := (reach_inv h).inst i hi
  refine ⟨hinv.canc, hinv.aban, hinv.cancIff, hinv.abanIff, ?_⟩
  intro hne
  obtain ⟨w, hw⟩ := Option.isSome_iff_exists.mp (hinv.flagged hne)
  exact ⟨hinv.prim hne, w, hw, hinv.whenLe w hw⟩

/-- Stop reasons only grow; `when`, the cancellation and the abandonment are never taken back:
    across any step, the instance that is still there is the same one with a larger record. -/
theorem staged_monotone (c : Cfg) (s s' : St) (l : Label) (i i' : Inst) (h : Reach c s)
    (hs : step c s l = some s') (hi : s.run = some i) (hi' : s'.run = some i') :
    (∀ x ∈ i.reasons, x ∈ i'.reasons) ∧ (∀ w, i.when = some w → i'.when = some w) ∧
    (∀ t, i.cancelAt = some t → i'.cancelAt = some t) ∧ (∀ t, i.abandonAt = some t → i'.abandonAt = some t) := by
  have m := step_mono (reach_inv h) l hs hi hi'
  exact ⟨m.reasons, m.when, m.canc, m.aban⟩

/-! ## every reason to stop sets the flag -/

/-- marked for deletion / stops matching (or has exited on its own) / operator paused: whatever
    instance is still running after the cycle carries that reason; a background `stop_daemon` (the
    daemon killer's on pause or exit, the one for a gone object) sets its reason at once. -/
theorem stop_reasons (c : Cfg) (s s' : St) (h : Reach c s) :
    (∀ inp, step c s (.cycle inp) = some s' → inp.marked = true →
        ∀ i', s'.run = some i' → Reason.deleted ∈ i'.reasons) ∧
    (∀ inp, step c s (.cycle inp) = some s' → inp.marked = false → (inp.matching && !s.forever) = false →
        ∀ i', s'.run = some i' → Reason.mismatch ∈ i'.reasons) ∧
    (∀ inp, step c s (.cycle inp) = some s' → inp.marked = false → inp.paused = true →
        ∀ i', s'.run = some i' → Reason.pausing ∈ i'.reasons) ∧
    (∀ r, step c s (.kBegin r) = some s' →
        (r = .pausing ∨ r = .exiting ∨ r = .deleted) ∧ ∃ i', s'.run = some i' ∧ r ∈ i'.reasons) := by
  have hinv := reach_inv h
  refine ⟨?_, ?_, ?_, ?_⟩
  · intro inp hs hm
    simp only [step] at hs
    split at hs
    · cases hs; exact (cycle_spec hinv inp).2.2.2.2.2.2.1 hm
    · cases hs
  · intro inp hs hm hsel
    simp only [step] at hs
    split at hs
    · cases hs; exact (cycle_spec hinv inp).2.2.2.2.2.2.2.1 hm hsel
    · cases hs
  · intro inp hs hm hp
    simp only [step] at hs
    split at hs
    · cases hs; exact (cycle_spec hinv inp).2.2.2.2.2.2.2.2 hm hp
    · cases hs
  · intro r hs
    obtain ⟨i, _, hmb, h1⟩ := step_kBegin hs
    subst h1
    exact ⟨mayBegin_primary hmb, _, rfl, (mem_set (i := i) (r := r) (now := s.now)).mpr (Or.inr rfl)⟩

/-! ## when the operator pauses: the stages are gone through, whoever set the flag

  While paused, no processing cycle escalates (the streams are down: the touch a cycle schedules for
  its delays produces an event nobody receives). The killer repeats its sweep every `killerPeriod` and
  spawns `stop_daemon` for EVERY listed daemon — also for one whose OPERATOR_PAUSING was set by
  `pause_daemons` in a cycle (tie obligations `Tie.sweep_unconditional`, `Tie.killer_period_eq` + the
  "round" comparison of every observed sweep).

  The model is TIMED: asyncio fires due timers, so the clock (`tick`) cannot pass a round of the pausing
  loop that has not yet started `stop_daemon` for a daemon listed before it, nor a stage deadline of a
  running `stop_daemon` coroutine whose stage has not happened (`tickOk`, Model file). Everything else
  is chosen by the environment. The statements below are INVARIANTS of every reachable state: no
  hypothesis about the run. `firstDue p since` = the first round strictly after the instance was put
  into `running_daemons` (and not before the pause): the first sweep that surely lists it. -/

/-- a daemon listed since `t ≥ p` is reached by a round strictly later, within one period -/
theorem first_round_within_period (p t : Tick) (h : p ≤ t) :
    t < firstDue p t ∧ firstDue p t ≤ t + killerPeriod :=
  ⟨(firstDue_gt p t).1, firstDue_le p t h⟩

/-- WITH a `cancellation_timeout`: in every reachable state in which the operator is paused since `p`, the
    memory is known and an instance runs — whatever set its stop flag, `pause_daemons` or the killer —
    either its task HAS BEEN cancelled, no later than the due round + backoff, or the clock has not passed
    that moment yet. (With `since ≤ tf` for the time `tf` of the flag: no later than `tf + period + backoff`.) -/
theorem paused_daemon_is_cancelled (c : Cfg) (s : St) (i : Inst) (p : Tick) (h : Reach c s)
    (hb : 0 ≤ c.b0) (ht : 0 ≤ c.t0) (hto : c.timeout.isSome = true)
    (hp : s.paused = some p) (hk : s.known = true) (hd : s.killerDone = false) (hi : s.run = some i) :
    (∃ tc, i.cancelAt = some tc ∧ tc ≤ firstDue p i.since + c.b0) ∨
    (i.cancelAt = none ∧ s.now ≤ firstDue p i.since + c.b0) := by
  have t := reach_tinv hb ht h
  have hinv := (reach_inv h).inst i hi
  rcases t.rounds p i hp hk hd hi with hle | hin
  · cases hc : i.cancelAt with
    | none => right; exact ⟨rfl, by generalize c.b0 = bb at *; generalize firstDue p i.since = rr at *; tick_omega⟩
    | some tc =>
      left
      obtain ⟨_, _, _, h3⟩ := hinv.canc tc hc
      exact ⟨tc, rfl, by generalize c.b0 = bb at *; generalize firstDue p i.since = rr at *; tick_omega⟩
  · exact (t.stages i hi _ hin).1 hto

/-- For EVERY configuration — in particular the default `cancellation_timeout=None` — the same holds for the
    abandonment: it has happened by the due round + backoff + timeout (`timeout = None` counts as 0), or the
    clock has not passed that moment yet. -/
theorem paused_daemon_is_abandoned (c : Cfg) (s : St) (i : Inst) (p : Tick) (h : Reach c s)
    (hb : 0 ≤ c.b0) (ht : 0 ≤ c.t0)
    (hp : s.paused = some p) (hk : s.known = true) (hd : s.killerDone = false) (hi : s.run = some i) :
    (∃ ta, i.abandonAt = some ta ∧ ta ≤ firstDue p i.since + c.b0 + c.t0) ∨
    (i.abandonAt = none ∧ s.now ≤ firstDue p i.since + c.b0 + c.t0) := by
  have t := reach_tinv hb ht h
  have hinv := (reach_inv h).inst i hi
  rcases t.rounds p i hp hk hd hi with hle | hin
  · cases hc : i.abandonAt with
    | none =>
      right
      exact ⟨rfl, by generalize c.b0 = bb at *; generalize c.t0 = tt at *; generalize firstDue p i.since = rr at *; tick_omega⟩
    | some ta =>
      left
      obtain ⟨_, _, _, h3⟩ := hinv.aban ta hc
      exact ⟨ta, rfl, by generalize c.b0 = bb at *; generalize c.t0 = tt at *; generalize firstDue p i.since = rr at *; tick_omega⟩
  · exact (t.stages i hi _ hin).2

/-- What is NOT guaranteed with the default `cancellation_timeout=None`: the task is never cancelled by the
    stopping logic — on pause, exit, deletion or mismatch it only gets the stop flag (and is abandoned). -/
theorem never_cancelled_without_timeout (c : Cfg) (s : St) (i : Inst) (h : Reach c s) (hto : c.timeout = none)
    (hi : s.run = some i) : i.cancelAt = none ∧ Reason.cancelled ∉ i.reasons := by
  have hinv := (reach_inv h).inst i hi
  have hn : i.cancelAt = none := by
    cases hc : i.cancelAt with
    | none => rfl
    | some t => have := hinv.cancTo (by simp [hc]); simp [hto] at this
  exact ⟨hn, fun hm => by have := hinv.cancIff.mp hm; simp [hn] at this⟩

section PauseExamples

def cfgP : Cfg := { backoff := some 32, timeout := some 64, polling := 3840 }
def evP : CycIn := { matching := true, marked := false, paused := true, deleted := false, ex1 := Ex.never, ex2 := Ex.never }

/-- pause toggled at 65 (nothing runs yet); an event still processed at 70 spawns the daemon and `pause_daemons`
    flags it (not the killer). Listed since 70: due round 129. The killer sweeps it there, cancels at 161. -/
def sneakRun : List Label :=
  [.tick 65, .pause, .tick 5, .cycle evP, .tick 59, .kBegin .pausing, .kSignal 129, .tick 32, .kCancel 129, .tick 20]

example : ∃ s i, runs cfgP (St.init 0) sneakRun = some s ∧ s.run = some i ∧ s.paused = some 65 ∧ s.known = true ∧
    s.killerDone = false ∧ i.since = 70 ∧ firstDue 65 i.since = 129 ∧ i.when = some 70 ∧ i.cancelAt = some 161 ∧ s.now = 181 :=
  ⟨_, _, rfl, rfl, by decide, by decide, by decide, by decide, by decide, by decide, by decide, by decide⟩

/-- the urgency is real: the clock cannot pass the due round without the sweep, nor the backoff without the
    cancellation — and it can wait right up to them -/
example : runs cfgP (St.init 0) [.tick 65, .pause, .tick 5, .cycle evP, .tick 60] = none ∧
    (runs cfgP (St.init 0) [.tick 65, .pause, .tick 5, .cycle evP, .tick 59]).isSome = true ∧
    runs cfgP (St.init 0) [.tick 65, .pause, .tick 5, .cycle evP, .tick 59, .kBegin .pausing, .tick 33] = none ∧
    (runs cfgP (St.init 0) [.tick 65, .pause, .tick 5, .cycle evP, .tick 59, .kBegin .pausing, .tick 32]).isSome = true := by
  decide

/-- the default configuration (no backoff, no timeout): flagged at 70, swept at 129: abandoned at once, never cancelled -/
example : ∃ s i, runs { backoff := none, timeout := none, polling := 3840 } (St.init 0)
      [.tick 65, .pause, .tick 5, .cycle evP, .tick 59, .kBegin .pausing, .kAbandon 129, .tick 64] = some s ∧
    s.run = some i ∧ i.abandonAt = some 129 ∧ i.cancelAt = none ∧
    i.reasons = [.pausing, .abandoned] :=
  ⟨_, _, rfl, rfl, by decide, by decide, by decide⟩

/-- the killer sweeps only at its rounds, and not at all once it is gone -/
example : runs cfgP (St.init 0) [.cycle { evP with paused := false }, .tick 65, .pause, .kBegin .pausing, .tick 10, .kBegin .pausing] = none ∧
    runs cfgP (St.init 0) [.cycle { evP with paused := false }, .exitBegin, .kBegin .exiting, .kFinal, .kBegin .exiting] = none ∧
    -- …nor does it leave before its exit sweep has covered the daemon
    runs cfgP (St.init 0) [.cycle { evP with paused := false }, .exitBegin, .kFinal] = none ∧
    (runs cfgP (St.init 0) [.cycle { evP with paused := false }, .exitBegin, .kBegin .exiting, .kFinal]).isSome = true := by decide

end PauseExamples

/-! ## when the operator exits: nothing is spawned any more, everything listed is stopped (F13 repaired)

  The daemon killer's `finally:` first marks every memory (`mark_operator_exiting`, also the memories created
  later), then sweeps once: `stop_daemon(OPERATOR_EXITING)` for every listed daemon (label `exitBegin`, then
  `kBegin .exiting` in the same instant — the clock does not advance before the sweep has covered what it must:
  `tickOk`). `spawn_daemons` returns at once for a marked memory. Both are tied to the AST
  (`Tie.marks_exiting`) and compared on every observed cycle. -/

/-- once the operator is exiting (or the object is gone), NO label list creates an instance again, and if
    nothing runs, nothing ever runs again -/
theorem nothing_spawned_while_exiting (c : Cfg) (s s' : St) (ls : List Label) (h : Reach c s)
    (hm : c.marksExiting = true) (hx : s.exitAt.isSome = true) (hr : runs c s ls = some s') :
    s'.spawns = s.spawns ∧ (s.run = none → s'.run = none) :=
  (blocked_runs ls (reach_inv h) (Or.inl ⟨hm, hx⟩) hr).2

/-- In EVERY reachable state after the instant `x` at which the killer's exit sweep began (or once the killer
    is gone), whatever instance of a known memory is still running has been asked to stop with OPERATOR_EXITING
    by a `stop_daemon` started at `x`, and the stages of that coroutine have happened by their deadlines
    (cancelled by `x + backoff` if there is a timeout, abandoned by `x + backoff + timeout`) or the clock
    has not passed them yet. No hypothesis about the run. -/
theorem stopped_when_operator_exits (c : Cfg) (s : St) (i : Inst) (x : Tick) (h : Reach c s)
    (hb : 0 ≤ c.b0) (ht : 0 ≤ c.t0) (hm : c.marksExiting = true)
    (hx : s.exitAt = some x) (hk : s.known = true) (hi : s.run = some i) (hpast : x < s.now ∨ s.killerDone = true) :
    Reason.exiting ∈ i.reasons ∧ x ∈ i.kstarts ∧
    (c.timeout.isSome = true →
      (∃ tc, i.cancelAt = some tc ∧ tc ≤ x + c.b0) ∨ (i.cancelAt = none ∧ s.now ≤ x + c.b0)) ∧
    ((∃ ta, i.abandonAt = some ta ∧ ta ≤ x + c.b0 + c.t0) ∨ (i.abandonAt = none ∧ s.now ≤ x + c.b0 + c.t0)) := by
  have t := reach_tinv hb ht h
  have hmem : x ∈ i.kstarts ∧ Reason.exiting ∈ i.reasons := by
    rcases t.exit x i hx hi (by simp [St.exitDue, hk, hm]) with h1 | ⟨h1, h2⟩
    · exact h1
    · exfalso
      rcases hpast with hp | hp
      · rw [h1] at hp; exact absurd hp (Int.lt_irrefl _)
      · rw [h2] at hp; cases hp
  exact ⟨hmem.2, hmem.1, t.stages i hi x hmem.1⟩

/-- once the killer is gone, it starts no `stop_daemon` any more -/
theorem no_killer_after_final_sweep (c : Cfg) (s : St) (hd : s.killerDone = true) :
    step c s (.kBegin .pausing) = none ∧ step c s (.kBegin .exiting) = none := by
  constructor <;> (simp only [step]; cases s.run <;> simp [St.mayBegin, hd])

/-- HISTORICAL (finding F13, fixed by 1d3a667; `marksExiting = false`): the processing cycle was blind to the
    operator's exit, so it spawned also after the killer had gone — an instance nobody was left to stop. -/
theorem respawned_while_exiting (c : Cfg) (s : St) (inp : CycIn) (h : Reach c s) (hold : c.marksExiting = false)
    (hd : s.killerDone = true) (hk : s.known = true) (hdel : inp.deleted = false)
    (hm : inp.marked = false) (hmatch : inp.matching = true) (hf : s.forever = false)
    (hn : s.run = none) : ∃ s', step c s (.cycle inp) = some s' ∧ s'.spawns = s.spawns + 1 ∧ s'.killerDone = true := by
  have hg : s.goneAt = none := by
    cases hg : s.goneAt with
    | none => rfl
    | some g => have := (reach_inv h).goneKnown (by rw [hg]; rfl); rw [hk] at this; cases this
  obtain ⟨s', hs, hsp⟩ := started_unless_blocked c s inp h hk hm hmatch hf hn (by simp [blockedIn, hold, hdel, hg])
  refine ⟨s', hs, hsp, ?_⟩
  obtain ⟨h1, _⟩ := step_cycle hs
  subst h1
  rw [(cycle_frame (reach_inv h) inp).2.1]; exact hd

def exitRun : List Label :=
  [.cycle evEx0, .tick 100, .exitBegin, .kBegin .exiting, .exit, .kFinal, .tick 10, .cycle evEx0, .tick 5000]

/-- HISTORICAL witness of F13 (corpus/C09/F13.json is its regression): daemon running, exit sweep flags it
    (tick 100), it ends, the killer is gone; a queued event of the object is processed at 110: a new instance,
    never asked to stop, 5 000 ticks later still unasked -/
theorem exit_respawn_witness :
    ∃ s i, runs { cfgEx0 with marksExiting := false } (St.init 0) exitRun = some s ∧
      s.killerDone = true ∧ s.spawns = 2 ∧ s.live = 1 ∧ s.run = some i ∧ i.reasons = [] ∧ i.since = 110 := by
  exact ⟨_, _, rfl, by decide, by decide, by decide, rfl, by decide, by decide⟩

/-- the same labels in the current tree: the queued event spawns nothing -/
example : ∃ s, runs cfgEx0 (St.init 0) exitRun = some s ∧ s.spawns = 1 ∧ s.live = 0 ∧ s.run = none :=
  ⟨_, rfl, by decide, by decide, by decide⟩

/-- the hypotheses of `stopped_when_operator_exits` are met, and the urgency is real: after `exitBegin` the
    clock does not advance before the sweep has reached the daemon, nor past the backoff without cancelling -/
example : (∃ s i, runs cfgEx0 (St.init 0) [.cycle evEx0, .tick 100, .exitBegin, .kBegin .exiting, .tick 64, .kCancel 100, .tick 1] = some s ∧
      s.exitAt = some 100 ∧ s.known = true ∧ s.run = some i ∧ i.cancelAt = some 164) ∧
    runs cfgEx0 (St.init 0) [.cycle evEx0, .tick 100, .exitBegin, .tick 1] = none ∧
    runs cfgEx0 (St.init 0) [.cycle evEx0, .tick 100, .exitBegin, .kBegin .exiting, .tick 65] = none :=
  ⟨⟨_, _, rfl, by decide, by decide, rfl, by decide⟩, by decide, by decide⟩

/-! ## the exit mark reaches EVERY memory the operator knows — also those without any instance (seed C09g)

  `exitBegin` of the one-pair model marks the pair's memory whatever it holds. In the code that is a loop over the view
  `iter_all_daemon_memories` (Model/C09_Inventory.lean), shared with the killer's stopping loops — for which the
  memories without running daemons are of no interest (`filtered_view_same_for_stopping`). For the mark they are: a
  known object without an instance can still have an event in its worker's backlog. `viewAll` = the tree variant, tied
  to the AST (`Tie.views_every_memory`); the S tie compares every cycle after the sweep with `exiting := true`. -/

/-- with the full view the mark reaches every remembered memory, whatever it holds (idle or busy) -/
theorem exit_mark_covers_every_memory (inv : Inv.Inventory) (k : Inv.Key) (m : Inv.Mem)
    (h : Inv.get (Inv.markExiting true inv).items k = some m) : m.exiting = true :=
  (Inv.mark_all_marked inv).2 (k, m) (Inv.get_mem h)

/-- "nothing is spawned afterwards": after the mark (full view), whatever the workers and the runners still do, in any
    order and any number of times — events of known objects (idle or busy at the sweep), of objects never seen before,
    DELETED events, instances ending — no instance is created, and every memory handed to a further cycle is marked -/
theorem nothing_spawned_after_exit_mark (inv : Inv.Inventory) (os : List Inv.Op) :
    (Inv.runOps (Inv.markExiting true inv) os).spawns = inv.spawns ∧
    ∀ k, (Inv.recall (Inv.runOps (Inv.markExiting true inv) os) k).2.exiting = true := by
  obtain ⟨h1, h2⟩ := Inv.run_marked (Inv.mark_all_marked inv) os
  exact ⟨h2, fun k => (Inv.recall_marked h1 k).2.1⟩

/-- a memory without running daemons is in the view exactly when the view is the full one -/
theorem idle_memory_in_view_iff (viewAll e : Bool) : Inv.inView viewAll { running := 0, exiting := e } = viewAll := by
  cases viewAll <;> rfl

/-- why the filtered view looks harmless: the killer's stopping loops reach the same daemons through either view -/
theorem filtered_view_same_for_stopping (inv : Inv.Inventory) : Inv.reached false inv = Inv.reached true inv :=
  Inv.reached_list inv.items

def invEx : Inv.Inventory :=
  { items := [(1, { running := 1, exiting := false }), (2, { running := 0, exiting := false })], exitingLater := false, spawns := 1 }

/-- witness of seed C09g (`viewAll = false`; corpus/C09/exit-idle-never-matched.json): object 1 has a daemon, object 2 is
    known and idle; the mark skips 2; the daemon of 1 ends; the queued event of 2 (one handler matches now) is processed
    after the sweep: a second instance is created, in a memory that is not marked — and the killer is gone -/
theorem exit_mark_skips_idle_witness :
    (Inv.runOps (Inv.markExiting false invEx) [.ended 1, .cycle 2 1]).spawns = 2 ∧
    Inv.get (Inv.runOps (Inv.markExiting false invEx) [.ended 1, .cycle 2 1]).items 2 = some { running := 1, exiting := false } ∧
    ¬ Inv.Marked (Inv.markExiting false invEx) := by
  refine ⟨by decide, by decide, ?_⟩
  intro h
  have := h.2 (2, { running := 0, exiting := false }) (by decide)
  cases this

/-- the same history in the tree as it is: nothing is created; an object seen for the first time is refused too -/
example : (Inv.runOps (Inv.markExiting true invEx) [.ended 1, .cycle 2 1, .cycle 3 2]).spawns = 1 := by decide

/-- what the filtered view means for the one-pair model: for a pair whose memory is idle at the sweep the mark does not
    happen (`marksExiting` is effectively false), and the processing cycle after the killer has gone starts an instance
    nobody is left to stop (`no_killer_after_final_sweep`) -/
theorem idle_pair_respawns_under_filtered_view (c : Cfg) (s : St) (inp : CycIn) (h : Reach c s)
    (hv : c.marksExiting = (treeMarksExiting && Inv.inView false { running := 0, exiting := false }))
    (hd : s.killerDone = true) (hk : s.known = true) (hdel : inp.deleted = false)
    (hm : inp.marked = false) (hmatch : inp.matching = true) (hf : s.forever = false)
    (hn : s.run = none) : ∃ s', step c s (.cycle inp) = some s' ∧ s'.spawns = s.spawns + 1 ∧ s'.killerDone = true :=
  respawned_while_exiting c s inp h (by rw [hv]; rfl) hd hk hdel hm hmatch hf hn

/-! ## when the object disappears — also without the deletion mark (F10 repaired)

  A DELETED event whose body has no `deletionTimestamp` (deleted before the finalizer landed, or after the
  finalizer was removed by force) takes the `spawn_daemons` branch and the memory is forgotten: no cycle and
  no sweep of the killer reaches the daemons any more. Since 25da2b9 `process_resource_event` calls
  `stop_daemons_of_gone_object` right after `memories.forget`: the memory is marked `object_gone` (nothing is
  spawned for it) and a background `stop_daemon(RESOURCE_DELETED)` is started for every running daemon
  (label `kBegin .deleted`, in the instant of the event: `tickOk`). Tied to the AST (`Tie.stops_gone`). -/

/-- processing the DELETED event marks the object as gone at that instant, forgets the memory, spawns nothing -/
theorem gone_at_deleted_event (c : Cfg) (s s' : St) (inp : CycIn) (h : Reach c s) (hc : c.stopsGone = true)
    (hs : step c s (.cycle inp) = some s') (hd : inp.deleted = true) :
    s'.goneAt = some s.now ∧ s'.known = false ∧ s'.spawns = s.spawns := by
  obtain ⟨h1, _⟩ := step_cycle hs
  subst h1
  have spec := cycle_spec (reach_inv h) inp
  obtain ⟨_, _, _, _, _, fg⟩ := cycle_frame (reach_inv h) inp
  refine ⟨by rw [fg, hd]; rfl, by rw [spec.2.2.2.1, hd]; simp, ?_⟩
  rw [spec.2.2.2.2.1]
  simp [blockedIn, hc, hd]

/-- nothing is ever spawned for a gone object -/
theorem nothing_spawned_for_gone_object (c : Cfg) (s s' : St) (ls : List Label) (h : Reach c s)
    (hc : c.stopsGone = true) (hg : s.goneAt.isSome = true) (hr : runs c s ls = some s') :
    s'.spawns = s.spawns ∧ (s.run = none → s'.run = none) :=
  (blocked_runs ls (reach_inv h) (Or.inr ⟨hc, hg⟩) hr).2

/-- In EVERY reachable state after the instant `g` at which the object's DELETED event was processed — with
    or without the deletion mark — whatever instance is still running has been asked to stop with
    RESOURCE_DELETED by a `stop_daemon` started at `g`, and the stages of that coroutine have happened by
    their deadlines or the clock has not passed them yet. No hypothesis about the run. -/
theorem stopped_when_object_disappears (c : Cfg) (s : St) (i : Inst) (g : Tick) (h : Reach c s)
    (hb : 0 ≤ c.b0) (ht : 0 ≤ c.t0) (hc : c.stopsGone = true)
    (hg : s.goneAt = some g) (hi : s.run = some i) (hpast : g < s.now) :
    Reason.deleted ∈ i.reasons ∧ g ∈ i.kstarts ∧
    (c.timeout.isSome = true →
      (∃ tc, i.cancelAt = some tc ∧ tc ≤ g + c.b0) ∨ (i.cancelAt = none ∧ s.now ≤ g + c.b0)) ∧
    ((∃ ta, i.abandonAt = some ta ∧ ta ≤ g + c.b0 + c.t0) ∨ (i.abandonAt = none ∧ s.now ≤ g + c.b0 + c.t0)) := by
  have t := reach_tinv hb ht h
  have hmem : g ∈ i.kstarts ∧ Reason.deleted ∈ i.reasons := by
    rcases t.gone hc g i hg hi with h1 | h1
    · exact h1
    · exfalso; rw [h1] at hpast; exact absurd hpast (Int.lt_irrefl _)
  exact ⟨hmem.2, hmem.1, t.stages i hi g hmem.1⟩

/-- HISTORICAL (finding F10, fixed by 25da2b9): in the cycle of a DELETED event without the deletion mark on a
    matching object the running instance is not asked to stop and the memory leaves the inventory… -/
theorem gone_unmarked_not_stopped (c : Cfg) (s : St) (i : Inst) (inp : CycIn) (hf : s.forever = false)
    (hi : s.run = some i) (hclean : i.reasons = [] ∧ i.kstarts = [])
    (hd : inp.deleted = true) (hm : inp.marked = false) (hmatch : inp.matching = true) (hp : inp.paused = false) :
    (cycle c inp s).1.known = false ∧ (cycle c inp s).1.run = some i ∧ i.reasons = [] ∧
      Orphan (cycle c inp s).1 := by
  have hrun : (cycle c inp s).1.run = some i := by
    simp [cycle_unfold, forgotten, matchVisits, hd, hm, hmatch, hf, hi, hp, stopIf, escorted, St.flaggedMismatch, Inst.has, hclean.1]
  have hkn : (cycle c inp s).1.known = false := by
    simp [cycle_unfold, forgotten, matchVisits, hd, hm, hmatch, hf, hi, hp, stopIf, escorted, St.flaggedMismatch, Inst.has, hclean.1]
  refine ⟨hkn, hrun, hclean.1, hkn, ?_⟩
  intro k hk
  rw [hrun] at hk; cases hk; exact hclean

/-- …and without `stop_daemons_of_gone_object` (`stopsGone = false`) no label list ever set a stop reason from
    then on: the instance ran until it ended by itself. -/
theorem orphan_never_stopped (c : Cfg) (s s' : St) (ls : List Label) (hold : c.stopsGone = false) (hk : s.known = false)
    (hclean : ∀ i, s.run = some i → i.reasons = [] ∧ i.kstarts = [])
    (hr : runs c s ls = some s') : ∀ i', s'.run = some i' → i'.reasons = [] :=
  fun i' hi' => ((orphan_runs hold ls ⟨hk, hclean⟩ hr).2 i' hi').1

def goneEv : CycIn := { matching := true, marked := false, paused := false, deleted := false, ex1 := Ex.never, ex2 := Ex.never }

/-- HISTORICAL witness of F10 (corpus/C09/F10.json is its regression): created, spawned, force-deleted at
    tick 320, still unasked 10 000 ticks later -/
theorem gone_unmarked_witness :
    ∃ s, runs { cfgEx0 with stopsGone := false } (St.init 0)
        [.cycle goneEv, .tick 320, .cycle { goneEv with deleted := true }, .tick 10000] = some s ∧
      s.known = false ∧ s.live = 1 ∧ s.run = some (Inst.fresh 0) := by
  refine ⟨_, rfl, ?_, ?_, ?_⟩ <;> decide

/-- the same history in the current tree: the clock does not advance past the DELETED event before
    `stop_daemon(deleted)` has started; then flag at 320, cancelled at 384 — and the hypotheses of
    `stopped_when_object_disappears` are met -/
example : runs cfgEx0 (St.init 0) [.cycle goneEv, .tick 320, .cycle { goneEv with deleted := true }, .tick 1] = none ∧
    (∃ s i, runs cfgEx0 (St.init 0) [.cycle goneEv, .tick 320, .cycle { goneEv with deleted := true }, .kBegin .deleted,
        .kSignal 320, .tick 64, .kCancel 320, .tick 10] = some s ∧ s.goneAt = some 320 ∧ s.run = some i ∧
      i.reasons = [.deleted, .signalled, .cancelled] ∧ i.cancelAt = some 384 ∧ s.now = 394) ∧
    runs cfgEx0 (St.init 0) [.cycle goneEv, .tick 320, .cycle { goneEv with deleted := true }, .kBegin .deleted, .tick 65] = none :=
  ⟨by decide, ⟨_, _, rfl, by decide, rfl, by decide, by decide, by decide⟩, by decide⟩

/-! ## after a filter mismatch: escorted to the end whatever the object does, then replaced (F14 repaired, F15 bounded)

  The staged termination after a filter mismatch lives in `match_daemons`. Since /repo ef26531 (tree variant
  `escorts`, tied to the AST: `Tie.spawn_act_eq`, `Tie.match_visits_eq`, `Tie.revisit_now_eq`, and compared on every observed cycle) it visits the daemons whose
  handler is not selected in the current cycle AND the daemons that carry FILTERS_MISMATCH: the stop flag cannot be
  taken back, so an instance once asked to stop for a mismatch gets one visit of `stop_daemons(FILTERS_MISMATCH)` in
  EVERY cycle of the unmarked object — matching again or not — until it has ended; `spawn_daemons` answers a selected
  handler whose previous instance is still stopping (after a mismatch or a pause) with a re-check delay
  (`cancellation_polling`), and `match_daemons` with delay 0 when the instance has ended inside its visit.
  What links a returned delay to the next cycle (sleep, touch-patch, event) is outside this model: the oracle's
  clauses O14/O15 judge it on every simulated history. -/

/-- ESCORTED WHATEVER THE OBJECT DOES. For every state with a running instance that carries FILTERS_MISMATCH (in whatever
    stage, whatever else it carries), every cycle of an unmarked object (paused or not, DELETED or not): the resulting
    state is THE SAME whether the body matches again or not, and every delay the cycle returns for the still
    mismatching object is returned for the matching one as well. -/
theorem escorted_whatever_matching (c : Cfg) (s : St) (i : Inst) (inp : CycIn) (he : c.escorts = true)
    (hi : s.run = some i) (hmm : Reason.mismatch ∈ i.reasons) (hmk : inp.marked = false) :
    (cycle c inp s).1 = (cycle c { inp with matching := false } s).1 ∧
    ∀ d ∈ (cycle c { inp with matching := false } s).2, d ∈ (cycle c inp s).2 := by
  rw [cycle_flagged inp he hi hmm hmk, cycle_flagged { inp with matching := false } he hi hmm hmk]
  have hf : forgotten { inp with matching := false } s = forgotten inp s := rfl
  simp only [hf, true_and]
  intro d hd
  simp only [Bool.false_and, Bool.false_eq_true, if_false, false_and, List.nil_append, List.append_nil, List.mem_append] at hd
  simp only [List.mem_append]
  rcases hd with hd | hd
  · exact Or.inl (Or.inl (Or.inr hd))
  · exact Or.inr hd

/-- THE STAGES, VISIT BY VISIT, WHATEVER `inp.matching`. A cycle of an unmarked object at flag age `a = now - when` of an
    instance that carries FILTERS_MISMATCH leaves it ended, or:
    * `a < backoff`: signalled, and the cycle returns the rest of the backoff;
    * backoff over, `a < backoff + timeout`: CANCELLED (`task.cancel()` called), and the cycle returns the rest of the timeout;
    * `backoff + timeout ≤ a`: ABANDONED;
    * no `cancellation_timeout`, backoff over: the cycle returns `cancellation_polling`.
    Each returned delay is the exact time to the next stage: the object stays on the schedule until the instance has
    ended or is abandoned. -/
theorem mismatch_stages_visited (c : Cfg) (s : St) (i : Inst) (inp : CycIn) (w : Tick) (h : Reach c s) (he : c.escorts = true)
    (hi : s.run = some i) (hmm : Reason.mismatch ∈ i.reasons) (hw : i.when = some w) (hmk : inp.marked = false) :
    (∀ b, c.backoff = some b → s.now - w < b →
      (cycle c inp s).1.run = none ∨
      ∃ i', (cycle c inp s).1.run = some i' ∧ Reason.signalled ∈ i'.reasons ∧ (b - (s.now - w)) ∈ (cycle c inp s).2) ∧
    (∀ t, c.timeout = some t → (∀ b, c.backoff = some b → b ≤ s.now - w) → s.now - w < t + c.b0 →
      (cycle c inp s).1.run = none ∨
      ∃ i', (cycle c inp s).1.run = some i' ∧ Reason.cancelled ∈ i'.reasons ∧ i'.cancelAt.isSome = true ∧
        (t + c.b0 - (s.now - w)) ∈ (cycle c inp s).2) ∧
    (∀ t, c.timeout = some t → (∀ b, c.backoff = some b → b ≤ s.now - w) → t + c.b0 ≤ s.now - w →
      (cycle c inp s).1.run = none ∨
      ∃ i', (cycle c inp s).1.run = some i' ∧ Reason.abandoned ∈ i'.reasons ∧ i'.abandonAt.isSome = true) ∧
    (c.timeout = none → (∀ b, c.backoff = some b → b ≤ s.now - w) →
      (cycle c inp s).1.run = none ∨ ((cycle c inp s).1.run.isSome = true ∧ c.polling ∈ (cycle c inp s).2)) := by
  have hinv := reach_inv h
  have hage : age i s.now = s.now - w := by simp [age, hw]
  have hv := visit_spec (hinv.inst i hi) .mismatch inp.ex1 hmm
  obtain ⟨gone, alive⟩ := cycle_escort_spec hinv inp he hi hmm hmk
  generalize stopOne c s.now .mismatch i inp.ex1 = out at hv gone alive
  refine ⟨?_, ?_, ?_, ?_⟩
  · intro b hb hlt
    cases hv with
    | gone j => exact Or.inl (gone j rfl).1
    | signalled i' b' hb' _ hs m =>
      rw [hb] at hb'; cases hb'
      obtain ⟨hrun, hd⟩ := alive _ _ rfl
      rcases hrun with hn | ⟨i'', hr, m2⟩
      · exact Or.inl hn
      · exact Or.inr ⟨i'', hr, m2.reasons _ hs, hage ▸ hd _ rfl⟩
    | cancelled i' t ht hge _ _ _ _ => have := hge b hb; rw [hage] at this; exact absurd this (by tick_omega)
    | abandoned i' t ht hgb _ _ _ _ => have := hgb b hb; rw [hage] at this; exact absurd this (by tick_omega)
    | polled hto hge => have := hge b hb; rw [hage] at this; exact absurd this (by tick_omega)
  · intro t ht hge hlt
    cases hv with
    | gone j => exact Or.inl (gone j rfl).1
    | signalled i' b hb hlt' _ _ => rw [hage] at hlt'; exact absurd (hge b hb) (by tick_omega)
    | cancelled i' t' ht' _ _ hs hc m =>
      rw [ht] at ht'; cases ht'
      obtain ⟨hrun, hd⟩ := alive _ _ rfl
      rcases hrun with hn | ⟨i'', hr, m2⟩
      · exact Or.inl hn
      · refine Or.inr ⟨i'', hr, m2.reasons _ hs, ?_, hage ▸ hd _ rfl⟩
        obtain ⟨tc, htc⟩ := Option.isSome_iff_exists.mp hc
        rw [m2.canc tc htc]; rfl
    | abandoned i' t' ht' _ hge' _ _ _ => rw [ht] at ht'; cases ht'; rw [hage] at hge'; exact absurd hge' (by tick_omega)
    | polled hto _ => rw [hto] at ht; cases ht
  · intro t ht hge hle
    cases hv with
    | gone j => exact Or.inl (gone j rfl).1
    | signalled i' b hb hlt' _ _ => rw [hage] at hlt'; exact absurd (hge b hb) (by tick_omega)
    | cancelled i' t' ht' _ hlt' _ _ _ => rw [ht] at ht'; cases ht'; rw [hage] at hlt'; exact absurd hle (by tick_omega)
    | abandoned i' t' ht' _ _ hs ha m =>
      obtain ⟨hrun, _⟩ := alive _ _ rfl
      rcases hrun with hn | ⟨i'', hr, m2⟩
      · exact Or.inl hn
      · refine Or.inr ⟨i'', hr, m2.reasons _ hs, ?_⟩
        obtain ⟨ta, hta⟩ := Option.isSome_iff_exists.mp ha
        rw [m2.aban ta hta]; rfl
    | polled hto _ => rw [hto] at ht; cases ht
  · intro hto hge
    cases hv with
    | gone j => exact Or.inl (gone j rfl).1
    | signalled i' b hb hlt' _ _ => rw [hage] at hlt'; exact absurd (hge b hb) (by tick_omega)
    | cancelled i' t' ht' _ _ _ _ _ => rw [hto] at ht'; cases ht'
    | abandoned i' t' ht' _ _ _ _ _ => rw [hto] at ht'; cases ht'
    | polled _ _ =>
      obtain ⟨hrun, hd⟩ := alive _ _ rfl
      rcases hrun with hn | ⟨i'', hr, _⟩
      · exact Or.inl hn
      · exact Or.inr ⟨by rw [hr]; rfl, hd _ rfl⟩

/-- THE FLAG IS NEVER LOST, WHATEVER HAPPENS IN BETWEEN. From any reachable state with a running instance, after ANY label
    list (re-matches, mismatches, pauses, resumes, the killer's stages, time) during which nothing was spawned, what runs is
    that same instance, with every reason it carried and the time of its stop flag unchanged. So an instance once flagged
    for a mismatch at `w` meets the hypotheses of `mismatch_stages_visited` in every later cycle: each one visits it at age
    `now - w`, whether the object matches by then or not. -/
theorem mismatch_flag_is_kept (c : Cfg) (s s' : St) (i i' : Inst) (ls : List Label) (h : Reach c s) (hi : s.run = some i)
    (hr : runs c s ls = some s') (hsame : s'.spawns = s.spawns) (hi' : s'.run = some i') :
    (∀ x ∈ i.reasons, x ∈ i'.reasons) ∧ (∀ w, i.when = some w → i'.when = some w) ∧ i'.since = i.since ∧
    (∀ t, i.cancelAt = some t → i'.cancelAt = some t) ∧ (∀ t, i.abandonAt = some t → i'.abandonAt = some t) := by
  have m := runs_same_instance ls (reach_inv h) hr hsame hi hi'
  exact ⟨m.reasons, m.when, m.since, m.canc, m.aban⟩

/-- TAKEN THROUGH THE STAGES WHATEVER THE LATER HISTORY OF THE OBJECT. An instance flagged for a mismatch at `w`; any label
    list later, still the same instance: a cycle of the (unmarked) object then — matching again or not — leaves it ended, or
    CANCELLED if the backoff is over and there is a timeout, ABANDONED if backoff + timeout are over. -/
theorem escorted_to_the_end (c : Cfg) (s s' : St) (i i' : Inst) (ls : List Label) (inp : CycIn) (w t : Tick) (h : Reach c s)
    (he : c.escorts = true) (hi : s.run = some i) (hmm : Reason.mismatch ∈ i.reasons) (hw : i.when = some w)
    (hr : runs c s ls = some s') (hsame : s'.spawns = s.spawns) (hi' : s'.run = some i')
    (hmk : inp.marked = false) (hto : c.timeout = some t) (hbo : ∀ b, c.backoff = some b → b ≤ s'.now - w) :
    (cycle c inp s').1.run = none ∨
    ∃ j, (cycle c inp s').1.run = some j ∧ Reason.mismatch ∈ j.reasons ∧
      (j.cancelAt.isSome = true ∨ j.abandonAt.isSome = true) ∧ (t + c.b0 ≤ s'.now - w → j.abandonAt.isSome = true) := by
  obtain ⟨hre, hwh, _, _, _⟩ := mismatch_flag_is_kept c s s' i i' ls h hi hr hsame hi'
  obtain ⟨t0, ls0, hr0⟩ := h
  have h' : Reach c s' := ⟨t0, ls0 ++ ls, by rw [runs_append, hr0]; exact hr⟩
  obtain ⟨_, hc, ha, _⟩ := mismatch_stages_visited c s' i' inp w h' he hi' (hre _ hmm) (hwh w hw) hmk
  have hkeep : ∀ j, (cycle c inp s').1.run = some j → Reason.mismatch ∈ j.reasons := fun j hj =>
    ((cycle_spec (reach_inv h') inp).2.2.2.2.2.1 i' j hi' hj).reasons _ (hre _ hmm)
  by_cases hlt : s'.now - w < t + c.b0
  · rcases hc t hto hbo hlt with hn | ⟨j, hj, _, hca, _⟩
    · exact Or.inl hn
    · exact Or.inr ⟨j, hj, hkeep j hj, Or.inl hca, fun hge => absurd hlt (by tick_omega)⟩
  · have hge : t + c.b0 ≤ s'.now - w := by tick_omega
    rcases ha t hto hbo hge with hn | ⟨j, hj, _, hab⟩
    · exact Or.inl hn
    · exact Or.inr ⟨j, hj, hkeep j hj, Or.inr hab, fun _ => hab⟩

/-- THE DEFERRED START STAYS ON THE SCHEDULE (F15: bounded). A cycle of an unmarked, matching object whose handler is
    selected while its previous instance is still stopping — asked to stop for a mismatch OR by an operator pause, in
    whatever stage — starts nothing (never two instances) and returns `cancellation_polling`: the processing comes back
    to start the new instance. -/
theorem deferred_start_is_rescheduled (c : Cfg) (s : St) (i : Inst) (inp : CycIn) (h : Reach c s) (he : c.escorts = true)
    (hi : s.run = some i) (hne : i.reasons ≠ []) (hmk : inp.marked = false) (hmatch : inp.matching = true)
    (hf : s.forever = false) (hnb : blockedIn c inp s = false) :
    c.polling ∈ (cycle c inp s).2 ∧ (cycle c inp s).1.spawns = s.spawns := by
  refine ⟨cycle_defers_with_delay inp he hi hne hmk (by simp [hmatch, hf]) hnb, ?_⟩
  have := (cycle_spec (reach_inv h) inp).2.2.2.2.1
  simpa [hi] using this

/-- An instance that has ended inside the visit of `match_daemons` while its handler is selected again (the spawning of
    this very cycle has skipped it: it was still there): nothing runs after the cycle, the end is NOT remembered as an
    exit on its own, and the cycle asks for an immediate re-visit (delay 0). -/
theorem ended_in_visit_asks_revisit (c : Cfg) (s : St) (i j : Inst) (inp : CycIn) (h : Reach c s) (he : c.escorts = true)
    (hi : s.run = some i) (hmm : Reason.mismatch ∈ i.reasons) (hmk : inp.marked = false) (hmatch : inp.matching = true)
    (hf : s.forever = false) (hend : stopOne c s.now .mismatch i inp.ex1 = .ended j) :
    (cycle c inp s).1.run = none ∧ (cycle c inp s).1.forever = false ∧ (0 : Tick) ∈ (cycle c inp s).2 := by
  obtain ⟨h1, h2, h3⟩ := (cycle_escort_spec (reach_inv h) inp he hi hmm hmk).1 j hend
  exact ⟨h1, h2.trans hf, h3 (by simp [hmatch, hf])⟩

/-- REPLACED ONCE IT HAS ENDED. An instance that was asked to stop (for whatever reason) and ends is not remembered as
    having exited on its own, and the next cycle of the live, unmarked, matching object — the one the returned delay
    schedules, or any other — starts a new instance: exactly one more. -/
theorem replaced_after_end (c : Cfg) (s s1 : St) (i : Inst) (inp : CycIn) (h : Reach c s) (hi : s.run = some i)
    (hne : i.reasons ≠ []) (hf : s.forever = false) (hs : step c s .exit = some s1)
    (hk : s.known = true) (hx : s.exitAt = none) (hdel : inp.deleted = false) (hm : inp.marked = false)
    (hmatch : inp.matching = true) :
    s1.run = none ∧ s1.forever = false ∧ ∃ s2, step c s1 (.cycle inp) = some s2 ∧ s2.spawns = s.spawns + 1 := by
  have h1 := reach_step h _ hs
  simp only [step, hi, Option.some.injEq] at hs
  subst hs
  have hie : i.reasons.isEmpty = false := by
    cases hr : i.reasons with
    | nil => exact absurd hr hne
    | cons _ _ => rfl
  have hf1 : (endInst s i).forever = false := by simp [endInst, hf, hie]
  refine ⟨rfl, hf1, ?_⟩
  exact started_on_match c (endInst s i) inp h1 hk hx hdel hm hmatch hf1 rfl

/-- …and when it has ended inside a visit while matching: the cycle returns delay 0, and ONE further cycle of the matching
    object starts the new instance. -/
theorem replaced_within_one_further_cycle (c : Cfg) (s : St) (i j : Inst) (inp inp2 : CycIn) (h : Reach c s)
    (he : c.escorts = true) (hk : s.known = true) (hx : s.exitAt = none) (hi : s.run = some i)
    (hmm : Reason.mismatch ∈ i.reasons) (hf : s.forever = false)
    (hmk : inp.marked = false) (hd1 : inp.deleted = false) (hmatch : inp.matching = true)
    (hend : stopOne c s.now .mismatch i inp.ex1 = .ended j)
    (hm2 : inp2.marked = false) (hd2 : inp2.deleted = false) (hmatch2 : inp2.matching = true) :
    ∃ s1 s2, step c s (.cycle inp) = some s1 ∧ (0 : Tick) ∈ (cycle c inp s).2 ∧ s1.run = none ∧
      step c s1 (.cycle inp2) = some s2 ∧ s2.spawns = s.spawns + 1 := by
  have hs1 : step c s (.cycle inp) = some (cycle c inp s).1 := by simp [step, hk]
  obtain ⟨hrun, hfor, hz⟩ := ended_in_visit_asks_revisit c s i j inp h he hi hmm hmk hmatch hf hend
  have h1 := reach_step h _ hs1
  have spec := cycle_spec (reach_inv h) inp
  have hk1 : (cycle c inp s).1.known = true := by rw [spec.2.2.2.1, hk, hd1]; rfl
  have hx1 : (cycle c inp s).1.exitAt = none := by rw [(cycle_frame (reach_inv h) inp).2.2.2.2.1]; exact hx
  have hsp1 : (cycle c inp s).1.spawns = s.spawns := by
    have := spec.2.2.2.2.1
    simpa [hi] using this
  obtain ⟨s2, hs2, hsp2⟩ := started_on_match c _ inp2 h1 hk1 hx1 hd2 hm2 hmatch2 hfor hrun
  exact ⟨_, s2, hs1, hz, hrun, hs2, by rw [hsp2, hsp1]⟩

/-- only a processing cycle creates an instance — the one that the returned delay schedules, in the tree as it is;
    nothing else (time, the killer, the instance ending) starts anything -/
theorem only_cycles_spawn (c : Cfg) (s s' : St) (l : Label) (hl : ∀ inp, l ≠ .cycle inp) (hs : step c s l = some s') :
    s'.spawns = s.spawns := by
  cases l with
  | cycle inp => exact absurd rfl (hl inp)
  | tick d => simp only [step] at hs; split at hs <;> simp_all; subst hs; rfl
  | pause => simp only [step] at hs; split at hs <;> simp_all; subst hs; rfl
  | resume => simp only [step] at hs; split at hs <;> simp_all; subst hs; rfl
  | exitBegin => simp only [step] at hs; split at hs <;> simp_all; subst hs; rfl
  | kFinal => simp only [step] at hs; split at hs <;> simp_all; subst hs; rfl
  | failForGood => simp only [step] at hs; split at hs <;> simp_all; subst hs; rfl
  | exit => simp only [step] at hs; split at hs <;> simp_all; subst hs; rfl
  | kBegin r => simp only [step] at hs; split at hs <;> (try split at hs) <;> simp_all <;> (subst hs; rfl)
  | kSignal st => simp only [step] at hs; split at hs <;> (try split at hs) <;> simp_all <;> (subst hs; rfl)
  | kCancel st => simp only [step] at hs; split at hs <;> (try split at hs) <;> simp_all <;> (subst hs; rfl)
  | kAbandon st => simp only [step] at hs; split at hs <;> (try split at hs) <;> simp_all <;> (subst hs; rfl)

section EscortExamples

/-- the history of corpus/C09/F14.json in the tree as it is (backoff 32, timeout 64): spawned at 64, flagged + signalled at
    192 (the label stops matching), matching again at 208 — inside the backoff: the cycle returns the re-check of the
    skipped start and the rest of the backoff; visited at 224: cancelled; at 288: abandoned; it ends at 300; the next
    cycle starts the second instance. -/
def rematchRun : List Label :=
  [.tick 64, .cycle evEx0, .tick 128, .cycle { evEx0 with matching := false }, .tick 16, .cycle evEx0, .tick 16, .cycle evEx0,
   .tick 64, .cycle evEx0, .tick 12, .exit, .tick 100, .cycle evEx0]

example : ∃ s i, runs cfgP (St.init 0) (rematchRun.take 5) = some s ∧ s.run = some i ∧ Reason.mismatch ∈ i.reasons ∧
    i.when = some 192 ∧ s.now = 208 ∧ (cycle cfgP evEx0 s).2 = [3840, 16] ∧ cfgP.escorts = true :=
  ⟨_, _, rfl, rfl, by decide, by decide, by decide, by decide, rfl⟩

example : ∃ s i, runs cfgP (St.init 0) (rematchRun.take 10) = some s ∧ s.run = some i ∧
    i.reasons = [.mismatch, .signalled, .cancelled, .abandoned] ∧ i.cancelAt = some 224 ∧ i.abandonAt = some 288 ∧
    s.spawns = 1 ∧ (cycle cfgP evEx0 s).2 = [3840] :=
  ⟨_, _, rfl, rfl, by decide, by decide, by decide, by decide, by decide⟩

example : ∃ s i, runs cfgP (St.init 0) rematchRun = some s ∧ s.run = some i ∧ i.reasons = [] ∧ i.since = 400 ∧
    s.spawns = 2 ∧ s.live = 1 ∧ s.forever = false :=
  ⟨_, _, rfl, rfl, by decide, by decide, by decide, by decide, by decide⟩

/-- the hypotheses of `mismatch_flag_is_kept` / `escorted_to_the_end` are met: flagged at 192 (`s`), a re-match and time
    later (`s'`, at 224, the backoff is over: 32 ≤ 224 - 192) it is the same instance, and the cycle there cancels it -/
example : ∃ s s' i i' j, runs cfgP (St.init 0) (rematchRun.take 4) = some s ∧ s.run = some i ∧ Reason.mismatch ∈ i.reasons ∧
    i.when = some 192 ∧ runs cfgP s [.tick 16, .cycle evEx0, .tick 16] = some s' ∧ s'.spawns = s.spawns ∧ s'.run = some i' ∧
    s'.now = 224 ∧ (cycle cfgP evEx0 s').1.run = some j ∧ j.cancelAt = some 224 :=
  ⟨_, _, _, _, _, rfl, rfl, by decide, by decide, rfl, by decide, rfl, by decide, rfl, by decide⟩

/-- the instance obeys the cancellation at once (it has ended when `stop_daemons` looks again): the visit at 224 returns
    delay 0 besides the re-check, and one further cycle in the same instant starts the second instance -/
example : ∃ s, runs cfgP (St.init 0) (rematchRun.take 7) = some s ∧
    (cycle cfgP { evEx0 with ex1 := { d0 := false, d1 := false, d2 := true } } s).2 = [3840, 0] ∧
    (∃ s2, runs cfgP s [.cycle { evEx0 with ex1 := { d0 := false, d1 := false, d2 := true } }, .cycle evEx0] = some s2 ∧
      s2.spawns = 2 ∧ s2.live = 1 ∧ s2.now = 224) :=
  ⟨_, rfl, by decide, _, rfl, by decide, by decide, by decide⟩

/-- the pause path: flagged by the killer at the round at 100, resumed at 110 while the daemon is still stopping: the
    re-listing's cycle starts nothing and returns the re-check delay; the killer's coroutine goes on through the stages
    (cancelled at 132); the daemon ends at 140; the cycle the delay has scheduled starts the new instance -/
example : ∃ s, runs cfgP (St.init 0) [.cycle evEx0, .tick 100, .pause, .kBegin .pausing, .kSignal 100, .tick 10, .resume] = some s ∧
    (cycle cfgP evEx0 s) = (s, [3840]) ∧
    (∃ s2 i, runs cfgP s [.cycle evEx0, .tick 22, .kCancel 100, .tick 8, .exit, .tick 3810, .cycle evEx0] = some s2 ∧
      s2.run = some i ∧ i.reasons = [] ∧ s2.spawns = 2 ∧ s2.now = 3950) :=
  ⟨_, rfl, by decide, _, _, rfl, rfl, by decide, by decide, by decide⟩

end EscortExamples

/-! ### HISTORICAL: the code before ef26531 (`escorts = false`; findings F14, F15) -/

/-- HISTORICAL (finding F14, fixed by ef26531), for EVERY state with a running instance (flagged or not, in whatever stage),
    every configuration of the old variant: a cycle of an unmarked, matching object while the operator is neither paused
    nor the event a DELETED one changed NOTHING and returned NO delay: the flagged instance was not signalled, cancelled
    or abandoned, nothing was spawned (its id is taken), and no further cycle was scheduled. -/
theorem rematched_not_escalated (c : Cfg) (s : St) (i : Inst) (inp : CycIn) (hold : c.escorts = false) (hi : s.run = some i)
    (hf : s.forever = false)
    (hm : inp.matching = true) (hmk : inp.marked = false) (hp : inp.paused = false) (hd : inp.deleted = false) :
    cycle c inp s = (s, []) := by
  simp [cycle_unfold, forgotten, matchVisits, stopIf, escorted, hold, hi, hf, hm, hmk, hp, hd]

/-- HISTORICAL witness of F14 (corpus/C09/F14.json is its regression): backoff 32, timeout 64. Spawned at 64; the label
    stops matching at 192: flagged + signalled, delay 32; it matches again at 208, inside the backoff: nothing happened, no
    delay — and 10 minutes and another matching event later the instance still ran: flagged, never cancelled, never
    abandoned, and still the only instance ever created. -/
theorem rematch_witness :
    ∃ s i, runs { cfgP with escorts := false } (St.init 0) [.tick 64, .cycle evEx0, .tick 128, .cycle { evEx0 with matching := false },
        .tick 16, .cycle evEx0, .tick 38400, .cycle evEx0] = some s ∧ s.run = some i ∧
      i.reasons = [.mismatch, .signalled] ∧ i.when = some 192 ∧ i.cancelAt = none ∧ i.abandonAt = none ∧ s.spawns = 1 ∧
      (cycle { cfgP with escorts := false } evEx0 s).2 = [] :=
  ⟨_, _, rfl, rfl, by decide, by decide, by decide, by decide, by decide, by decide⟩

/-- HISTORICAL witness of F15 (corpus/C09/F15.json is its regression): no timeouts (polled). Flagged for a mismatch at 192;
    at 224 the object matches again: the old cycle started nothing (the instance is still there) and returned NO delay —
    so when the instance ended at 384 (asked to stop: not remembered as an exit on its own) nothing was left to come back:
    no instance for the matching object until an unrelated event. In the tree as it is the same cycle returns the re-check
    delays, and the cycle they schedule starts the second instance. -/
theorem deferred_start_witness :
    ∃ s, runs { backoff := none, timeout := none, polling := 3840, escorts := false } (St.init 0)
        [.tick 64, .cycle evEx0, .tick 128, .cycle { evEx0 with matching := false }, .tick 32] = some s ∧
      cycle { backoff := none, timeout := none, polling := 3840, escorts := false } evEx0 s = (s, []) ∧
      (∃ s', runs { backoff := none, timeout := none, polling := 3840, escorts := false } s
          [.cycle evEx0, .tick 160, .exit, .tick 38400] = some s' ∧
        s'.run = none ∧ s'.forever = false ∧ s'.live = 0 ∧ s'.spawns = 1 ∧ s'.known = true) ∧
      (cycle { backoff := none, timeout := none, polling := 3840 } evEx0 s).2 = [3840, 3840] ∧
      (∃ s', runs { backoff := none, timeout := none, polling := 3840 } s
          [.cycle evEx0, .tick 160, .exit, .tick 3680, .cycle evEx0] = some s' ∧ s'.spawns = 2 ∧ s'.live = 1) :=
  ⟨_, rfl, by decide, ⟨_, rfl, by decide, by decide, by decide, by decide, by decide⟩, by decide, ⟨_, rfl, by decide, by decide⟩⟩

/-! ## stopping never crashes the operator

  No theorem: "never crashes" is covered by the oracle on every simulated history (no exception out of
  the daemon killer, of `process_spawning_cause`, of `process_resource_event`, of `kopf.operator()`;
  operator alive at the end) and, for the repaired finding F11, by the tie obligation
  `Tie.killer_iterates_snapshots` (every awaiting loop of `daemon_killer` iterates a `list(...)` copy;
  `Lemmas: killer_sweep_visits_all`) plus the corpus regressions `F11*.json`. -/

/-- HISTORICAL (finding F11, fixed by 06bf1c1): the old loop over the live dict view raised as soon as one
    of three daemons had erased itself; over a snapshot the same environment is harmless. -/
example : iterLive 3 0 [3, 3, 2] = .raised ∧ iterSnapshot ["t0", "d1", "t2"] [3, 3, 2] [] = (.finished, ["t0", "d1", "t2"]) := by
  decide

/-! ## stopping never stalls: the micro-steps of `_timer` and `_daemon`

  Nothing in `execute_handlers_once` / `invocation.invoke` / `patch_and_check` (empty patch) suspends by
  itself: a run reports `yields` (it gave control to the loop) or not, and the theorems quantify over both.
  Since /repo b04c26c every iteration of both retry loops starts with `await asyncio.sleep(0)`
  (`yielding`, tied to the AST), since 6ccf081 the after-run idle loop tests the stopper (`guarded`). -/

/-- For the tree under test (`guarded = treeGuarded`, `yielding = treeYielding`), from EVERY program
    point, in EVERY environment (stopper set or not, any clock, any idle-reset time), for EVERY stream
    of handler outcomes (yielding or not, retried with any delay incl. 0, failing for good, …) and every
    timer configuration with a positive `idle`: `_timer` suspends or returns within 6 steps. -/
theorem progress (c : TCfg) (e : TEnv) (os : Nat → Outcome) (l : TLoc) (hg : c.guarded = treeGuarded)
    (hy : c.yielding = treeYielding) (hidle : ∀ d, c.idle = some d → 0 < d) : settles c e os 6 l = true :=
  settles_all c e os hy hg hidle l

/-- `_daemon` (`while not stopper.is_set() and not state.done: await asyncio.sleep(0); …; if state.delay:
    sleep`): from every program point, environment and outcome stream it suspends or returns within 3 steps. -/
theorem daemon_progress (initialDelay : Option Tick) (e : TEnv) (os : Nat → Outcome) (l : DLoc) :
    dsettles initialDelay treeYielding e os 3 l = true :=
  dsettles_all initialDelay e os l

/-- THE STOP FLAG IS OBEYED BY THE WRAPPER. Wherever `_timer` is when its stopper is set — in its initial delay, waiting
    for the object to become idle, between two runs (interval / sharp grid / retry delay), in the after-run idle loop —
    except inside the call of the function itself: it RETURNS within 4 micro-steps, without suspending once (every
    sleep has the stopper as its wake-up event: tie `sleeps_wake_on_stop`) and WITHOUT invoking the function again
    (`runs` unchanged; the re-check after the idle wait: tie `timer_rechecks_stop_after_idle`). For every configuration,
    clock, idle-reset time and outcome stream. (`idleHead` is a program point of timers with `idle=` only.) -/
theorem stopped_timer_returns (c : TCfg) (e : TEnv) (os : Nat → Outcome) (l : TLoc) (hg : c.guarded = treeGuarded)
    (hs : e.stop = true) (hpc : l.pc ≠ .invoke) (hid : l.pc = .idleHead → c.idle.isSome = true) :
    returnsAtOnce c e os 4 l = some l.runs := by
  have hg' : c.guarded = true := hg
  rcases l with ⟨pc, started, done, failed, errDelay, runs⟩
  rcases c with ⟨initialDelay, idle, interval, sharp, guarded, yielding⟩
  simp only at hg' hpc hid
  subst hg'
  cases pc <;> cases initialDelay <;> cases idle <;> cases interval <;> cases sharp <;> cases done <;>
    simp_all [returnsAtOnce, tstep, sleepTo, sleepSuspends]

/-- the same for `_daemon`: in its initial delay, at the loop head, between two retries — it returns at once and
    does not call the function again -/
theorem stopped_daemon_returns (initialDelay : Option Tick) (y : Bool) (e : TEnv) (os : Nat → Outcome) (l : DLoc)
    (hs : e.stop = true) (hpc : l.pc ≠ .invoke) : dreturnsAtOnce initialDelay y e os 3 l = some l.runs := by
  rcases l with ⟨pc, done, delay, runs⟩
  simp only at hpc
  cases pc <;> cases initialDelay <;> by_cases hz : delay = 0 <;>
    simp_all [dreturnsAtOnce, dstep, dsleepTo, sleepSuspends]

/-- the guards are needed: a timer woken from its idle wait by the stopper that did NOT re-check it would call the
    function once more (pc `invoke` with the flag set: one more run) — what `stopped_timer_returns` excludes for the
    tree; and a timer asked to stop while it waits for the object to become idle returns with 0 runs -/
example :
    let c : TCfg := { initialDelay := none, idle := some 192, interval := none, sharp := false, guarded := treeGuarded, yielding := treeYielding }
    let e : TEnv := { now := 100, stop := true, idleReset := 64 }
    let o : Outcome := { done := true, failed := false, errDelay := 0, yields := true }
    returnsAtOnce c e (fun _ => o) 4 { pc := .idleHead, started := 0, done := false, failed := false, errDelay := 0, runs := 0 } = some 0 ∧
    returnsAtOnce c e (fun _ => o) 4 { pc := .invoke, started := 0, done := false, failed := false, errDelay := 0, runs := 0 } = none := by
  decide

/-- the outcome that used to block the loop: non-yielding, retried with delay 0 — now harmless, and
    the hypotheses of `progress` are met by an ordinary interval timer -/
example :
    let c : TCfg := { initialDelay := none, idle := none, interval := some 64, sharp := false, guarded := treeGuarded, yielding := treeYielding }
    let e : TEnv := { now := 100, stop := false, idleReset := 0 }
    let o : Outcome := { done := false, failed := false, errDelay := 0, yields := false }
    let l : TLoc := { pc := .invoke, started := 0, done := false, failed := false, errDelay := 0, runs := 0 }
    settles c e (fun _ => o) 3 l = true ∧ settles c e (fun _ => o) 2 l = false ∧
      dsettles none treeYielding e (fun _ => o) 3 { pc := .invoke, done := false, delay := 0, runs := 0 } = true := by
  decide

/-- HISTORICAL (finding F12, fixed by b04c26c; `yielding = false`): an async handler that neither awaits
    nor finishes and is retried with delay ≤ 0 on a timer without `idle`, stopper not set: from the loop
    head NO number of steps reached a suspension or a return. -/
theorem nonyielding_retry_spins (c : TCfg) (e : TEnv) (os : Nat → Outcome) (l : TLoc) (hny : c.yielding = false)
    (hi : c.idle = none) (hs : e.stop = false) (hpc : l.pc = .head) (hd : l.done = false)
    (hbad : ∀ n, (os n).yields = false ∧ (os n).done = false ∧ (os n).errDelay ≤ 0) :
    ∀ k, settles c e os k l = false :=
  fun k => retrySpin_never_settles c e os hny hi hs hbad k l (by simp [retrySpin, hpc, hd])

/-- HISTORICAL witness of F12 (corpus/C09/F12-timer.json is its regression): `@kopf.timer(interval=1.0)`,
    `async def fn(**_): raise kopf.TemporaryError("again", delay=0)` before the repair. -/
theorem nonyielding_retry_witness :
    let c : TCfg := { initialDelay := none, idle := none, interval := some 64, sharp := false, guarded := true, yielding := false }
    let e : TEnv := { now := 100, stop := false, idleReset := 0 }
    let o : Outcome := { done := false, failed := false, errDelay := 0, yields := false }
    let l : TLoc := { pc := .head, started := 0, done := false, failed := false, errDelay := 0, runs := 0 }
    o.good = false ∧ (∀ k, settles c e (fun _ => o) k l = false) ∧
      settles { c with yielding := true } e (fun _ => o) 1 l = true := by
  intro c e o l
  refine ⟨by decide, ?_, by decide⟩
  exact nonyielding_retry_spins c e _ l rfl rfl rfl rfl rfl (fun _ => ⟨rfl, rfl, by decide⟩)

/-- HISTORICAL (F12, `_daemon` before b04c26c; corpus/C09/F12-daemon.json is its regression). -/
theorem daemon_nonyielding_retry_spins (initialDelay : Option Tick) (e : TEnv) (os : Nat → Outcome) (l : DLoc)
    (hs : e.stop = false) (hpc : l.pc = .head) (hd : l.done = false)
    (hbad : ∀ n, (os n).yields = false ∧ (os n).done = false ∧ (os n).errDelay ≤ 0) :
    ∀ k, dsettles initialDelay false e os k l = false :=
  fun k => dretrySpin_never_settles initialDelay e os hs hbad k l (by simp [dretrySpin, hpc, hd])

/-- HISTORICAL (finding F1, fixed by 6ccf081): without the loop guard, inside the spin set NO number of
    steps reaches a suspension or a return (nothing else gets to run meanwhile). -/
theorem idle_only_spins (c : TCfg) (e : TEnv) (os : Nat → Outcome) (l : TLoc) (hs : spinning c e l = true) :
    ∀ k, settles c e os k l = false :=
  fun k => spinning_never_settles c e os k l hs

/-- HISTORICAL witness of F1: `@kopf.timer(idle=1s)` before the repair, one run at tick 129, nothing
    changed since, the stopper gets set while the timer sleeps in its after-run loop. -/
theorem idle_only_spins_witness :
    let c : TCfg := { initialDelay := none, idle := some 64, interval := none, sharp := false, guarded := false, yielding := false }
    let e : TEnv := { now := 256, stop := true, idleReset := 64 }
    let l : TLoc := { pc := .idleLoop, started := 129, done := true, failed := false, errDelay := 0, runs := 1 }
    let o : Outcome := { done := true, failed := false, errDelay := 0, yields := true }
    spinning c e l = true ∧ tstep c e (fun _ => o) l = .cont l ∧ ∀ k, settles c e (fun _ => o) k l = false := by
  intro c e l o
  have hs : spinning c e l = true := by decide
  exact ⟨hs, by decide, fun k => spinning_never_settles c e _ k l hs⟩

/-- the same state in the current tree: the loop is left and `_timer` returns in two steps -/
example :
    let c : TCfg := { initialDelay := none, idle := some 64, interval := none, sharp := false, guarded := treeGuarded, yielding := treeYielding }
    let e : TEnv := { now := 256, stop := true, idleReset := 64 }
    let l : TLoc := { pc := .idleLoop, started := 129, done := true, failed := false, errDelay := 0, runs := 1 }
    let o : Outcome := { done := true, failed := false, errDelay := 0, yields := true }
    spinning c e l = false ∧ settles c e (fun _ => o) 2 l = true ∧ settles c e (fun _ => o) 1 l = false := by decide

/-! ## non-vacuity -/

section Examples

def cfgEx : Cfg := { backoff := some 64, timeout := some 128, polling := 3840 }
def evEx : CycIn := { matching := true, marked := false, paused := false, deleted := false, ex1 := Ex.never, ex2 := Ex.never }

/-- a full staged termination on deletion: flag+signal at 100, cancel at 164, abandon at 292 -/
def stagedRun : List Label :=
  [.cycle evEx, .tick 100, .cycle { evEx with marked := true }, .tick 64, .cycle { evEx with marked := true },
   .tick 128, .cycle { evEx with marked := true }]

example : ∃ s i, runs cfgEx (St.init 0) stagedRun = some s ∧ s.run = some i ∧
    i.reasons = [.deleted, .signalled, .cancelled, .abandoned] ∧ i.when = some 100 ∧
    i.cancelAt = some 164 ∧ i.abandonAt = some 292 ∧ s.live = 1 ∧ s.spawns = 1 :=
  ⟨_, _, rfl, rfl, by decide, by decide, by decide, by decide, by decide, by decide⟩

/-- hypotheses of `started_on_match`/`spawn_only_when_none` are met by the first cycle of a new object -/
example : Reach cfgEx (St.init 0) ∧ (St.init 0).known = true ∧ (St.init 0).exitAt = none ∧ (St.init 0).forever = false ∧
    (St.init 0).run = none ∧ blockedIn cfgEx evEx (St.init 0) = false :=
  ⟨⟨0, [], rfl⟩, rfl, rfl, rfl, rfl, by decide⟩

/-- own exit, then a matching event, a pause/resume and more events: never spawned again -/
example : ∃ s, runs cfgEx (St.init 0) [.cycle evEx, .tick 10, .exit, .tick 5, .cycle evEx,
      .cycle { evEx with paused := true }, .tick 99, .cycle evEx] = some s ∧
    s.forever = true ∧ s.spawns = 1 ∧ s.run = none :=
  ⟨_, rfl, by decide, by decide, by decide⟩

/-- mismatch → stop flag with FILTERS_MISMATCH; the instance ends; it matches again → respawned -/
example : ∃ s, runs cfgEx (St.init 0) [.cycle evEx, .tick 10, .cycle { evEx with matching := false }, .tick 3, .exit,
      .tick 7, .cycle evEx] = some s ∧ s.spawns = 2 ∧ s.live = 1 ∧ s.forever = false :=
  ⟨_, rfl, by decide, by decide, by decide⟩

/-- the daemon killer on exit: reason, signal, cancel after the backoff, abandon after the timeout -/
example : ∃ s i, runs cfgEx (St.init 0) [.cycle evEx, .tick 50, .exitBegin, .kBegin .exiting, .kSignal 50, .tick 64, .kCancel 50,
      .tick 128, .kAbandon 50] = some s ∧ s.run = some i ∧
    i.reasons = [.exiting, .signalled, .cancelled, .abandoned] ∧ i.cancelAt = some 114 ∧ i.abandonAt = some 242 :=
  ⟨_, _, rfl, rfl, by decide, by decide, by decide⟩

/-- the killer cannot cancel before the backoff has passed: the label is not enabled -/
example : runs cfgEx (St.init 0) [.cycle evEx, .tick 50, .exitBegin, .kBegin .exiting, .tick 63, .kCancel 50] = none := by decide

/-- a daemon spawned while the operator is paused is stopped in the same cycle (#1266) -/
example : ∃ s i, runs cfgEx (St.init 0) [.cycle { evEx with paused := true }] = some s ∧ s.run = some i ∧
    Reason.pausing ∈ i.reasons :=
  ⟨_, _, rfl, rfl, by decide⟩

/-- a timer (no backoff, no timeout) on deletion is only flagged and polled -/
example : (cycle { backoff := none, timeout := none, polling := 3840 } { evEx with marked := true }
    (cycle { backoff := none, timeout := none, polling := 3840 } evEx (St.init 0)).1).2 = [3840] := by decide

end Examples

end Kopf.C09
