/-
  C20 — Operator lifecycle: startup first, fail-fast, cleanup last, bounded exit. Property theorems only.

  All theorems are about `Reach cfg s` / `ReachC cfg s` (states reachable by ANY label list / by any COOPERATIVE
  label list of the model `Kopf.Model.C20_Lifecycle`) or about label lists themselves: no bound on length, on the
  number of ensemble tasks, workers, daemons, or on the moments of failures and stop requests.
  * `cfg.fixed = true` is THE MODEL OF THE CURRENT TREE for the ensemble tasks (since /repo 9ef1bcb the orchestrator
    monitors them; `Kopf/Tie/C20.lean` re-checks that against the source on every run); `cfg.fixed = false` is the
    historical variant without the edge "failed ensemble task → orchestrator".
  * `cfg.coreWatched = true` is THE MODEL OF THE CURRENT TREE for the core task (since /repo ed52a1a the stop-flag
    checker — a root task — also awaits the core tasks and their errors are re-raised after the cleanup activity;
    `Kopf/Tie/C20.lean` re-checks that against the source on every run); `cfg.coreWatched = false` is the historical
    variant in which nobody awaited the credentials retriever (finding C20-F6).
  * Cooperativity (tasks honour cancellation at once, waits end when their condition holds, the timed waits E, W, D,
    C, H are kept) is NOT built into the transition relation: `delay` is always enabled; a run is cooperative iff all
    its delays satisfy `coopDelay` (`runC`, `ReachC`). Theorems about time say so in their hypotheses.
  * CANCELLATIONS OF `operator()` are handled by the current tree at every await of `spawn_tasks` / `run_tasks` but the last
    (`rtCancel`): inside `spawn_tasks`' `sleep(0)` (since /repo d6da86b), while `run_tasks` waits for the first root task,
    while it STOPS the root tasks (since /repo 883284c: every live root task is cancelled AGAIN — `cancelRootsV`, `scCut`,
    the killer's interrupted `finally:`), while it waits for the hung tasks. The orchestrator shields the stop of its
    ensemble (since /repo ab6fb15), the watchers re-raise a worker's error after their depletion (since /repo 69d1957).
  * THE ORDER OF THE ORCHESTRATOR'S EXIT (since /repo 26a293c, `stop_in_order`; `headStopsPingersLast`, tie-checked): first the
    streams (`rootStopping orchestrator` cancels the watchers and the peering observers, NOT the keep-alives), then — when the last
    stream has ended — the keep-alives (`orchStopPingers`), whose `finally:` withdraws the peering record:
    `withdrawal_after_handling_stopped`, `exit_stops_keepalives_last`. Not a variant flag: the model has this order only
    (the old order — one stop of everything — was no violation of C20; the findings it caused are C13-F7 / C13-F9).
    `cfg.orchShielded`, `cfg.spawnSwept`, `cfg.stopSwept`, `cfg.deplEscalates` = true is THE MODEL OF THE CURRENT TREE
    (`cfgHead`; `Kopf/Tie/C20.lean` re-checks the four facts against the source on every run).
  * HISTORICAL variants (a flag = false): three labels (`Label.leaves`: `orchAbandon` C20-F8, `spawnCancel` C20-F10,
    `stopCancel` C20-F11) set the ghost flag `abandoned` and nothing else — the OLD code went on there in a way the model
    does not describe. In the model of the current tree none of them is enabled (`repaired_never_abandoned`); but THE CURRENT
    TREE leaves the model at a fourth label, `orchCrash` (variant `orchSwept := false`; open finding C20-F12: the orchestrator's
    own loop raises, it ends failed at once and orphans its ensemble) — and at no other:
    `head_abandoned_only_by_orchestrator_failure_partial`, `orchestrator_own_failure_leaves_model_witness`.
    The theorems below are stated for every `cfg`; for the current tree they speak about the code on runs WITHOUT `orchCrash`
    (where `abandoned = false`), for a historical variant they speak about
    the model, which is faithful to the old code only while `abandoned = false` (the `historical_…_witness` theorems show
    what the old code did at those labels; their corpus witnesses are regression tests now).
  * NOT modelled (assumptions on the environment): a further cancellation of an `operator()` that is already inside one
    of its `stop(…, cancelled=True)` (`aiotasks.stop` gives up BY DESIGN, "double-cancelling") or inside the final
    `stop(hung_pending)` (instantaneous in a cooperative run); a cancellation of the startup/cleanup task inside
    `stop(core_tasks)` after a FAILED startup.
  * BY DESIGN, not a theorem: a REPEATED cancellation (`rtCancel` while `run_tasks` stops the root tasks) interrupts
    `startup_cleanup_activities` where it waits — the cleanup handlers are skipped or cut short
    (`repeated_cancel_skips_cleanup_witness`, deviation C20-D4). "Cleanup LAST" is unaffected (`cleanup_last`,
    `interrupted_killer_never_meets_cleanup`).
  Theorems that do not mention `cfg.fixed` / `cfg.coreWatched` / `cfg.deplEscalates` hold for all variants.
-/
import Kopf.Lemmas.C20_Trace
import Kopf.Lemmas.C20_InvT
import Kopf.Lemmas.C20_Flag
import Kopf.Lemmas.C20_InvK
import Kopf.Lemmas.C20_Order
import Kopf.Lemmas.C20_Monitor
import Kopf.Lemmas.C20_Release
namespace Kopf.C20

/-! ### Startup first -/

/-- No API activity (request or handler call of any task, incl. the peering withdrawal) before all
    startup handlers have succeeded: in every accepted label list an activity label is preceded by the
    successful end of the startup activity and by `started_flag.set()`; every task that can act sits
    behind that flag. -/
theorem no_api_before_startup {cfg : Cfg} (ls : List Label) (l : Label) (s : State)
    (hl : l.isActivity = true) (h : run cfg init (ls ++ [l]) = some s) :
    Label.scStartupEnd .none ∈ ls ∧ Label.setStarted ∈ ls := by
  rw [run_append] at h
  cases h1 : run cfg init ls with
  | none => simp [h1] at h
  | some s1 =>
    simp only [h1, Option.bind_some, run] at h
    cases h2 : step cfg s1 l with
    | none => simp [h2] at h
    | some s2 =>
      have hA := InvA.reach (cfg := cfg) ⟨ls, h1⟩
      have hst := activity_needs_started hA hl h2
      have hdone := (hA.startedDone hst).1
      refine ⟨?_, ?_⟩
      · rcases startupDone_run ls init s1 h1 hdone with h3 | h3
        · simp [init] at h3
        · exact h3
      · rcases started_run ls init s1 h1 hst with h3 | h3
        · simp [init] at h3
        · exact h3

/-- A failed (or interrupted) startup: no API activity has happened or will happen, the flags stay down;
    and when a startup handler failed for good, `operator()` does not return normally (it re-raises, or
    ends cancelled if it was itself cancelled). -/
theorem failed_startup_no_api {cfg : Cfg} {s : State} (hr : Reach cfg s) (hf : s.startupFailed = true) :
    s.acts = 0 ∧ s.started = false ∧ s.ready = false ∧
    (s.startupRaised = true → s.rt = .exited → s.result = some .raised ∨ s.result = some .cancelled) := by
  have hA := InvA.reach hr
  have hB := InvB.reach hr
  have hC := InvC.reach hr
  have hns : s.started = false := by
    cases hs : s.started with
    | false => rfl
    | true => have := (hA.startedDone hs).2; rw [hf] at this; cases this
  have hnr : s.ready = false := by
    cases hs : s.ready with
    | false => rfl
    | true => have := hA.readyStarted hs; rw [hns] at this; cases this
  refine ⟨(hA.notStarted hns).2.2.2.2.1, hns, hnr, ?_⟩
  intro hraised hex
  have hended := hC.hungRoots (by simp [hex]) (by simp [hex]) (by simp [hex]) .startupCleanup
  obtain ⟨p, hp, hst⟩ := hC.scOver hended
  have hpf : p = .failed := by
    rcases hC.raisedSc hraised with h | h | h <;> rw [hp] at h <;> cases h
    rfl
  subst hpf
  have hrf : s.rootFailed = true := hB.rootFailedIff.mpr ⟨.startupCleanup, hst⟩
  obtain ⟨r, hres⟩ := hC.resultSome hex
  cases r with
  | raised => exact Or.inl hres
  | cancelled => exact Or.inr hres
  | returned => have := hC.resReturned hres; rw [hrf] at this; cases this

/-- The ready flag is raised only after startup: behind `started_flag`, which is set only after the
    startup activity has returned successfully. -/
theorem ready_after_startup {cfg : Cfg} {s : State} (hr : Reach cfg s) (h : s.ready = true) :
    s.started = true ∧ s.startupDone = true ∧ s.startupFailed = false := by
  have hA := InvA.reach hr
  have hs := hA.readyStarted h
  exact ⟨hs, hA.startedDone hs⟩

/-! ### Fail-fast: any root task ending stops everything, and the run call returns -/

/-- Once `run_tasks` has begun to stop the root tasks, EVERY other root task that is still alive has been cancelled
    (the request is pending) or is already in its `finally:`; `run_tasks` reaches the hung-task phase only when all
    root tasks have ended, and returns only when all hung tasks are gone as well — on EVERY path: a root task ended, a stop flag,
    a cancellation of `operator()` at any of the handled moments (see the header). -/
theorem root_failure_stops_all {cfg : Cfg} {s : State} (hr : ReachC cfg s) :
    ((s.rt = .stoppingRoots ∨ s.rt = .cStoppingRoots) → ∀ r, r ≠ .startupCleanup → (s.st (.root r)).live = true →
        s.creq (.root r) = true ∨ (s.st (.root r)).isStopping = true)
    ∧ (s.rt ≠ .waiting → s.rt ≠ .stoppingRoots → s.rt ≠ .cStoppingRoots → ∀ r, (s.st (.root r)).ended = true)
    ∧ (s.rt = .exited → hungLive s = false) := by
  have hC := InvC.reach hr.reach
  have hD := InvD.reachC hr
  refine ⟨?_, hC.hungRoots, ?_⟩
  · intro hph r hrne hl
    have hnw : s.rt ≠ .waiting := by rcases hph with h | h <;> simp [h]
    obtain ⟨t, ht, _⟩ := hC.t0Some hnw
    rcases hD.a t ht hph r hrne hl with ⟨h, _⟩ | h
    · exact Or.inl h
    · exact Or.inr h
  · intro hex
    rw [hungLive_false_iff]
    exact hC.exitedHung hex

/-- THE RUN CALL CAN RETURN (progress, as a POSSIBILITY: EF, not AF). After a trigger (`Triggered`: a stop was
    requested, a root task has ended for whatever reason, `run_tasks` is already stopping, or a failure that the code
    escalates has happened — `tFail`) every cooperatively reachable state has a continuation to
    `exited` that consists of INTERNAL steps only (`internal`: no further action of the environment, no new failure;
    it contains the fairness assumptions: daemons exit, workers finish, the cleanup activity ends), is itself
    cooperative and takes none of the historical `leaves` labels. PARTIAL w.r.t. "the run call returns": a POSSIBILITY
    (EF); NOT proved: that EVERY fair continuation exits (inevitability, AF).
    Together with `no_timelock` and the bounds: the shutdown cannot get stuck, cannot be blocked with the clock
    stopped, and — when it proceeds cooperatively — is over within the bound. -/
theorem returns_partial {cfg : Cfg} {s : State} (hr : ReachC cfg s) (ht : Triggered s) :
    ∃ ls s', runI cfg s ls = some s' ∧ s'.rt = .exited ∧ s'.abandoned = s.abandoned :=
  returns_aux (mu cfg s) s (Nat.le_refl _) hr ht

/-- No timelock: whenever cooperativity forbids time to pass (`urgent`), some internal non-`delay` step is enabled —
    "time cannot pass" never means "nothing can happen". -/
theorem no_timelock {cfg : Cfg} {s : State} (hr : ReachC cfg s) (hne : s.rt ≠ .exited)
    (hu : urgent cfg s = true) :
    ∃ l s', internal s l = true ∧ (∀ n, l ≠ .delay n) ∧ stepC cfg s l = some s' := by
  rcases advance_or_wait hr hne with ⟨l, s', h1, h2, h3, _⟩ | ⟨hq, _⟩
  · exact ⟨l, s', h1, h2, by rw [stepC_eq_step h2]; exact h3⟩
  · rw [hu] at hq; cases hq

/-- THE STOP FLAG IS FELT AT ONCE: once the stop flag is set and `run_tasks` still waits, no cooperative time passes (the
    stop-flag checker ends, then `run_tasks` begins to stop the root tasks): in a cooperative run `t0` — from which
    `exit_bound_partial` counts — IS the instant of the stop request, for the flag as for a cancellation (`rtCancel` from
    `waiting` sets `t0 := now` itself). Holds for every cooperatively reachable state. -/
theorem stop_flag_felt_at_once {cfg : Cfg} {s : State} (hr : ReachC cfg s) (hf : s.stopFlagSet = true)
    (hw : s.rt = .waiting) : ∀ n, coopDelay cfg s n = false := by
  rcases stopFlag_status hr.reach with h | h
  · intro n
    have hu : urgent cfg s = true := by unfold urgent; simp [hf, h]
    simp [coopDelay, hu]
  · exact (root_ended_urgent .stopFlag h hw).1

/-! ### Cleanup last -/

/-- The cleanup activity begins only after all other root tasks and the core task have ended — and with them every
    ensemble task (watch streams, peering), every worker (hence every handler in flight), and every COOPERATIVE
    daemon the daemon killer has sent an exit stopper to (unless the killer itself crashed). Daemons that ignore
    their stopper, daemons spawned after the killer's `finally:`, and orphaned helper tasks may outlive the cleanup:
    they are "hung tasks" (`no_daemon_alive_at_return`).
    Last conjunct (since /repo 1d3a667 nothing is spawned after the daemon killer's sweep: `daemonSpawn` needs
    `killed = false`): once the killer has swept, EVERY daemon that is still running has got an exit stopper — what runs
    on is a daemon that ignores its stopper and that kopf abandons by design (deviation C20-D1), never one that nobody
    asked to stop (the repaired C20-F9). A daemon killer whose `finally:` was interrupted by a repeated cancellation
    (`killerCut`: it did not wait for its stoppers) never coexists with the cleanup: `interrupted_killer_never_meets_cleanup`. -/
theorem cleanup_last {cfg : Cfg} {s : State} (hr : Reach cfg s) (h : s.cleanupBegun = true) :
    (∀ r, r ≠ .startupCleanup → (s.st (.root r)).ended = true) ∧ s.core.live = false
    ∧ (∀ i, i < s.nSubs → (s.st (.sub i)).live = false)
    ∧ (∀ w o, s.wk w ≠ some (o, .running))
    ∧ (s.st (.root .daemonKiller) ≠ .failed →
        ∀ d, d < s.nDaemons → s.stopReq d = true → s.coop d = true → s.dm d = .ended)
    ∧ (s.killed = true → ∀ d, d < s.nDaemons → s.dm d = .running → s.stopReq d = true) := by
  have hB := InvB.reach hr
  have hC := InvC.reach hr
  have hE := InvE.reach (cfg := cfg) hr
  obtain ⟨h1, h2⟩ := hC.cleanupB h
  have hsub : ∀ i, i < s.nSubs → (s.st (.sub i)).live = false := by
    intro i hi
    cases hl : (s.st (.sub i)).live with
    | false => rfl
    | true =>
      have := hB.subOrch i hi hl
      rw [TS.ended_not_active (h1 .orchestrator (by decide))] at this
      cases this
  refine ⟨h1, h2, hsub, ?_, ?_, hE.sweptReq⟩
  · intro w o hw
    cases o with
    | root r =>
      obtain ⟨_, hact, hk⟩ := hB.wkRoot w r hw
      have hne : r ≠ .startupCleanup := by intro hc; subst hc; simp [Root.kind] at hk
      rw [TS.ended_not_active (h1 r hne)] at hact
      cases hact
    | sub i =>
      obtain ⟨_, hact, hi⟩ := hB.wkSub w i hw
      have := hsub i hi
      rw [TS.active_live hact] at this
      cases this
  · intro hnf d hd hsr hco
    have hkc : s.killerCut = false := by
      cases hk : s.killerCut with
      | false => rfl
      | true => have := ((InvK.reach hr).cut (Or.inl hk)).2; rw [h] at this; cases this
    have h3 := hE.killerDone (h1 .daemonKiller (by decide)) hnf hkc d hd hsr hco
    have h4 := hE.dmPresent d hd
    cases hdm : s.dm d with
    | ended => rfl
    | running => exact absurd hdm h3
    | absent => exact absurd hdm h4

/-! ### The run call re-raises the failure -/

/-- When `operator()` is over it has an outcome; it raises only if some root task — or some HUNG task (`run_tasks`
    re-raises `root_done | root_cancelled | hung_done | hung_cancelled`: a daemon's helper cancelled as a hung task can fail
    the whole run, see finding C20-F9) — has failed, and it returns normally only if NO root task failed (the cancelled
    outcome is the operator's own cancellation). WHICH of several failures is raised is not specified by the code (set
    iteration order) and not by the model. -/
theorem reraise {cfg : Cfg} {s : State} (hr : Reach cfg s) (hex : s.rt = .exited) :
    ∃ r, s.result = some r ∧ (r = .raised → (∃ q, s.st (.root q) = .failed) ∨ s.hungFailed = true)
      ∧ (r = .returned → ∀ q, s.st (.root q) ≠ .failed) := by
  have hB := InvB.reach hr
  have hC := InvC.reach hr
  obtain ⟨r, hres⟩ := hC.resultSome hex
  refine ⟨r, hres, ?_, ?_⟩
  · intro h; subst h
    rcases hC.resRaised hres with h | h
    · exact Or.inl (hB.rootFailedIff.mp h)
    · exact Or.inr h
  · intro h q hq; subst h
    have := hB.rootFailedIff.mpr ⟨q, hq⟩
    rw [hC.resReturned hres] at this
    cases this

/-- No daemon task is alive when `operator()` is over (whoever ended it: its exit stopper, or the hung-task
    cancellation of `run_tasks`; see `cleanup_last` for what is over BEFORE the cleanup). -/
theorem no_daemon_alive_at_return {cfg : Cfg} {s : State} (hr : Reach cfg s) (hex : s.rt = .exited) :
    ∀ d, d < s.nDaemons → s.dm d = .ended := by
  intro d hd
  have h1 := ((InvC.reach hr).exitedHung hex).2.1 d hd
  have h2 := (InvE.reach (cfg := cfg) hr).dmPresent d hd
  cases hdm : s.dm d with
  | ended => rfl
  | running => exact absurd hdm h1
  | absent => exact absurd hdm h2

/-- The peering record: when `operator()` is over every keep-alive task has ended, and none ends without having
    ATTEMPTED the withdrawal (`lifetime=0` PATCH). PARTIAL w.r.t. the property's "the record is withdrawn": that FULL CLAUSE is
    NOT provable — kopf logs and ignores a failure of that PATCH (`peering.keepalive`'s `finally:`), see
    `withdrawal_may_fail_witness` (deviation C20-D3). -/
theorem peering_withdrawal_attempted_partial {cfg : Cfg} {s : State} (hr : Reach cfg s) (hex : s.rt = .exited)
    (i : Nat) (hi : i < s.nSubs) (hk : s.kind i = .pinger) :
    (s.st (.sub i)).ended = true ∧ s.withdrawn i = true := by
  have hB := InvB.reach hr
  have hC := InvC.reach hr
  have hoe := hC.hungRoots (by simp [hex]) (by simp [hex]) (by simp [hex]) .orchestrator
  have hpres := (InvE.reach (cfg := cfg) hr).subPresent i hi
  have hend : (s.st (.sub i)).ended = true := by
    cases hst : s.st (.sub i) with
    | absent => exact absurd hst hpres
    | failed | cancelled | done => rfl
    | waitingFlag | running | stopping f dl =>
      have := hB.subOrch i hi (by simp [hst])
      rw [TS.ended_not_active hoe] at this
      cases this
  exact ⟨hend, hB.withdrawnJ i hi hk hend⟩


/-! ### The order of the orchestrator's exit: the handling stops first, the peering record is withdrawn last -/

/-- HANDLING FIRST, WITHDRAWAL LAST (since /repo 26a293c, `stop_in_order`; tie: `stops_pingers_last_eq`). Once the exiting
    orchestrator has begun its SECOND stop (`orchPing`: the segment that cancels the keep-alives — and only their `finally:`
    withdraws the peering record), every stream of its ensemble — resource watchers, peering observers — has ended, and no
    worker of an ensemble task runs: no handler is in flight any more, and none will be (nothing is spawned by an exiting
    orchestrator). Holds in EVERY reachable state, cooperative or not, whatever failed and whenever the stops came. -/
theorem withdrawal_after_handling_stopped {cfg : Cfg} {s : State} (hr : Reach cfg s) (hp : s.orchPing = true) :
    (∀ j, j < s.nSubs → s.kind j ≠ .pinger → (s.st (.sub j)).live = false)
    ∧ (∀ w j, s.wk w ≠ some (.sub j, .running))
    ∧ (s.st (.root .orchestrator) ≠ .running ∧ s.st (.root .orchestrator) ≠ .waitingFlag) := by
  have hB := InvB.reach hr
  have h1 := hB.pingStreams hp
  refine ⟨h1, ?_, ?_⟩
  · intro w j hw
    obtain ⟨_, hact, hj⟩ := hB.wkSub w j hw
    have := h1 j hj (hB.wkKind w j hw)
    rw [TS.active_live hact] at this
    cases this
  · rcases hB.pingOrch hp with h | h
    · rw [TS.isStopping_iff] at h
      obtain ⟨f, dl, h⟩ := h
      rw [h]; simp
    · cases hst : s.st (.root .orchestrator) <;> simp_all

/-- … and NOTHING ELSE in the exit stops a keep-alive. (1) The orchestrator's first stop spares the keep-alives and the second
    one has not begun when the first does; (2) while the orchestrator is exiting, a keep-alive that is running and not cancelled
    stays so under every label but two: the second stop (`orchStopPingers` — enabled only when no stream is alive and not before
    the first: with `withdrawal_after_handling_stopped`, after the handling has stopped) and its OWN failure
    (`subStopping i true`: a failing keep-alive request — kopf then withdraws while the streams still deplete; not an effect of
    the exit); (3) the orchestrator does not end before both stops are over. So a keep-alive that the exit finds running
    withdraws the record only after the last watcher has ended. -/
theorem exit_stops_keepalives_last {cfg : Cfg} {s s' : State} {l : Label} (hr : Reach cfg s)
    (h : step cfg s l = some s') :
    (∀ f, l = .rootStopping .orchestrator f → s'.orchPing = false ∧
        ∀ i, s.kind i = .pinger → s'.st (.sub i) = s.st (.sub i) ∧ s'.creq (.sub i) = s.creq (.sub i))
    ∧ ((s'.st (.root .orchestrator)).isStopping = true →
        ∀ i, i < s.nSubs → s.kind i = .pinger → s.st (.sub i) = .running → s.creq (.sub i) = false →
          (s'.st (.sub i) = .running ∧ s'.creq (.sub i) = false ∧ s'.kind i = .pinger ∧ i < s'.nSubs)
          ∨ l = .orchStopPingers ∨ l = .subStopping i true)
    ∧ (l = .orchStopPingers → (∀ j, j < s.nSubs → s.kind j ≠ .pinger → (s.st (.sub j)).live = false)
        ∧ (s.st (.root .orchestrator)).isStopping = true ∧ s'.orchPing = true)
    ∧ (∀ how, l = .rootEnd .orchestrator how → (s.st (.root .orchestrator)).isStopping = true → s.orchPing = true) := by
  have hB := InvB.reach hr
  refine ⟨?_, ?_, ?_, ?_⟩
  · intro f hl
    subst hl
    have hop : s.orchPing = false := by
      cases hp : s.orchPing with
      | false => rfl
      | true =>
        exfalso
        have hst : s.st (.root .orchestrator) = .running := by
          simp only [step] at h
          split at h
          · rename_i hg; exact hg.2
          · cases h
        rcases hB.pingOrch hp with h1 | h1 <;> simp [hst] at h1
    simp only [step, Root.kind] at h
    split at h
    · split at h
      · cases h
        refine ⟨hop, ?_⟩
        intro i hk
        simp [upd, cancelSubs, hk]
      · cases h
    · cases h
  · intro ho i hi hk hrun hc
    exact keepalive_step hB h ho i hi hk hrun hc
  · intro hl
    subst hl
    simp only [step] at h
    split at h
    · rename_i hg
      split at h
      · rename_i f dl hst
        cases h
        exact ⟨(noLiveStream_iff s).mp hg.2.2, by simp [hst], rfl⟩
      · cases h
    · cases h
  · intro how hl hos
    subst hl
    rw [TS.isStopping_iff] at hos
    obtain ⟨f, dl, hst⟩ := hos
    simp only [step, Root.kind, hst] at h
    split at h
    · split at h
      · rename_i hg; exact hg.2.2
      · cases h
    · cases h

/-! ### Worker failures -/

/-- THE CLAIM for the current tree (`cfg.deplEscalates = true`, since /repo 69d1957 — repair of finding C20-F5; tie-checked):
    an object worker that fails unrecoverably ALWAYS reaches its watcher, wherever the watcher is — streaming (it is
    cancelled with `worker_error` set: `exception_handler`) or already in its `finally:` (depleting its workers on the
    operator's exit, after an HTTP 404, after `terminate_redundancies`: `worker_error` is set and the watcher is going to
    raise the RuntimeError after the depletion, `stopping true`) — and a watcher with `worker_error` can only end FAILED.
    No guard on the watcher's state any more (before 69d1957 this needed "the watcher still streams":
    `historical_worker_failure_during_depletion_dropped_witness`, `historical_worker_failure_after_gone_keeps_running_witness`). -/
theorem worker_failure_reaches_watcher {cfg : Cfg} (hde : cfg.deplEscalates = true) {s s' : State} (hr : Reach cfg s)
    (w : Nat) (o : Task) (hw : s.wk w = some (o, .running))
    (h : step cfg s (.workerEnd w .failed) = some s') :
    s'.werr o = true ∧ (s'.creq o = true ∨ ∃ dl, s'.st o = .stopping true dl) ∧
    (∀ t : State, Reach cfg t → t.werr o = true → (t.st o).ended = true → t.st o = .failed) := by
  have hB := InvB.reach hr
  -- the owner of a running worker streams, or is in its `finally:` (which has a deadline)
  have hown : s.st o = .running ∨ ∃ f dl, s.st o = .stopping f (some dl) := by
    cases o with
    | root r =>
      obtain ⟨_, hact, hk⟩ := hB.wkRoot w r hw
      cases hst : s.st (.root r) with
      | running => exact Or.inl rfl
      | stopping f dl =>
        cases dl with
        | some d => exact Or.inr ⟨f, d, rfl⟩
        | none => have := hB.stoppingNone r f hst; subst this; simp [Root.kind] at hk
      | _ => rw [hst] at hact; simp at hact
    | sub i =>
      obtain ⟨_, hact, _⟩ := hB.wkSub w i hw
      cases hst : s.st (.sub i) with
      | running => exact Or.inl rfl
      | stopping f dl =>
        cases dl with
        | some d => exact Or.inr ⟨f, d, rfl⟩
        | none => exact absurd hst (hB.subSome i f)
      | _ => rw [hst] at hact; simp at hact
  -- an owner that has `worker_error` already: cancelled, or on its way to fail
  have hwerr : s.werr o = true → s.creq o = true ∨ ∃ dl, s.st o = .stopping true dl := by
    intro hwe
    have hne : s.st o ≠ .failed := by
      rcases hown with h1 | ⟨f, dl, h1⟩ <;> rw [h1] <;> simp
    cases o with
    | root r =>
      rcases (hB.werrRoot r hwe).2 with ⟨_, hc⟩ | ⟨dl, hs⟩ | hs
      · exact Or.inl hc
      · exact Or.inr ⟨dl, hs⟩
      · exact absurd hs hne
    | sub i =>
      rcases (hB.werrSub i hwe).2 with ⟨_, hc⟩ | ⟨dl, hs⟩ | hs
      · exact Or.inl hc
      · exact Or.inr ⟨dl, hs⟩
      · exact absurd hs hne
  have h12 : s'.werr o = true ∧ (s'.creq o = true ∨ ∃ dl, s'.st o = .stopping true dl) := by
    simp only [step] at h
    split at h
    · simp only [hw] at h
      split at h
      · -- the watcher streams: cancelled, `worker_error` set
        cases h; exact ⟨by simp, Or.inl (by simp)⟩
      · rename_i hn
        cases hwe : s.werr o with
        | true =>
          -- a second error: only logged, the first one is on its way
          rw [if_neg (by simp [hwe])] at h
          cases h
          exact ⟨hwe, hwerr hwe⟩
        | false =>
          rw [if_pos ⟨hde, hwe⟩] at h
          rcases hown with h1 | ⟨f, dl, h1⟩
          · exact absurd ⟨h1, hwe⟩ hn
          · simp only [h1] at h
            cases h
            exact ⟨by simp, Or.inr ⟨some dl, by simp⟩⟩
    · cases h
  refine ⟨h12.1, h12.2, ?_⟩
  intro t ht hwe hend
  have hBt := InvB.reach ht
  cases o with
  | root r =>
    rcases (hBt.werrRoot r hwe).2 with ⟨hs, _⟩ | ⟨dl, hs⟩ | hs
    · rw [hs] at hend; cases hend
    · rw [hs] at hend; cases hend
    · exact hs
  | sub i =>
    rcases (hBt.werrSub i hwe).2 with ⟨hs, _⟩ | ⟨dl, hs⟩ | hs
    · rw [hs] at hend; cases hend
    · rw [hs] at hend; cases hend
    · exact hs

/-- A failed worker stops the whole operator (current tree, `fixed`; that the failure reaches the watcher — `werr` — wherever
    the watcher is: `worker_failure_reaches_watcher`): the watcher — a root observer or an ensemble task — can only end
    FAILED and is not "gone" (HTTP 404 cannot overtake the pending cancellation, and a worker failing during the depletion
    of a "gone" watcher makes it fail with the RuntimeError instead). For a root observer that is a
    root failure; for an ensemble task the running orchestrator is cancelled at once and cooperative time cannot
    pass (then `stream_failure_stops_all`, `root_failure_stops_all`, `returns_partial`). -/
theorem worker_failure_stops_all {cfg : Cfg} (hfix : cfg.fixed = true) {s : State} (hr : Reach cfg s) :
    (∀ r, s.werr (.root r) = true → (s.st (.root r)).ended = true →
        s.st (.root r) = .failed ∧ s.rootFailed = true ∧ (s.rt = .waiting → ∀ n, coopDelay cfg s n = false))
    ∧ (∀ i, s.werr (.sub i) = true → (s.st (.sub i)).ended = true →
        s.st (.sub i) = .failed ∧ s.gone i = false ∧
        (s.st (.root .orchestrator) = .running → s.creq (.root .orchestrator) = true ∧ ∀ n, coopDelay cfg s n = false)) := by
  have hB := InvB.reach hr
  have hE := InvE.reach (cfg := cfg) hr
  refine ⟨?_, ?_⟩
  · intro r hw he
    have hf : s.st (.root r) = .failed := by
      rcases (hB.werrRoot r hw).2 with ⟨hs, _⟩ | ⟨dl, hs⟩ | hs
      · rw [hs] at he; cases he
      · rw [hs] at he; cases he
      · exact hs
    exact ⟨hf, hB.rootFailedIff.mpr ⟨r, hf⟩, fun hwt => (root_ended_urgent r he hwt).1⟩
  · intro i hw he
    obtain ⟨hi, hdisj⟩ := hB.werrSub i hw
    have hf : s.st (.sub i) = .failed := by
      rcases hdisj with ⟨hs, _⟩ | ⟨dl, hs⟩ | hs
      · rw [hs] at he; cases he
      · rw [hs] at he; cases he
      · exact hs
    have hg := hE.werrNotGone i hw
    refine ⟨hf, hg, ?_⟩
    intro horch
    have hc := hE.fixedEdge hfix i hi hf hg horch
    refine ⟨hc, ?_⟩
    intro n
    have hu : urgent cfg s = true := by
      unfold urgent
      have : Root.all.any (fun r => taskUrgent s (.root r)) = true := by
        rw [List.any_eq_true]
        exact ⟨.orchestrator, Root.mem_all _, by simp [taskUrgent, horch, hc]⟩
      simp [this]
    simp [coopDelay, hu]

/-! ### Bounded exit -/

/-- PARTIAL w.r.t. the property's "within the bounded grace periods": proved for COOPERATIVE runs only (`ReachC`:
    every `delay` satisfies `coopDelay` — tasks honour cancellation at once, the cleanup activity takes at most `C`,
    kopf sets no limit for it). From the moment `run_tasks` begins to stop the root tasks
    (`t0`: a root task ended, or `operator()` was cancelled; a REPEATED cancellation afterwards only shortens the rest) the
    operator is gone within
    `E` (worker depletion, `settings.queueing.exit_timeout`) + `W` (peering withdrawal) + `D` (exit stoppers of
    daemons) + `C` (cleanup activity) + `H` (hung tasks, 5 s). For a NON-cooperative run nothing bounds the exit
    (`aiotasks.stop` has no timeout): `noncooperative_exit_unbounded_witness`. The time between a failure and `t0` is
    covered by `failure_to_stop_bound_partial`. -/
theorem exit_bound_partial {cfg : Cfg} {s : State} (hr : ReachC cfg s) (t : Nat) (ht : s.t0 = some t) :
    s.now ≤ t + cfg.E + cfg.W + cfg.D + cfg.C + cfg.H ∧
    (∀ x, s.exitAt = some x → x ≤ t + cfg.E + cfg.W + cfg.D + cfg.C + cfg.H) := by
  have hC := InvC.reach hr.reach
  have hD := InvD.reachC hr
  have hE := InvE.reach (cfg := cfg) hr.reach
  have hnow : s.now ≤ t + G cfg + cfg.C + cfg.H := by
    cases hrt : s.rt with
    | waiting => have := (hC.waitingEarly hrt).2.2; rw [ht] at this; cases this
    | stoppingRoots => have := hD.g2 t ht (Or.inl hrt); omega
    | cStoppingRoots => have := hD.g2 t ht (Or.inr hrt); omega
    | hungWait dl => have := hD.dlHung dl hrt; have := hD.hung t dl ht hrt; omega
    | stoppingHung => exact hD.fin t ht (Or.inl hrt)
    | cStoppingHung => exact hD.fin t ht (Or.inr (Or.inl hrt))
    | exited => exact hD.fin t ht (Or.inr (Or.inr hrt))
  unfold G at hnow
  refine ⟨by omega, ?_⟩
  intro x hx
  have := (hE.exitNow x hx).2
  omega

/-- PARTIAL (cooperative runs, like `exit_bound_partial`): FROM THE FAILURE. `tFail` is the moment of the first
    failure the code escalates (`markFail`: a failed startup handler, a failing stream or task of a root observer,
    a worker failing under a streaming watcher or — variant `deplEscalates` — a depleting one; an ensemble task in the
    variant `fixed`, the core task in the variant `coreWatched`). `run_tasks` stops waiting within `2·(E+W+D)` of it (the failing task's own `finally:`, then — for
    an ensemble task — the orchestrator stopping the other streams), hence the operator is gone within
    `3·(E+W+D) + C + H` of the failure. This is the bound the oracle of the harness uses for runs with a failure. -/
theorem failure_to_stop_bound_partial {cfg : Cfg} {s : State} (hr : ReachC cfg s) (tf : Nat)
    (htf : s.tFail = some tf) :
    (s.rt = .waiting → s.now ≤ tf + 2 * (cfg.E + cfg.W + cfg.D))
    ∧ (∀ t, s.t0 = some t → t ≤ tf + 2 * (cfg.E + cfg.W + cfg.D))
    ∧ s.now ≤ tf + 3 * (cfg.E + cfg.W + cfg.D) + cfg.C + cfg.H := by
  have hT := InvT.reachC hr
  have hT0 := InvT0.reachC hr
  have hC := InvC.reach hr.reach
  have h1 : s.rt = .waiting → s.now ≤ tf + 2 * (cfg.E + cfg.W + cfg.D) := by
    intro hw; have := hT.bound tf hw htf; unfold G at this; exact this
  have h2 : ∀ t, s.t0 = some t → t ≤ tf + 2 * (cfg.E + cfg.W + cfg.D) := by
    intro t ht; have := hT0 t tf ht htf; unfold G at this; exact this
  refine ⟨h1, h2, ?_⟩
  by_cases hw : s.rt = .waiting
  · have := h1 hw; omega
  · obtain ⟨t, ht, _⟩ := hC.t0Some hw
    have := h2 t ht
    have := (exit_bound_partial hr t ht).1
    omega

/-! ### The stream / worker failure clause (ensemble tasks) -/

/-- HISTORICAL: the model of the code BEFORE /repo 9ef1bcb (no edge from the ensemble tasks to the orchestrator),
    with the default grace periods in ticks of 1/64 s. -/
def cfgHistorical : Cfg := { fixed := false, coreWatched := false, orchShielded := false, spawnSwept := false, stopSwept := false,
                             deplEscalates := false, orchSwept := false, E := 128, W := 264, D := 64, C := 32, H := 320 }

/-- THE CURRENT TREE: what `Kopf/Tie/C20.lean` proves equal to the facts extracted from the source. -/
def cfgHead : Cfg := headCfg 128 264 64 32 320

/-- HISTORICAL: the tree BEFORE /repo ed52a1a, when nobody awaited the core task (finding C20-F6) -/
def cfgCoreUnwatched : Cfg := { cfgHead with coreWatched := false }

/-- the tree with the repair of C20-F6 (/repo ed52a1a) — equal to `cfgHead` (`cfgProposed_eq_head`); the name is kept
    from the time when the repair was a proposal -/
def cfgProposed : Cfg := { cfgHead with coreWatched := true }

theorem cfgProposed_eq_head : cfgProposed = cfgHead := rfl

/-- HISTORICAL: the tree BEFORE /repo ab6fb15, when the orchestrator did not shield the stop of its ensemble (finding C20-F8) -/
def cfgUnshielded : Cfg := { cfgHead with orchShielded := false }

/-- HISTORICAL: the tree BEFORE /repo d6da86b, when a cancellation inside `spawn_tasks` was not handled (finding C20-F10) -/
def cfgSpawnUnswept : Cfg := { cfgHead with spawnSwept := false }

/-- HISTORICAL: the tree BEFORE /repo 883284c, when a cancellation while `run_tasks` stopped the root tasks was not handled
    (finding C20-F11) -/
def cfgStopUnswept : Cfg := { cfgHead with stopSwept := false }

/-- HISTORICAL: the tree BEFORE /repo 69d1957, when a worker failing during its watcher's depletion was only logged
    (finding C20-F5) -/
def cfgDeplSilent : Cfg := { cfgHead with deplEscalates := false }

/-- startup succeeds, every guarded task and the core task enter -/
def startAll : List Label :=
  [.scStartupBegin, .scStartupEnd .none, .setStarted, .ready,
   .enter .daemonKiller, .coreEnter, .enter .poster, .enter .admChain, .enter .admValidating, .enter .admMutating,
   .enter .admServer, .enter .resObserver, .enter .nsObserver, .enter .orchestrator]

/-- … the orchestrator starts a resource watcher, its stream fails (fatal ERROR event → `WatchingError`), the
    watcher task ends FAILED -/
def lingerPrefix : List Label := startAll ++ [.subSpawn .watcher, .subStopping 0 true, .subEnd 0 .failed]

/-- HISTORICAL WITNESS (finding F3, repaired by /repo 9ef1bcb) — about the OLD code, i.e. the variant
    `fixed := false`, NOT about the current tree: there, after a watcher task of the ensemble had failed, ANY amount
    of time could pass COOPERATIVELY with the operator still waiting, every root task alive, nothing cancelled, no
    outcome. Kept to show that the hypothesis `cfg.fixed = true` of `stream_failure_stops_all` is not decorative. -/
theorem historical_stream_failure_lingers_witness (n : Nat) (hn : 0 < n) :
    ∃ s, runC cfgHistorical init (lingerPrefix ++ [.delay n]) = some s
      ∧ s.st (.sub 0) = .failed ∧ s.rt = .waiting ∧ s.result = none ∧ s.now = n
      ∧ (∀ r, (s.st (.root r)).live = true) ∧ (∀ r, s.creq (.root r) = false) := by
  have hp : ∃ s0, runC cfgHistorical init lingerPrefix = some s0 ∧ quiet s0 = true ∧ urgent cfgHistorical s0 = false
      ∧ s0.rt = .waiting ∧ s0.st (.sub 0) = .failed ∧ s0.result = none ∧ s0.now = 0
      ∧ (∀ r, (s0.st (.root r)).live = true) ∧ (∀ r, s0.creq (.root r) = false) := by
    refine ⟨_, rfl, by decide, by decide, rfl, by decide, rfl, rfl, ?_, ?_⟩ <;> (intro r; cases r <;> decide)
  obtain ⟨s0, h0, hq, hu, hw, hf, hres, hnow, hl, hc⟩ := hp
  refine ⟨{ s0 with now := s0.now + n }, ?_, hf, hw, hres, by simp [hnow], hl, hc⟩
  rw [runC_append, h0]
  simp only [Option.bind_some, runC]
  rw [quiet_delay hq hu (by simp [hw]) n hn]

/-- THE CLAIM for the current tree (`cfg.fixed = true`): a failed ensemble task (watch stream, peering watch,
    keep-alive — or a watcher failed by its worker; NOT a watcher whose resource is merely gone, HTTP 404) cancels
    the running orchestrator at once (no cooperative time passes), the orchestrator then can only end FAILED, i.e. a
    root failure: everything is stopped (`root_failure_stops_all`), the run call returns (`returns_partial`, within
    `failure_to_stop_bound_partial`), and not normally — also when a stop request or another failure follows while the
    orchestrator is stopping its ensemble (since /repo ab6fb15 a second cancellation does not reach it: `cancelRootsV`). -/
theorem stream_failure_stops_all {cfg : Cfg} (hfix : cfg.fixed = true) {s : State} (hr : Reach cfg s) :
    (∀ i s', s.st (.root .orchestrator) = .running → s.gone i = false →
        step cfg s (.subEnd i .failed) = some s' →
        s'.creq (.root .orchestrator) = true ∧ s'.orchErr = true ∧ ∀ n, coopDelay cfg s' n = false)
    ∧ (∀ i, i < s.nSubs → s.st (.sub i) = .failed → s.gone i = false → s.st (.root .orchestrator) = .running →
        s.creq (.root .orchestrator) = true ∧ ∀ n, coopDelay cfg s n = false)
    ∧ (s.orchErr = true → (s.st (.root .orchestrator)).ended = true → s.st (.root .orchestrator) = .failed)
    ∧ (s.orchErr = true → s.rt = .exited → s.result = some .raised ∨ s.result = some .cancelled) := by
  have hB := InvB.reach hr
  have hC := InvC.reach hr
  have hE := InvE.reach (cfg := cfg) hr
  have urgent_of : ∀ t : State, t.st (.root .orchestrator) = .running → t.creq (.root .orchestrator) = true →
      ∀ n, coopDelay cfg t n = false := by
    intro t h1 h2 n
    have hu : urgent cfg t = true := by
      unfold urgent
      have : Root.all.any (fun r => taskUrgent t (.root r)) = true := by
        rw [List.any_eq_true]
        exact ⟨.orchestrator, Root.mem_all _, by simp [taskUrgent, h1, h2]⟩
      simp [this]
    simp [coopDelay, hu]
  refine ⟨?_, ?_, ?_, ?_⟩
  · intro i s' horch hgone h
    simp only [step] at h
    split at h
    · split at h
      · rename_i f dl hst
        split at h
        · rename_i hg
          have hf : f = true := by
            have := hg.1
            cases f <;> simp [failTS] at this ⊢
          subst hf
          rw [if_pos ⟨hfix, rfl, hgone, horch⟩] at h
          cases h
          refine ⟨by simp, rfl, ?_⟩
          apply urgent_of
          · simp [horch]
          · simp
        · cases h
      · cases h
    · cases h
  · intro i hi hf hgone horch
    have hc := hE.fixedEdge hfix i hi hf hgone horch
    exact ⟨hc, urgent_of s horch hc⟩
  · intro he hend
    rcases (hE.orchErrJ he).2 with ⟨h1, _⟩ | h1 | h1
    · rw [h1] at hend; cases hend
    · rw [h1] at hend; cases hend
    · exact h1
  · intro he hex
    have hended := hC.hungRoots (by simp [hex]) (by simp [hex]) (by simp [hex]) .orchestrator
    have hf : s.st (.root .orchestrator) = .failed := by
      rcases (hE.orchErrJ he).2 with ⟨h1, _⟩ | h1 | h1
      · rw [h1] at hended; cases hended
      · rw [h1] at hended; cases hended
      · exact h1
    have hrf : s.rootFailed = true := hB.rootFailedIff.mpr ⟨.orchestrator, hf⟩
    obtain ⟨r, hres⟩ := hC.resultSome hex
    cases r with
    | raised => exact Or.inl hres
    | cancelled => exact Or.inr hres
    | returned => have := hC.resReturned hres; rw [hrf] at this; cases this

/-- HTTP 404 is not a failure: a watcher whose resource is gone (`subGone`: e.g. its CRD was deleted) ends with
    that exception, but the orchestrator is neither cancelled nor marked as failed by it; and as long as the
    orchestrator runs, a new task can be spawned for the key (`terminate_redundancies` drops the keys of exited
    tasks, the spawners start them again when the pair is still or again served). -/
theorem gone_is_not_a_failure {cfg : Cfg} {s s' : State} (i : Nat) (hg : s.gone i = true)
    (h : step cfg s (.subEnd i .failed) = some s') :
    s'.creq (.root .orchestrator) = s.creq (.root .orchestrator) ∧ s'.orchErr = s.orchErr
    ∧ s'.st (.root .orchestrator) = s.st (.root .orchestrator)
    ∧ (s.st (.root .orchestrator) = .running → ∀ k, (step cfg s' (.subSpawn k)).isSome = true) := by
  simp only [step] at h
  split at h
  · rename_i hne
    split at h
    · split at h
      · rw [if_neg (by simp [hg])] at h
        have hs1 : s' = { s with st := upd s.st (.sub i) .failed } := by
          split at h
          · rw [if_neg (by simp [hg])] at h; cases h; rfl
          · cases h; rfl
        subst hs1
        refine ⟨rfl, rfl, by simp, ?_⟩
        intro horch k
        simp [step, hne.1, horch]
      · cases h
    · cases h
  · cases h

/-! ### The core task (credentials retriever): finding C20-F6, repaired by /repo ed52a1a -/

/-- … the core task fails (the login handlers fail for good: `ActivityError`) -/
def coreFail : List Label := startAll ++ [.coreEnd .failed]

/-- HISTORICAL WITNESS (finding C20-F6, repaired by /repo ed52a1a) — about the OLD code, i.e. the variant
    `coreWatched := false`, NOT about the current tree: there, after the core task had failed, ANY amount of time could
    pass cooperatively with the operator still waiting — every root task alive, nothing cancelled, no outcome, and the
    failure was not even one the code escalated (`tFail = none`). Kept to show that the hypothesis
    `cfg.coreWatched = true` of `core_failure_stops_all` is not decorative. -/
theorem historical_core_failure_lingers_witness (n : Nat) (hn : 0 < n) :
    ∃ s, runC cfgCoreUnwatched init (coreFail ++ [.delay n]) = some s
      ∧ s.core = .failed ∧ s.rt = .waiting ∧ s.result = none ∧ s.now = n ∧ s.tFail = none
      ∧ (∀ r, (s.st (.root r)).live = true) ∧ (∀ r, s.creq (.root r) = false) := by
  have hp : ∃ s0, runC cfgCoreUnwatched init coreFail = some s0 ∧ quiet s0 = true ∧ urgent cfgCoreUnwatched s0 = false
      ∧ s0.rt = .waiting ∧ s0.core = .failed ∧ s0.result = none ∧ s0.now = 0 ∧ s0.tFail = none
      ∧ (∀ r, (s0.st (.root r)).live = true) ∧ (∀ r, s0.creq (.root r) = false) := by
    refine ⟨_, rfl, by decide, by decide, rfl, by decide, rfl, rfl, rfl, ?_, ?_⟩ <;> (intro r; cases r <;> decide)
  obtain ⟨s0, h0, hq, hu, hw, hf, hres, hnow, htf, hl, hc⟩ := hp
  refine ⟨{ s0 with now := s0.now + n }, ?_, hf, hw, hres, by simp [hnow], htf, hl, hc⟩
  rw [runC_append, h0]
  simp only [Option.bind_some, runC]
  rw [quiet_delay hq hu (by simp [hw]) n hn]

/-- … the operator lingers for 10 s, is then stopped by its stop flag, and everything ends in order -/
def coreFailEnd : List Label := coreFail ++
  [.delay 640, .setStopFlag, .rootEnd .stopFlag .done, .rtStopRoots,
   .rootEnd .ultimate .done, .rootEnd .coreWatcher .cancelled, .scWake, .rootEnd .poster .cancelled,
   .rootEnd .admChain .cancelled, .rootEnd .admValidating .cancelled, .rootEnd .admMutating .cancelled,
   .rootEnd .admServer .cancelled, .rootEnd .nsObserver .cancelled, .rootEnd .resObserver .cancelled,
   .rootStopping .orchestrator false, .orchStopPingers, .rootEnd .orchestrator .cancelled,
   .rootEnd .daemonKiller .cancelled, .scWaitRootsEnd, .scStopCore, .scCoreStopped,
   .rootEnd .startupCleanup .failed, .rtHungWait, .rtStopHung, .rtExit .raised]

/-- HISTORICAL WITNESS, second half of C20-F6 (OLD code, variant `coreWatched := false`): when such an operator was
    finally stopped (here by its stop flag), the core task's error was re-raised BEFORE the cleanup activity — the
    cleanup handlers never ran. Shows that the last conjunct of `core_failure_stops_all` needs its hypothesis. -/
theorem historical_core_failure_skips_cleanup_witness :
    ∃ s, runC cfgCoreUnwatched init coreFailEnd = some s ∧ s.rt = .exited ∧ s.result = some .raised
      ∧ s.cleanupBegun = false ∧ s.t0 = some 640 :=
  ⟨_, rfl, by decide, by decide, by decide, by decide⟩

/-- THE CLAIM for the current tree (`cfg.coreWatched = true`, tie-checked; `cfgHead` satisfies it by `rfl`): a failed
    core task makes the root task that awaits the core tasks (`coreWatcher`: in the code the stop-flag checker)
    fail at once: while that watcher runs no cooperative time passes and its failing is enabled; it can
    end only FAILED (or cancelled, when a stop is already under way); if it is not running any more, a root task
    has already ended (`Triggered`). Either way everything is stopped (`root_failure_stops_all`), the run call returns
    (`returns_partial`) and raises; and the cleanup activity is NOT skipped: the error is re-raised after it. -/
theorem core_failure_stops_all {cfg : Cfg} (hcw : cfg.coreWatched = true) {s : State} (hr : Reach cfg s)
    (hc : s.core = .failed) :
    (s.st (.root .coreWatcher) = .running → s.rt ≠ .exited →
        (∀ n, coopDelay cfg s n = false) ∧ (step cfg s (.rootEnd .coreWatcher .failed)).isSome = true)
    ∧ (∀ how s', s.creq (.root .coreWatcher) = false → step cfg s (.rootEnd .coreWatcher how) = some s' →
        how = .failed ∧ s'.rootFailed = true)
    ∧ (s.st (.root .coreWatcher) ≠ .running → Triggered s)
    ∧ (s.st (.root .coreWatcher) = .failed →
        s.rootFailed = true ∧ (s.rt = .exited → s.result = some .raised ∨ s.result = some .cancelled))
    ∧ (∀ s', s.sc = .coreStopping .none → step cfg s .scCoreStopped = some s' → s'.cleanupBegun = true) := by
  have hB := InvB.reach hr
  have hC := InvC.reach hr
  have hE := InvE.reach (cfg := cfg) hr
  refine ⟨?_, ?_, ?_, ?_, ?_⟩
  · intro hrun hne
    refine ⟨?_, by simp [step, hne, Root.kind, hrun, hcw, hc]⟩
    intro n
    have hu : urgent cfg s = true := by unfold urgent; simp [hcw, hc, hrun]
    simp [coopDelay, hu]
  · intro how s' hcr h
    simp only [step, Root.kind] at h
    split at h
    · split at h
      · rename_i hh; rw [hcr] at hh; exact absurd hh.2.2 (by simp)
      · split at h
        · rename_i hh; cases h; exact ⟨hh.2.1, by simp [hh.2.1]⟩
        · split at h
          · rename_i hh; rw [hc] at hh; exact absurd hh.2.2.2 (by simp)
          · cases h
    · cases h
  · intro hnr
    rcases hE.coreWatcherSt with h | h
    · exact absurd h hnr
    · exact Or.inr (Or.inl ((anyRootEnded_iff s).mpr ⟨_, h⟩))
  · intro hf
    have hrf : s.rootFailed = true := hB.rootFailedIff.mpr ⟨.coreWatcher, hf⟩
    refine ⟨hrf, ?_⟩
    intro hex
    obtain ⟨r, hres⟩ := hC.resultSome hex
    cases r with
    | raised => exact Or.inl hres
    | cancelled => exact Or.inr hres
    | returned => have := hC.resReturned hres; rw [hrf] at this; cases this
  · intro s' hsc h
    simp only [step, hsc] at h
    split at h
    · rw [if_neg (by simp [hcw])] at h
      cases h; rfl
    · cases h

/-! ### Nothing runs on after the run call has returned; the repeated cancellation -/

/-- When `operator()` is over — returned, raised or cancelled, on whichever path — NOTHING of it is alive: every root task
    has ended, and with them every ensemble task (watch streams, peering), every worker (hence every handler in flight),
    every daemon, the stop-flag waiter and every orphaned helper. (This is what the repaired findings C20-F10 / C20-F11
    violated: `operator()` returned BEFORE its tasks were over.) NOT claimed: the core task — the model lets
    `startup_cleanup_activities`, interrupted inside `stop(core_tasks)` by a repeated cancellation, end before it; in the
    code it is then awaited as a hung task. -/
theorem nothing_alive_at_return {cfg : Cfg} {s : State} (hr : Reach cfg s) (hex : s.rt = .exited) :
    (∀ r, (s.st (.root r)).ended = true)
    ∧ (∀ i, i < s.nSubs → (s.st (.sub i)).live = false)
    ∧ (∀ w o, s.wk w ≠ some (o, .running))
    ∧ (∀ d, d < s.nDaemons → s.dm d = .ended)
    ∧ s.waiter = false ∧ s.orphans = 0 := by
  have hB := InvB.reach hr
  have hC := InvC.reach hr
  have hroots := hC.hungRoots (by simp [hex]) (by simp [hex]) (by simp [hex])
  have hsub : ∀ i, i < s.nSubs → (s.st (.sub i)).live = false := by
    intro i hi
    cases hl : (s.st (.sub i)).live with
    | false => rfl
    | true =>
      have := hB.subOrch i hi hl
      rw [TS.ended_not_active (hroots .orchestrator)] at this
      cases this
  obtain ⟨hw, _, ho⟩ := hC.exitedHung hex
  refine ⟨hroots, hsub, ?_, no_daemon_alive_at_return hr hex, hw, ho⟩
  intro w o hwk
  cases o with
  | root r =>
    obtain ⟨_, hact, _⟩ := hB.wkRoot w r hwk
    rw [TS.ended_not_active (hroots r)] at hact
    cases hact
  | sub i =>
    obtain ⟨_, hact, hi⟩ := hB.wkSub w i hwk
    have := hsub i hi
    rw [TS.active_live hact] at this
    cases this

/-- A daemon killer whose `finally:` was interrupted by a REPEATED cancellation (`killerCut`: it ended without waiting
    for its exit stoppers, since /repo 883284c `run_tasks` cancels the root tasks again when `operator()` is cancelled
    while it is stopping) never meets the cleanup activity: the same call has cancelled `startup_cleanup_activities`
    in its wait for the other root tasks, which leaves WITHOUT running the cleanup handlers. So `cleanup_last` loses
    nothing: daemons whose stoppers nobody awaited never run beside the cleanup handlers. -/
theorem interrupted_killer_never_meets_cleanup {cfg : Cfg} {s : State} (hr : Reach cfg s) (hk : s.killerCut = true) :
    s.cleanupBegun = false :=
  ((InvK.reach hr).cut (Or.inl hk)).2

/-- In every variant with the three repairs (ab6fb15, d6da86b, 883284c) AND with an orchestrator that stops its ensemble on every
    exit of its loop (`orchSwept`: proposals/fix-C20-F12 — NOT the current tree) no run ever leaves the model: none of the
    `leaves` labels is enabled, `abandoned` stays false. -/
theorem repaired_never_abandoned {cfg : Cfg} (hsh : cfg.orchShielded = true) (hsp : cfg.spawnSwept = true)
    (hst : cfg.stopSwept = true) (hos : cfg.orchSwept = true) {s : State} (hr : Reach cfg s) : s.abandoned = false := by
  refine Reach.induction (P := fun s => s.abandoned = false) rfl ?_ s hr
  intro s s' l _ hI h
  cases hl : l.leaves with
  | false => rw [abandoned_step h hl]; exact hI
  | true =>
    exfalso
    cases l <;> simp [Label.leaves] at hl
    all_goals (simp only [step] at h; split at h)
    all_goals (first | (cases h; done) | skip)
    all_goals (rename_i hh; simp [hsh, hsp, hst, hos] at hh)

/-- THE MODEL OF THE CURRENT TREE (whatever the grace periods) leaves the model at ONE label only — `orchCrash`, the
    orchestrator's own failure (open finding C20-F12): a run without that label never sets `abandoned`. FULL statement wanted:
    `s.abandoned = false` for every reachable state (`head_never_abandoned`, true until the white-box hunt generated the
    orchestrator's own failure) — FALSE of the current tree: `orchestrator_own_failure_leaves_model_witness`. Every theorem of
    this file about the current tree speaks about the code only on runs without `orchCrash`. -/
theorem head_abandoned_only_by_orchestrator_failure_partial (e w d c h : Nat) (ls : List Label) {s : State}
    (hrun : run (headCfg e w d c h) init ls = some s) (hno : Label.orchCrash ∉ ls) : s.abandoned = false := by
  have key : ∀ (ls : List Label) (s0 s : State), s0.abandoned = false → run (headCfg e w d c h) s0 ls = some s →
      Label.orchCrash ∉ ls → s.abandoned = false := by
    intro ls
    induction ls with
    | nil => intro s0 s h0 hr _; simp [run] at hr; subst hr; exact h0
    | cons l ls ih =>
      intro s0 s h0 hr hno
      simp only [run] at hr
      cases hs : step (headCfg e w d c h) s0 l with
      | none => simp [hs] at hr
      | some s1 =>
        simp [hs] at hr
        have hl : l ≠ .orchCrash := fun hh => hno (by simp [hh])
        have hno' : Label.orchCrash ∉ ls := fun hh => hno (by simp [hh])
        refine ih s1 s ?_ hr hno'
        cases hlv : l.leaves with
        | false => rw [abandoned_step hs hlv]; exact h0
        | true =>
          exfalso
          cases l <;> simp [Label.leaves] at hlv
          all_goals (first | (exact hl rfl) | skip)
          all_goals (simp only [step] at hs; split at hs)
          all_goals (first | (cases hs; done) | skip)
          all_goals (rename_i hh; simp [headCfg, headShieldsStop, headSweepsSpawn, headSweepsStop] at hh)
  exact key ls init s rfl hrun hno

/-- the proposed tree: the orchestrator stops its ensemble on every exit of its loop (proposals/fix-C20-F12) -/
def cfgOrchSwept : Cfg := { cfgHead with orchSwept := true }

/-- startup; the orchestrator spawns a watcher and a keep-alive task; a worker of the watcher has a handler in flight -/
def orchCrashPrefix : List Label :=
  startAll ++ [.subSpawn .watcher, .subSpawn .pinger, .workerStart (.sub 0), .act (.worker 0)]

/-- WITNESS ABOUT THE CURRENT TREE (open finding C20-F12; replayed on kopf: corpus `C20-F12`, `C20-F12_no_peering`, trigger
    `orch_fail`): with the orchestrator running, a watcher and a keep-alive alive and a handler in flight, the orchestrator's own
    failure (`orchCrash`) is ENABLED and the run leaves the model — nothing of the ensemble has been asked to stop (no `creq`),
    the cleanup has not begun; the real code then runs the cleanup beside the live stream and the handler in flight, and with
    peering never returns. So `head_never_abandoned` (every reachable state of the model of the current tree has
    `abandoned = false`) is FALSE; `head_abandoned_only_by_orchestrator_failure_partial` is what remains. In the proposed tree
    (`cfgOrchSwept`) the label is not enabled. -/
theorem orchestrator_own_failure_leaves_model_witness :
    ∃ s0 s, runC cfgHead init orchCrashPrefix = some s0
      ∧ s0.abandoned = false ∧ s0.st (.root .orchestrator) = .running
      ∧ step cfgHead s0 .orchCrash = some s
      ∧ s.abandoned = true ∧ (s.st (.sub 0)).live = true ∧ (s.st (.sub 1)).live = true ∧ s.kind 1 = .pinger
      ∧ s.creq (.sub 0) = false ∧ s.creq (.sub 1) = false ∧ workerLive s 0 = true
      ∧ s.cleanupBegun = false ∧ s.rt = .waiting
      ∧ step cfgOrchSwept s0 .orchCrash = none :=
  ⟨_, _, rfl, by decide, by decide, rfl, by decide, by decide, by decide, by decide, by decide, by decide, by decide,
   by decide, by decide, by decide⟩

/-- … and a Reach-level reading of the same fact: a reachable state of the model of the current tree with `abandoned = true` -/
example : ∃ s, Reach cfgHead s ∧ s.abandoned = true :=
  ⟨_, ⟨orchCrashPrefix ++ [.orchCrash], rfl⟩, by decide⟩

/-- startup; an observer with a worker (a handler in flight); a stop flag: the stop-flag checker ends, `run_tasks` begins to
    stop the root tasks, the observer enters its `finally:` (depletion of its workers, up to `E`) -/
def stopCancelPrefix : List Label :=
  startAll ++ [.workerStart (.root .resObserver), .act (.worker 0),
               .setStopFlag, .rootEnd .stopFlag .done, .rtStopRoots, .rootStopping .resObserver false]

/-- a stop flag with a handler in flight and a cooperative daemon; every root task takes its cancellation (the observer
    depletes, the daemon killer waits for its exit stopper); 1/4 s later `operator()` is cancelled: `run_tasks` cancels the
    root tasks AGAIN — the startup/cleanup task leaves its wait for the others (`scCut`), the killer its `finally:`
    (`killerCut`) —, awaits them all (the handler in flight ends), sweeps the hung daemon, and only then ends CANCELLED -/
def repeatedCancelRun : List Label :=
  startAll ++
  [.workerStart (.root .resObserver), .act (.worker 0), .daemonSpawn true,
   .setStopFlag, .rootEnd .stopFlag .done, .rtStopRoots,
   .rootStopping .resObserver false, .scWake, .rootStopping .daemonKiller false,
   .rootEnd .ultimate .done, .rootEnd .coreWatcher .cancelled, .rootEnd .poster .cancelled,
   .rootEnd .admChain .cancelled, .rootEnd .admValidating .cancelled, .rootEnd .admMutating .cancelled,
   .rootEnd .admServer .cancelled, .rootEnd .nsObserver .cancelled,
   .rootStopping .orchestrator false, .orchStopPingers, .rootEnd .orchestrator .cancelled,
   .delay 16,
   .rtCancel,
   .scCut, .rootEnd .daemonKiller .cancelled,
   .scStopCore, .coreEnd .cancelled, .scCoreStopped, .rootEnd .startupCleanup .cancelled,
   .delay 16, .workerEnd 0 .done, .rootEnd .resObserver .cancelled,
   .rtCStopHung, .daemonExit 0, .rtExit .cancelled]

/-- WITNESS about the CURRENT tree (deviation C20-D4, BY DESIGN; replayed on kopf: corpus `C20-D4`, trigger
    `flag_then_cancel`): the FULL clause "cleanup handlers run (after everything else has stopped)" does not hold for a
    cancellation of `operator()` that arrives while it is already stopping: the startup had completed, the run call ends
    cancelled, and the cleanup activity never began ("Cleanup activity is not executed at all due to cancellation." —
    kopf's documented "no graceful period at all on explicit cancellation"). What the repair of C20-F11 guarantees is
    visible in the same run: the handler in flight has ended (`wk 0 = done`) and the daemon is gone BEFORE the return, the
    run never left the model. -/
theorem repeated_cancel_skips_cleanup_witness :
    ∃ s, runC cfgHead init repeatedCancelRun = some s ∧ s.rt = .exited ∧ s.result = some .cancelled
      ∧ s.startupDone = true ∧ s.cleanupBegun = false ∧ s.killerCut = true
      ∧ s.wk 0 = some (.root .resObserver, .done) ∧ s.dm 0 = .ended ∧ s.abandoned = false
      ∧ s.t0 = some 0 ∧ s.exitAt = some 32 :=
  ⟨_, rfl, by decide, by decide, by decide, by decide, by decide, by decide, by decide, by decide, by decide, by decide⟩

/-! ### HISTORICAL witnesses: what the OLD code did where the model leaves it (findings C20-F8, F10, F11; about the variants
    `orchShielded` / `spawnSwept` / `stopSwept` := false, NOT about the current tree) -/

/-- startup; the orchestrator spawns a watcher and a keep-alive task; the watcher's stream fails → the orchestrator is
    cancelled by its done-callback and begins to stop the ensemble (the keep-alive task enters its `finally:`: the
    withdrawal takes time); a stop flag is raised, the stop-flag checker ends, `run_tasks` cancels ALL pending root
    tasks — the orchestrator a second time -/
def doubleCancelPrefix : List Label :=
  startAll ++ [.subSpawn .watcher, .subSpawn .pinger, .subStopping 0 true, .subEnd 0 .failed,
               .rootStopping .orchestrator true, .orchStopPingers, .subStopping 1 false,
               .setStopFlag, .rootEnd .stopFlag .done, .rtStopRoots]

/-- HISTORICAL WITNESS (finding C20-F8, repaired by /repo ab6fb15; corpus `C20-F8`, `C20-F8_hang`: regressions now) — about
    the OLD code, variant `orchShielded := false`: the second cancellation reached the orchestrator while it stopped its
    ensemble (`creq` on a `stopping` orchestrator) and `orchAbandon` was enabled: the orchestrator gave its ensemble up —
    with the keep-alive task still withdrawing (live), the failure recorded (`orchErr`) but not yet raised, and the cleanup
    not begun; the old code then ran the cleanup beside the keep-alive task and returned normally. -/
theorem historical_double_cancel_abandons_ensemble_witness :
    ∃ s0 s, runC cfgUnshielded init doubleCancelPrefix = some s0
      ∧ s0.abandoned = false ∧ (s0.st (.root .orchestrator)).isStopping = true ∧ s0.creq (.root .orchestrator) = true
      ∧ urgent cfgUnshielded s0 = true
      ∧ step cfgUnshielded s0 .orchAbandon = some s
      ∧ s.abandoned = true ∧ s.orchErr = true ∧ (s.st (.sub 1)).live = true ∧ s.kind 1 = .pinger ∧ s.withdrawn 1 = false
      ∧ s.cleanupBegun = false ∧ s.rt = .stoppingRoots ∧ s.result = none :=
  ⟨_, _, rfl, by decide, by decide, by decide, by decide, rfl, by decide, by decide, by decide, by decide, by decide,
   by decide, by decide, by decide⟩

/-- … the same prefix on THE CURRENT TREE: the second cancellation does not reach the stopping orchestrator, `orchAbandon` is
    not enabled, the recorded failure is kept (regression of C20-F8; hypotheses of `repaired_never_abandoned` on a
    non-trivial state) -/
example : ∃ s0, runC cfgHead init doubleCancelPrefix = some s0
    ∧ s0.creq (.root .orchestrator) = false ∧ step cfgHead s0 .orchAbandon = none ∧ s0.orchErr = true
    ∧ s0.st (.root .orchestrator) = .stopping true none
    ∧ step cfgHead s0 .stopCancel = none ∧ step cfgHead init .spawnCancel = none :=
  ⟨_, rfl, by decide, by decide, by decide, by decide, by decide, by decide⟩

/-- HISTORICAL WITNESS (finding C20-F10, repaired by /repo d6da86b; corpus `C20-F10`: a regression now) — about the OLD code,
    variant `spawnSwept := false`: one loop iteration after `operator()` was called — `spawn_tasks` sits in its final
    `sleep(0)`, the freshly created tasks have run their first segments — a cancellation of `operator()` was `spawnCancel`:
    `operator()` ended CANCELLED at that moment while every root task and the core task were alive and belonged to nobody
    (nothing cancelled: `creq` false everywhere). -/
theorem historical_cancel_in_spawn_abandons_tasks_witness :
    ∃ s0 s, runC cfgSpawnUnswept init [.scStartupBegin] = some s0
      ∧ s0.abandoned = false ∧ s0.now = 0
      ∧ step cfgSpawnUnswept s0 .spawnCancel = some s
      ∧ s.abandoned = true ∧ (∀ r, (s.st (.root r)).live = true) ∧ (∀ r, s.creq (.root r) = false) ∧ s.core.live = true
      ∧ s.sc = .startup ∧ s.startupDone = false ∧ s.t0 = none ∧ s.result = none :=
  ⟨_, _, rfl, by decide, by decide, rfl, by decide, by (intro r; cases r <;> decide), by (intro r; cases r <;> decide),
   by decide, by decide, by decide, by decide, by decide⟩

/-- … on THE CURRENT TREE the same cancellation is an ordinary `rtCancel` (since /repo d6da86b `spawn_tasks` stops its tasks and
    `operator()` sweeps the leftovers: the same two stops as in `run_tasks`): every root task is cancelled, the run goes on to
    `exited` with everything over (`nothing_alive_at_return`) (regression of C20-F10) -/
example : ∃ s0 s, runC cfgHead init [.scStartupBegin] = some s0 ∧ step cfgHead s0 .spawnCancel = none
    ∧ step cfgHead s0 .rtCancel = some s ∧ s.rt = .cStoppingRoots ∧ s.t0 = some 0 ∧ (∀ r, s.creq (.root r) = true) :=
  ⟨_, _, rfl, by decide, rfl, by decide, by decide, by (intro r; cases r <;> decide)⟩

/-- HISTORICAL WITNESS (finding C20-F11, repaired by /repo 883284c; corpus `C20-F11`: a regression now) — about the OLD code,
    variant `stopSwept := false`: while `run_tasks` awaited `stop(root_pending)` — a worker still ran its handler, the observer
    depleted, the cleanup had not begun — a cancellation of `operator()` was `stopCancel`: `operator()` ended at once; the
    handler went on, the cleanup handlers ran AFTER the run call had returned. -/
theorem historical_cancel_while_stopping_abandons_tasks_witness :
    ∃ s0 s, runC cfgStopUnswept init stopCancelPrefix = some s0
      ∧ s0.abandoned = false ∧ s0.rt = .stoppingRoots
      ∧ step cfgStopUnswept s0 .stopCancel = some s
      ∧ s.abandoned = true ∧ s.wk 0 = some (.root .resObserver, .running)
      ∧ (s.st (.root .resObserver)).isStopping = true ∧ (s.st (.root .startupCleanup)).live = true
      ∧ s.cleanupBegun = false ∧ s.result = none :=
  ⟨_, _, rfl, by decide, by decide, rfl, by decide, by decide, by decide, by decide, by decide, by decide⟩

/-! ### What the code does NOT guarantee (witnesses about the current tree), and the repaired C20-F5 -/

/-- a complete run: startup, ready, an observer and the orchestrator with a watcher and a keep-alive task, a worker,
    a cooperative and a stubborn daemon, a stop flag, everything stopped in order (the orchestrator: first the watcher, whose
    handler in flight takes another second, and only then the keep-alive — `orchStopPingers` — and its withdrawal), the
    cleanup activity, the hung daemon cancelled, normal return. `wok`: whether the withdrawal PATCH succeeds. -/
def fullRun (wok : Bool) : List Label :=
  startAll ++
  [.act (.task (.root .resObserver)), .subSpawn .watcher, .subSpawn .pinger, .act (.task (.sub 0)),
   .workerStart (.sub 0), .act (.worker 0), .daemonSpawn true, .daemonSpawn false, .delay 320,
   .setStopFlag, .rootEnd .stopFlag .done, .rtStopRoots,
   .rootEnd .ultimate .done, .rootEnd .coreWatcher .cancelled, .scWake, .rootEnd .poster .cancelled,
   .rootEnd .admChain .cancelled, .rootEnd .admValidating .cancelled, .rootEnd .admMutating .cancelled,
   .rootEnd .admServer .cancelled, .rootEnd .nsObserver .cancelled, .rootStopping .resObserver false,
   .rootEnd .resObserver .cancelled, .rootStopping .daemonKiller false, .rootStopping .orchestrator false,
   .subStopping 0 false, .daemonExit 0,
   .delay 64, .workerEnd 0 .done, .subEnd 0 .cancelled,
   .orchStopPingers, .subStopping 1 false, .withdraw 1 wok, .subEnd 1 .cancelled, .rootEnd .orchestrator .cancelled,
   .rootEnd .daemonKiller .cancelled, .scWaitRootsEnd, .scStopCore, .coreEnd .cancelled, .scCoreStopped,
   .delay 32, .scCleanupEnd .none, .vaultClosed, .rootEnd .startupCleanup .done,
   .rtHungWait, .delay 320, .rtStopHung, .daemonExit 1, .rtExit .returned]

/-- WITNESS: the FULL clause "the peering record is withdrawn on exit" does not hold — the withdrawal PATCH may fail
    (`withdraw 1 false`); `peering.keepalive` logs that and ends normally, the operator returns normally. -/
theorem withdrawal_may_fail_witness :
    ∃ s, runC cfgHead init (fullRun false) = some s ∧ s.rt = .exited ∧ s.result = some .returned
      ∧ s.kind 1 = .pinger ∧ s.withdrawn 1 = true ∧ s.withdrawnOk 1 = false :=
  ⟨_, rfl, by decide, by decide, by decide, by decide, by decide⟩

/-- a worker of the CRD observer fails AFTER its watcher has entered its `finally:` (depletion of the workers); the OLD code
    let the observer end cancelled -/
def deplRun : List Label :=
  startAll ++
  [.workerStart (.root .resObserver),
   .setStopFlag, .rootEnd .stopFlag .done, .rtStopRoots, .rootStopping .resObserver false, .workerEnd 0 .failed,
   .rootEnd .resObserver .cancelled,
   .rootEnd .ultimate .done, .rootEnd .coreWatcher .cancelled, .scWake, .rootEnd .poster .cancelled,
   .rootEnd .admChain .cancelled, .rootEnd .admValidating .cancelled, .rootEnd .admMutating .cancelled,
   .rootEnd .admServer .cancelled, .rootEnd .nsObserver .cancelled, .rootStopping .orchestrator false,
   .orchStopPingers, .rootEnd .orchestrator .cancelled, .rootEnd .daemonKiller .cancelled, .scWaitRootsEnd, .scStopCore,
   .coreEnd .cancelled, .scCoreStopped, .scCleanupEnd .none, .vaultClosed, .rootEnd .startupCleanup .done,
   .rtHungWait, .rtStopHung, .rtExit .returned]

/-- HISTORICAL WITNESS (finding C20-F5, repaired by /repo 69d1957; corpus `C20-F5`: a regression now) — about the OLD code,
    variant `deplEscalates := false`: a worker that failed while its watcher was already depleting its workers was only
    logged (`_task_done_callback` → `exception_handler` cancels a task that suppresses cancellations there), nothing was
    marked, the operator returned NORMALLY. Shows that the hypothesis of `worker_failure_reaches_watcher` is needed. -/
theorem historical_worker_failure_during_depletion_dropped_witness :
    ∃ s, runC cfgDeplSilent init deplRun = some s ∧ s.rt = .exited ∧ s.result = some .returned
      ∧ s.wk 0 = some (.root .resObserver, .failed) ∧ s.rootFailed = false ∧ s.tFail = none :=
  ⟨_, rfl, by decide, by decide, by decide, by decide, by decide⟩

/-- … the second face of C20-F5: the served CRD is deleted while a worker runs a handler; the watcher meets HTTP 404
    (`subGone`: not a failure, the orchestrator is not cancelled) and depletes its workers; THEN the worker fails -/
def goneDeplPrefix : List Label :=
  startAll ++ [.subSpawn .watcher, .workerStart (.sub 0), .act (.worker 0), .subGone 0, .workerEnd 0 .failed,
               .subEnd 0 .failed]

/-- HISTORICAL WITNESS (finding C20-F5, the "operator keeps running" face; corpus `C20-F5_keeps_running`: a regression now) —
    about the OLD code, variant `deplEscalates := false`: after an unrecoverable worker failure during the depletion of a
    watcher whose resource is gone, ANY amount of time passed COOPERATIVELY with the operator still waiting: every root task
    alive, nothing cancelled, nothing escalated (`tFail = none`, `orchErr = false`), no outcome. -/
theorem historical_worker_failure_after_gone_keeps_running_witness (n : Nat) (hn : 0 < n) :
    ∃ s, runC cfgDeplSilent init (goneDeplPrefix ++ [.delay n]) = some s
      ∧ s.wk 0 = some (.sub 0, .failed) ∧ s.st (.sub 0) = .failed ∧ s.gone 0 = true
      ∧ s.rt = .waiting ∧ s.result = none ∧ s.now = n ∧ s.tFail = none ∧ s.orchErr = false ∧ s.abandoned = false
      ∧ (∀ r, (s.st (.root r)).live = true) ∧ (∀ r, s.creq (.root r) = false) := by
  have hp : ∃ s0, runC cfgDeplSilent init goneDeplPrefix = some s0 ∧ quiet s0 = true ∧ urgent cfgDeplSilent s0 = false
      ∧ s0.rt = .waiting ∧ s0.wk 0 = some (.sub 0, .failed) ∧ s0.st (.sub 0) = .failed ∧ s0.gone 0 = true
      ∧ s0.result = none ∧ s0.now = 0 ∧ s0.tFail = none ∧ s0.orchErr = false ∧ s0.abandoned = false
      ∧ (∀ r, (s0.st (.root r)).live = true) ∧ (∀ r, s0.creq (.root r) = false) := by
    refine ⟨_, rfl, by decide, by decide, rfl, by decide, by decide, by decide, rfl, rfl, by decide, by decide, by decide,
            ?_, ?_⟩ <;> (intro r; cases r <;> decide)
  obtain ⟨s0, h0, hq, hu, hw, hwk, hf, hg, hres, hnow, htf, hoe, hab, hl, hc⟩ := hp
  refine ⟨{ s0 with now := s0.now + n }, ?_, hwk, hf, hg, hw, hres, by simp [hnow], htf, hoe, hab, hl, hc⟩
  rw [runC_append, h0]
  simp only [Option.bind_some, runC]
  rw [quiet_delay hq hu (by simp [hw]) n hn]

/-- … the same on THE CURRENT TREE (regression of C20-F5, "keeps running"): the failing worker makes the depleting watcher fail
    with the RuntimeError (it is not "gone" any more), the orchestrator is cancelled at once, cooperative time cannot pass, the
    failure is marked (hypotheses of `worker_failure_reaches_watcher`, `worker_failure_stops_all`) -/
example : ∃ s, runC cfgHead init goneDeplPrefix = some s
    ∧ s.wk 0 = some (.sub 0, .failed) ∧ s.st (.sub 0) = .failed ∧ s.gone 0 = false ∧ s.werr (.sub 0) = true
    ∧ s.creq (.root .orchestrator) = true ∧ s.orchErr = true ∧ urgent cfgHead s = true ∧ s.tFail = some 0
    ∧ s.failWho = some (.sub 0) :=
  ⟨_, rfl, by decide, by decide, by decide, by decide, by decide, by decide, by decide, by decide, by decide⟩

/-- … and the shutdown face on THE CURRENT TREE (regression of C20-F5): the observer whose worker failed during the depletion
    ends FAILED, `operator()` raises -/
def deplRunHead : List Label :=
  startAll ++
  [.workerStart (.root .resObserver),
   .setStopFlag, .rootEnd .stopFlag .done, .rtStopRoots, .rootStopping .resObserver false, .workerEnd 0 .failed,
   .rootEnd .resObserver .failed,
   .rootEnd .ultimate .done, .rootEnd .coreWatcher .cancelled, .scWake, .rootEnd .poster .cancelled,
   .rootEnd .admChain .cancelled, .rootEnd .admValidating .cancelled, .rootEnd .admMutating .cancelled,
   .rootEnd .admServer .cancelled, .rootEnd .nsObserver .cancelled, .rootStopping .orchestrator false,
   .orchStopPingers, .rootEnd .orchestrator .cancelled, .rootEnd .daemonKiller .cancelled, .scWaitRootsEnd, .scStopCore,
   .coreEnd .cancelled, .scCoreStopped, .scCleanupEnd .none, .vaultClosed, .rootEnd .startupCleanup .done,
   .rtHungWait, .rtStopHung, .rtExit .raised]

example : ∃ s, runC cfgHead init deplRunHead = some s ∧ s.rt = .exited ∧ s.result = some .raised
    ∧ s.wk 0 = some (.root .resObserver, .failed) ∧ s.st (.root .resObserver) = .failed ∧ s.rootFailed = true
    ∧ s.tFail = some 0 ∧ s.cleanupBegun = true ∧ step cfgHead init .rtCancel ≠ none :=
  ⟨_, rfl, by decide, by decide, by decide, by decide, by decide, by decide, by decide, by decide⟩

/-- WITNESS: without cooperativity NOTHING bounds the exit — `run_tasks` awaits the cancelled root tasks without any
    timeout (`aiotasks.stop`), so a task that does not honour its cancellation (here: all of them, for `n` ticks) keeps
    `operator()` from returning for as long as it likes. The run is accepted by `run` but not by `runC`. -/
theorem noncooperative_exit_unbounded_witness (n : Nat) (hn : 0 < n) :
    ∃ s0 s, run cfgHead init [.setStopFlag, .rootEnd .stopFlag .done, .rtStopRoots] = some s0
      ∧ coopDelay cfgHead s0 n = false
      ∧ step cfgHead s0 (.delay n) = some s
      ∧ s.t0 = some 0 ∧ s.now = n ∧ s.rt = .stoppingRoots ∧ s.result = none := by
  have hp : ∃ s0, run cfgHead init [.setStopFlag, .rootEnd .stopFlag .done, .rtStopRoots] = some s0
      ∧ urgent cfgHead s0 = true ∧ s0.rt = .stoppingRoots ∧ s0.t0 = some 0 ∧ s0.now = 0 ∧ s0.result = none :=
    ⟨_, rfl, by decide, rfl, rfl, rfl, rfl⟩
  obtain ⟨s0, h0, hu, hrt, ht0, hnow, hres⟩ := hp
  refine ⟨s0, { s0 with now := s0.now + n }, h0, by simp [coopDelay, hu], ?_, ht0, by simp [hnow], hrt, hres⟩
  simp only [step]
  rw [if_pos ⟨by simp [hrt], hn⟩]

/-! ### Non-vacuity: the hypotheses are met by non-trivial reachable states -/

example : ∃ s, runC cfgHead init (fullRun true) = some s ∧ s.rt = .exited ∧ s.result = some .returned
    ∧ s.cleanupBegun = true ∧ s.ready = true ∧ s.acts = 4 ∧ s.t0 = some 320 ∧ s.exitAt = some 736
    ∧ s.withdrawn 1 = true ∧ s.withdrawnOk 1 = true ∧ s.dm 0 = .ended ∧ s.dm 1 = .ended ∧ s.tFail = none :=
  ⟨_, rfl, by decide, by decide, by decide, by decide, by decide, by decide, by decide, by decide, by decide,
   by decide, by decide, by decide⟩

/-- a stop flag with a handler in flight under an ensemble watcher and peering on; 1 s into the watcher's depletion -/
def orderPrefix : List Label :=
  startAll ++
  [.subSpawn .watcher, .subSpawn .pinger, .workerStart (.sub 0), .act (.worker 0), .delay 320,
   .setStopFlag, .rootEnd .stopFlag .done, .rtStopRoots,
   .rootEnd .ultimate .done, .rootEnd .coreWatcher .cancelled, .scWake, .rootEnd .poster .cancelled,
   .rootEnd .admChain .cancelled, .rootEnd .admValidating .cancelled, .rootEnd .admMutating .cancelled,
   .rootEnd .admServer .cancelled, .rootEnd .nsObserver .cancelled, .rootEnd .resObserver .cancelled,
   .rootEnd .daemonKiller .cancelled, .rootStopping .orchestrator false, .subStopping 0 false,
   .delay 64]

/-- non-vacuity (hypotheses of `exit_stops_keepalives_last`, clause 2): the orchestrator is exiting, the keep-alive is still
    running, uncancelled, nothing withdrawn, while the watcher depletes its worker (a handler in flight) — the old order withdrew
    the record at that moment —, and the second stop is NOT enabled -/
example : ∃ s, runC cfgHead init orderPrefix = some s
    ∧ (s.st (.root .orchestrator)).isStopping = true
    ∧ s.kind 1 = .pinger ∧ s.st (.sub 1) = .running ∧ s.creq (.sub 1) = false ∧ s.withdrawn 1 = false ∧ s.orchPing = false
    ∧ s.wk 0 = some (.sub 0, .running) ∧ step cfgHead s .orchStopPingers = none ∧ s.now = 384 :=
  ⟨_, rfl, by decide, by decide, by decide, by decide, by decide, by decide, by decide, by decide, by decide⟩

/-- … the handler ends, the watcher ends, and only then the second stop cancels the keep-alive (hypothesis of
    `withdrawal_after_handling_stopped`) -/
example : ∃ s, runC cfgHead init (orderPrefix ++ [.workerEnd 0 .done, .subEnd 0 .cancelled, .orchStopPingers]) = some s
    ∧ s.orchPing = true ∧ s.creq (.sub 1) = true ∧ s.st (.sub 0) = .cancelled ∧ s.withdrawn 1 = false ∧ s.now = 384 :=
  ⟨_, rfl, by decide, by decide, by decide, by decide, by decide⟩

/-- the stop flag is set in the steady state (hypotheses of `stop_flag_felt_at_once`): cooperative time cannot pass -/
example : ∃ s, runC cfgHead init (startAll ++ [.delay 64, .setStopFlag]) = some s
    ∧ s.stopFlagSet = true ∧ s.rt = .waiting ∧ urgent cfgHead s = true ∧ s.now = 64 :=
  ⟨_, rfl, by decide, by decide, by decide, by decide⟩

/-- a failed startup (hypothesis of `failed_startup_no_api`, and of `failure_to_stop_bound_partial` with
    `tFail = some 0`), run to its end: re-raised -/
example : ∃ s, runC cfgHead init
    [.scStartupBegin, .scStartupEnd .failed, .scStopCore, .coreEnd .cancelled, .scCoreStopped,
     .rootEnd .startupCleanup .failed, .rtStopRoots, .rootEnd .stopFlag .done, .rootEnd .ultimate .done,
     .rootEnd .coreWatcher .cancelled,
     .rootEnd .daemonKiller .cancelled, .rootEnd .poster .cancelled, .rootEnd .admChain .cancelled,
     .rootEnd .admValidating .cancelled, .rootEnd .admMutating .cancelled, .rootEnd .admServer .cancelled,
     .rootEnd .resObserver .cancelled, .rootEnd .nsObserver .cancelled, .rootEnd .orchestrator .cancelled,
     .rtHungWait, .delay 320, .rtStopHung, .waiterEnd, .rtExit .raised] = some s
    ∧ s.startupFailed = true ∧ s.startupRaised = true ∧ s.rt = .exited ∧ s.result = some .raised ∧ s.acts = 0
    ∧ s.tFail = some 0 ∧ s.failWho = some (.root .startupCleanup) :=
  ⟨_, rfl, by decide, by decide, by decide, by decide, by decide, by decide, by decide⟩

/-- a worker of a root observer fails while the observer streams (hypotheses of
    `worker_failure_reaches_watcher` and of `worker_failure_stops_all`): the observer ends failed, the
    failure is marked, cooperative time cannot pass -/
example : ∃ s, runC cfgHead init
    [.scStartupBegin, .scStartupEnd .none, .setStarted, .ready, .enter .resObserver, .workerStart (.root .resObserver),
     .workerEnd 0 .failed, .rootStopping .resObserver true, .rootEnd .resObserver .failed] = some s
    ∧ s.werr (.root .resObserver) = true ∧ s.st (.root .resObserver) = .failed ∧ s.rt = .waiting
    ∧ urgent cfgHead s = true ∧ s.tFail = some 0 ∧ s.failWho = some (.root .resObserver) :=
  ⟨_, rfl, by decide, by decide, by decide, by decide, by decide, by decide⟩

/-- a watcher meets HTTP 404, its key-mate is cancelled as redundant, both are spawned anew (hypotheses of
    `gone_is_not_a_failure`); nothing is escalated -/
example : ∃ s, runC cfgHead init
    (startAll ++
    [.subSpawn .peerWatcher, .subSpawn .pinger, .subGone 0, .subCancel 0, .subCancel 1, .subStopping 1 false,
     .withdraw 1 true, .subEnd 1 .cancelled, .subEnd 0 .failed, .subSpawn .peerWatcher, .subSpawn .pinger,
     .delay 64]) = some s
    ∧ s.gone 0 = true ∧ s.st (.sub 0) = .failed ∧ s.st (.root .orchestrator) = .running
    ∧ s.creq (.root .orchestrator) = false ∧ s.orchErr = false ∧ s.nSubs = 4 ∧ s.now = 64 ∧ s.tFail = none :=
  ⟨_, rfl, by decide, by decide, by decide, by decide, by decide, by decide, by decide, by decide⟩

/-- the current tree on the witness prefix of F3: the orchestrator is cancelled by the failed watcher, cooperative time
    cannot pass (hypotheses of `stream_failure_stops_all`), the failure is marked -/
example : ∃ s, runC cfgHead init lingerPrefix = some s
    ∧ s.st (.sub 0) = .failed ∧ s.st (.root .orchestrator) = .running ∧ s.creq (.root .orchestrator) = true
    ∧ s.orchErr = true ∧ urgent cfgHead s = true ∧ s.tFail = some 0 ∧ s.failWho = some (.sub 0) :=
  ⟨_, rfl, by decide, by decide, by decide, by decide, by decide, by decide, by decide⟩

/-- the current tree on the witness prefix of C20-F6 (hypotheses of `core_failure_stops_all`): cooperative time
    cannot pass, the task awaiting the core tasks fails, the cleanup runs, the error is re-raised -/
example : cfgHead.coreWatched = true := rfl

example : ∃ s, runC cfgHead init coreFail = some s ∧ s.core = .failed
    ∧ s.st (.root .coreWatcher) = .running ∧ urgent cfgHead s = true ∧ s.tFail = some 0 :=
  ⟨_, rfl, by decide, by decide, by decide, by decide⟩

example : ∃ s, runC cfgHead init (coreFail ++
    [.rootEnd .coreWatcher .failed, .rtStopRoots, .rootEnd .stopFlag .done,
     .rootEnd .ultimate .done, .scWake, .rootEnd .poster .cancelled, .rootEnd .admChain .cancelled,
     .rootEnd .admValidating .cancelled, .rootEnd .admMutating .cancelled, .rootEnd .admServer .cancelled,
     .rootEnd .nsObserver .cancelled, .rootEnd .resObserver .cancelled, .rootStopping .orchestrator false,
     .orchStopPingers, .rootEnd .orchestrator .cancelled, .rootEnd .daemonKiller .cancelled, .scWaitRootsEnd, .scStopCore,
     .scCoreStopped, .delay 32, .scCleanupEnd .none, .vaultClosed, .rootEnd .startupCleanup .failed,
     .rtHungWait, .delay 320, .rtStopHung, .waiterEnd, .rtExit .raised]) = some s
    ∧ s.rt = .exited ∧ s.result = some .raised ∧ s.cleanupBegun = true ∧ s.t0 = some 0 ∧ s.exitAt = some 352 :=
  ⟨_, rfl, by decide, by decide, by decide, by decide, by decide⟩

/-! ## The done-callbacks of the ensemble tasks: every generation under a key is monitored (seeded change C20g)

`stream_failure_stops_all` is about the edge `subEnd i failed → orchestrator` that the LTS has for EVERY ensemble task `sub i`
(`cfg.fixed`). That the code HAS that edge for every task — also for the task spawned under a key that was served before, dropped
(`del_keys`: namespace / CRD deleted) or emptied (its task exited with HTTP 404) and is served again — is the business of the
orchestrator's bookkeeping `monitored_tasks`, modelled in `Kopf.Model.C20_Monitor` (`byTask := true` = the tree, tie T
`monitors_by_task_eq`; whole-operator histories `regen_fail` exercise it on the real code). -/

/-- THE CLAIM (current tree, bookkeeping by task object): after ANY sequence of adjustments of the ensemble — any keys dropped, any
    keys served, in any order, any number of times — every task object of the ensemble carries the orchestrator's done-callback:
    the failure of the task of ANY generation under ANY key escalates. No bound on the number of adjustments, keys, generations. -/
theorem every_generation_monitored (ops : List (List Monitor.Key × List Monitor.Key)) :
    (∀ p, p ∈ (Monitor.run true Monitor.init ops).tasks → p.2 ∈ (Monitor.run true Monitor.init ops).cbs)
    ∧ ∀ k, Monitor.escalates (Monitor.run true Monitor.init ops) k = true := by
  have h := Monitor.run_inv ops Monitor.inv_init
  exact ⟨fun p hp => h.2 _ (by rw [h.1]; exact List.mem_map.mpr ⟨p, hp, rfl⟩), fun k => Monitor.inv_escalates h k⟩

/-- non-vacuity: key 0 served, dropped, served again (a second task object, 1), and key 1 restarted within ONE adjustment (its task
    had exited: dropped and spawned anew, task object 3): the live tasks are those of the second generation, and they are monitored -/
example : (Monitor.run true Monitor.init [([], [0, 1]), ([0], [1]), ([1], [0, 1])]).tasks = [(0, 2), (1, 3)]
    ∧ (Monitor.run true Monitor.init [([], [0, 1]), ([0], [1]), ([1], [0, 1])]).cbs = [0, 1, 2, 3] := by decide

/-- WITNESS (the variant that keeps KEYS and never forgets them — the seeded change C20g — is NOT a model in which the claim holds):
    a key served, dropped and served again — and a key whose exited task is replaced within ONE adjustment — end up with a live task
    that does not carry the callback: its failure is only logged, nothing wakes the orchestrator, no root task ends. The first
    generation is monitored all the same (why kopf's own tests and every history without a re-served key pass). -/
theorem by_key_bookkeeping_misses_later_generations_witness :
    Monitor.escalates (Monitor.run false Monitor.init [([], [0])]) 0 = true
    ∧ Monitor.escalates (Monitor.run false Monitor.init [([], [0]), ([0], []), ([], [0])]) 0 = false
    ∧ Monitor.escalates (Monitor.run false Monitor.init [([], [0]), ([0], [0])]) 0 = false := by decide

/-! ## The release of a dimension: what is being released is still known to the orchestrator's exit (seeded change C20h)

"… the WHOLE operator shuts down … cleanup handlers run after EVERYTHING ELSE has stopped": `C20_Lifecycle`'s orchestrator stops
every live `sub i` at its exit; that rests on the `Ensemble` still knowing every task that has not ended when the cancellation
arrives — also in the middle of `terminate_redundancies` (`Kopf.Model.C20_Release`; `stopFirst := true` = the tree, tie T
`release_stops_before_forgetting_eq`; whole-operator histories `drop_then_stop` exercise it on the real code). -/

/-- For every sequence of adjustments (redundant keys, newly served keys — arbitrary, also overlapping and repeated), with the
    cancellation arriving inside the wait of the LAST one's release or not at all: everything alive is known, so the orchestrator's
    exit leaves nothing behind. -/
theorem release_leaves_nothing_behind (ops : List (List Release.Key × List Release.Key)) (interrupted : Bool) :
    (∀ k, k ∈ (Release.run true Release.init ops interrupted).alive → k ∈ (Release.run true Release.init ops interrupted).known)
    ∧ Release.leftBehind (Release.run true Release.init ops interrupted) = [] :=
  ⟨Release.run_inv ops interrupted Release.inv_init, Release.inv_leftBehind (Release.run_inv ops interrupted Release.inv_init)⟩

/-- non-vacuity: keys 0 and 1 are served; key 0 becomes redundant and the cancellation arrives while its tasks are awaited: both are
    alive, both are known -/
example : (Release.run true Release.init [([], [0, 1]), ([0], [])] true) = { known := [0, 1], alive := [0, 1] } := by decide
/-- … and without an interruption key 0 is over AND forgotten -/
example : (Release.run true Release.init [([], [0, 1]), ([0], [])] false) = { known := [1], alive := [1] } := by decide

/-- The changed order (forget the keys, then wait for the tasks — the seeded change C20h): interrupted in the wait, the released
    key is alive and unknown — the orchestrator's exit leaves it behind; uninterrupted, the end state is the same as the tree's
    (why kopf's own tests and every history without a stop inside a release pass). -/
theorem forgetting_before_stopping_leaves_behind_witness :
    Release.leftBehind (Release.run false Release.init [([], [0, 1]), ([0], [])] true) = [0]
    ∧ Release.run false Release.init [([], [0, 1]), ([0], [])] false
      = Release.run true Release.init [([], [0, 1]), ([0], [])] false := by decide

end Kopf.C20
