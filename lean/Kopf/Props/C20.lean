/-
  C20 — Operator lifecycle: startup first, fail-fast, cleanup last, bounded exit. Property theorems only.

  All theorems are about `Reach cfg s` (states reachable by ANY label list of the model
  `Kopf.Model.C20_Lifecycle`) or about label lists themselves: no bound on length, on the number of
  ensemble tasks, workers, daemons, or on the moments of failures and stop requests.
  `cfg.fixed = true` is THE MODEL OF THE CURRENT TREE (since /repo 9ef1bcb the orchestrator monitors its
  ensemble tasks; `Kopf/Tie/C20.lean` re-checks that against the source on every run); `cfg.fixed = false`
  is the historical variant without the edge "failed ensemble task → orchestrator". Theorems that do not
  mention `cfg.fixed` hold for both.
-/
import Kopf.Lemmas.C20_Trace
namespace Kopf.C20

/-! ### Startup first -/

/-- No API activity (request or handler call of any task, incl. the peering withdrawal) before all
    startup handlers have succeeded: in every accepted label list an activity label is preceded by the
    successful end of the startup activity and by `started_flag.set()`; every task that can act sits
    behind that flag. -/
theorem no_api_before_startup {cfg : Cfg} (ls : List Label) (l : Label) (s : State)
    (hl : l.isActivity = true) (h : run cfg init (ls ++ [l]) = some s) :
    Label.scStartupEnd .none ∈ ls ∧ Label.setStarted ∈ ls := by
  rw [run_append] at h
  cases h1 : run cfg init ls with
  | none => simp [h1] at h
  | some s1 =>
    simp only [h1, Option.bind_some, run] at h
    cases h2 : step cfg s1 l with
    | none => simp [h2] at h
    | some s2 =>
      have hA := InvA.reach (cfg := cfg) ⟨ls, h1⟩
      have hst := activity_needs_started hA hl h2
      have hdone := (hA.startedDone hst).1
      refine ⟨?_, ?_⟩
      · rcases startupDone_run ls init s1 h1 hdone with h3 | h3
        · simp [init] at h3
        · exact h3
      · rcases started_run ls init s1 h1 hst with h3 | h3
        · simp [init] at h3
        · exact h3

/-- A failed (or interrupted) startup: no API activity has happened or will happen, the flags stay down;
    and when a startup handler failed for good, `operator()` does not return normally (it re-raises, or
    ends cancelled if it was itself cancelled). -/
theorem failed_startup_no_api {cfg : Cfg} {s : State} (hr : Reach cfg s) (hf : s.startupFailed = true) :
    s.acts = 0 ∧ s.started = false ∧ s.ready = false ∧
    (s.startupRaised = true → s.rt = .exited → s.result = some .raised ∨ s.result = some .cancelled) := by
  have hA := InvA.reach hr
  have hB := InvB.reach hr
  have hC := InvC.reach hr
  have hns : s.started = false := by
    cases hs : s.started with
    | false => rfl
    | true => have := (hA.startedDone hs).2; rw [hf] at this; cases this
  have hnr : s.ready = false := by
    cases hs : s.ready with
    | false => rfl
    | true => have := hA.readyStarted hs; rw [hns] at this; cases this
  refine ⟨(hA.notStarted hns).2.2.2.2.1, hns, hnr, ?_⟩
  intro hraised hex
  have hended := hC.hungRoots (by simp [hex]) (by simp [hex]) (by simp [hex]) .startupCleanup
  obtain ⟨p, hp, hst⟩ := hC.scOver hended
  have hpf : p = .failed := by
    rcases hC.raisedSc hraised with h | h | h <;> rw [hp] at h <;> cases h
    rfl
  subst hpf
  have hrf : s.rootFailed = true := hB.rootFailedIff.mpr ⟨.startupCleanup, hst⟩
  obtain ⟨r, hres⟩ := hC.resultSome hex
  cases r with
  | raised => exact Or.inl hres
  | cancelled => exact Or.inr hres
  | returned => have := hC.resReturned hres; rw [hrf] at this; cases this

/-- The ready flag is raised only after startup: behind `started_flag`, which is set only after the
    startup activity has returned successfully. -/
theorem ready_after_startup {cfg : Cfg} {s : State} (hr : Reach cfg s) (h : s.ready = true) :
    s.started = true ∧ s.startupDone = true ∧ s.startupFailed = false := by
  have hA := InvA.reach hr
  have hs := hA.readyStarted h
  exact ⟨hs, hA.startedDone hs⟩

/-! ### Fail-fast: any root task ending stops everything -/

/-- Once any root task has ended, `run_tasks` cancels EVERY other root task; it reaches the hung-task
    phase only when all root tasks have ended, and returns only when all hung tasks are gone as well. -/
theorem root_failure_stops_all {cfg : Cfg} {s : State} (hr : Reach cfg s) :
    (∀ s', step cfg s .rtStopRoots = some s' →
        s'.rt = .stoppingRoots ∧ ∀ r, (s'.st (.root r)).live = true → s'.creq (.root r) = true)
    ∧ (s.rt ≠ .waiting → s.rt ≠ .stoppingRoots → s.rt ≠ .cStoppingRoots → ∀ r, (s.st (.root r)).ended = true)
    ∧ (s.rt = .exited → hungLive s = false) := by
  have hC := InvC.reach hr
  refine ⟨?_, hC.hungRoots, ?_⟩
  · intro s' h
    simp only [step] at h
    split at h
    · cases h
      refine ⟨rfl, ?_⟩
      intro r hl
      simp only [cancelRoots]
      simp [hl]
    · cases h
  · intro hex
    rw [hungLive_false_iff]
    exact hC.exitedHung hex

/-- …rather than lingering half-alive: while a root task has ended and `run_tasks` still waits, no
    time can pass, and stopping the remaining root tasks is enabled. (No reachability needed.) -/
theorem root_failure_no_lingering {cfg : Cfg} {s : State} (r : Root) (he : (s.st (.root r)).ended = true)
    (hw : s.rt = .waiting) :
    (∀ n, step cfg s (.delay n) = none) ∧ (step cfg s .rtStopRoots).isSome = true := by
  have hany : anyRootEnded s = true := (anyRootEnded_iff s).mpr ⟨r, he⟩
  refine ⟨?_, ?_⟩
  · intro n
    have hu : urgent cfg s = true := by
      unfold urgent rtUrgent
      simp [hw, hany]
    simp [step, hu]
  · simp [step, hw, hany]

/-! ### Cleanup last -/

/-- The cleanup activity begins only after all other root tasks and the core task have ended — and with
    them every ensemble task (watch streams, peering) and every worker (hence every handler in flight). -/
theorem cleanup_last {cfg : Cfg} {s : State} (hr : Reach cfg s) (h : s.cleanupBegun = true) :
    (∀ r, r ≠ .startupCleanup → (s.st (.root r)).ended = true) ∧ s.core.live = false
    ∧ (∀ i, i < s.nSubs → (s.st (.sub i)).live = false)
    ∧ (∀ w o, s.wk w ≠ some (o, .running)) := by
  have hB := InvB.reach hr
  have hC := InvC.reach hr
  obtain ⟨h1, h2⟩ := hC.cleanupB h
  have hsub : ∀ i, i < s.nSubs → (s.st (.sub i)).live = false := by
    intro i hi
    cases hl : (s.st (.sub i)).live with
    | false => rfl
    | true =>
      have := hB.subOrch i hi hl
      rw [TS.ended_not_active (h1 .orchestrator (by decide))] at this
      cases this
  refine ⟨h1, h2, hsub, ?_⟩
  intro w o hw
  cases o with
  | root r =>
    obtain ⟨_, hact, hk⟩ := hB.wkRoot w r hw
    have hne : r ≠ .startupCleanup := by intro hc; subst hc; simp [Root.kind] at hk
    rw [TS.ended_not_active (h1 r hne)] at hact
    cases hact
  | sub i =>
    obtain ⟨_, hact, hi⟩ := hB.wkSub w i hw
    have := hsub i hi
    rw [TS.active_live hact] at this
    cases this

/-! ### The run call returns, re-raising the failure -/

/-- When `operator()` is over it has an outcome; it raises only if some root task failed, and it returns
    normally only if NO root task failed (the cancelled outcome is the operator's own cancellation). -/
theorem reraise {cfg : Cfg} {s : State} (hr : Reach cfg s) (hex : s.rt = .exited) :
    ∃ r, s.result = some r ∧ (r = .raised → ∃ q, s.st (.root q) = .failed)
      ∧ (r = .returned → ∀ q, s.st (.root q) ≠ .failed) := by
  have hB := InvB.reach hr
  have hC := InvC.reach hr
  obtain ⟨r, hres⟩ := hC.resultSome hex
  refine ⟨r, hres, ?_, ?_⟩
  · intro h; subst h
    exact hB.rootFailedIff.mp (hC.resRaised hres)
  · intro h q hq; subst h
    have := hB.rootFailedIff.mpr ⟨q, hq⟩
    rw [hC.resReturned hres] at this
    cases this

/-- Daemons are stopped: none is running when `operator()` is over. -/
theorem daemons_stopped {cfg : Cfg} {s : State} (hr : Reach cfg s) (hex : s.rt = .exited) :
    ∀ d, d < s.nDaemons → s.dm d = .ended := by
  intro d hd
  have h1 := ((InvC.reach hr).exitedHung hex).2.1 d hd
  have h2 := (InvE.reach hr).dmPresent d hd
  cases hdm : s.dm d with
  | ended => rfl
  | running => exact absurd hdm h1
  | absent => exact absurd hdm h2

/-- The peering record is withdrawn: a keep-alive task never ends without having sent its `lifetime=0`
    PATCH, and all of them have ended when `operator()` is over. -/
theorem peering_withdrawn {cfg : Cfg} {s : State} (hr : Reach cfg s) (i : Nat) (hi : i < s.nSubs)
    (hk : s.kind i = .pinger) :
    ((s.st (.sub i)).ended = true → s.withdrawn i = true) ∧ (s.rt = .exited → s.withdrawn i = true) := by
  have hB := InvB.reach hr
  have hC := InvC.reach hr
  refine ⟨hB.withdrawnJ i hi hk, ?_⟩
  intro hex
  apply hB.withdrawnJ i hi hk
  have hoe := hC.hungRoots (by simp [hex]) (by simp [hex]) (by simp [hex]) .orchestrator
  have hpres := (InvE.reach hr).subPresent i hi
  cases hst : s.st (.sub i) with
  | absent => exact absurd hst hpres
  | failed | cancelled | done => rfl
  | waitingFlag | running | stopping f dl =>
    have := hB.subOrch i hi (by simp [hst])
    rw [TS.ended_not_active hoe] at this
    cases this

/-! ### Worker failures -/

/-- A worker that fails while its watcher runs reaches the watcher (`exception_handler`): the watcher is
    cancelled with `worker_error` set, and a watcher with `worker_error` can only end FAILED. -/
theorem worker_failure_reaches_watcher {cfg : Cfg} {s s' : State} (hr : Reach cfg s) (w : Nat) (o : Task)
    (hw : s.wk w = some (o, .running)) (ho : s.st o = .running)
    (h : step cfg s (.workerEnd w .failed) = some s') :
    s'.werr o = true ∧ s'.creq o = true ∧
    (∀ t : State, Reach cfg t → t.werr o = true → (t.st o).ended = true → t.st o = .failed) := by
  have hB := InvB.reach hr
  refine ⟨?_, ?_, ?_⟩
  · simp only [step] at h
    split at h
    · simp only [hw] at h
      split at h
      · cases h; simp
      · cases h
        rename_i hn
        cases hwe : s.werr o with
        | true => rfl
        | false => exact absurd ⟨ho, hwe⟩ hn
    · cases h
  · simp only [step] at h
    split at h
    · simp only [hw] at h
      split at h
      · cases h; simp
      · cases h
        rename_i hn
        cases hwe : s.werr o with
        | false => exact absurd ⟨ho, hwe⟩ hn
        | true =>
          cases o with
          | root r =>
            rcases (hB.werrRoot r hwe).2 with ⟨_, hc⟩ | ⟨dl, hs⟩ | hs
            · exact hc
            · rw [ho] at hs; cases hs
            · rw [ho] at hs; cases hs
          | sub i =>
            rcases (hB.werrSub i hwe).2 with ⟨_, hc⟩ | ⟨dl, hs⟩ | hs
            · exact hc
            · rw [ho] at hs; cases hs
            · rw [ho] at hs; cases hs
    · cases h
  · intro t ht hwe hend
    have hBt := InvB.reach ht
    cases o with
    | root r =>
      rcases (hBt.werrRoot r hwe).2 with ⟨hs, _⟩ | ⟨dl, hs⟩ | hs
      · rw [hs] at hend; cases hend
      · rw [hs] at hend; cases hend
      · exact hs
    | sub i =>
      rcases (hBt.werrSub i hwe).2 with ⟨hs, _⟩ | ⟨dl, hs⟩ | hs
      · rw [hs] at hend; cases hend
      · rw [hs] at hend; cases hend
      · exact hs

/-- A failed worker of a ROOT observer (CRDs, namespaces) stops the whole operator: its watcher IS a root
    task, so its failure is a root failure — registered in `rootFailed` (hence re-raised, `reraise`) and
    fail-fast (`root_failure_no_lingering`). For the workers of the ENSEMBLE watchers the chain goes on through
    `worker_failure_reaches_watcher` (the watcher ends failed) and `stream_failure_stops_all` (a failed ensemble
    task stops the orchestrator). The name keeps `_partial` from the time when that second link was missing. -/
theorem worker_failure_stops_all_partial {cfg : Cfg} {s : State} (hr : Reach cfg s) (r : Root)
    (hw : s.werr (.root r) = true) (he : (s.st (.root r)).ended = true) :
    s.st (.root r) = .failed ∧ s.rootFailed = true ∧
    (s.rt = .waiting → ∀ n, step cfg s (.delay n) = none) := by
  have hB := InvB.reach hr
  have hf : s.st (.root r) = .failed := by
    rcases (hB.werrRoot r hw).2 with ⟨hs, _⟩ | ⟨dl, hs⟩ | hs
    · rw [hs] at he; cases he
    · rw [hs] at he; cases he
    · exact hs
  exact ⟨hf, hB.rootFailedIff.mpr ⟨r, hf⟩, fun hwt => (root_failure_no_lingering r he hwt).1⟩

/-! ### Bounded exit -/

/-- From the moment `run_tasks` begins to stop the root tasks (`t0`: a root task ended, or `operator()` was
    cancelled) the operator is gone within the sum of the grace periods: `E` (worker depletion,
    `settings.queueing.exit_timeout`) + `W` (peering withdrawal) + `D` (exit stoppers of daemons) + `C`
    (cleanup activity) + `H` (hung tasks, 5 s). The clock of the model cannot pass that bound before the exit.
    ASSUMPTIONS built into the model's `delay`: tasks honour cancellation at once, the cleanup activity
    takes at most `C` (kopf sets no limit), one stop trigger per run. PARTIAL w.r.t. the property's
    "bounded grace periods": a thread that never returns is not modelled. -/
theorem exit_bound {cfg : Cfg} {s : State} (hr : Reach cfg s) (t : Nat) (ht : s.t0 = some t) :
    s.now ≤ t + cfg.E + cfg.W + cfg.D + cfg.C + cfg.H ∧
    (∀ x, s.exitAt = some x → x ≤ t + cfg.E + cfg.W + cfg.D + cfg.C + cfg.H) := by
  have hC := InvC.reach hr
  have hD := InvD.reach hr
  have hE := InvE.reach hr
  have hnow : s.now ≤ t + G cfg + cfg.C + cfg.H := by
    cases hrt : s.rt with
    | waiting => have := (hC.waitingEarly hrt).2.2; rw [ht] at this; cases this
    | stoppingRoots => have := hD.g2 t ht (Or.inl hrt); omega
    | cStoppingRoots => have := hD.g2 t ht (Or.inr hrt); omega
    | hungWait dl => have := hD.dlHung dl hrt; have := hD.hung t dl ht hrt; omega
    | stoppingHung => exact hD.fin t ht (Or.inl hrt)
    | cStoppingHung => exact hD.fin t ht (Or.inr (Or.inl hrt))
    | exited => exact hD.fin t ht (Or.inr (Or.inr hrt))
  unfold G at hnow
  refine ⟨by omega, ?_⟩
  intro x hx
  have := (hE.exitNow x hx).2
  omega

/-! ### The stream / worker failure clause -/

/-- HISTORICAL: the model of the code BEFORE /repo 9ef1bcb (no edge from the ensemble tasks to the
    orchestrator), with the default grace periods in ticks of 1/64 s. -/
def cfgAsIs : Cfg := { fixed := false, E := 128, W := 264, D := 0, C := 0, H := 320 }

/-- startup succeeds, the orchestrator starts a resource watcher, its stream fails (fatal ERROR event →
    `WatchingError`), the watcher task ends FAILED -/
def lingerPrefix : List Label :=
  [.scStartupBegin, .scStartupEnd .none, .setStarted, .ready,
   .enter .daemonKiller, .coreEnter, .enter .poster, .enter .admChain, .enter .admValidating, .enter .admMutating,
   .enter .admServer, .enter .resObserver, .enter .nsObserver, .enter .orchestrator, .subSpawn .watcher,
   .subStopping 0 true, .subEnd 0 .failed]

/-- HISTORICAL WITNESS (finding F3, repaired by /repo 9ef1bcb) — about the OLD code, i.e. the variant
    `fixed := false`, NOT about the current tree: there, after a watcher task of the ensemble had failed, ANY
    amount of time could pass with the operator still waiting, every root task alive, nothing cancelled, no
    outcome. Kept to show that the hypothesis `cfg.fixed = true` of `stream_failure_stops_all` is not decorative. -/
theorem historical_stream_failure_lingers_witness (n : Nat) (hn : 0 < n) :
    ∃ s, run cfgAsIs init (lingerPrefix ++ [.delay n]) = some s
      ∧ s.st (.sub 0) = .failed ∧ s.rt = .waiting ∧ s.result = none ∧ s.now = n
      ∧ (∀ r, (s.st (.root r)).live = true) ∧ (∀ r, s.creq (.root r) = false) := by
  have hp : ∃ s0, run cfgAsIs init lingerPrefix = some s0 ∧ quiet s0 = true ∧ urgent cfgAsIs s0 = false
      ∧ s0.rt = .waiting ∧ s0.st (.sub 0) = .failed ∧ s0.result = none ∧ s0.now = 0
      ∧ (∀ r, (s0.st (.root r)).live = true) ∧ (∀ r, s0.creq (.root r) = false) := by
    refine ⟨_, rfl, by decide, by decide, rfl, by decide, rfl, rfl, ?_, ?_⟩ <;> (intro r; cases r <;> decide)
  obtain ⟨s0, h0, hq, hu, hw, hf, hres, hnow, hl, hc⟩ := hp
  refine ⟨{ s0 with now := s0.now + n }, ?_, hf, hw, hres, by simp [hnow], hl, hc⟩
  rw [run_append, h0]
  simp only [Option.bind_some, run]
  rw [quiet_delay hq hu (by simp [hw]) n hn]

/-- A failed watch stream of a ROOT observer stops the whole operator (for the ensemble's streams see
    `stream_failure_stops_all`; the name keeps `_partial` from the time when only this part held).
    The streams the root observers run themselves (CRD / namespace watch): such a task, once in its
    `finally:` after a stream failure (`stopping true`), can only end FAILED, and that is a root failure:
    registered (`rootFailed`), fail-fast (no time passes while `run_tasks` waits). -/
theorem stream_failure_stops_all_partial {cfg : Cfg} {s s' : State} (r : Root) (hk : r.kind = .observer)
    (dl : Option Nat) (hs : s.st (.root r) = .stopping true dl) (how : TS)
    (h : step cfg s (.rootEnd r how) = some s') :
    how = .failed ∧ s'.st (.root r) = .failed ∧ s'.rootFailed = true ∧
    (s'.rt = .waiting → ∀ n, step cfg s' (.delay n) = none) := by
  simp only [step, hk] at h
  split at h
  · simp only [hs] at h
    split at h
    · split at h
      · rename_i hh
        cases h
        simp only [failTS] at hh
        subst hh
        refine ⟨rfl, by simp, by simp, ?_⟩
        intro hw
        exact (root_failure_no_lingering r (by simp) hw).1
      · cases h
    · cases h
  · cases h

/-- THE CLAIM for the current tree (`cfg.fixed = true`): a failed ensemble task (watch stream, peering watch,
    keep-alive — or a watcher failed by its worker; NOT a watcher whose resource is merely gone, HTTP 404)
    cancels the running orchestrator at once (no time passes), the orchestrator then can only end FAILED,
    i.e. a root failure: everything is stopped (`root_failure_stops_all`), and `operator()` does not return
    normally. -/
theorem stream_failure_stops_all {cfg : Cfg} (hfix : cfg.fixed = true) {s : State} (hr : Reach cfg s) :
    (∀ i s', s.st (.root .orchestrator) = .running → s.gone i = false →
        step cfg s (.subEnd i .failed) = some s' →
        s'.creq (.root .orchestrator) = true ∧ s'.orchErr = true ∧ ∀ n, step cfg s' (.delay n) = none)
    ∧ (∀ i, i < s.nSubs → s.st (.sub i) = .failed → s.gone i = false → s.st (.root .orchestrator) = .running →
        s.creq (.root .orchestrator) = true ∧ ∀ n, step cfg s (.delay n) = none)
    ∧ (s.orchErr = true → (s.st (.root .orchestrator)).ended = true → s.st (.root .orchestrator) = .failed)
    ∧ (s.orchErr = true → s.rt = .exited → s.result = some .raised ∨ s.result = some .cancelled) := by
  have hB := InvB.reach hr
  have hC := InvC.reach hr
  have hE := InvE.reach hr
  have urgent_of : ∀ t : State, t.st (.root .orchestrator) = .running → t.creq (.root .orchestrator) = true →
      ∀ n, step cfg t (.delay n) = none := by
    intro t h1 h2 n
    have hu : urgent cfg t = true := by
      unfold urgent
      have : Root.all.any (fun r => taskUrgent t (.root r)) = true := by
        rw [List.any_eq_true]
        exact ⟨.orchestrator, Root.mem_all _, by simp [taskUrgent, h1, h2]⟩
      simp [this]
    simp [step, hu]
  refine ⟨?_, ?_, ?_, ?_⟩
  · intro i s' horch hgone h
    simp only [step] at h
    split at h
    · split at h
      · rename_i f dl hst
        split at h
        · rename_i hg
          have hf : f = true := by
            have := hg.1
            cases f <;> simp [failTS] at this ⊢
          subst hf
          rw [if_pos ⟨hfix, rfl, hgone, horch⟩] at h
          cases h
          refine ⟨by simp, rfl, ?_⟩
          apply urgent_of
          · simp [horch]
          · simp
        · cases h
      · cases h
    · cases h
  · intro i hi hf hgone horch
    have hc := hE.fixedEdge hfix i hi hf hgone horch
    exact ⟨hc, urgent_of s horch hc⟩
  · intro he hend
    rcases (hE.orchErrJ he).2 with ⟨h1, _⟩ | h1 | h1
    · rw [h1] at hend; cases hend
    · rw [h1] at hend; cases hend
    · exact h1
  · intro he hex
    have hended := hC.hungRoots (by simp [hex]) (by simp [hex]) (by simp [hex]) .orchestrator
    have hf : s.st (.root .orchestrator) = .failed := by
      rcases (hE.orchErrJ he).2 with ⟨h1, _⟩ | h1 | h1
      · rw [h1] at hended; cases hended
      · rw [h1] at hended; cases hended
      · exact h1
    have hrf : s.rootFailed = true := hB.rootFailedIff.mpr ⟨.orchestrator, hf⟩
    obtain ⟨r, hres⟩ := hC.resultSome hex
    cases r with
    | raised => exact Or.inl hres
    | cancelled => exact Or.inr hres
    | returned => have := hC.resReturned hres; rw [hrf] at this; cases this

/-- HTTP 404 is not a failure: a watcher whose resource is gone (`subGone`: e.g. its CRD was deleted) ends with
    that exception, but the orchestrator is neither cancelled nor marked as failed by it; and as long as the
    orchestrator runs, a new task can be spawned for the key (`terminate_redundancies` drops the keys of exited
    tasks, the spawners start them again when the pair is still or again served). -/
theorem gone_is_not_a_failure {cfg : Cfg} {s s' : State} (i : Nat) (hg : s.gone i = true)
    (h : step cfg s (.subEnd i .failed) = some s') :
    s'.creq (.root .orchestrator) = s.creq (.root .orchestrator) ∧ s'.orchErr = s.orchErr
    ∧ s'.st (.root .orchestrator) = s.st (.root .orchestrator)
    ∧ (s.st (.root .orchestrator) = .running → ∀ k, (step cfg s' (.subSpawn k)).isSome = true) := by
  simp only [step] at h
  split at h
  · rename_i hne
    split at h
    · split at h
      · rw [if_neg (by simp [hg])] at h
        cases h
        refine ⟨rfl, rfl, by simp, ?_⟩
        intro horch k
        simp [step, hne.1, horch]
      · cases h
    · cases h
  · cases h

/-! ### Non-vacuity: the hypotheses are met by non-trivial reachable states -/

/-- a complete run: startup, ready, an observer and the orchestrator with a watcher, a worker and a daemon, a
    stop flag, everything stopped in order, the cleanup activity, hung daemon, normal return -/
def fullRun : List Label :=
  [.scStartupBegin, .scStartupEnd .none, .setStarted, .ready,
   .enter .daemonKiller, .coreEnter, .enter .poster, .enter .admChain, .enter .admValidating, .enter .admMutating,
   .enter .admServer, .enter .resObserver, .enter .nsObserver, .enter .orchestrator,
   .act (.task (.root .resObserver)), .subSpawn .watcher, .subSpawn .pinger, .act (.task (.sub 0)),
   .workerStart (.sub 0), .act (.worker 0), .daemonSpawn, .delay 320,
   .setStopFlag, .rootEnd .stopFlag .done, .rtStopRoots,
   .rootEnd .ultimate .done, .scWake, .rootEnd .poster .cancelled, .rootEnd .admChain .cancelled,
   .rootEnd .admValidating .cancelled, .rootEnd .admMutating .cancelled, .rootEnd .admServer .cancelled,
   .rootEnd .nsObserver .cancelled, .rootStopping .resObserver false, .rootEnd .resObserver .cancelled,
   .rootStopping .daemonKiller false, .rootStopping .orchestrator false,
   .subStopping 0 false, .subStopping 1 false, .withdraw 1, .subEnd 1 .cancelled,
   .delay 64, .workerEnd 0 .done, .subEnd 0 .cancelled, .rootEnd .orchestrator .cancelled,
   .rootEnd .daemonKiller .cancelled, .scWaitRootsEnd, .scStopCore, .coreEnd .cancelled, .scCoreStopped,
   .delay 32, .scCleanupEnd .none, .vaultClosed, .rootEnd .startupCleanup .done,
   .rtHungWait, .delay 320, .rtStopHung, .daemonExit 0, .rtExit .returned]

def cfgDemo : Cfg := { fixed := false, E := 128, W := 264, D := 64, C := 32, H := 320 }

example : ∃ s, run cfgDemo init fullRun = some s ∧ s.rt = .exited ∧ s.result = some .returned
    ∧ s.cleanupBegun = true ∧ s.ready = true ∧ s.acts = 4 ∧ s.t0 = some 320 ∧ s.exitAt = some 736
    ∧ s.withdrawn 1 = true ∧ s.dm 0 = .ended :=
  ⟨_, rfl, by decide, by decide, by decide, by decide, by decide, by decide, by decide, by decide, by decide⟩

/-- a failed startup (hypothesis of `failed_startup_no_api`), run to its end: re-raised -/
example : ∃ s, run cfgDemo init
    [.scStartupBegin, .scStartupEnd .failed, .scStopCore, .coreEnd .cancelled, .scCoreStopped,
     .rootEnd .startupCleanup .failed, .rtStopRoots, .rootEnd .stopFlag .done, .rootEnd .ultimate .done,
     .rootEnd .daemonKiller .cancelled, .rootEnd .poster .cancelled, .rootEnd .admChain .cancelled,
     .rootEnd .admValidating .cancelled, .rootEnd .admMutating .cancelled, .rootEnd .admServer .cancelled,
     .rootEnd .resObserver .cancelled, .rootEnd .nsObserver .cancelled, .rootEnd .orchestrator .cancelled,
     .rtHungWait, .delay 320, .rtStopHung, .waiterEnd, .rtExit .raised] = some s
    ∧ s.startupFailed = true ∧ s.startupRaised = true ∧ s.rt = .exited ∧ s.result = some .raised ∧ s.acts = 0 :=
  ⟨_, rfl, by decide, by decide, by decide, by decide, by decide⟩

/-- a worker of a root observer fails (hypotheses of `worker_failure_reaches_watcher` and of
    `worker_failure_stops_all_partial`): the observer ends failed, nothing may linger -/
example : ∃ s, run cfgDemo init
    [.scStartupBegin, .scStartupEnd .none, .setStarted, .ready, .enter .resObserver, .workerStart (.root .resObserver),
     .workerEnd 0 .failed, .rootStopping .resObserver true, .rootEnd .resObserver .failed] = some s
    ∧ s.werr (.root .resObserver) = true ∧ s.st (.root .resObserver) = .failed ∧ s.rt = .waiting
    ∧ urgent cfgDemo s = true :=
  ⟨_, rfl, by decide, by decide, by decide, by decide⟩

/-- a watcher meets HTTP 404, its key-mate is cancelled as redundant, both are spawned anew (hypotheses of
    `gone_is_not_a_failure`); nothing is escalated -/
example : ∃ s, run { cfgAsIs with fixed := true } init
    [.scStartupBegin, .scStartupEnd .none, .setStarted, .ready,
     .enter .daemonKiller, .coreEnter, .enter .poster, .enter .admChain, .enter .admValidating, .enter .admMutating,
     .enter .admServer, .enter .resObserver, .enter .nsObserver, .enter .orchestrator,
     .subSpawn .peerWatcher, .subSpawn .pinger, .subGone 0, .subCancel 0, .subCancel 1, .subStopping 1 false,
     .withdraw 1, .subEnd 1 .cancelled, .subEnd 0 .failed, .subSpawn .peerWatcher, .subSpawn .pinger, .delay 64] = some s
    ∧ s.gone 0 = true ∧ s.st (.sub 0) = .failed ∧ s.st (.root .orchestrator) = .running
    ∧ s.creq (.root .orchestrator) = false ∧ s.orchErr = false ∧ s.nSubs = 4 ∧ s.now = 64 :=
  ⟨_, rfl, by decide, by decide, by decide, by decide, by decide, by decide, by decide⟩

/-- the `fixed` variant on the witness prefix of F3: the orchestrator is cancelled by the failed watcher,
    time cannot pass (hypotheses of `stream_failure_stops_all`) -/
example : ∃ s, run { cfgAsIs with fixed := true } init lingerPrefix = some s
    ∧ s.st (.sub 0) = .failed ∧ s.st (.root .orchestrator) = .running ∧ s.creq (.root .orchestrator) = true
    ∧ s.orchErr = true ∧ urgent { cfgAsIs with fixed := true } s = true :=
  ⟨_, rfl, by decide, by decide, by decide, by decide, by decide⟩

end Kopf.C20
