/-
  C20 — Operator lifecycle: startup first, fail-fast, cleanup last, bounded exit. Property theorems only.

  All theorems are about `Reach cfg s` / `ReachC cfg s` (states reachable by ANY label list / by any COOPERATIVE
  label list of the model `Kopf.Model.C20_Lifecycle`) or about label lists themselves: no bound on length, on the
  number of ensemble tasks, workers, daemons, or on the moments of failures and stop requests.
  * `cfg.fixed = true` is THE MODEL OF THE CURRENT TREE for the ensemble tasks (since /repo 9ef1bcb the orchestrator
    monitors them; `Kopf/Tie/C20.lean` re-checks that against the source on every run); `cfg.fixed = false` is the
    historical variant without the edge "failed ensemble task → orchestrator".
  * `cfg.coreWatched = true` is THE MODEL OF THE CURRENT TREE for the core task (since /repo ed52a1a the stop-flag
    checker — a root task — also awaits the core tasks and their errors are re-raised after the cleanup activity;
    `Kopf/Tie/C20.lean` re-checks that against the source on every run); `cfg.coreWatched = false` is the historical
    variant in which nobody awaited the credentials retriever (finding C20-F6).
  * Cooperativity (tasks honour cancellation at once, waits end when their condition holds, the timed waits E, W, D,
    C, H are kept) is NOT built into the transition relation: `delay` is always enabled; a run is cooperative iff all
    its delays satisfy `coopDelay` (`runC`, `ReachC`). Theorems about time say so in their hypotheses.
  * `cfg.orchShielded = false` is THE MODEL OF THE CURRENT TREE for the orchestrator's `except CancelledError:`: its
    `await aiotasks.stop(ensemble tasks)` is NOT shielded, so a SECOND cancellation — `run_tasks` stopping the root
    tasks after a stop request or another failure, while the orchestrator is already stopping its ensemble because an
    ensemble task has failed — interrupts it: label `orchAbandon`, flag `abandoned` (finding C20-F8). Cancellation is
    modelled per task as in the code: `queueing.watcher` (observers, ensemble watchers) shields its `finally:` and
    suppresses a second cancellation; the daemon killer is cancelled only once; the orchestrator is the exception.
    After `orchAbandon` the model does NOT describe the code any more (the code lets the cleanup run beside the orphaned
    ensemble and drops the failure: `double_cancel_abandons_ensemble_witness`, replayed on kopf): every theorem about the
    shutdown carries the EXACT guard `s.abandoned = false` ("the orchestrator was not double-cancelled"), which holds
    for every reachable state of the variant `orchShielded = true` (`shielded_never_abandoned`: the proposed repair).
  Theorems that do not mention `cfg.fixed` / `cfg.coreWatched` / `cfg.orchShielded` hold for all variants.
-/
import Kopf.Lemmas.C20_Trace
import Kopf.Lemmas.C20_InvT
namespace Kopf.C20

/-! ### Startup first -/

/-- No API activity (request or handler call of any task, incl. the peering withdrawal) before all
    startup handlers have succeeded: in every accepted label list an activity label is preceded by the
    successful end of the startup activity and by `started_flag.set()`; every task that can act sits
    behind that flag. -/
theorem no_api_before_startup {cfg : Cfg} (ls : List Label) (l : Label) (s : State)
    (hl : l.isActivity = true) (h : run cfg init (ls ++ [l]) = some s) :
    Label.scStartupEnd .none ∈ ls ∧ Label.setStarted ∈ ls := by
  rw [run_append] at h
  cases h1 : run cfg init ls with
  | none => simp [h1] at h
  | some s1 =>
    simp only [h1, Option.bind_some, run] at h
    cases h2 : step cfg s1 l with
    | none => simp [h2] at h
    | some s2 =>
      have hA := InvA.reach (cfg := cfg) ⟨ls, h1⟩
      have hst := activity_needs_started hA hl h2
      have hdone := (hA.startedDone hst).1
      refine ⟨?_, ?_⟩
      · rcases startupDone_run ls init s1 h1 hdone with h3 | h3
        · simp [init] at h3
        · exact h3
      · rcases started_run ls init s1 h1 hst with h3 | h3
        · simp [init] at h3
        · exact h3

/-- A failed (or interrupted) startup: no API activity has happened or will happen, the flags stay down;
    and when a startup handler failed for good, `operator()` does not return normally (it re-raises, or
    ends cancelled if it was itself cancelled). -/
theorem failed_startup_no_api {cfg : Cfg} {s : State} (hr : Reach cfg s) (hf : s.startupFailed = true) :
    s.acts = 0 ∧ s.started = false ∧ s.ready = false ∧
    (s.startupRaised = true → s.rt = .exited → s.result = some .raised ∨ s.result = some .cancelled) := by
  have hA := InvA.reach hr
  have hB := InvB.reach hr
  have hC := InvC.reach hr
  have hns : s.started = false := by
    cases hs : s.started with
    | false => rfl
    | true => have := (hA.startedDone hs).2; rw [hf] at this; cases this
  have hnr : s.ready = false := by
    cases hs : s.ready with
    | false => rfl
    | true => have := hA.readyStarted hs; rw [hns] at this; cases this
  refine ⟨(hA.notStarted hns).2.2.2.2.1, hns, hnr, ?_⟩
  intro hraised hex
  have hended := hC.hungRoots (by simp [hex]) (by simp [hex]) (by simp [hex]) .startupCleanup
  obtain ⟨p, hp, hst⟩ := hC.scOver hended
  have hpf : p = .failed := by
    rcases hC.raisedSc hraised with h | h | h <;> rw [hp] at h <;> cases h
    rfl
  subst hpf
  have hrf : s.rootFailed = true := hB.rootFailedIff.mpr ⟨.startupCleanup, hst⟩
  obtain ⟨r, hres⟩ := hC.resultSome hex
  cases r with
  | raised => exact Or.inl hres
  | cancelled => exact Or.inr hres
  | returned => have := hC.resReturned hres; rw [hrf] at this; cases this

/-- The ready flag is raised only after startup: behind `started_flag`, which is set only after the
    startup activity has returned successfully. -/
theorem ready_after_startup {cfg : Cfg} {s : State} (hr : Reach cfg s) (h : s.ready = true) :
    s.started = true ∧ s.startupDone = true ∧ s.startupFailed = false := by
  have hA := InvA.reach hr
  have hs := hA.readyStarted h
  exact ⟨hs, hA.startedDone hs⟩

/-! ### Fail-fast: any root task ending stops everything, and the run call returns -/

/-- Once `run_tasks` has begun to stop the root tasks, EVERY other root task that is still alive has been cancelled
    (the request is pending) or is already in its `finally:`; `run_tasks` reaches the hung-task phase only when all
    root tasks have ended, and returns only when all hung tasks are gone as well. -/
theorem root_failure_stops_all {cfg : Cfg} {s : State} (hr : ReachC cfg s) (hna : s.abandoned = false) :
    ((s.rt = .stoppingRoots ∨ s.rt = .cStoppingRoots) → ∀ r, r ≠ .startupCleanup → (s.st (.root r)).live = true →
        s.creq (.root r) = true ∨ (s.st (.root r)).isStopping = true)
    ∧ (s.rt ≠ .waiting → s.rt ≠ .stoppingRoots → s.rt ≠ .cStoppingRoots → ∀ r, (s.st (.root r)).ended = true)
    ∧ (s.rt = .exited → hungLive s = false) := by
  have hC := InvC.reach hr.reach
  have hD := InvD.reachC hr
  refine ⟨?_, hC.hungRoots, ?_⟩
  · intro hph r hrne hl
    have hnw : s.rt ≠ .waiting := by rcases hph with h | h <;> simp [h]
    obtain ⟨t, ht, _⟩ := hC.t0Some hnw
    rcases hD.a t ht hph r hrne hl with ⟨h, _⟩ | h
    · exact Or.inl h
    · exact Or.inr h
  · intro hex
    rw [hungLive_false_iff]
    exact hC.exitedHung hex

/-- THE RUN CALL CAN RETURN (progress, as a POSSIBILITY: EF, not AF). After a trigger (`Triggered`: a stop was
    requested, a root task has ended for whatever reason, `run_tasks` is already stopping, or a failure that the code
    escalates has happened — `tFail`) every cooperatively reachable state that is not `abandoned` has a continuation to
    `exited` that consists of INTERNAL steps only (`internal`: no further action of the environment, no new failure;
    it contains the fairness assumptions: daemons exit, workers finish, the cleanup activity ends), is itself
    cooperative and never abandons the ensemble. NOT proved: that EVERY fair continuation exits (inevitability).
    Together with `no_timelock` and the bounds: the shutdown cannot get stuck, cannot be blocked with the clock
    stopped, and — when it proceeds cooperatively — is over within the bound. -/
theorem returns {cfg : Cfg} {s : State} (hr : ReachC cfg s) (ht : Triggered s) (hna : s.abandoned = false) :
    ∃ ls s', runI cfg s ls = some s' ∧ s'.rt = .exited ∧ s'.abandoned = false :=
  returns_aux (mu cfg s) s (Nat.le_refl _) hr ht hna

/-- No timelock: whenever cooperativity forbids time to pass (`urgent`), some internal non-`delay` step is enabled —
    "time cannot pass" never means "nothing can happen". -/
theorem no_timelock {cfg : Cfg} {s : State} (hr : ReachC cfg s) (hne : s.rt ≠ .exited)
    (hu : urgent cfg s = true) :
    ∃ l s', internal s l = true ∧ (∀ n, l ≠ .delay n) ∧ stepC cfg s l = some s' := by
  rcases advance_or_wait hr hne with ⟨l, s', h1, h2, h3, _⟩ | ⟨hq, _⟩
  · exact ⟨l, s', h1, h2, by rw [stepC_eq_step h2]; exact h3⟩
  · rw [hu] at hq; cases hq

/-! ### Cleanup last -/

/-- The cleanup activity begins only after all other root tasks and the core task have ended — and with them every
    ensemble task (watch streams, peering), every worker (hence every handler in flight), and every COOPERATIVE
    daemon the daemon killer has sent an exit stopper to (unless the killer itself crashed). Daemons that ignore
    their stopper, daemons spawned after the killer's `finally:`, and orphaned helper tasks may outlive the cleanup:
    they are "hung tasks" (`no_daemon_alive_at_return`).
    Last conjunct (since /repo 1d3a667 nothing is spawned after the daemon killer's sweep: `daemonSpawn` needs
    `killed = false`): once the killer has swept, EVERY daemon that is still running has got an exit stopper — what runs
    on is a daemon that ignores its stopper and that kopf abandons by design (deviation C20-D1), never one that nobody
    asked to stop (the repaired C20-F9). -/
theorem cleanup_last {cfg : Cfg} {s : State} (hr : Reach cfg s) (h : s.cleanupBegun = true) (hna : s.abandoned = false) :
    (∀ r, r ≠ .startupCleanup → (s.st (.root r)).ended = true) ∧ s.core.live = false
    ∧ (∀ i, i < s.nSubs → (s.st (.sub i)).live = false)
    ∧ (∀ w o, s.wk w ≠ some (o, .running))
    ∧ (s.st (.root .daemonKiller) ≠ .failed →
        ∀ d, d < s.nDaemons → s.stopReq d = true → s.coop d = true → s.dm d = .ended)
    ∧ (s.killed = true → ∀ d, d < s.nDaemons → s.dm d = .running → s.stopReq d = true) := by
  have hB := InvB.reach hr
  have hC := InvC.reach hr
  have hE := InvE.reach (cfg := cfg) hr
  obtain ⟨h1, h2⟩ := hC.cleanupB h
  have hsub : ∀ i, i < s.nSubs → (s.st (.sub i)).live = false := by
    intro i hi
    cases hl : (s.st (.sub i)).live with
    | false => rfl
    | true =>
      have := hB.subOrch i hi hl
      rw [TS.ended_not_active (h1 .orchestrator (by decide))] at this
      cases this
  refine ⟨h1, h2, hsub, ?_, ?_, hE.sweptReq⟩
  · intro w o hw
    cases o with
    | root r =>
      obtain ⟨_, hact, hk⟩ := hB.wkRoot w r hw
      have hne : r ≠ .startupCleanup := by intro hc; subst hc; simp [Root.kind] at hk
      rw [TS.ended_not_active (h1 r hne)] at hact
      cases hact
    | sub i =>
      obtain ⟨_, hact, hi⟩ := hB.wkSub w i hw
      have := hsub i hi
      rw [TS.active_live hact] at this
      cases this
  · intro hnf d hd hsr hco
    have h3 := hE.killerDone (h1 .daemonKiller (by decide)) hnf d hd hsr hco
    have h4 := hE.dmPresent d hd
    cases hdm : s.dm d with
    | ended => rfl
    | running => exact absurd hdm h3
    | absent => exact absurd hdm h4

/-! ### The run call re-raises the failure -/

/-- When `operator()` is over it has an outcome; it raises only if some root task — or some HUNG task (`run_tasks`
    re-raises `root_done | root_cancelled | hung_done | hung_cancelled`: a daemon's helper cancelled as a hung task can fail
    the whole run, see finding C20-F9) — has failed, and it returns normally only if NO root task failed (the cancelled
    outcome is the operator's own cancellation). WHICH of several failures is raised is not specified by the code (set
    iteration order) and not by the model. -/
theorem reraise {cfg : Cfg} {s : State} (hr : Reach cfg s) (hex : s.rt = .exited) (hna : s.abandoned = false) :
    ∃ r, s.result = some r ∧ (r = .raised → (∃ q, s.st (.root q) = .failed) ∨ s.hungFailed = true)
      ∧ (r = .returned → ∀ q, s.st (.root q) ≠ .failed) := by
  have hB := InvB.reach hr
  have hC := InvC.reach hr
  obtain ⟨r, hres⟩ := hC.resultSome hex
  refine ⟨r, hres, ?_, ?_⟩
  · intro h; subst h
    rcases hC.resRaised hres with h | h
    · exact Or.inl (hB.rootFailedIff.mp h)
    · exact Or.inr h
  · intro h q hq; subst h
    have := hB.rootFailedIff.mpr ⟨q, hq⟩
    rw [hC.resReturned hres] at this
    cases this

/-- No daemon task is alive when `operator()` is over (whoever ended it: its exit stopper, or the hung-task
    cancellation of `run_tasks`; see `cleanup_last` for what is over BEFORE the cleanup). -/
theorem no_daemon_alive_at_return {cfg : Cfg} {s : State} (hr : Reach cfg s) (hex : s.rt = .exited) (hna : s.abandoned = false) :
    ∀ d, d < s.nDaemons → s.dm d = .ended := by
  intro d hd
  have h1 := ((InvC.reach hr).exitedHung hex).2.1 d hd
  have h2 := (InvE.reach (cfg := cfg) hr).dmPresent d hd
  cases hdm : s.dm d with
  | ended => rfl
  | running => exact absurd hdm h1
  | absent => exact absurd hdm h2

/-- The peering record: when `operator()` is over every keep-alive task has ended, and none ends without having
    ATTEMPTED the withdrawal (`lifetime=0` PATCH). FULL CLAUSE "the record is withdrawn" is NOT provable: kopf logs
    and ignores a failure of that PATCH (`peering.keepalive`'s `finally:`), see `withdrawal_may_fail_witness`. -/
theorem peering_withdrawal_attempted {cfg : Cfg} {s : State} (hr : Reach cfg s) (hex : s.rt = .exited) (hna : s.abandoned = false)
    (i : Nat) (hi : i < s.nSubs) (hk : s.kind i = .pinger) :
    (s.st (.sub i)).ended = true ∧ s.withdrawn i = true := by
  have hB := InvB.reach hr
  have hC := InvC.reach hr
  have hoe := hC.hungRoots (by simp [hex]) (by simp [hex]) (by simp [hex]) .orchestrator
  have hpres := (InvE.reach (cfg := cfg) hr).subPresent i hi
  have hend : (s.st (.sub i)).ended = true := by
    cases hst : s.st (.sub i) with
    | absent => exact absurd hst hpres
    | failed | cancelled | done => rfl
    | waitingFlag | running | stopping f dl =>
      have := hB.subOrch i hi (by simp [hst])
      rw [TS.ended_not_active hoe] at this
      cases this
  exact ⟨hend, hB.withdrawnJ i hi hk hend⟩

/-! ### Worker failures -/

/-- FULL CLAUSE ("an object worker failing unrecoverably stops the whole operator") is false of the code for a
    worker that fails while its watcher is already in its `finally:` — see
    `worker_failure_during_depletion_dropped_witness` (finding C20-F5). PROVED under the exact guard
    `s.st o = .running` (the watcher still streams): the failure reaches the watcher (`exception_handler`): it is
    cancelled with `worker_error` set, and a watcher with `worker_error` can only end FAILED. -/
theorem worker_failure_reaches_watcher_partial {cfg : Cfg} {s s' : State} (hr : Reach cfg s) (w : Nat) (o : Task)
    (hw : s.wk w = some (o, .running)) (ho : s.st o = .running)
    (h : step cfg s (.workerEnd w .failed) = some s') :
    s'.werr o = true ∧ s'.creq o = true ∧
    (∀ t : State, Reach cfg t → t.werr o = true → (t.st o).ended = true → t.st o = .failed) := by
  have hB := InvB.reach hr
  refine ⟨?_, ?_, ?_⟩
  · simp only [step] at h
    split at h
    · simp only [hw] at h
      split at h
      · cases h; simp
      · cases h
        rename_i hn
        cases hwe : s.werr o with
        | true => rfl
        | false => exact absurd ⟨ho, hwe⟩ hn
    · cases h
  · simp only [step] at h
    split at h
    · simp only [hw] at h
      split at h
      · cases h; simp
      · cases h
        rename_i hn
        cases hwe : s.werr o with
        | false => exact absurd ⟨ho, hwe⟩ hn
        | true =>
          cases o with
          | root r =>
            rcases (hB.werrRoot r hwe).2 with ⟨_, hc⟩ | ⟨dl, hs⟩ | hs
            · exact hc
            · rw [ho] at hs; cases hs
            · rw [ho] at hs; cases hs
          | sub i =>
            rcases (hB.werrSub i hwe).2 with ⟨_, hc⟩ | ⟨dl, hs⟩ | hs
            · exact hc
            · rw [ho] at hs; cases hs
            · rw [ho] at hs; cases hs
    · cases h
  · intro t ht hwe hend
    have hBt := InvB.reach ht
    cases o with
    | root r =>
      rcases (hBt.werrRoot r hwe).2 with ⟨hs, _⟩ | ⟨dl, hs⟩ | hs
      · rw [hs] at hend; cases hend
      · rw [hs] at hend; cases hend
      · exact hs
    | sub i =>
      rcases (hBt.werrSub i hwe).2 with ⟨hs, _⟩ | ⟨dl, hs⟩ | hs
      · rw [hs] at hend; cases hend
      · rw [hs] at hend; cases hend
      · exact hs

/-- A failed worker stops the whole operator (current tree, `fixed`; for a worker that failed while its watcher
    was streaming, see the `_partial` above): the watcher — a root observer or an ensemble task — can only end
    FAILED and is not "gone" (HTTP 404 cannot overtake the pending cancellation). For a root observer that is a
    root failure; for an ensemble task the running orchestrator is cancelled at once and cooperative time cannot
    pass (then `stream_failure_stops_all`, `root_failure_stops_all`, `returns`). -/
theorem worker_failure_stops_all {cfg : Cfg} (hfix : cfg.fixed = true) {s : State} (hr : Reach cfg s) (hna : s.abandoned = false) :
    (∀ r, s.werr (.root r) = true → (s.st (.root r)).ended = true →
        s.st (.root r) = .failed ∧ s.rootFailed = true ∧ (s.rt = .waiting → ∀ n, coopDelay cfg s n = false))
    ∧ (∀ i, s.werr (.sub i) = true → (s.st (.sub i)).ended = true →
        s.st (.sub i) = .failed ∧ s.gone i = false ∧
        (s.st (.root .orchestrator) = .running → s.creq (.root .orchestrator) = true ∧ ∀ n, coopDelay cfg s n = false)) := by
  have hB := InvB.reach hr
  have hE := InvE.reach (cfg := cfg) hr
  refine ⟨?_, ?_⟩
  · intro r hw he
    have hf : s.st (.root r) = .failed := by
      rcases (hB.werrRoot r hw).2 with ⟨hs, _⟩ | ⟨dl, hs⟩ | hs
      · rw [hs] at he; cases he
      · rw [hs] at he; cases he
      · exact hs
    exact ⟨hf, hB.rootFailedIff.mpr ⟨r, hf⟩, fun hwt => (root_ended_urgent r he hwt).1⟩
  · intro i hw he
    obtain ⟨hi, hdisj⟩ := hB.werrSub i hw
    have hf : s.st (.sub i) = .failed := by
      rcases hdisj with ⟨hs, _⟩ | ⟨dl, hs⟩ | hs
      · rw [hs] at he; cases he
      · rw [hs] at he; cases he
      · exact hs
    have hg := hE.werrNotGone i hw
    refine ⟨hf, hg, ?_⟩
    intro horch
    have hc := hE.fixedEdge hfix i hi hf hg horch
    refine ⟨hc, ?_⟩
    intro n
    have hu : urgent cfg s = true := by
      unfold urgent
      have : Root.all.any (fun r => taskUrgent s (.root r)) = true := by
        rw [List.any_eq_true]
        exact ⟨.orchestrator, Root.mem_all _, by simp [taskUrgent, horch, hc]⟩
      simp [this]
    simp [coopDelay, hu]

/-! ### Bounded exit -/

/-- PARTIAL w.r.t. the property's "within the bounded grace periods": proved for COOPERATIVE runs only (`ReachC`:
    every `delay` satisfies `coopDelay` — tasks honour cancellation at once, the cleanup activity takes at most `C`,
    kopf sets no limit for it; one stop trigger per run). From the moment `run_tasks` begins to stop the root tasks
    (`t0`: a root task ended, or `operator()` was cancelled) the operator is gone within
    `E` (worker depletion, `settings.queueing.exit_timeout`) + `W` (peering withdrawal) + `D` (exit stoppers of
    daemons) + `C` (cleanup activity) + `H` (hung tasks, 5 s). For a NON-cooperative run nothing bounds the exit
    (`aiotasks.stop` has no timeout): `noncooperative_exit_unbounded_witness`. The time between a failure and `t0` is
    covered by `failure_to_stop_bound_partial`. -/
theorem exit_bound_partial {cfg : Cfg} {s : State} (hr : ReachC cfg s) (hna : s.abandoned = false) (t : Nat) (ht : s.t0 = some t) :
    s.now ≤ t + cfg.E + cfg.W + cfg.D + cfg.C + cfg.H ∧
    (∀ x, s.exitAt = some x → x ≤ t + cfg.E + cfg.W + cfg.D + cfg.C + cfg.H) := by
  have hC := InvC.reach hr.reach
  have hD := InvD.reachC hr
  have hE := InvE.reach (cfg := cfg) hr.reach
  have hnow : s.now ≤ t + G cfg + cfg.C + cfg.H := by
    cases hrt : s.rt with
    | waiting => have := (hC.waitingEarly hrt).2.2; rw [ht] at this; cases this
    | stoppingRoots => have := hD.g2 t ht (Or.inl hrt); omega
    | cStoppingRoots => have := hD.g2 t ht (Or.inr hrt); omega
    | hungWait dl => have := hD.dlHung dl hrt; have := hD.hung t dl ht hrt; omega
    | stoppingHung => exact hD.fin t ht (Or.inl hrt)
    | cStoppingHung => exact hD.fin t ht (Or.inr (Or.inl hrt))
    | exited => exact hD.fin t ht (Or.inr (Or.inr hrt))
  unfold G at hnow
  refine ⟨by omega, ?_⟩
  intro x hx
  have := (hE.exitNow x hx).2
  omega

/-- PARTIAL (cooperative runs, like `exit_bound_partial`): FROM THE FAILURE. `tFail` is the moment of the first
    failure the code escalates (`markFail`: a failed startup handler, a failing stream or task of a root observer,
    a worker failing under a streaming watcher; an ensemble task in the variant `fixed`, the core task in the variant
    `coreWatched`). `run_tasks` stops waiting within `2·(E+W+D)` of it (the failing task's own `finally:`, then — for
    an ensemble task — the orchestrator stopping the other streams), hence the operator is gone within
    `3·(E+W+D) + C + H` of the failure. This is the bound the oracle of the harness uses for runs with a failure. -/
theorem failure_to_stop_bound_partial {cfg : Cfg} {s : State} (hr : ReachC cfg s) (hna : s.abandoned = false) (tf : Nat)
    (htf : s.tFail = some tf) :
    (s.rt = .waiting → s.now ≤ tf + 2 * (cfg.E + cfg.W + cfg.D))
    ∧ (∀ t, s.t0 = some t → t ≤ tf + 2 * (cfg.E + cfg.W + cfg.D))
    ∧ s.now ≤ tf + 3 * (cfg.E + cfg.W + cfg.D) + cfg.C + cfg.H := by
  have hT := InvT.reachC hr
  have hT0 := InvT0.reachC hr
  have hC := InvC.reach hr.reach
  have h1 : s.rt = .waiting → s.now ≤ tf + 2 * (cfg.E + cfg.W + cfg.D) := by
    intro hw; have := hT.bound tf hw htf; unfold G at this; exact this
  have h2 : ∀ t, s.t0 = some t → t ≤ tf + 2 * (cfg.E + cfg.W + cfg.D) := by
    intro t ht; have := hT0 t tf ht htf; unfold G at this; exact this
  refine ⟨h1, h2, ?_⟩
  by_cases hw : s.rt = .waiting
  · have := h1 hw; omega
  · obtain ⟨t, ht, _⟩ := hC.t0Some hw
    have := h2 t ht
    have := (exit_bound_partial hr hna t ht).1
    omega

/-! ### The stream / worker failure clause (ensemble tasks) -/

/-- HISTORICAL: the model of the code BEFORE /repo 9ef1bcb (no edge from the ensemble tasks to the orchestrator),
    with the default grace periods in ticks of 1/64 s. -/
def cfgHistorical : Cfg := { fixed := false, coreWatched := false, orchShielded := false, E := 128, W := 264, D := 64, C := 32, H := 320 }

/-- THE CURRENT TREE: what `Kopf/Tie/C20.lean` proves equal to the facts extracted from the source. -/
def cfgHead : Cfg := headCfg 128 264 64 32 320

/-- HISTORICAL: the tree BEFORE /repo ed52a1a, when nobody awaited the core task (finding C20-F6) -/
def cfgCoreUnwatched : Cfg := { cfgHead with coreWatched := false }

/-- the tree with the repair of C20-F6 (/repo ed52a1a) — equal to `cfgHead` (`cfgProposed_eq_head`); the name is kept
    from the time when the repair was a proposal -/
def cfgProposed : Cfg := { cfgHead with coreWatched := true }

theorem cfgProposed_eq_head : cfgProposed = cfgHead := rfl

/-- the tree with the proposed repair of C20-F8 (`/verif/proposals/fix-C20F8.diff`): the orchestrator shields the stop of
    its ensemble from further cancellations -/
def cfgShielded : Cfg := { cfgHead with orchShielded := true }

/-- startup succeeds, every guarded task and the core task enter -/
def startAll : List Label :=
  [.scStartupBegin, .scStartupEnd .none, .setStarted, .ready,
   .enter .daemonKiller, .coreEnter, .enter .poster, .enter .admChain, .enter .admValidating, .enter .admMutating,
   .enter .admServer, .enter .resObserver, .enter .nsObserver, .enter .orchestrator]

/-- … the orchestrator starts a resource watcher, its stream fails (fatal ERROR event → `WatchingError`), the
    watcher task ends FAILED -/
def lingerPrefix : List Label := startAll ++ [.subSpawn .watcher, .subStopping 0 true, .subEnd 0 .failed]

/-- HISTORICAL WITNESS (finding F3, repaired by /repo 9ef1bcb) — about the OLD code, i.e. the variant
    `fixed := false`, NOT about the current tree: there, after a watcher task of the ensemble had failed, ANY amount
    of time could pass COOPERATIVELY with the operator still waiting, every root task alive, nothing cancelled, no
    outcome. Kept to show that the hypothesis `cfg.fixed = true` of `stream_failure_stops_all` is not decorative. -/
theorem historical_stream_failure_lingers_witness (n : Nat) (hn : 0 < n) :
    ∃ s, runC cfgHistorical init (lingerPrefix ++ [.delay n]) = some s
      ∧ s.st (.sub 0) = .failed ∧ s.rt = .waiting ∧ s.result = none ∧ s.now = n
      ∧ (∀ r, (s.st (.root r)).live = true) ∧ (∀ r, s.creq (.root r) = false) := by
  have hp : ∃ s0, runC cfgHistorical init lingerPrefix = some s0 ∧ quiet s0 = true ∧ urgent cfgHistorical s0 = false
      ∧ s0.rt = .waiting ∧ s0.st (.sub 0) = .failed ∧ s0.result = none ∧ s0.now = 0
      ∧ (∀ r, (s0.st (.root r)).live = true) ∧ (∀ r, s0.creq (.root r) = false) := by
    refine ⟨_, rfl, by decide, by decide, rfl, by decide, rfl, rfl, ?_, ?_⟩ <;> (intro r; cases r <;> decide)
  obtain ⟨s0, h0, hq, hu, hw, hf, hres, hnow, hl, hc⟩ := hp
  refine ⟨{ s0 with now := s0.now + n }, ?_, hf, hw, hres, by simp [hnow], hl, hc⟩
  rw [runC_append, h0]
  simp only [Option.bind_some, runC]
  rw [quiet_delay hq hu (by simp [hw]) n hn]

/-- THE CLAIM for the current tree (`cfg.fixed = true`): a failed ensemble task (watch stream, peering watch,
    keep-alive — or a watcher failed by its worker; NOT a watcher whose resource is merely gone, HTTP 404) cancels
    the running orchestrator at once (no cooperative time passes), the orchestrator then can only end FAILED, i.e. a
    root failure: everything is stopped (`root_failure_stops_all`), the run call returns (`returns`, within
    `failure_to_stop_bound_partial`), and not normally. -/
theorem stream_failure_stops_all {cfg : Cfg} (hfix : cfg.fixed = true) {s : State} (hr : Reach cfg s) (hna : s.abandoned = false) :
    (∀ i s', s.st (.root .orchestrator) = .running → s.gone i = false →
        step cfg s (.subEnd i .failed) = some s' →
        s'.creq (.root .orchestrator) = true ∧ s'.orchErr = true ∧ ∀ n, coopDelay cfg s' n = false)
    ∧ (∀ i, i < s.nSubs → s.st (.sub i) = .failed → s.gone i = false → s.st (.root .orchestrator) = .running →
        s.creq (.root .orchestrator) = true ∧ ∀ n, coopDelay cfg s n = false)
    ∧ (s.orchErr = true → (s.st (.root .orchestrator)).ended = true → s.st (.root .orchestrator) = .failed)
    ∧ (s.orchErr = true → s.rt = .exited → s.result = some .raised ∨ s.result = some .cancelled) := by
  have hB := InvB.reach hr
  have hC := InvC.reach hr
  have hE := InvE.reach (cfg := cfg) hr
  have urgent_of : ∀ t : State, t.st (.root .orchestrator) = .running → t.creq (.root .orchestrator) = true →
      ∀ n, coopDelay cfg t n = false := by
    intro t h1 h2 n
    have hu : urgent cfg t = true := by
      unfold urgent
      have : Root.all.any (fun r => taskUrgent t (.root r)) = true := by
        rw [List.any_eq_true]
        exact ⟨.orchestrator, Root.mem_all _, by simp [taskUrgent, h1, h2]⟩
      simp [this]
    simp [coopDelay, hu]
  refine ⟨?_, ?_, ?_, ?_⟩
  · intro i s' horch hgone h
    simp only [step] at h
    split at h
    · split at h
      · rename_i f dl hst
        split at h
        · rename_i hg
          have hf : f = true := by
            have := hg.1
            cases f <;> simp [failTS] at this ⊢
          subst hf
          rw [if_pos ⟨hfix, rfl, hgone, horch⟩] at h
          cases h
          refine ⟨by simp, rfl, ?_⟩
          apply urgent_of
          · simp [horch]
          · simp
        · cases h
      · cases h
    · cases h
  · intro i hi hf hgone horch
    have hc := hE.fixedEdge hfix i hi hf hgone horch
    exact ⟨hc, urgent_of s horch hc⟩
  · intro he hend
    rcases (hE.orchErrJ he).2 with ⟨h1, _⟩ | h1 | h1
    · rw [h1] at hend; cases hend
    · rw [h1] at hend; cases hend
    · exact h1
  · intro he hex
    have hended := hC.hungRoots (by simp [hex]) (by simp [hex]) (by simp [hex]) .orchestrator
    have hf : s.st (.root .orchestrator) = .failed := by
      rcases (hE.orchErrJ he).2 with ⟨h1, _⟩ | h1 | h1
      · rw [h1] at hended; cases hended
      · rw [h1] at hended; cases hended
      · exact h1
    have hrf : s.rootFailed = true := hB.rootFailedIff.mpr ⟨.orchestrator, hf⟩
    obtain ⟨r, hres⟩ := hC.resultSome hex
    cases r with
    | raised => exact Or.inl hres
    | cancelled => exact Or.inr hres
    | returned => have := hC.resReturned hres; rw [hrf] at this; cases this

/-- HTTP 404 is not a failure: a watcher whose resource is gone (`subGone`: e.g. its CRD was deleted) ends with
    that exception, but the orchestrator is neither cancelled nor marked as failed by it; and as long as the
    orchestrator runs, a new task can be spawned for the key (`terminate_redundancies` drops the keys of exited
    tasks, the spawners start them again when the pair is still or again served). -/
theorem gone_is_not_a_failure {cfg : Cfg} {s s' : State} (i : Nat) (hg : s.gone i = true)
    (h : step cfg s (.subEnd i .failed) = some s') :
    s'.creq (.root .orchestrator) = s.creq (.root .orchestrator) ∧ s'.orchErr = s.orchErr
    ∧ s'.st (.root .orchestrator) = s.st (.root .orchestrator)
    ∧ (s.st (.root .orchestrator) = .running → ∀ k, (step cfg s' (.subSpawn k)).isSome = true) := by
  simp only [step] at h
  split at h
  · rename_i hne
    split at h
    · split at h
      · rw [if_neg (by simp [hg])] at h
        have hs1 : s' = { s with st := upd s.st (.sub i) .failed } := by
          split at h
          · rw [if_neg (by simp [hg])] at h; cases h; rfl
          · cases h; rfl
        subst hs1
        refine ⟨rfl, rfl, by simp, ?_⟩
        intro horch k
        simp [step, hne.1, horch]
      · cases h
    · cases h
  · cases h

/-! ### The core task (credentials retriever): finding C20-F6, repaired by /repo ed52a1a -/

/-- … the core task fails (the login handlers fail for good: `ActivityError`) -/
def coreFail : List Label := startAll ++ [.coreEnd .failed]

/-- HISTORICAL WITNESS (finding C20-F6, repaired by /repo ed52a1a) — about the OLD code, i.e. the variant
    `coreWatched := false`, NOT about the current tree: there, after the core task had failed, ANY amount of time could
    pass cooperatively with the operator still waiting — every root task alive, nothing cancelled, no outcome, and the
    failure was not even one the code escalated (`tFail = none`). Kept to show that the hypothesis
    `cfg.coreWatched = true` of `core_failure_stops_all` is not decorative. -/
theorem historical_core_failure_lingers_witness (n : Nat) (hn : 0 < n) :
    ∃ s, runC cfgCoreUnwatched init (coreFail ++ [.delay n]) = some s
      ∧ s.core = .failed ∧ s.rt = .waiting ∧ s.result = none ∧ s.now = n ∧ s.tFail = none
      ∧ (∀ r, (s.st (.root r)).live = true) ∧ (∀ r, s.creq (.root r) = false) := by
  have hp : ∃ s0, runC cfgCoreUnwatched init coreFail = some s0 ∧ quiet s0 = true ∧ urgent cfgCoreUnwatched s0 = false
      ∧ s0.rt = .waiting ∧ s0.core = .failed ∧ s0.result = none ∧ s0.now = 0 ∧ s0.tFail = none
      ∧ (∀ r, (s0.st (.root r)).live = true) ∧ (∀ r, s0.creq (.root r) = false) := by
    refine ⟨_, rfl, by decide, by decide, rfl, by decide, rfl, rfl, rfl, ?_, ?_⟩ <;> (intro r; cases r <;> decide)
  obtain ⟨s0, h0, hq, hu, hw, hf, hres, hnow, htf, hl, hc⟩ := hp
  refine ⟨{ s0 with now := s0.now + n }, ?_, hf, hw, hres, by simp [hnow], htf, hl, hc⟩
  rw [runC_append, h0]
  simp only [Option.bind_some, runC]
  rw [quiet_delay hq hu (by simp [hw]) n hn]

/-- … the operator lingers for 10 s, is then stopped by its stop flag, and everything ends in order -/
def coreFailEnd : List Label := coreFail ++
  [.delay 640, .setStopFlag, .rootEnd .stopFlag .done, .rtStopRoots,
   .rootEnd .ultimate .done, .rootEnd .coreWatcher .cancelled, .scWake, .rootEnd .poster .cancelled,
   .rootEnd .admChain .cancelled, .rootEnd .admValidating .cancelled, .rootEnd .admMutating .cancelled,
   .rootEnd .admServer .cancelled, .rootEnd .nsObserver .cancelled, .rootEnd .resObserver .cancelled,
   .rootStopping .orchestrator false, .rootEnd .orchestrator .cancelled,
   .rootEnd .daemonKiller .cancelled, .scWaitRootsEnd, .scStopCore, .scCoreStopped,
   .rootEnd .startupCleanup .failed, .rtHungWait, .rtStopHung, .rtExit .raised]

/-- HISTORICAL WITNESS, second half of C20-F6 (OLD code, variant `coreWatched := false`): when such an operator was
    finally stopped (here by its stop flag), the core task's error was re-raised BEFORE the cleanup activity — the
    cleanup handlers never ran. Shows that the last conjunct of `core_failure_stops_all` needs its hypothesis. -/
theorem historical_core_failure_skips_cleanup_witness :
    ∃ s, runC cfgCoreUnwatched init coreFailEnd = some s ∧ s.rt = .exited ∧ s.result = some .raised
      ∧ s.cleanupBegun = false ∧ s.t0 = some 640 :=
  ⟨_, rfl, by decide, by decide, by decide, by decide⟩

/-- THE CLAIM for the current tree (`cfg.coreWatched = true`, tie-checked; `cfgHead` satisfies it by `rfl`): a failed
    core task makes the root task that awaits the core tasks (`coreWatcher`: in the code the stop-flag checker)
    fail at once: while that watcher runs no cooperative time passes and its failing is enabled; it can
    end only FAILED (or cancelled, when a stop is already under way); if it is not running any more, a root task
    has already ended (`Triggered`). Either way everything is stopped (`root_failure_stops_all`), the run call returns
    (`returns`) and raises; and the cleanup activity is NOT skipped: the error is re-raised after it. -/
theorem core_failure_stops_all {cfg : Cfg} (hcw : cfg.coreWatched = true) {s : State} (hr : Reach cfg s) (hna : s.abandoned = false)
    (hc : s.core = .failed) :
    (s.st (.root .coreWatcher) = .running → s.rt ≠ .exited →
        (∀ n, coopDelay cfg s n = false) ∧ (step cfg s (.rootEnd .coreWatcher .failed)).isSome = true)
    ∧ (∀ how s', s.creq (.root .coreWatcher) = false → step cfg s (.rootEnd .coreWatcher how) = some s' →
        how = .failed ∧ s'.rootFailed = true)
    ∧ (s.st (.root .coreWatcher) ≠ .running → Triggered s)
    ∧ (s.st (.root .coreWatcher) = .failed →
        s.rootFailed = true ∧ (s.rt = .exited → s.result = some .raised ∨ s.result = some .cancelled))
    ∧ (∀ s', s.sc = .coreStopping .none → step cfg s .scCoreStopped = some s' → s'.cleanupBegun = true) := by
  have hB := InvB.reach hr
  have hC := InvC.reach hr
  have hE := InvE.reach (cfg := cfg) hr
  refine ⟨?_, ?_, ?_, ?_, ?_⟩
  · intro hrun hne
    refine ⟨?_, by simp [step, hne, Root.kind, hrun, hcw, hc]⟩
    intro n
    have hu : urgent cfg s = true := by unfold urgent; simp [hcw, hc, hrun]
    simp [coopDelay, hu]
  · intro how s' hcr h
    simp only [step, Root.kind] at h
    split at h
    · split at h
      · rename_i hh; rw [hcr] at hh; exact absurd hh.2.2 (by simp)
      · split at h
        · rename_i hh; cases h; exact ⟨hh.2.1, by simp [hh.2.1]⟩
        · split at h
          · rename_i hh; rw [hc] at hh; exact absurd hh.2.2.2 (by simp)
          · cases h
    · cases h
  · intro hnr
    rcases hE.coreWatcherSt with h | h
    · exact absurd h hnr
    · exact Or.inr (Or.inl ((anyRootEnded_iff s).mpr ⟨_, h⟩))
  · intro hf
    have hrf : s.rootFailed = true := hB.rootFailedIff.mpr ⟨.coreWatcher, hf⟩
    refine ⟨hrf, ?_⟩
    intro hex
    obtain ⟨r, hres⟩ := hC.resultSome hex
    cases r with
    | raised => exact Or.inl hres
    | cancelled => exact Or.inr hres
    | returned => have := hC.resReturned hres; rw [hrf] at this; cases this
  · intro s' hsc h
    simp only [step, hsc] at h
    split at h
    · rw [if_neg (by simp [hcw])] at h
      cases h; rfl
    · cases h

/-! ### The double-cancelled orchestrator: finding C20-F8 -/

/-- startup; the orchestrator spawns a watcher and a keep-alive task; the watcher's stream fails → the orchestrator is
    cancelled by its done-callback and begins to stop the ensemble (the keep-alive task enters its `finally:`: the
    withdrawal takes time); a stop flag is raised, the stop-flag checker ends, `run_tasks` cancels ALL pending root
    tasks — the orchestrator a second time -/
def doubleCancelPrefix : List Label :=
  startAll ++ [.subSpawn .watcher, .subSpawn .pinger, .subStopping 0 true, .subEnd 0 .failed,
               .rootStopping .orchestrator true, .subStopping 1 false,
               .setStopFlag, .rootEnd .stopFlag .done, .rtStopRoots]

/-- WITNESS about the CURRENT tree (`cfgHead`, finding C20-F8; replayed on kopf: corpus `C20-F8`, trigger
    `failure_then_stop`): the second cancellation reaches the orchestrator while it stops its ensemble (`creq` on a
    `stopping` orchestrator: cooperative time cannot pass) and `orchAbandon` is enabled: the orchestrator gives its
    ensemble up — with the keep-alive task still withdrawing (live), the failure recorded (`orchErr`) but not yet raised,
    and the cleanup not begun. What the code does from here (the cleanup activity runs beside the keep-alive task, the
    orchestrator ends CANCELLED, `operator()` returns normally) contradicts `cleanup_last`, `stream_failure_stops_all`
    and `reraise` without their guard `abandoned = false`; the model stops describing the code at this label. -/
theorem double_cancel_abandons_ensemble_witness :
    ∃ s0 s, runC cfgHead init doubleCancelPrefix = some s0
      ∧ s0.abandoned = false ∧ (s0.st (.root .orchestrator)).isStopping = true ∧ s0.creq (.root .orchestrator) = true
      ∧ urgent cfgHead s0 = true
      ∧ step cfgHead s0 .orchAbandon = some s
      ∧ s.abandoned = true ∧ s.orchErr = true ∧ (s.st (.sub 1)).live = true ∧ s.kind 1 = .pinger ∧ s.withdrawn 1 = false
      ∧ s.cleanupBegun = false ∧ s.rt = .stoppingRoots ∧ s.result = none :=
  ⟨_, _, rfl, by decide, by decide, by decide, by decide, rfl, by decide, by decide, by decide, by decide, by decide,
   by decide, by decide, by decide⟩

/-- In the variant `orchShielded` (the proposed repair) no run ever abandons the ensemble: the guard `abandoned = false`
    of the shutdown theorems is met by every reachable state. -/
theorem shielded_never_abandoned {cfg : Cfg} (hsh : cfg.orchShielded = true) {s : State} (hr : Reach cfg s) :
    s.abandoned = false := by
  refine Reach.induction (P := fun s => s.abandoned = false) rfl ?_ s hr
  intro s s' l _ hI h
  by_cases hl : l = .orchAbandon
  · subst hl
    simp only [step] at h
    split at h
    · rename_i hh; rw [hsh] at hh; exact absurd hh.2.1 (by simp)
    · cases h
  · rw [abandoned_step h hl]; exact hI

/-- … the same prefix on the repaired variant: the second cancellation does not reach the stopping orchestrator,
    `orchAbandon` is not enabled (hypothesis of `shielded_never_abandoned` on a non-trivial state) -/
example : ∃ s0, runC cfgShielded init doubleCancelPrefix = some s0
    ∧ s0.creq (.root .orchestrator) = false ∧ step cfgShielded s0 .orchAbandon = none ∧ s0.orchErr = true :=
  ⟨_, rfl, by decide, by decide, by decide⟩

/-! ### What the code does NOT guarantee (witnesses about the current tree) -/

/-- a complete run: startup, ready, an observer and the orchestrator with a watcher and a keep-alive task, a worker,
    a cooperative and a stubborn daemon, a stop flag, everything stopped in order, the cleanup activity, the hung
    daemon cancelled, normal return. `wok`: whether the withdrawal PATCH succeeds. -/
def fullRun (wok : Bool) : List Label :=
  startAll ++
  [.act (.task (.root .resObserver)), .subSpawn .watcher, .subSpawn .pinger, .act (.task (.sub 0)),
   .workerStart (.sub 0), .act (.worker 0), .daemonSpawn true, .daemonSpawn false, .delay 320,
   .setStopFlag, .rootEnd .stopFlag .done, .rtStopRoots,
   .rootEnd .ultimate .done, .rootEnd .coreWatcher .cancelled, .scWake, .rootEnd .poster .cancelled,
   .rootEnd .admChain .cancelled, .rootEnd .admValidating .cancelled, .rootEnd .admMutating .cancelled,
   .rootEnd .admServer .cancelled, .rootEnd .nsObserver .cancelled, .rootStopping .resObserver false,
   .rootEnd .resObserver .cancelled, .rootStopping .daemonKiller false, .rootStopping .orchestrator false,
   .subStopping 0 false, .subStopping 1 false, .withdraw 1 wok, .subEnd 1 .cancelled, .daemonExit 0,
   .delay 64, .workerEnd 0 .done, .subEnd 0 .cancelled, .rootEnd .orchestrator .cancelled,
   .rootEnd .daemonKiller .cancelled, .scWaitRootsEnd, .scStopCore, .coreEnd .cancelled, .scCoreStopped,
   .delay 32, .scCleanupEnd .none, .vaultClosed, .rootEnd .startupCleanup .done,
   .rtHungWait, .delay 320, .rtStopHung, .daemonExit 1, .rtExit .returned]

/-- WITNESS: the FULL clause "the peering record is withdrawn on exit" does not hold — the withdrawal PATCH may fail
    (`withdraw 1 false`); `peering.keepalive` logs that and ends normally, the operator returns normally. -/
theorem withdrawal_may_fail_witness :
    ∃ s, runC cfgHead init (fullRun false) = some s ∧ s.rt = .exited ∧ s.result = some .returned
      ∧ s.kind 1 = .pinger ∧ s.withdrawn 1 = true ∧ s.withdrawnOk 1 = false :=
  ⟨_, rfl, by decide, by decide, by decide, by decide, by decide⟩

/-- a worker of the CRD observer fails AFTER its watcher has entered its `finally:` (depletion of the workers) -/
def deplRun : List Label :=
  startAll ++
  [.workerStart (.root .resObserver),
   .setStopFlag, .rootEnd .stopFlag .done, .rtStopRoots, .rootStopping .resObserver false, .workerEnd 0 .failed,
   .rootEnd .resObserver .cancelled,
   .rootEnd .ultimate .done, .rootEnd .coreWatcher .cancelled, .scWake, .rootEnd .poster .cancelled,
   .rootEnd .admChain .cancelled, .rootEnd .admValidating .cancelled, .rootEnd .admMutating .cancelled,
   .rootEnd .admServer .cancelled, .rootEnd .nsObserver .cancelled, .rootStopping .orchestrator false,
   .rootEnd .orchestrator .cancelled, .rootEnd .daemonKiller .cancelled, .scWaitRootsEnd, .scStopCore,
   .coreEnd .cancelled, .scCoreStopped, .scCleanupEnd .none, .vaultClosed, .rootEnd .startupCleanup .done,
   .rtHungWait, .rtStopHung, .rtExit .returned]

/-- WITNESS (finding C20-F5): the FULL clause "an object worker failing unrecoverably stops the whole operator /
    is re-raised" does not hold for a worker that fails while its watcher is already depleting its workers: the
    failure is only logged (`_task_done_callback` → `exception_handler` cancels an already cancelled task), nothing is
    marked, the operator returns NORMALLY. (During a shutdown there is nothing left to stop; what is lost is the
    re-raise.) -/
theorem worker_failure_during_depletion_dropped_witness :
    ∃ s, runC cfgHead init deplRun = some s ∧ s.rt = .exited ∧ s.result = some .returned
      ∧ s.wk 0 = some (.root .resObserver, .failed) ∧ s.rootFailed = false ∧ s.tFail = none :=
  ⟨_, rfl, by decide, by decide, by decide, by decide, by decide⟩

/-- WITNESS: without cooperativity NOTHING bounds the exit — `run_tasks` awaits the cancelled root tasks without any
    timeout (`aiotasks.stop`), so a task that does not honour its cancellation (here: all of them, for `n` ticks) keeps
    `operator()` from returning for as long as it likes. The run is accepted by `run` but not by `runC`. -/
theorem noncooperative_exit_unbounded_witness (n : Nat) (hn : 0 < n) :
    ∃ s0 s, run cfgHead init [.setStopFlag, .rootEnd .stopFlag .done, .rtStopRoots] = some s0
      ∧ coopDelay cfgHead s0 n = false
      ∧ step cfgHead s0 (.delay n) = some s
      ∧ s.t0 = some 0 ∧ s.now = n ∧ s.rt = .stoppingRoots ∧ s.result = none := by
  have hp : ∃ s0, run cfgHead init [.setStopFlag, .rootEnd .stopFlag .done, .rtStopRoots] = some s0
      ∧ urgent cfgHead s0 = true ∧ s0.rt = .stoppingRoots ∧ s0.t0 = some 0 ∧ s0.now = 0 ∧ s0.result = none :=
    ⟨_, rfl, by decide, rfl, rfl, rfl, rfl⟩
  obtain ⟨s0, h0, hu, hrt, ht0, hnow, hres⟩ := hp
  refine ⟨s0, { s0 with now := s0.now + n }, h0, by simp [coopDelay, hu], ?_, ht0, by simp [hnow], hrt, hres⟩
  simp only [step]
  rw [if_pos ⟨by simp [hrt], hn⟩]

/-! ### Non-vacuity: the hypotheses are met by non-trivial reachable states -/

example : ∃ s, runC cfgHead init (fullRun true) = some s ∧ s.rt = .exited ∧ s.result = some .returned
    ∧ s.cleanupBegun = true ∧ s.ready = true ∧ s.acts = 4 ∧ s.t0 = some 320 ∧ s.exitAt = some 736
    ∧ s.withdrawn 1 = true ∧ s.withdrawnOk 1 = true ∧ s.dm 0 = .ended ∧ s.dm 1 = .ended ∧ s.tFail = none :=
  ⟨_, rfl, by decide, by decide, by decide, by decide, by decide, by decide, by decide, by decide, by decide,
   by decide, by decide, by decide⟩

/-- a failed startup (hypothesis of `failed_startup_no_api`, and of `failure_to_stop_bound_partial` with
    `tFail = some 0`), run to its end: re-raised -/
example : ∃ s, runC cfgHead init
    [.scStartupBegin, .scStartupEnd .failed, .scStopCore, .coreEnd .cancelled, .scCoreStopped,
     .rootEnd .startupCleanup .failed, .rtStopRoots, .rootEnd .stopFlag .done, .rootEnd .ultimate .done,
     .rootEnd .coreWatcher .cancelled,
     .rootEnd .daemonKiller .cancelled, .rootEnd .poster .cancelled, .rootEnd .admChain .cancelled,
     .rootEnd .admValidating .cancelled, .rootEnd .admMutating .cancelled, .rootEnd .admServer .cancelled,
     .rootEnd .resObserver .cancelled, .rootEnd .nsObserver .cancelled, .rootEnd .orchestrator .cancelled,
     .rtHungWait, .delay 320, .rtStopHung, .waiterEnd, .rtExit .raised] = some s
    ∧ s.startupFailed = true ∧ s.startupRaised = true ∧ s.rt = .exited ∧ s.result = some .raised ∧ s.acts = 0
    ∧ s.tFail = some 0 ∧ s.failWho = some (.root .startupCleanup) :=
  ⟨_, rfl, by decide, by decide, by decide, by decide, by decide, by decide, by decide⟩

/-- a worker of a root observer fails while the observer streams (hypotheses of
    `worker_failure_reaches_watcher_partial` and of `worker_failure_stops_all`): the observer ends failed, the
    failure is marked, cooperative time cannot pass -/
example : ∃ s, runC cfgHead init
    [.scStartupBegin, .scStartupEnd .none, .setStarted, .ready, .enter .resObserver, .workerStart (.root .resObserver),
     .workerEnd 0 .failed, .rootStopping .resObserver true, .rootEnd .resObserver .failed] = some s
    ∧ s.werr (.root .resObserver) = true ∧ s.st (.root .resObserver) = .failed ∧ s.rt = .waiting
    ∧ urgent cfgHead s = true ∧ s.tFail = some 0 ∧ s.failWho = some (.root .resObserver) :=
  ⟨_, rfl, by decide, by decide, by decide, by decide, by decide, by decide⟩

/-- a watcher meets HTTP 404, its key-mate is cancelled as redundant, both are spawned anew (hypotheses of
    `gone_is_not_a_failure`); nothing is escalated -/
example : ∃ s, runC cfgHead init
    (startAll ++
    [.subSpawn .peerWatcher, .subSpawn .pinger, .subGone 0, .subCancel 0, .subCancel 1, .subStopping 1 false,
     .withdraw 1 true, .subEnd 1 .cancelled, .subEnd 0 .failed, .subSpawn .peerWatcher, .subSpawn .pinger,
     .delay 64]) = some s
    ∧ s.gone 0 = true ∧ s.st (.sub 0) = .failed ∧ s.st (.root .orchestrator) = .running
    ∧ s.creq (.root .orchestrator) = false ∧ s.orchErr = false ∧ s.nSubs = 4 ∧ s.now = 64 ∧ s.tFail = none :=
  ⟨_, rfl, by decide, by decide, by decide, by decide, by decide, by decide, by decide, by decide⟩

/-- the current tree on the witness prefix of F3: the orchestrator is cancelled by the failed watcher, cooperative time
    cannot pass (hypotheses of `stream_failure_stops_all`), the failure is marked -/
example : ∃ s, runC cfgHead init lingerPrefix = some s
    ∧ s.st (.sub 0) = .failed ∧ s.st (.root .orchestrator) = .running ∧ s.creq (.root .orchestrator) = true
    ∧ s.orchErr = true ∧ urgent cfgHead s = true ∧ s.tFail = some 0 ∧ s.failWho = some (.sub 0) :=
  ⟨_, rfl, by decide, by decide, by decide, by decide, by decide, by decide, by decide⟩

/-- the current tree on the witness prefix of C20-F6 (hypotheses of `core_failure_stops_all`): cooperative time
    cannot pass, the task awaiting the core tasks fails, the cleanup runs, the error is re-raised -/
example : cfgHead.coreWatched = true := rfl

example : ∃ s, runC cfgHead init coreFail = some s ∧ s.core = .failed
    ∧ s.st (.root .coreWatcher) = .running ∧ urgent cfgHead s = true ∧ s.tFail = some 0 :=
  ⟨_, rfl, by decide, by decide, by decide, by decide⟩

example : ∃ s, runC cfgHead init (coreFail ++
    [.rootEnd .coreWatcher .failed, .rtStopRoots, .rootEnd .stopFlag .done,
     .rootEnd .ultimate .done, .scWake, .rootEnd .poster .cancelled, .rootEnd .admChain .cancelled,
     .rootEnd .admValidating .cancelled, .rootEnd .admMutating .cancelled, .rootEnd .admServer .cancelled,
     .rootEnd .nsObserver .cancelled, .rootEnd .resObserver .cancelled, .rootStopping .orchestrator false,
     .rootEnd .orchestrator .cancelled, .rootEnd .daemonKiller .cancelled, .scWaitRootsEnd, .scStopCore,
     .scCoreStopped, .delay 32, .scCleanupEnd .none, .vaultClosed, .rootEnd .startupCleanup .failed,
     .rtHungWait, .delay 320, .rtStopHung, .waiterEnd, .rtExit .raised]) = some s
    ∧ s.rt = .exited ∧ s.result = some .raised ∧ s.cleanupBegun = true ∧ s.t0 = some 0 ∧ s.exitAt = some 352 :=
  ⟨_, rfl, by decide, by decide, by decide, by decide, by decide⟩

end Kopf.C20
