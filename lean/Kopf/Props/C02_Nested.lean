/-
  C02 — property theorems for the code paths modelled in `Kopf.Model.C02_Nested` (white-box review, review/wb/C02):
  sub-handlers below the first level, parents that fail after their children ran, the resumed filter.

  The clause at stake is "the cycle is closed (PROGRESS RECORDS REMOVED …)": the closing purge reads the `subrefs` of the
  TOP-LEVEL records only, so every record written anywhere below an invoked handler must be referenced by that
  handler's own outcome — whatever the depth, and however the handler's own function ends.
-/
import Kopf.Props.C02
import Kopf.Model.C02_Nested
namespace Kopf.C02

/-! ### Sub-handlers below the first level (`subPassN`, `execDeep`) -/

/-- `subPassN` is `subPass` but for the references the parent's outcome carries: same invocations (with the same
    `retry`), same states and records, same final / error / delay — every theorem about `subPass` (`sub_no_rerun`,
    `sub_retry_kwarg`, `parent_final_iff_subs_finished`, …) is a theorem about the nested pass. -/
theorem subPassN_same_pass (cfg : Cfg) (P : Store) (now now1 : Tick) (exec : Id → Nat → Outcome) :
    (subPassN cfg P now now1 exec).invoked = (subPass cfg P now now1 exec).invoked ∧
    (subPassN cfg P now now1 exec).st = (subPass cfg P now now1 exec).st ∧
    (subPassN cfg P now now1 exec).P' = (subPass cfg P now now1 exec).P' ∧
    (subPassN cfg P now now1 exec).outcome.final = (subPass cfg P now now1 exec).outcome.final ∧
    (subPassN cfg P now now1 exec).outcome.error = (subPass cfg P now now1 exec).outcome.error ∧
    (subPassN cfg P now now1 exec).outcome.delay = (subPass cfg P now now1 exec).outcome.delay :=
  ⟨rfl, rfl, rfl, rfl, rfl, rfl⟩

/-- With sub-handlers that report nothing (leaves) it IS `subPass`. -/
theorem subPassN_eq_subPass_of_leaves (cfg : Cfg) (P : Store) (now now1 : Tick) (exec : Id → Nat → Outcome)
    (hleaf : ∀ i n, (exec i n).subrefs = []) :
    subPassN cfg P now now1 exec = subPass cfg P now now1 exec := by
  have h : (subPass cfg P now now1 exec).invoked.flatMap (fun p => (exec p.1 p.2).subrefs) = [] := by
    simp [hleaf]
  unfold subPassN
  simp only [h, List.append_nil]

/-- Every record the nested sub-pass knows (loaded or written) is referenced by the parent's outcome … -/
theorem subN_records_covered (cfg : Cfg) (P : Store) (now now1 : Tick) (exec : Id → Nat → Outcome)
    (i : Id) (h : HS) (hst : (subPassN cfg P now now1 exec).st i = some h) :
    i ∈ (subPassN cfg P now now1 exec).outcome.subrefs := by
  have hst' : (subPass cfg P now now1 exec).st i = some h := hst
  have := sub_records_covered cfg P now now1 exec i h hst'
  unfold subPassN
  exact List.mem_append_left _ this

/-- … and so is everything a sub-handler invoked in this pass reports itself (the keys of ITS sub-passes). -/
theorem subN_reports_covered (cfg : Cfg) (P : Store) (now now1 : Tick) (exec : Id → Nat → Outcome)
    (c : Id) (k : Nat) (hinv : (c, k) ∈ (subPassN cfg P now now1 exec).invoked)
    (x : Id) (hx : x ∈ (exec c k).subrefs) :
    x ∈ (subPassN cfg P now now1 exec).outcome.subrefs := by
  have hinv' : (c, k) ∈ (subPass cfg P now now1 exec).invoked := hinv
  unfold subPassN
  apply List.mem_append_right
  simp only [List.mem_flatMap]
  exact ⟨(c, k), hinv', hx⟩

/-- ALL LEVELS DEEP: every record written or loaded anywhere below an invocation is referenced by the outcome of
    that invocation — by induction over the levels (no bound on the depth, on the number of sub-handlers per level,
    on the lifecycle, on the outcomes). -/
theorem below_covered (cfgOf : Id → Cfg) (P : Store) (now : Tick) (leaf : Id → Nat → Outcome)
    (d : Nat) (i : Id) (n : Nat) (x : Id) (hb : Below cfgOf P now leaf d i n x) :
    x ∈ (execDeep cfgOf P now leaf d i n).subrefs := by
  induction hb with
  | here hne hst =>
      simp only [execDeep, hne, Bool.false_eq_true, if_false]
      exact subN_records_covered _ P now now _ _ _ hst
  | deeper hne hinv _ ih =>
      simp only [execDeep, hne, Bool.false_eq_true, if_false]
      exact subN_reports_covered _ P now now _ _ _ hinv _ ih

/-- The closing purge removes whatever the outcome of a handler invoked in the closing pass references. -/
theorem reported_purged_on_close (cfg : Cfg) (P : Store) (now now1 : Tick) (exec : Id → Nat → Outcome)
    (p : Id) (n : Nat) (hinv : (p, n) ∈ (cycle cfg P now now1 exec).invoked)
    (hc : (cycle cfg P now now1 exec).closed = true)
    (x : Id) (hx : x ∈ (exec p n).subrefs) :
    (cycle cfg P now now1 exec).P' x = none := by
  by_cases hr : handlerReasons.contains cfg.reason = true
  · by_cases he : cfg.selected.isEmpty = true
    · rw [cycle_no_handlers cfg P now now1 exec hr he] at hinv; simp at hinv
    · have he' : cfg.selected.isEmpty = false := by simpa using he
      apply closed_purges_subrefs cfg P now now1 exec hr he' hc
      have hinv' := hinv
      rw [cycle_main cfg P now now1 exec hr he'] at hinv'
      simp only at hinv'
      obtain ⟨hsel, _⟩ := execOnce_invoked hinv'
      obtain ⟨hs, _, _, hpost⟩ := postState_invoked hinv'
      have hk : p ∈ known cfg := by simp [known, hsel]
      unfold allSubrefs
      simp only [List.mem_flatMap]
      refine ⟨p, hk, ?_⟩
      unfold postState
      rw [hpost]
      simp only [withOutcome]
      apply List.mem_eraseDups.2
      simp only [List.mem_append]
      right
      exact hx
  · have hr' : handlerReasons.contains cfg.reason = false := by simpa using hr
    rw [cycle_not_handler_reason cfg P now now1 exec hr'] at hinv
    simp at hinv

/-- "The cycle is closed (progress records removed …)" for sub-handlers of ANY depth: when the pass closes the cycle,
    no record written or loaded anywhere below a handler invoked in it remains (the purge is applied to the patch
    after the sub-passes' writes). -/
theorem nested_records_purged_on_close (cfg : Cfg) (P : Store) (now now1 : Tick) (exec : Id → Nat → Outcome)
    (p : Id) (n : Nat) (hinv : (p, n) ∈ (cycle cfg P now now1 exec).invoked)
    (hc : (cycle cfg P now now1 exec).closed = true)
    (cfgOf : Id → Cfg) (sP : Store) (snow : Tick) (leaf : Id → Nat → Outcome) (d : Nat)
    (hout : exec p n = execDeep cfgOf sP snow leaf d p n)
    (x : Id) (hb : Below cfgOf sP snow leaf d p n x) :
    (cycle cfg P now now1 exec).P' x = none := by
  apply reported_purged_on_close cfg P now now1 exec p n hinv hc
  rw [hout]
  exact below_covered cfgOf sP snow leaf d p n x hb

/-- Three levels, concretely (the regression of mutant m1 of the review: an accumulator stack that keeps only the
    innermost handler's set loses `p/c/g` at the top): `p` runs `p/c` and `p/d`, `p/c` runs `p/c/g`; the outcome of `p`
    references all three although only `p/c` and `p/d` are in its own sub-pass — and `p/c/g` is below `p`. -/
theorem nested_accumulator_regression :
    let leafCfg : Cfg := { owned := [], selected := [], limits := fun _ => ⟨none, none⟩, reason := "create", lifecycle := .allAtOnce }
    let cfgOf : Id → Cfg := fun i =>
      if i = "p" then { leafCfg with owned := ["p/c", "p/d"], selected := ["p/c", "p/d"] }
      else if i = "p/c" then { leafCfg with owned := ["p/c/g"], selected := ["p/c/g"] }
      else leafCfg
    let leaf : Id → Nat → Outcome := fun i _ =>
      if i = "p/c/g" then { final := false, delay := some 64, error := true, subrefs := [] }
      else { final := true, delay := none, error := false, subrefs := [] }
    (execDeep cfgOf (fun _ => none) 0 leaf 2 "p" 0).subrefs = ["p/c", "p/d", "p/c/g"] ∧
    (execDeep cfgOf (fun _ => none) 0 leaf 2 "p" 0).final = false ∧
    (execDeep cfgOf (fun _ => none) 0 leaf 1 "p/c" 0).subrefs = ["p/c/g"] := by
  refine ⟨by decide, by decide, by decide⟩

-- non-vacuity of `Below` / `nested_records_purged_on_close`: in the instance above `p/c/g` IS below `("p", 0)` at depth 2
example :
    let leafCfg : Cfg := { owned := [], selected := [], limits := fun _ => ⟨none, none⟩, reason := "create", lifecycle := .allAtOnce }
    let cfgOf : Id → Cfg := fun i =>
      if i = "p" then { leafCfg with owned := ["p/c", "p/d"], selected := ["p/c", "p/d"] }
      else if i = "p/c" then { leafCfg with owned := ["p/c/g"], selected := ["p/c/g"] }
      else leafCfg
    let leaf : Id → Nat → Outcome := fun _ _ => { final := true, delay := none, error := false, subrefs := [] }
    Below cfgOf (fun _ => none) 0 leaf 2 "p" 0 "p/c/g" := by
  intro leafCfg cfgOf leaf
  refine Below.deeper (c := "p/c") (k := 0) (by decide) (by decide) ?_
  exact Below.here (h := { r := withOutcome (fresh 0 "create") (leaf "p/c/g" 0) 0, active := true, dirty := true })
    (by decide) (by decide)

/-! ### A parent that fails after its children ran (`parentOutcome`) -/

/-- However the parent's own function ends, its outcome references what its sub-pass references. -/
theorem parentOutcome_subrefs (own : Option Outcome) (s : SubResult) :
    (parentOutcome own s).subrefs = s.outcome.subrefs := by
  unfold parentOutcome
  cases s.outcome.final <;> cases own <;> rfl

/-- While a sub-handler is unfinished the parent's own ending never comes: it gets the children-retry outcome. -/
theorem parentOutcome_open (own : Option Outcome) (s : SubResult) (h : s.outcome.final = false) :
    parentOutcome own s = s.outcome := by
  unfold parentOutcome
  simp [h]

/-- A parent whose own function fails (or succeeds) after its children's pass: final / error / delay are its own. -/
theorem parentOutcome_own (o : Outcome) (s : SubResult) (h : s.outcome.final = true) :
    (parentOutcome (some o) s).final = o.final ∧ (parentOutcome (some o) s).error = o.error ∧
    (parentOutcome (some o) s).delay = o.delay := by
  unfold parentOutcome
  simp [h]

/-- Hence the children's records do not survive the closing of the cycle when the parent ends it by FAILING after
    they ran (permanent error, arbitrary error under errors=PERMANENT, exhausted retries/timeout — any `own`):
    the regression of mutant m4 of the review (an `except` branch that drops `subrefs=subrefs`). -/
theorem failing_parent_children_purged_on_close (cfg : Cfg) (P : Store) (now now1 : Tick) (exec : Id → Nat → Outcome)
    (p : Id) (n : Nat) (hinv : (p, n) ∈ (cycle cfg P now now1 exec).invoked)
    (hc : (cycle cfg P now now1 exec).closed = true)
    (own : Option Outcome) (scfg : Cfg) (sP : Store) (snow snow1 : Tick) (sexec : Id → Nat → Outcome)
    (hout : exec p n = parentOutcome own (subPassN scfg sP snow snow1 sexec)) :
    ∀ i h, (subPassN scfg sP snow snow1 sexec).st i = some h → (cycle cfg P now now1 exec).P' i = none := by
  intro i h hst
  apply reported_purged_on_close cfg P now now1 exec p n hinv hc
  rw [hout, parentOutcome_subrefs]
  exact subN_records_covered scfg sP snow snow1 sexec i h hst

-- non-vacuity: the parent `p` ran `p/a` (success) and then raised a permanent error: a final failure that
-- references `p/a`; the pass closes the cycle and `p/a`'s record (written by the sub-pass) is purged
example :
    let scfg : Cfg := { owned := ["p/a"], selected := ["p/a"], limits := fun _ => ⟨none, none⟩, reason := "create", lifecycle := .allAtOnce }
    let ok : Outcome := { final := true, delay := none, error := false, subrefs := [] }
    let perm : Outcome := { final := true, delay := none, error := true, subrefs := [] }
    let o := parentOutcome (some perm) (subPassN scfg (fun _ => none) 0 0 (fun _ _ => ok))
    let cfg : Cfg := { owned := ["p"], selected := ["p"], limits := fun _ => ⟨none, none⟩, reason := "create", lifecycle := .allAtOnce }
    o = { final := true, delay := none, error := true, subrefs := ["p/a"] } ∧
    (cycle cfg (fun _ => none) 0 0 (fun _ _ => o)).invoked = [("p", 0)] ∧
    (cycle cfg (fun _ => none) 0 0 (fun _ _ => o)).closed = true := by
  refine ⟨by decide, by decide, by decide⟩

/-! ### The resumed filter (`selectResumed`, `resumedAfter`) -/

/-- What stands between the registry's selection and the handlers the pass is given: a handler the registry selects
    is left out only if it is a resuming handler recorded (in memory) as finished for this object in this process. -/
theorem left_out_is_resumed (raw : List Id) (initial : Id → Bool) (resumed : List Id) (i : Id)
    (hr : i ∈ raw) (hn : i ∉ selectResumed raw initial resumed) :
    initial i = true ∧ i ∈ resumed := by
  unfold selectResumed at hn
  have h2 : ¬ ((!(initial i && resumed.contains i)) = true) := fun h => hn (List.mem_filter.2 ⟨hr, h⟩)
  cases hi : initial i with
  | false => simp [hi] at h2
  | true =>
    refine ⟨rfl, ?_⟩
    by_cases hm : i ∈ resumed
    · exact hm
    · exfalso; apply h2; simp [hi, hm]

/-- … and nothing else is selected: the filter only removes. -/
theorem selectResumed_sub (raw : List Id) (initial : Id → Bool) (resumed : List Id) :
    ∀ i ∈ selectResumed raw initial resumed, i ∈ raw := by
  intro i hi
  exact (List.mem_filter.1 hi).1

/-- The set only ever takes in resuming handlers whose outcome IN THIS PASS is final (`finals` = `cycleFinalsB`) … -/
theorem resumedAfter_mem (initial : Id → Bool) (resumed finals : List Id) (closed : Bool) (i : Id)
    (h : i ∈ resumedAfter initial resumed finals closed) :
    i ∈ resumed ∨ (i ∈ finals ∧ initial i = true) := by
  unfold resumedAfter at h
  cases closed with
  | true => simp at h
  | false =>
    simp only [Bool.false_eq_true, if_false, List.mem_append, List.mem_filter] at h
    exact h

/-- … and is emptied by the pass that closes the cycle. -/
theorem closing_empties_resumed (initial : Id → Bool) (resumed finals : List Id) :
    resumedAfter initial resumed finals true = [] := rfl

/-- Along ANY sequence of passes of one object in one process, started with an empty set: whoever is in the set
    — i.e. whoever the filter may leave out — reached a final outcome in one of the passes so far. "Every selected
    handler has finished" is therefore not weakened by the filter: a handler left out HAS finished (regression of
    mutant m2 of the review: a set that also takes in the handlers whose outcome is NOT final closes the cycle over a
    resuming handler that failed temporarily once and is never retried). -/
theorem resumed_run_all_final (initial : Id → Bool) (steps : List (List Id × Bool)) (r : List Id) (i : Id)
    (h : i ∈ resumedRun initial r steps) :
    i ∈ r ∨ ∃ s ∈ steps, i ∈ s.1 ∧ initial i = true := by
  induction steps generalizing r with
  | nil => exact Or.inl h
  | cons s rest ih =>
    simp only [resumedRun] at h
    rcases ih _ h with h1 | ⟨s', hs', hi⟩
    · rcases resumedAfter_mem initial r s.1 s.2 i h1 with h2 | h2
      · exact Or.inl h2
      · exact Or.inr ⟨s, List.mem_cons_self .., h2⟩
    · exact Or.inr ⟨s', List.mem_cons_of_mem _ hs', hi⟩

theorem left_out_had_finished (raw : List Id) (initial : Id → Bool) (steps : List (List Id × Bool)) (i : Id)
    (hr : i ∈ raw) (hn : i ∉ selectResumed raw initial (resumedRun initial [] steps)) :
    ∃ s ∈ steps, i ∈ s.1 := by
  obtain ⟨_, hres⟩ := left_out_is_resumed raw initial _ i hr hn
  rcases resumed_run_all_final initial steps [] i hres with h | ⟨s, hs, hi, _⟩
  · cases h
  · exact ⟨s, hs, hi⟩

-- non-vacuity: `r` fails temporarily (not final) in pass 1 and is NOT left out of pass 2; it succeeds there and is
-- left out of pass 3 while its sibling keeps the cycle open
example :
    let initial : Id → Bool := fun i => i == "r"
    resumedRun initial [] [([], false)] = [] ∧
    selectResumed ["r", "u"] initial (resumedRun initial [] [([], false)]) = ["r", "u"] ∧
    selectResumed ["r", "u"] initial (resumedRun initial [] [([], false), (["r"], false)]) = ["u"] ∧
    resumedRun initial [] [([], false), (["r"], false), (["u"], true)] = [] := by
  refine ⟨by decide, by decide, by decide, by decide⟩

/-! ### The resumed filter across restarts (seed C02f's class, route 1)

A finished resuming handler is left out of the passes of the process it finished in and is selected again by the
next process (the memory is gone). Whatever the in-process memory holds at each pass — grown, emptied by a restart,
anything — a handler recorded as finished on the object is not invoked again while the cycle is open. -/

/-- One pass: the registry's selection, which of it is resuming, and what the process remembers at that moment. -/
structure StepR where
  now : Tick
  now1 : Tick
  exec : Id → Nat → Outcome
  raw : List Id
  initial : Id → Bool
  resumed : List Id
  limits : Id → Limits
  lifecycle : Lifecycle

def StepR.toV (s : StepR) : StepV :=
  { now := s.now, now1 := s.now1, exec := s.exec, selected := selectResumed s.raw s.initial s.resumed,
    limits := s.limits, lifecycle := s.lifecycle }

theorem finished_never_invoked_resumed (owned : List Id) (reason : String)
    (hr : handlerReasons.contains reason = true) (steps : List StepR)
    (hsub : ∀ s ∈ steps, ∀ i ∈ s.raw, i ∈ owned)
    (P : Store) (hne : ∀ i ∈ owned, ∀ r, P i = some r → r.purpose = none ∨ r.purpose = some reason)
    (i : Id) (r : Rec) (ho : i ∈ owned) (hP : P i = some r) (hfin : r.finished = true) :
    ∀ l ∈ invokedSeqV owned reason P (steps.map StepR.toV), ∀ n, (i, n) ∉ l := by
  apply finished_never_invoked_varying owned reason hr (steps.map StepR.toV) _ P hne i r ho hP hfin
  intro sv hsv j hj
  rw [List.mem_map] at hsv
  obtain ⟨s, hs, rfl⟩ := hsv
  exact hsub s hs j (selectResumed_sub s.raw s.initial s.resumed j hj)

-- non-vacuity (the seed's first history): `r` resuming, `u` failing temporarily; pass 2 leaves `r` out (remembered),
-- pass 3 is the next process (nothing remembered): `r` is selected again and NOT invoked again
example :
    let ok : Outcome := { final := true, delay := none, error := false, subrefs := [] }
    let again : Outcome := { final := false, delay := some 0, error := true, subrefs := [] }
    let st (mem : List Id) : StepR :=
      { now := 0, now1 := 0, exec := fun i _ => if i = "r" then ok else again, raw := ["r", "u"],
        initial := fun i => i == "r", resumed := mem, limits := fun _ => ⟨none, none⟩, lifecycle := .allAtOnce }
    ([st [], st ["r"], st []].map StepR.toV).map (·.selected) = [["r", "u"], ["u"], ["r", "u"]] ∧
    invokedSeqV ["r", "u"] "update" (fun _ => none) ([st [], st ["r"], st []].map StepR.toV)
      = [[("r", 0), ("u", 0)], [("u", 1)], [("u", 2)]] := by
  refine ⟨by decide, by decide⟩

end Kopf.C02
