/-
  C02 — Recorded handler progress governs invocation. Property theorems only.
  `cycle` is a function of the persisted records `P` alone: the operator's memory does not enter it,
  so restarts and foreign events (which leave `P` alone) are covered by quantifying over `P`.

  Since /repo f7d6401 the pass does not take over every record it finds: the records of selected handlers that have
  a reason of their own (`bound`) and carry ANOTHER cause's purpose — the progress of a namesake: one function & id
  registered for several causes — are left out. `cycle cfg P` is the pass over the records it takes over; the whole
  pass is `cycleB cfg bound P = cycle cfg (taken cfg bound P)` (`pass_is_cycle_over_taken`). The theorems about
  `cycle` below therefore speak about the records TAKEN OVER; their readings for the whole pass are in the last
  section ("One id, several registrations"): `no_rerun_own`, `namesake_not_inherited`, `retry_kwarg_taken`, …
-/
import Kopf.Lemmas.C02_Cycle
import Kopf.Lemmas.C02_Sub
import Kopf.Lemmas.C02_Deselect
import Kopf.Lemmas.C02_Namesake
import Kopf.Lemmas.C02_Reselect
namespace Kopf.C02

/-- A handler whose success or permanent failure is recorded is never invoked again. -/
theorem no_rerun (cfg : Cfg) (P : Store) (now now1 : Tick) (exec : Id → Nat → Outcome)
    (hsub : ∀ i ∈ cfg.selected, i ∈ cfg.owned)
    (i : Id) (n : Nat) (r : Rec) (hP : P i = some r) (hfin : r.finished = true) :
    (i, n) ∉ (cycle cfg P now now1 exec).invoked := by
  intro h
  obtain ⟨hsel, hs, hst, haw, _⟩ := execOnce_invoked (cycle_invoked h)
  obtain ⟨h', hst', _, hr⟩ := preState_selected (P := P) (now := now) hsel (hsub i hsel)
  rw [hst] at hst'
  cases hst'
  have := awakened_not_finished haw
  rw [hr, startRec_finished cfg P now _ i r hP, hfin] at this
  cases this

/-- A handler still due is invoked with `retry` = its recorded attempts (0 when nothing is recorded). -/
theorem retry_kwarg (cfg : Cfg) (P : Store) (now now1 : Tick) (exec : Id → Nat → Outcome)
    (hsub : ∀ i ∈ cfg.selected, i ∈ cfg.owned)
    (i : Id) (n : Nat) (h : (i, n) ∈ (cycle cfg P now now1 exec).invoked) :
    n = (match P i with | some r => r.retries | none => 0) := by
  obtain ⟨hsel, hs, hst, _, hn⟩ := execOnce_invoked (cycle_invoked h)
  obtain ⟨h', hst', _, hr⟩ := preState_selected (P := P) (now := now) hsel (hsub i hsel)
  rw [hst] at hst'
  cases hst'
  rw [hn, hr, startRec_retries]
  cases P i <;> rfl

/-- Only selected handlers are ever invoked, and never one that sleeps (`delayed` in the future). -/
theorem invoked_selected_awake (cfg : Cfg) (P : Store) (now now1 : Tick) (exec : Id → Nat → Outcome)
    (hsub : ∀ i ∈ cfg.selected, i ∈ cfg.owned)
    (i : Id) (n : Nat) (h : (i, n) ∈ (cycle cfg P now now1 exec).invoked) :
    i ∈ cfg.selected ∧ ∀ r d, P i = some r → r.delayed = some d → d ≤ now := by
  obtain ⟨hsel, hs, hst, haw, _⟩ := execOnce_invoked (cycle_invoked h)
  refine ⟨hsel, ?_⟩
  intro r d hP hd
  obtain ⟨h', hst', _, hr⟩ := preState_selected (P := P) (now := now) hsel (hsub i hsel)
  rw [hst] at hst'
  cases hst'
  unfold Rec.awakened Rec.sleeping at haw
  rw [hr] at haw
  unfold startRec at haw
  rw [hP] at haw
  by_cases hle : d ≤ now
  · exact hle
  · exfalso
    have hgt : d > now := Int.lt_of_not_ge hle
    cases hex : extras cfg P now <;> simp [hex, hd, hgt, Rec.finished] at haw <;>
      cases hs' : r.success <;> cases hf' : r.failure <;> simp_all

/-- The cycle is closed exactly when every selected handler has finished — not before. -/
theorem closed_iff_all_finished (cfg : Cfg) (P : Store) (now now1 : Tick) (exec : Id → Nat → Outcome)
    (hsub : ∀ i ∈ cfg.selected, i ∈ cfg.owned)
    (hr : handlerReasons.contains cfg.reason = true) (hne : cfg.selected.isEmpty = false) :
    (cycle cfg P now now1 exec).closed = true ↔
      ∀ i ∈ cfg.selected, ∃ h, postState cfg P now now1 exec i = some h ∧ h.r.finished = true := by
  rw [cycle_main cfg P now now1 exec hr hne]
  exact done_iff hsub

/-- When the cycle closes, no progress record of any owned handler remains. -/
theorem closed_purges (cfg : Cfg) (P : Store) (now now1 : Tick) (exec : Id → Nat → Outcome)
    (hr : handlerReasons.contains cfg.reason = true) (hne : cfg.selected.isEmpty = false)
    (hc : (cycle cfg P now now1 exec).closed = true) :
    ∀ i ∈ cfg.owned, (cycle cfg P now now1 exec).P' i = none := by
  rw [cycle_main cfg P now now1 exec hr hne] at hc ⊢
  simp only at hc
  intro i ho
  simp [hc, purge, ho]

/-- The same when the cycle ends because no handler is selected for the cause any more (the `skip`
    path): the records left behind by the previously selected handlers go with it. -/
theorem closed_purges_skip (cfg : Cfg) (P : Store) (now now1 : Tick) (exec : Id → Nat → Outcome)
    (hr : handlerReasons.contains cfg.reason = true) (he : cfg.selected.isEmpty = true) :
    (cycle cfg P now now1 exec).closed = true ∧ ∀ i ∈ cfg.owned, (cycle cfg P now now1 exec).P' i = none := by
  rw [cycle_no_handlers cfg P now now1 exec hr he]
  refine ⟨rfl, ?_⟩
  intro i ho
  simp [purge, ho]

/-- "Exactly when every SELECTED handler has finished": the closing decision — and what is invoked — depends on the
    records of the selected handlers ONLY. Two objects that carry the same records for the selected handlers are
    treated alike, whatever else they carry: finished or UNFINISHED records of handlers that are not selected (any
    more), of the same purpose or another (no hypothesis such as `NoExtras`). -/
theorem closed_ignores_unselected_records (cfg : Cfg) (P Q : Store) (now now1 : Tick) (exec : Id → Nat → Outcome)
    (hsub : ∀ i ∈ cfg.selected, i ∈ cfg.owned) (hagree : ∀ i ∈ cfg.selected, P i = Q i) :
    (cycle cfg P now now1 exec).closed = (cycle cfg Q now now1 exec).closed ∧
    (cycle cfg P now now1 exec).invoked = (cycle cfg Q now now1 exec).invoked := by
  by_cases hr : handlerReasons.contains cfg.reason = true
  · by_cases he : cfg.selected.isEmpty = true
    · rw [cycle_no_handlers cfg P now now1 exec hr he, cycle_no_handlers cfg Q now now1 exec hr he]
      exact ⟨rfl, rfl⟩
    · have he' : cfg.selected.isEmpty = false := by simpa using he
      have hsim := preState_sim (now := now) hsub hagree
      have hpost : SimOn cfg.selected (postState cfg P now now1 exec) (postState cfg Q now now1 exec) :=
        execOnce_sim hsim
      rw [cycle_main cfg P now now1 exec hr he', cycle_main cfg Q now now1 exec hr he']
      refine ⟨?_, (execOnce_invoked_sim (now1 := now1) (exec := exec) hsim).symm⟩
      simp only
      rw [Bool.eq_iff_iff, done_iff hsub, done_iff hsub]
      constructor
      · intro h i hi
        obtain ⟨hs, h1, h2⟩ := h i hi
        exact (relO_finished (hpost i hi)).1 ⟨hs, h1, h2⟩
      · intro h i hi
        obtain ⟨hs, h1, h2⟩ := h i hi
        exact (relO_finished (hpost i hi)).2 ⟨hs, h1, h2⟩
  · have hr' : handlerReasons.contains cfg.reason = false := by simpa using hr
    rw [cycle_not_handler_reason cfg P now now1 exec hr', cycle_not_handler_reason cfg Q now now1 exec hr']
    exact ⟨rfl, rfl⟩

/-- In particular: the UNFINISHED record of a handler that is not selected any more (its field was reverted, its
    label flipped) does not keep the cycle open. The pass after which every selected handler has finished closes the
    cycle, and that record goes with all the others. -/
theorem closed_despite_unselected_unfinished (cfg : Cfg) (P : Store) (now now1 : Tick) (exec : Id → Nat → Outcome)
    (hsub : ∀ i ∈ cfg.selected, i ∈ cfg.owned)
    (hr : handlerReasons.contains cfg.reason = true) (hne : cfg.selected.isEmpty = false)
    (j : Id) (r : Rec) (ho : j ∈ cfg.owned) (_hns : j ∉ cfg.selected) (_hP : P j = some r) (_hunf : r.finished = false)
    (hall : ∀ i ∈ cfg.selected, ∃ h, postState cfg P now now1 exec i = some h ∧ h.r.finished = true) :
    (cycle cfg P now now1 exec).closed = true ∧ ∀ i ∈ cfg.owned, (cycle cfg P now now1 exec).P' i = none := by
  have hc := (closed_iff_all_finished cfg P now now1 exec hsub hr hne).2 hall
  exact ⟨hc, closed_purges cfg P now now1 exec hr hne hc⟩

-- non-vacuity = the history of seed C03d: `hx` (field spec.x) failed temporarily, its unfinished record (purpose
-- update) is on the object; spec.x was reverted and spec.y changed, so `hy` alone is selected, for the same cause;
-- `hy` succeeds: the pass invokes `hy` with retry 0, closes the cycle and purges BOTH records — exactly as on an
-- object without `hx`'s record
example :
    seedP "hx/spec.x" = some seedRecX ∧ seedRecX.finished = false ∧ seedRecX.purpose = some seedCfg.reason ∧
    "hx/spec.x" ∈ seedCfg.owned ∧ "hx/spec.x" ∉ seedCfg.selected ∧
    (cycle seedCfg seedP 515 515 (fun _ _ => okOutcome)).invoked = [("hy/spec.y", 0)] ∧
    (cycle seedCfg seedP 515 515 (fun _ _ => okOutcome)).closed = true ∧
    (cycle seedCfg seedP 515 515 (fun _ _ => okOutcome)).P' "hx/spec.x" = none ∧
    (cycle seedCfg seedP 515 515 (fun _ _ => okOutcome)).P' "hy/spec.y" = none ∧
    (cycle seedCfg (fun _ => none) 515 515 (fun _ _ => okOutcome)).closed = true ∧
    (∀ i ∈ seedCfg.selected, seedP i = (fun _ => none : Store) i) := by decide

/-- … nor any record of their sub-handlers (the `subrefs` of every known state). -/
theorem closed_purges_subrefs (cfg : Cfg) (P : Store) (now now1 : Tick) (exec : Id → Nat → Outcome)
    (hr : handlerReasons.contains cfg.reason = true) (hne : cfg.selected.isEmpty = false)
    (hc : (cycle cfg P now now1 exec).closed = true) :
    ∀ i ∈ allSubrefs (postState cfg P now now1 exec) (known cfg), (cycle cfg P now now1 exec).P' i = none := by
  rw [cycle_main cfg P now now1 exec hr hne] at hc ⊢
  simp only at hc
  intro i hi
  simp [hc, purge, hi]

/-- While the cycle stays open, a finished record is carried forward untouched. -/
theorem finished_persists (cfg : Cfg) (P : Store) (now now1 : Tick) (exec : Id → Nat → Outcome)
    (hsub : ∀ i ∈ cfg.selected, i ∈ cfg.owned) (hne : NoExtras cfg P)
    (i : Id) (r : Rec) (ho : i ∈ cfg.owned) (hP : P i = some r) (hfin : r.finished = true)
    (hr : handlerReasons.contains cfg.reason = true)
    (hc : (cycle cfg P now now1 exec).closed = false) :
    (cycle cfg P now now1 exec).P' i = some r := by
  have hex := noExtras_extras (now := now) hsub hne
  by_cases hr : handlerReasons.contains cfg.reason = true
  · by_cases he : cfg.selected.isEmpty = true
    · rw [cycle_no_handlers cfg P now now1 exec hr he] at hc; simp at hc
    · have he' : cfg.selected.isEmpty = false := by simpa using he
      rw [cycle_main cfg P now now1 exec hr he'] at hc ⊢
      simp only at hc
      simp only [hc, Bool.false_eq_true, if_false]
      rw [midStore_noExtras hex]
      have hpre := preState_stored (now := now) hex ho hP
      have hpost : postState cfg P now now1 exec i = preState cfg P now i := by
        unfold postState
        apply postState_unplanned
        intro hs hst
        rw [hpre] at hst
        cases hst
        simp [Rec.awakened, hfin]
      rw [store_clean (h := { r := r, active := decide (i ∈ cfg.selected), dirty := false }) (by rw [hpost, hpre]) rfl]
      exact hP
  · exact absurd (by assumption) hr

/-- A final outcome (success or permanent failure) of an invoked handler is recorded on the object
    whenever the cycle stays open. -/
theorem final_outcome_recorded (cfg : Cfg) (P : Store) (now now1 : Tick) (exec : Id → Nat → Outcome)
    (i : Id) (n : Nat) (hinv : (i, n) ∈ (cycle cfg P now now1 exec).invoked)
    (hfin : (exec i n).final = true) (hc : (cycle cfg P now now1 exec).closed = false) :
    ∃ r', (cycle cfg P now now1 exec).P' i = some r' ∧ r'.finished = true := by
  by_cases hr : handlerReasons.contains cfg.reason = true
  · by_cases he : cfg.selected.isEmpty = true
    · rw [cycle_no_handlers cfg P now now1 exec hr he] at hinv; simp at hinv
    · have he' : cfg.selected.isEmpty = false := by simpa using he
      rw [cycle_main cfg P now now1 exec hr he'] at hc hinv ⊢
      simp only at hc hinv
      obtain ⟨hs, _, _, hpost⟩ := postState_invoked hinv
      refine ⟨withOutcome hs.r (exec i n) now1, ?_, ?_⟩
      · simp only [hc, Bool.false_eq_true, if_false]
        unfold store postState
        simp [hpost]
      · rw [withOutcome_finished, hfin]
  · have hr' : handlerReasons.contains cfg.reason = false := by simpa using hr
    rw [cycle_not_handler_reason cfg P now now1 exec hr'] at hinv
    simp at hinv

/-- The "no foreign purpose" invariant is preserved by every pass. -/
theorem noExtras_preserved (cfg : Cfg) (P : Store) (now now1 : Tick) (exec : Id → Nat → Outcome)
    (hsub : ∀ i ∈ cfg.selected, i ∈ cfg.owned) (hne : NoExtras cfg P) :
    NoExtras cfg (cycle cfg P now now1 exec).P' := by
  have hex := noExtras_extras (now := now) hsub hne
  by_cases hr : handlerReasons.contains cfg.reason = true
  · by_cases he : cfg.selected.isEmpty = true
    · rw [cycle_no_handlers cfg P now now1 exec hr he]
      intro i ho r hP'
      simp [purge, ho] at hP'
    · have he' : cfg.selected.isEmpty = false := by simpa using he
      rw [cycle_main cfg P now now1 exec hr he']
      simp only
      intro i ho r hP'
      by_cases hd : done (postState cfg P now now1 exec) (known cfg) = true
      · simp [hd, purge, ho] at hP'
      · simp only [hd, Bool.false_eq_true, if_false, midStore_noExtras hex] at hP'
        unfold store at hP'
        cases hpost : postState cfg P now now1 exec i with
        | none => simp only [hpost] at hP'; exact hne i ho r hP'
        | some h =>
          simp only [hpost] at hP'
          by_cases hdirty : h.dirty = true
          · simp only [hdirty, if_true, Option.some.injEq] at hP'
            subst hP'
            obtain ⟨h0, hpre, hpur⟩ := execOnce_purpose hpost
            rw [hpur]
            rw [preState_noExtras hex] at hpre
            exact st0_purpose hsub hne i h0 hpre
          · simp only [hdirty, Bool.false_eq_true, if_false] at hP'
            exact hne i ho r hP'
  · have hr' : handlerReasons.contains cfg.reason = false := by simpa using hr
    rw [cycle_not_handler_reason cfg P now now1 exec hr']
    intro i ho r hP'
    by_cases hn : (cfg.reason == "noop") = true
    · simp [hn, purge, ho] at hP'
    · simp only [hn, Bool.false_eq_true, if_false] at hP'
      exact hne i ho r hP'

/-- One pass of the handling cycle: its clock readings and what the handlers do when invoked. -/
structure Step where
  now : Tick
  now1 : Tick
  exec : Id → Nat → Outcome

/-- The invocations of each following pass, for as long as the handling cycle stays open.
    Between passes anything may happen that leaves the stored records alone: foreign events,
    operator restarts (the pass is a function of the stored records only). -/
def invokedSeq (cfg : Cfg) : Store → List Step → List (List (Id × Nat))
  | _, [] => []
  | P, s :: rest =>
      let c := cycle cfg P s.now s.now1 s.exec
      c.invoked :: (if c.closed then [] else invokedSeq cfg c.P' rest)

/-- Across any number of passes, restarts and intervening events, a handler recorded as finished
    is not invoked again while the handling cycle is open. -/
theorem finished_never_invoked (cfg : Cfg) (hsub : ∀ i ∈ cfg.selected, i ∈ cfg.owned)
    (steps : List Step) : ∀ (P : Store), NoExtras cfg P →
    ∀ (i : Id) (r : Rec), i ∈ cfg.owned → P i = some r → r.finished = true →
    ∀ l ∈ invokedSeq cfg P steps, ∀ n, (i, n) ∉ l := by
  by_cases hr : handlerReasons.contains cfg.reason = true
  · induction steps with
    | nil => intro P _ i r _ _ _ l hl; simp [invokedSeq] at hl
    | cons s rest ih =>
      intro P hne i r ho hP hfin l hl n
      simp only [invokedSeq, List.mem_cons] at hl
      rcases hl with rfl | hl
      · exact no_rerun cfg P s.now s.now1 s.exec hsub i n r hP hfin
      · by_cases hc : (cycle cfg P s.now s.now1 s.exec).closed = true
        · simp [hc] at hl
        · have hc' : (cycle cfg P s.now s.now1 s.exec).closed = false := by simpa using hc
          simp only [hc', Bool.false_eq_true, if_false] at hl
          exact ih _ (noExtras_preserved cfg P s.now s.now1 s.exec hsub hne) i r ho
            (finished_persists cfg P s.now s.now1 s.exec hsub hne i r ho hP hfin hr hc') hfin l hl n
  · -- an informational cause never invokes anything
    have hr' : handlerReasons.contains cfg.reason = false := by simpa using hr
    induction steps with
    | nil => intro P _ i r _ _ _ l hl; simp [invokedSeq] at hl
    | cons s rest ih =>
      intro P hne i r ho hP hfin l hl n
      simp only [invokedSeq, List.mem_cons] at hl
      have hinv := cycle_not_handler_reason_invoked cfg P s.now s.now1 s.exec hr'
      rcases hl with rfl | hl
      · rw [hinv.1]; simp
      · intro hmem
        -- whatever the records are afterwards, every later pass invokes nothing either
        have hall : ∀ (Q : Store) (st : List Step), ∀ l' ∈ invokedSeq cfg Q st, l' = [] := by
          intro Q st
          induction st generalizing Q with
          | nil => intro l' h'; simp [invokedSeq] at h'
          | cons s' rest' ih' =>
            intro l' h'
            simp only [invokedSeq, List.mem_cons] at h'
            have hi' := cycle_not_handler_reason_invoked cfg Q s'.now s'.now1 s'.exec hr'
            rcases h' with rfl | h'
            · exact hi'.1
            · simp only [hi'.2, Bool.false_eq_true, if_false] at h'
              exact ih' _ l' h'
        simp only [hinv.2, Bool.false_eq_true, if_false] at hl
        rw [hall _ rest l hl] at hmem
        simp at hmem

/-- Hence every handler succeeds (or fails for good) at most once per handling cycle: after a pass
    in which it reached a final outcome, no later pass of the same open cycle invokes it —
    for every outcome script, lifecycle, clock, and any placement of restarts / foreign events. -/
theorem once_per_cycle (cfg : Cfg) (hsub : ∀ i ∈ cfg.selected, i ∈ cfg.owned)
    (P : Store) (hne : NoExtras cfg P) (s : Step) (rest : List Step)
    (i : Id) (n : Nat) (hinv : (i, n) ∈ (cycle cfg P s.now s.now1 s.exec).invoked)
    (hfin : (s.exec i n).final = true) (hc : (cycle cfg P s.now s.now1 s.exec).closed = false) :
    ∀ l ∈ invokedSeq cfg (cycle cfg P s.now s.now1 s.exec).P' rest, ∀ m, (i, m) ∉ l := by
  obtain ⟨r', hP', hf'⟩ := final_outcome_recorded cfg P s.now s.now1 s.exec i n hinv hfin hc
  have hsel := (invoked_selected_awake cfg P s.now s.now1 s.exec hsub i n hinv).1
  exact finished_never_invoked cfg hsub rest _ (noExtras_preserved cfg P s.now s.now1 s.exec hsub hne)
    i r' (hsub i hsel) hP' hf'

/-- The closing decisions of the seeded variant C03d (`done := not state.counts.running`) over the following passes,
    each from what the previous one left (whether or not it "closed"). -/
def variantClosedSeq (cfg : Cfg) : Store → List Step → List Bool
  | _, [] => []
  | P, s :: rest =>
      let c := cycleRunningVariant cfg P s.now s.now1 s.exec
      c.closed :: variantClosedSeq cfg c.P' rest

/-- The variant NEVER closes a cycle over the unfinished record of a handler that is not selected: in no later pass,
    whatever the selected handlers do, at whatever times, for as long as the selection stays (the de-selected
    handler is never invoked — `invoked_selected_awake` — so its record never changes). -/
theorem counts_running_variant_never_closes (cfg : Cfg) (hsub : ∀ i ∈ cfg.selected, i ∈ cfg.owned)
    (hr : handlerReasons.contains cfg.reason = true) (hsel : cfg.selected.isEmpty = false)
    (j : Id) (ho : j ∈ cfg.owned) (hns : j ∉ cfg.selected) (steps : List Step) :
    ∀ (P : Store), NoExtras cfg P → ∀ r, P j = some r → r.finished = false →
      ∀ c ∈ variantClosedSeq cfg P steps, c = false := by
  induction steps with
  | nil => intro P _ r _ _ c hc; simp [variantClosedSeq] at hc
  | cons s rest ih =>
    intro P hne r hP hunf c hc
    obtain ⟨h1, h2, h3⟩ := variant_stuck cfg P s.now s.now1 s.exec hsub hr hsel hne j r ho hns hP hunf
    simp only [variantClosedSeq, List.mem_cons] at hc
    rcases hc with rfl | hc
    · exact h1
    · exact ih _ h3 r h2 hunf c hc

/-- WITNESS that the seeded change C03d violates "closed exactly when every selected handler has finished", on the
    seed's own history: the code's pass (`cycle`) closes the cycle when `hy` succeeds and leaves no record; the
    variant does not close it in that pass — although the only selected handler HAS finished and is recorded as a
    success — nor in any later one (so last-handled is never written, both records stay, and a later change of
    spec.y finds `hy`'s stale success and does not run it: `no_rerun`). -/
theorem counts_running_variant_never_closes_witness :
    (cycle seedCfg seedP 515 515 (fun _ _ => okOutcome)).closed = true ∧
    (∀ i ∈ seedCfg.owned, (cycle seedCfg seedP 515 515 (fun _ _ => okOutcome)).P' i = none) ∧
    (cycleRunningVariant seedCfg seedP 515 515 (fun _ _ => okOutcome)).closed = false ∧
    ((cycleRunningVariant seedCfg seedP 515 515 (fun _ _ => okOutcome)).P' "hy/spec.y").map (·.success) = some true ∧
    (cycleRunningVariant seedCfg seedP 515 515 (fun _ _ => okOutcome)).P' "hx/spec.x" = some seedRecX ∧
    ∀ steps : List Step, ∀ c ∈ variantClosedSeq seedCfg seedP steps, c = false := by
  refine ⟨by decide, by decide, by decide, by decide, by decide, ?_⟩
  intro steps
  exact counts_running_variant_never_closes seedCfg (by decide) (by decide) (by decide) "hx/spec.x" (by decide) (by decide)
    steps seedP seed_noExtras seedRecX (by decide) (by decide)

/-- The guard is not decorative. Two passes over the same object: in the first, "h" is invoked, succeeds,
    and the cycle stays open ("g" is still due). If the second pass starts from the record the first pass
    wrote (`c₁.P'`), "h" is NOT invoked again; if it starts from the *stale* view `P` (a lost API
    response, or an echo later than the consistency timeout), "h" IS invoked again and succeeds twice. -/
theorem stale_view_reruns :
    ∃ (cfg : Cfg) (P : Store) (s₁ s₂ : Step),
      let c₁ := cycle cfg P s₁.now s₁.now1 s₁.exec
      ("h", 0) ∈ c₁.invoked ∧ (s₁.exec "h" 0).final = true ∧ (s₁.exec "h" 0).error = false ∧
      c₁.closed = false ∧
      (∀ n, ("h", n) ∉ (cycle cfg c₁.P' s₂.now s₂.now1 s₂.exec).invoked) ∧
      ("h", 0) ∈ (cycle cfg P s₂.now s₂.now1 s₂.exec).invoked := by
  let ok : Outcome := { final := true, delay := none, error := false, subrefs := [] }
  refine ⟨{ owned := ["h", "g"], selected := ["h", "g"], limits := fun _ => ⟨none, none⟩, reason := "create",
            lifecycle := .oneByOne }, fun _ => none, ⟨0, 1, fun _ _ => ok⟩, ⟨2, 3, fun _ _ => ok⟩,
          by decide, by decide, by decide, by decide, ?_, by decide⟩
  intro n hn
  have : (cycle { owned := ["h", "g"], selected := ["h", "g"], limits := fun _ => ⟨none, none⟩,
                  reason := "create", lifecycle := .oneByOne }
            (cycle { owned := ["h", "g"], selected := ["h", "g"], limits := fun _ => ⟨none, none⟩,
                     reason := "create", lifecycle := .oneByOne } (fun _ => none) 0 1 (fun _ _ => ok)).P'
            2 3 (fun _ _ => ok)).invoked = [("g", 0)] := by decide
  rw [this] at hn
  simp at hn

/-! ### The same over a changing selection

Between two passes an intervening event may change which handlers are *selected* (label/field filters,
`when=` callbacks), their limits, or the lifecycle; the owned handlers and the cause stay. -/

/-- One pass with its own selection. -/
structure StepV where
  now : Tick
  now1 : Tick
  exec : Id → Nat → Outcome
  selected : List Id
  limits : Id → Limits
  lifecycle : Lifecycle

def cfgAt (owned : List Id) (reason : String) (s : StepV) : Cfg :=
  { owned := owned, selected := s.selected, limits := s.limits, reason := reason, lifecycle := s.lifecycle }

def invokedSeqV (owned : List Id) (reason : String) : Store → List StepV → List (List (Id × Nat))
  | _, [] => []
  | P, s :: rest =>
      let c := cycle (cfgAt owned reason s) P s.now s.now1 s.exec
      c.invoked :: (if c.closed then [] else invokedSeqV owned reason c.P' rest)

/-- Across any number of passes whose selection, limits and lifecycle may change from pass to pass
    (and any restarts / foreign events in between), a handler recorded as finished is not invoked again
    while the handling cycle for this cause is open. -/
theorem finished_never_invoked_varying (owned : List Id) (reason : String)
    (hr : handlerReasons.contains reason = true) (steps : List StepV)
    (hsub : ∀ s ∈ steps, ∀ i ∈ s.selected, i ∈ owned) :
    ∀ (P : Store), (∀ i ∈ owned, ∀ r, P i = some r → r.purpose = none ∨ r.purpose = some reason) →
    ∀ (i : Id) (r : Rec), i ∈ owned → P i = some r → r.finished = true →
    ∀ l ∈ invokedSeqV owned reason P steps, ∀ n, (i, n) ∉ l := by
  induction steps with
  | nil => intro P _ i r _ _ _ l hl; simp [invokedSeqV] at hl
  | cons s rest ih =>
    intro P hne i r ho hP hfin l hl n
    have hs : ∀ j ∈ (cfgAt owned reason s).selected, j ∈ (cfgAt owned reason s).owned :=
      hsub s (by simp)
    have hne' : NoExtras (cfgAt owned reason s) P := hne
    simp only [invokedSeqV, List.mem_cons] at hl
    rcases hl with rfl | hl
    · exact no_rerun (cfgAt owned reason s) P s.now s.now1 s.exec hs i n r hP hfin
    · by_cases hc : (cycle (cfgAt owned reason s) P s.now s.now1 s.exec).closed = true
      · simp [hc] at hl
      · have hc' : (cycle (cfgAt owned reason s) P s.now s.now1 s.exec).closed = false := by simpa using hc
        simp only [hc', Bool.false_eq_true, if_false] at hl
        exact ih (fun s' hs' => hsub s' (by simp [hs'])) _
          (noExtras_preserved (cfgAt owned reason s) P s.now s.now1 s.exec hs hne') i r ho
          (finished_persists (cfgAt owned reason s) P s.now s.now1 s.exec hs hne' i r ho hP hfin hr hc')
          hfin l hl n

/-- Hence at most one final outcome per handler per handling cycle, also when the selection changes
    between the passes. -/
theorem once_per_cycle_varying (owned : List Id) (reason : String)
    (hr : handlerReasons.contains reason = true) (P : Store)
    (hne : ∀ i ∈ owned, ∀ r, P i = some r → r.purpose = none ∨ r.purpose = some reason)
    (s : StepV) (rest : List StepV)
    (hsub : ∀ s' ∈ s :: rest, ∀ i ∈ s'.selected, i ∈ owned)
    (i : Id) (n : Nat)
    (hinv : (i, n) ∈ (cycle (cfgAt owned reason s) P s.now s.now1 s.exec).invoked)
    (hfin : (s.exec i n).final = true)
    (hc : (cycle (cfgAt owned reason s) P s.now s.now1 s.exec).closed = false) :
    ∀ l ∈ invokedSeqV owned reason (cycle (cfgAt owned reason s) P s.now s.now1 s.exec).P' rest,
      ∀ m, (i, m) ∉ l := by
  have hs : ∀ j ∈ (cfgAt owned reason s).selected, j ∈ (cfgAt owned reason s).owned := hsub s (by simp)
  obtain ⟨r', hP', hf'⟩ := final_outcome_recorded (cfgAt owned reason s) P s.now s.now1 s.exec i n hinv hfin hc
  have hsel := (invoked_selected_awake (cfgAt owned reason s) P s.now s.now1 s.exec hs i n hinv).1
  exact finished_never_invoked_varying owned reason hr rest (fun s' hs' => hsub s' (by simp [hs'])) _
    (noExtras_preserved (cfgAt owned reason s) P s.now s.now1 s.exec hs hne) i r' (hs i hsel) hP' hf'

-- non-vacuity of the varying form: "g" is deselected in the second pass ("k" keeps the cycle open) and
-- re-selected in the third; "h" (finished in the first pass) is never invoked again
example :
    let ok : Outcome := { final := true, delay := none, error := false, subrefs := [] }
    let again : Outcome := { final := false, delay := some 0, error := true, subrefs := [] }
    let st (sel : List Id) : StepV :=
      { now := 0, now1 := 0, exec := fun i _ => if i = "h" then ok else again, selected := sel,
        limits := fun _ => ⟨none, none⟩, lifecycle := .allAtOnce }
    invokedSeqV ["h", "g", "k"] "update" (fun _ => none) [st ["h", "g"], st ["h", "k"], st ["h", "g", "k"]]
      = [[("h", 0), ("g", 0)], [("k", 0)], [("g", 1), ("k", 1)]] := by decide

-- non-vacuity: a two-handler creation, first pass runs "h" only, the cycle stays open, "h" is recorded
example :
    let cfg : Cfg := { owned := ["h", "g"], selected := ["h", "g"], limits := fun _ => ⟨none, none⟩,
                       reason := "create", lifecycle := .oneByOne }
    let c := cycle cfg (fun _ => none) 0 1 (fun _ _ => { final := true, delay := none, error := false, subrefs := [] })
    c.invoked = [("h", 0)] ∧ c.closed = false ∧ (c.P' "h").isSome = true ∧ NoExtras cfg (fun _ => none) := by
  refine ⟨by decide, by decide, by decide, ?_⟩
  intro i _ r h; simp at h

/-- The converse for the all-at-once lifecycle: a selected handler that is still due (not finished, not
    sleeping, within its timeout/retries) IS invoked in this pass, with `retry` = its recorded attempts.
    (For one-by-one/asap one such handler is planned per pass; which one is `plan`.) -/
theorem due_invoked_all_at_once (cfg : Cfg) (P : Store) (now now1 : Tick) (exec : Id → Nat → Outcome)
    (hr : handlerReasons.contains cfg.reason = true) (hlc : cfg.lifecycle = .allAtOnce)
    (i : Id) (hsel : i ∈ cfg.selected) (ho : i ∈ cfg.owned)
    (haw : (startRec cfg P now (extras cfg P now) i).awakened now = true)
    (hpre : precheckFails (cfg.limits i) (startRec cfg P now (extras cfg P now) i) now = false) :
    (i, match P i with | some r => r.retries | none => 0) ∈ (cycle cfg P now now1 exec).invoked := by
  have he : cfg.selected.isEmpty = false := by
    cases hl : cfg.selected with
    | nil => rw [hl] at hsel; cases hsel
    | cons _ _ => rfl
  rw [cycle_main cfg P now now1 exec hr he]
  simp only
  obtain ⟨h, hst, _, hrec⟩ := preState_selected (P := P) (now := now) hsel ho
  have hn : (match P i with | some r => r.retries | none => 0) = h.r.retries := by
    rw [hrec]; exact (startRec_retries cfg P now (extras cfg P now) i).symm
  rw [hn]
  exact execOnce_allAtOnce_invokes hlc hsel hst (by rw [hrec]; exact haw) (by rw [hrec]; exact hpre)

/-! ### Sub-handlers (`subhandling.execute`, model `subPass`)

`subPass` is a function of the records `P` the object carries (and of the sub-handlers the parent
registered in this invocation), like `cycle`: restarts and foreign events are covered by quantifying over `P`. -/

/-- A sub-handler whose success or permanent failure is recorded is never invoked again. -/
theorem sub_no_rerun (cfg : Cfg) (P : Store) (now now1 : Tick) (exec : Id → Nat → Outcome)
    (i : Id) (n : Nat) (r : Rec) (ho : i ∈ cfg.owned) (hP : P i = some r) (hfin : r.finished = true) :
    (i, n) ∉ (subPass cfg P now now1 exec).invoked := by
  intro hin
  rw [subPass_invoked_eq] at hin
  obtain ⟨_, hs, hst, haw, _⟩ := execOnce_invoked hin
  obtain ⟨a, h0⟩ := subSt0_stored (now := now) ho hP
  rw [h0] at hst
  cases hst
  have := awakened_not_finished haw
  simp [hfin] at this

/-- A sub-handler still due is invoked with `retry` = its recorded attempts (0 when nothing is recorded). -/
theorem sub_retry_kwarg (cfg : Cfg) (P : Store) (now now1 : Tick) (exec : Id → Nat → Outcome)
    (hsub : ∀ i ∈ cfg.selected, i ∈ cfg.owned)
    (i : Id) (n : Nat) (hin : (i, n) ∈ (subPass cfg P now now1 exec).invoked) :
    n = (match P i with | some r => r.retries | none => 0) := by
  rw [subPass_invoked_eq] at hin
  obtain ⟨hsel, hs, hst, _, hn⟩ := execOnce_invoked hin
  obtain ⟨h, hst', _, hr, _⟩ := subSt0_selected (P := P) (now := now) hsel (hsub i hsel)
  rw [hst] at hst'
  cases hst'
  rw [hn, hr]
  cases P i <;> simp [fresh]

/-- The parent finishes exactly when every selected sub-handler has finished: until then it gets the
    `HandlerChildrenRetry` outcome (not final), i.e. it stays unfinished and the cycle stays open. -/
theorem parent_final_iff_subs_finished (cfg : Cfg) (P : Store) (now now1 : Tick) (exec : Id → Nat → Outcome)
    (hsub : ∀ i ∈ cfg.selected, i ∈ cfg.owned) :
    (subPass cfg P now now1 exec).outcome.final = true ↔
      ∀ i ∈ cfg.selected, ∃ r, (subPass cfg P now now1 exec).P' i = some r ∧ r.finished = true := by
  rw [subPass_final_eq, sub_done_iff hsub]
  constructor
  · intro h i hi
    obtain ⟨hs, hst, hfin⟩ := h i hi
    exact ⟨hs.r, subPass_P'_of_st hst, hfin⟩
  · intro h i hi
    obtain ⟨r, hP', hfin⟩ := h i hi
    obtain ⟨h0, hp0, _, _⟩ := subSt0_selected (P := P) (now := now) hi (hsub i hi)
    obtain ⟨hs, hst, _⟩ := execOnce_st_of (cfg := cfg) (now := now) (now1 := now1) (exec := exec) hp0
    have hst' : (subPass cfg P now now1 exec).st i = some hs := by rw [subPass_st_eq]; exact hst
    rw [subPass_P'_of_st hst'] at hP'
    cases hP'
    exact ⟨hs, hst', hfin⟩

/-- A parent with unfinished children is neither a success nor a permanent failure. -/
theorem parent_retry_is_error_not_final (cfg : Cfg) (P : Store) (now now1 : Tick) (exec : Id → Nat → Outcome) :
    (subPass cfg P now now1 exec).outcome.error = !(subPass cfg P now now1 exec).outcome.final := rfl

/-- Every record the sub-pass knows (loaded or written) is referenced by the parent's outcome … -/
theorem sub_records_covered (cfg : Cfg) (P : Store) (now now1 : Tick) (exec : Id → Nat → Outcome)
    (i : Id) (h : HS) (hst : (subPass cfg P now now1 exec).st i = some h) :
    i ∈ (subPass cfg P now now1 exec).outcome.subrefs := by
  have hst' := hst
  rw [subPass_st_eq] at hst'
  obtain ⟨h0, hp0, _, _⟩ := execOnce_st_some hst'
  have hk := subSt0_known hp0
  show i ∈ ((known cfg).eraseDups.filter (fun i => ((subPass cfg P now now1 exec).st i).isSome))
  simp only [List.mem_filter]
  exact ⟨List.mem_eraseDups.2 hk, by rw [hst]; rfl⟩

/-- … and the sub-pass writes nothing else. -/
theorem sub_writes_only_known (cfg : Cfg) (P : Store) (now now1 : Tick) (exec : Id → Nat → Outcome)
    (i : Id) (hne : (subPass cfg P now now1 exec).P' i ≠ P i) :
    i ∈ (subPass cfg P now now1 exec).outcome.subrefs := by
  cases hst : (subPass cfg P now now1 exec).st i with
  | none => rw [subPass_P'_eq] at hne; unfold store at hne; simp [hst] at hne
  | some h => exact sub_records_covered cfg P now now1 exec i h hst

/-- Hence when the top-level cycle closes, the records of the sub-handlers of every parent invoked in
    the closing pass are purged with it (the purge is applied to the patch after the sub-pass's writes). -/
theorem sub_records_purged_on_close (cfg : Cfg) (P : Store) (now now1 : Tick) (exec : Id → Nat → Outcome)
    (p : Id) (n : Nat) (hinv : (p, n) ∈ (cycle cfg P now now1 exec).invoked)
    (scfg : Cfg) (sP : Store) (snow snow1 : Tick) (sexec : Id → Nat → Outcome)
    (hout : exec p n = (subPass scfg sP snow snow1 sexec).outcome)
    (hc : (cycle cfg P now now1 exec).closed = true) :
    ∀ i h, (subPass scfg sP snow snow1 sexec).st i = some h → (cycle cfg P now now1 exec).P' i = none := by
  intro i h hst
  by_cases hr : handlerReasons.contains cfg.reason = true
  · by_cases he : cfg.selected.isEmpty = true
    · rw [cycle_no_handlers cfg P now now1 exec hr he] at hinv; simp at hinv
    · have he' : cfg.selected.isEmpty = false := by simpa using he
      apply closed_purges_subrefs cfg P now now1 exec hr he' hc
      have hinv' := hinv
      rw [cycle_main cfg P now now1 exec hr he'] at hinv'
      simp only at hinv'
      obtain ⟨hsel, _⟩ := execOnce_invoked hinv'
      obtain ⟨hs, _, _, hpost⟩ := postState_invoked hinv'
      have hk : p ∈ known cfg := by simp [known, hsel]
      unfold allSubrefs
      simp only [List.mem_flatMap]
      refine ⟨p, hk, ?_⟩
      unfold postState
      rw [hpost]
      simp only [withOutcome]
      apply List.mem_eraseDups.2
      simp only [List.mem_append]
      right
      rw [hout]
      exact sub_records_covered scfg sP snow snow1 sexec i h hst
  · have hr' : handlerReasons.contains cfg.reason = false := by simpa using hr
    rw [cycle_not_handler_reason cfg P now now1 exec hr'] at hinv
    simp at hinv

-- non-vacuity: a parent with two sub-handlers; "p/a" succeeds, "p/b" asks to retry in 5 ticks:
-- the parent gets the children-retry outcome carrying both references and the delay
example :
    let cfg : Cfg := { owned := ["p/a", "p/b"], selected := ["p/a", "p/b"], limits := fun _ => ⟨none, none⟩,
                       reason := "create", lifecycle := .allAtOnce }
    let s := subPass cfg (fun _ => none) 0 0
      (fun i _ => if i = "p/a" then { final := true, delay := none, error := false, subrefs := [] }
                  else { final := false, delay := some 5, error := true, subrefs := [] })
    s.invoked = [("p/a", 0), ("p/b", 0)] ∧
    s.outcome = { final := false, delay := some 5, error := true, subrefs := ["p/a", "p/b"] } ∧
    -- the next sub-pass (from what was stored) invokes only "p/b", with retry = 1
    (subPass cfg s.P' 5 5 (fun _ _ => { final := true, delay := none, error := false, subrefs := [] })).invoked
      = [("p/b", 1)] ∧
    (subPass cfg s.P' 5 5 (fun _ _ => { final := true, delay := none, error := false, subrefs := [] })).outcome.final
      = true := by
  refine ⟨by decide, by decide, by decide, by decide⟩

/-- The guard of the multi-pass theorems (`hne`: no stored record carries another cause's purpose, i.e. no
    cause supersedes the open cycle in between) is needed: "h" finished for the *resume* cause; the cause turns
    to *update* while "h" is deselected (its record is purged as superseded with the rest), then "h" is
    selected again — and invoked from scratch although its success had been recorded (the mechanism of the
    findings C14-F9, repaired for resuming handlers by /repo 6c4463d, and C02-F1). -/
theorem superseding_cause_reruns_witness :
    ∃ (owned : List Id) (reason : String) (steps : List StepV) (P : Store) (i : Id) (r : Rec),
      handlerReasons.contains reason = true ∧ (∀ s ∈ steps, ∀ j ∈ s.selected, j ∈ owned) ∧
      i ∈ owned ∧ P i = some r ∧ r.finished = true ∧
      ∃ l ∈ invokedSeqV owned reason P steps, (i, 0) ∈ l := by
  let ok : Outcome := { final := true, delay := none, error := false, subrefs := [] }
  let again : Outcome := { final := false, delay := some 0, error := true, subrefs := [] }
  let st (sel : List Id) : StepV :=
    { now := 0, now1 := 0, exec := fun i _ => if i = "g" then again else ok, selected := sel,
      limits := fun _ => ⟨none, none⟩, lifecycle := .allAtOnce }
  let recOf (fin : Bool) (n : Nat) : Rec :=
    { started := 0, delayed := none, purpose := some "resume", retries := n, success := fin, failure := false, subrefs := [] }
  refine ⟨["h", "g"], "update", [st ["g"], st ["h", "g"]],
          (fun i => if i = "h" then some (recOf true 1) else if i = "g" then some (recOf false 1) else none),
          "h", recOf true 1, by decide, ?_, by decide, by decide, by decide, ?_⟩
  · intro s hs j hj
    simp only [List.mem_cons, List.mem_nil_iff, or_false] at hs
    rcases hs with rfl | rfl <;> simp_all [st]
  · refine ⟨[("h", 0), ("g", 2)], by decide, by decide⟩

/-! ### A pass composed with the sub-passes of its parents (`cycle2`: one store, one patch, one clock) -/

/-- `cycle2` refines `cycle`: on everything that is not a child of an invoked parent it IS `cycle` with the
    parents' outcomes produced by their sub-passes — so every theorem above about `cycle` speaks about the
    composed pass too. -/
theorem cycle2_refines_cycle (cfg : Cfg) (sub : SubReg) (P : Store) (now : Tick) (execLeaf : Id → Nat → Outcome)
    (hr : handlerReasons.contains cfg.reason = true) (hne : cfg.selected.isEmpty = false) :
    (cycle2 cfg sub P now execLeaf).invoked = (cycle cfg P now now (execTop cfg sub P now execLeaf)).invoked ∧
    (cycle2 cfg sub P now execLeaf).closed = (cycle cfg P now now (execTop cfg sub P now execLeaf)).closed ∧
    ∀ i, (∀ p, i ∉ sub.children p) →
      (cycle2 cfg sub P now execLeaf).P' i = (cycle cfg P now now (execTop cfg sub P now execLeaf)).P' i := by
  rw [cycle2_eq, cycle_main cfg P now now _ hr hne]
  refine ⟨rfl, rfl, ?_⟩
  intro i hi
  simp only
  have hsw := subWrites_other cfg sub P now execLeaf i
    ((execOnce cfg (preState cfg P now) now now (execTop cfg sub P now execLeaf)).invoked.map (·.1))
    (midStore cfg P now) (fun p _ => hi p)
  have hst : store (subWrites cfg sub P now execLeaf
        ((execOnce cfg (preState cfg P now) now now (execTop cfg sub P now execLeaf)).invoked.map (·.1))
        (midStore cfg P now)) (postState cfg P now now (execTop cfg sub P now execLeaf)) i =
      store (midStore cfg P now) (postState cfg P now now (execTop cfg sub P now execLeaf)) i := by
    unfold store
    rw [hsw]
  unfold postState at hst ⊢
  by_cases hd : done (execOnce cfg (preState cfg P now) now now (execTop cfg sub P now execLeaf)).st (known cfg) = true
  · simp only [hd, if_true]
    unfold purge
    simp only [hst]
  · simp only [hd, Bool.false_eq_true, if_false]
    exact hst

/-- When the composed pass closes the cycle, the records of ALL registered children of every parent invoked
    in it are gone — no hypothesis linking the two passes is needed any more (cf. `sub_records_purged_on_close`). -/
theorem cycle2_closed_purges_children (cfg : Cfg) (sub : SubReg) (P : Store) (now : Tick)
    (execLeaf : Id → Nat → Outcome)
    (hc : (cycle2 cfg sub P now execLeaf).closed = true)
    (p : Id) (n : Nat) (hinv : (p, n) ∈ (cycle2 cfg sub P now execLeaf).invoked)
    (i : Id) (hi : i ∈ sub.children p) :
    (cycle2 cfg sub P now execLeaf).P' i = none := by
  rw [cycle2_eq] at hc hinv ⊢
  simp only at hc hinv ⊢
  simp only [hc, if_true]
  obtain ⟨hsel, _⟩ := execOnce_invoked hinv
  obtain ⟨hs, _, _, hpost⟩ := postState_invoked hinv
  have hk : p ∈ known cfg := by simp [known, hsel]
  have hne : (sub.children p).isEmpty = false := by
    cases hl : sub.children p with
    | nil => rw [hl] at hi; cases hi
    | cons _ _ => rfl
  have hsub : i ∈ allSubrefs (execOnce cfg (preState cfg P now) now now (execTop cfg sub P now execLeaf)).st (known cfg) := by
    unfold allSubrefs
    simp only [List.mem_flatMap]
    refine ⟨p, hk, ?_⟩
    rw [hpost]
    simp only [withOutcome]
    apply List.mem_eraseDups.2
    simp only [List.mem_append]
    right
    simp only [execTop, hne, Bool.false_eq_true, if_false]
    exact child_in_subrefs cfg sub P now execLeaf p i hi
  simp [purge, hsub]

/-- A registered child whose success or permanent failure the BODY carries is not invoked by the composed pass. -/
theorem cycle2_child_no_rerun (cfg : Cfg) (sub : SubReg) (P : Store) (now : Tick) (execLeaf : Id → Nat → Outcome)
    (i : Id) (n : Nat) (r : Rec) (hP : P i = some r) (hfin : r.finished = true) :
    (i, n) ∉ (cycle2 cfg sub P now execLeaf).subInvoked := by
  intro hin
  rw [cycle2_eq] at hin
  simp only [List.mem_flatMap] at hin
  obtain ⟨p, _, hp⟩ := hin
  by_cases he : (sub.children p).isEmpty = true
  · simp [he] at hp
  · simp only [he, Bool.false_eq_true, if_false] at hp
    have hsel := (by
      rw [subPass_invoked_eq] at hp
      exact (execOnce_invoked hp).1 : i ∈ (subCfgOf cfg sub p).selected)
    exact sub_no_rerun (subCfgOf cfg sub p) P now now execLeaf i n r hsel hP hfin hp

/-- Regression of the repaired finding C02-F1 (/repo: only the handlers that fell out of the current purpose
    are purged), three passes of the composed model, each starting from what the previous one left: resume
    handlers `r0` (children `r0/a`, `r0/b`) and `r1`; in the first pass `r0/a` succeeds, `r0/b` and `r1` are to
    be retried; then the cause turns to *update* with `r1` deselected: `r0` is re-purposed and keeps its retry
    series (1, then 2), `r1`'s record is purged as superseded — and the finished child `r0/a` keeps its record
    and is NOT invoked again (before the repair the third pass invoked `("r0/a", 0)`). -/
theorem sub_not_rerun_after_supersede_regression :
    let ok : Outcome := { final := true, delay := none, error := false, subrefs := [] }
    let again : Outcome := { final := false, delay := some 0, error := true, subrefs := [] }
    let sub : SubReg := { children := fun p => if p = "r0" then ["r0/a", "r0/b"] else [],
                          limits := fun _ => ⟨none, none⟩ }
    let ex : Id → Nat → Outcome := fun i _ => if i = "r0/a" then ok else again
    let cfg1 : Cfg := { owned := ["r0", "r1"], selected := ["r0", "r1"], limits := fun _ => ⟨none, none⟩,
                        reason := "resume", lifecycle := .allAtOnce }
    let cfg2 : Cfg := { cfg1 with selected := ["r0"], reason := "update" }
    let c1 := cycle2 cfg1 sub (fun _ => none) 0 ex
    let c2 := cycle2 cfg2 sub c1.P' 0 ex
    let c3 := cycle2 cfg2 sub c2.P' 0 ex
    c1.subInvoked = [("r0/a", 0), ("r0/b", 0)] ∧ ((c1.P' "r0/a").map (·.success)) = some true ∧
    c2.invoked = [("r0", 1)] ∧ c2.subInvoked = [("r0/b", 1)] ∧ c2.closed = false ∧
    (c2.P' "r1") = none ∧ ((c2.P' "r0/a").map (·.success)) = some true ∧
    c3.invoked = [("r0", 2)] ∧ c3.subInvoked = [("r0/b", 2)] := by
  refine ⟨by decide, by decide, by decide, by decide, by decide, by decide, by decide, by decide, by decide⟩

/-- Along any continuation in which the composed passes are chained (each from what the previous one left) the
    record of a finished child survives as long as its parent is not among the handlers that fell out of the
    current purpose — one pass: a record the pass does not purge and no sub-pass rewrites stays as it is. -/
theorem cycle2_keeps_untouched (cfg : Cfg) (sub : SubReg) (P : Store) (now : Tick) (execLeaf : Id → Nat → Outcome)
    (i : Id) (hk : i ∉ known cfg) (hnc : ∀ p, i ∉ sub.children p)
    (hnf : i ∉ allSubrefs (preState cfg P now) (fallen (preState cfg P now) (known cfg) cfg.reason))
    (hopen : (cycle2 cfg sub P now execLeaf).closed = false) :
    (cycle2 cfg sub P now execLeaf).P' i = P i := by
  rw [cycle2_eq] at hopen ⊢
  simp only at hopen ⊢
  simp only [hopen, Bool.false_eq_true, if_false]
  have hst : ∀ (st' : St), (∀ j, j ∉ known cfg → st' j = none) → ∀ (B : Store), store B st' i = B i := by
    intro st' h B; unfold store; simp [h i hk]
  have hpre : ∀ j, j ∉ known cfg → preState cfg P now j = none := by
    intro j hj
    have ho : j ∉ cfg.owned := fun h => hj (by simp [known, h])
    have hs : j ∉ cfg.selected := fun h => hj (by simp [known, h])
    unfold preState
    by_cases hx : hasExtras (withHandlers (fromStorage P cfg.owned) cfg.selected cfg.reason now) (known cfg) cfg.reason = true
    · simp [hx, repurpose, withHandlers, fromStorage, ho, hs]
    · simp [hx, withHandlers, fromStorage, ho, hs]
  have hpost : ∀ j, j ∉ known cfg →
      (execOnce cfg (preState cfg P now) now now (execTop cfg sub P now execLeaf)).st j = none := by
    intro j hj
    cases h : (execOnce cfg (preState cfg P now) now now (execTop cfg sub P now execLeaf)).st j with
    | none => rfl
    | some hs' =>
      obtain ⟨h0, hp0, _, _⟩ := execOnce_st_some h
      rw [hpre j hj] at hp0
      cases hp0
  rw [hst _ hpost]
  rw [subWrites_other cfg sub P now execLeaf i _ _ (fun p _ => hnc p)]
  unfold midStore
  by_cases hx : extrasLeft cfg P now = true
  · simp only [hx, if_true]
    unfold purgeFallen
    have hnf1 : i ∉ fallen (preState cfg P now) (known cfg) cfg.reason := by
      intro h
      unfold fallen at h
      exact hk (List.mem_filter.1 h).1
    simp [hnf1, hnf]
  · simp [hx]

/-! ### The selection side of the sub-registries — for every cause, deletion included

None of the sub-handler theorems above (`sub_no_rerun`, `sub_retry_kwarg`, `parent_final_iff_subs_finished`,
`sub_records_covered`, `sub_writes_only_known`, `sub_records_purged_on_close`, the `cycle2_*` ones) has a
hypothesis about `cfg.reason`: `subPass` only stamps the reason into fresh records, and `cycle2` asks only that it
be one of the four handler reasons. They hold verbatim for the sub-handlers of `@kopf.on.delete` parents.

What the model does NOT derive is WHICH sub-handlers the sub-registry yields for the cause: `subCfgOf` takes the
registered children of the parent as the selected ones (sub-handlers declared without criteria of their own). The
gate that decides it in the code (`ChangingRegistry.iter_handlers`: reason / initial / deleted /
field_needs_change) is modelled in `Kopf.C15.gate` and `Kopf.C05.gate`; /repo 345a874 had that gate drop every
sub-handler on a marked object (repaired by 17e5c42). Here the assumption is stated (`sub_selection_is_registration`),
compared with the code on every parent invocation (tie "C02 sub-registry selection"), and its consequences are
theorems: under it, a due child IS invoked and the cycle does not close before every registered child finished. -/

/-- The selection side as the model has it: the sub-pass of a parent owns and selects exactly the sub-handlers the
    parent registered, under the parent's cause — whatever the cause is. -/
theorem sub_selection_is_registration (cfg : Cfg) (sub : SubReg) (p : Id) :
    (subCfgOf cfg sub p).selected = sub.children p ∧ (subCfgOf cfg sub p).owned = sub.children p ∧
    (subCfgOf cfg sub p).reason = cfg.reason ∧ (subCfgOf cfg sub p).lifecycle = cfg.lifecycle :=
  ⟨rfl, rfl, rfl, rfl⟩

/-- "… and not before", for sub-handlers and for every cause: when the composed pass closes the cycle (progress
    purged, last-handled state written / the finalizer released on a deletion), every registered sub-handler of
    every parent invoked in it has finished. -/
theorem cycle2_closed_children_finished (cfg : Cfg) (sub : SubReg) (P : Store) (now : Tick)
    (execLeaf : Id → Nat → Outcome)
    (hc : (cycle2 cfg sub P now execLeaf).closed = true)
    (p : Id) (n : Nat) (hinv : (p, n) ∈ (cycle2 cfg sub P now execLeaf).invoked)
    (i : Id) (hi : i ∈ sub.children p) :
    ∃ r, (subPass (subCfgOf cfg sub p) P now now execLeaf).P' i = some r ∧ r.finished = true := by
  rw [cycle2_eq] at hc hinv
  simp only at hc hinv
  obtain ⟨hsel, _⟩ := execOnce_invoked hinv
  obtain ⟨hs, hpre, _, hpost⟩ := postState_invoked hinv
  have hk : p ∈ known cfg := by simp [known, hsel]
  have hact : hs.active = true := (preState_active hpre).2 hsel
  have hne : (sub.children p).isEmpty = false := by
    cases hl : sub.children p with
    | nil => rw [hl] at hi; cases hi
    | cons _ _ => rfl
  unfold done at hc
  rw [List.all_eq_true] at hc
  have hp := hc p hk
  rw [hpost] at hp
  simp only [hact, Bool.not_true, Bool.false_or, withOutcome_finished] at hp
  simp only [execTop, hne, Bool.false_eq_true, if_false] at hp
  exact (parent_final_iff_subs_finished (subCfgOf cfg sub p) P now now execLeaf (fun j hj => hj)).1 hp i hi

/-- The invoking side for the all-at-once lifecycle and every cause: a registered sub-handler of an invoked
    parent that is still due on the body (no success/permanent failure recorded, not sleeping, within its limits)
    IS invoked in the composed pass, with `retry` = its recorded attempts. (For one-by-one/asap one due child is
    planned per sub-pass; which one is `plan`.) -/
theorem cycle2_due_child_invoked_all_at_once (cfg : Cfg) (sub : SubReg) (P : Store) (now : Tick)
    (execLeaf : Id → Nat → Outcome) (hlc : cfg.lifecycle = .allAtOnce)
    (p : Id) (n : Nat) (hinv : (p, n) ∈ (cycle2 cfg sub P now execLeaf).invoked)
    (i : Id) (hi : i ∈ sub.children p)
    (haw : (match P i with | some r => r | none => fresh now cfg.reason).awakened now = true)
    (hpre : precheckFails (sub.limits i) (match P i with | some r => r | none => fresh now cfg.reason) now = false) :
    (i, match P i with | some r => r.retries | none => 0) ∈ (cycle2 cfg sub P now execLeaf).subInvoked := by
  rw [cycle2_eq] at hinv ⊢
  simp only at hinv ⊢
  have hne : (sub.children p).isEmpty = false := by
    cases hl : sub.children p with
    | nil => rw [hl] at hi; cases hi
    | cons _ _ => rfl
  simp only [List.mem_flatMap]
  refine ⟨p, List.mem_map.2 ⟨(p, n), hinv, rfl⟩, ?_⟩
  simp only [hne, Bool.false_eq_true, if_false]
  rw [subPass_invoked_eq]
  have hsel : i ∈ (subCfgOf cfg sub p).selected := hi
  obtain ⟨h, hst, _, hrec, _⟩ := subSt0_selected (P := P) (now := now) hsel hsel
  have hrec' : h.r = (match P i with | some r => r | none => fresh now cfg.reason) := hrec
  have hn : (match P i with | some r => r.retries | none => 0) = h.r.retries := by
    rw [hrec']; cases P i <;> simp [fresh]
  rw [hn]
  exact execOnce_allAtOnce_invokes (cfg := subCfgOf cfg sub p) hlc hsel hst (by rw [hrec']; exact haw)
    (by rw [hrec']; exact hpre)

/-- Regression of the defect of /repo 345a874 (repaired by 17e5c42), in the model: a DELETION handler `d0` with the
    sub-handlers `d0/a`, `d0/b`. First pass: both children are invoked, `d0/a` succeeds, `d0/b` is to be retried —
    the parent is not final, the cycle stays open (the finalizer is kept), both records are on the object. Second
    pass: only `d0/b` is invoked (retry 1), it succeeds, the parent finishes, the cycle closes and every record is
    purged. (In the defective code the sub-registry selected nothing on a marked object: the first pass invoked no
    child and closed at once.) -/
theorem delete_parent_runs_its_children_regression :
    let ok : Outcome := { final := true, delay := none, error := false, subrefs := [] }
    let again : Outcome := { final := false, delay := some 0, error := true, subrefs := [] }
    let sub : SubReg := { children := fun p => if p = "d0" then ["d0/a", "d0/b"] else [],
                          limits := fun _ => ⟨none, none⟩ }
    let cfg : Cfg := { owned := ["d0"], selected := ["d0"], limits := fun _ => ⟨none, none⟩,
                       reason := "delete", lifecycle := .allAtOnce }
    let c1 := cycle2 cfg sub (fun _ => none) 0 (fun i _ => if i = "d0/a" then ok else again)
    let c2 := cycle2 cfg sub c1.P' 0 (fun _ _ => ok)
    c1.invoked = [("d0", 0)] ∧ c1.subInvoked = [("d0/a", 0), ("d0/b", 0)] ∧ c1.closed = false ∧
    ((c1.P' "d0/a").map (·.success)) = some true ∧ ((c1.P' "d0/b").map (·.retries)) = some 1 ∧
    ((c1.P' "d0").map (·.subrefs)) = some ["d0/a", "d0/b"] ∧
    c2.invoked = [("d0", 1)] ∧ c2.subInvoked = [("d0/b", 1)] ∧ c2.closed = true ∧
    c2.P' "d0" = none ∧ c2.P' "d0/a" = none ∧ c2.P' "d0/b" = none := by
  refine ⟨by decide, by decide, by decide, by decide, by decide, by decide, by decide, by decide, by decide,
          by decide, by decide, by decide⟩

-- non-vacuity of `cycle2_closed_children_finished` / `cycle2_due_child_invoked_all_at_once` on a deletion:
-- the hypotheses are met by the second / first pass of the regression above
example :
    let ok : Outcome := { final := true, delay := none, error := false, subrefs := [] }
    let sub : SubReg := { children := fun p => if p = "d0" then ["d0/a"] else [], limits := fun _ => ⟨none, none⟩ }
    let cfg : Cfg := { owned := ["d0"], selected := ["d0"], limits := fun _ => ⟨none, none⟩,
                       reason := "delete", lifecycle := .allAtOnce }
    (cycle2 cfg sub (fun _ => none) 0 (fun _ _ => ok)).closed = true ∧
    ("d0", 0) ∈ (cycle2 cfg sub (fun _ => none) 0 (fun _ _ => ok)).invoked ∧
    (fresh 0 cfg.reason).awakened 0 = true ∧
    precheckFails (sub.limits "d0/a") (fresh 0 cfg.reason) 0 = false := by
  refine ⟨by decide, by decide, by decide, by decide⟩

-- the sub-pass theorems on a deletion: reason "delete", a recorded success is not re-run, the due one gets retry 2
example :
    let cfg : Cfg := { owned := ["d0/a", "d0/b"], selected := ["d0/a", "d0/b"], limits := fun _ => ⟨none, none⟩,
                       reason := "delete", lifecycle := .allAtOnce }
    let recOf (fin : Bool) (n : Nat) : Rec :=
      { started := 0, delayed := none, purpose := some "delete", retries := n, success := fin, failure := false, subrefs := [] }
    let P : Store := fun i => if i = "d0/a" then some (recOf true 1) else if i = "d0/b" then some (recOf false 2) else none
    (subPass cfg P 5 5 (fun _ _ => { final := true, delay := none, error := false, subrefs := [] })).invoked
      = [("d0/b", 2)] := by decide

/-! ### One id, several registrations (/repo f7d6401): the whole pass `cycleB` -/

/-- THE WHOLE PASS IS THE PASS OVER THE RECORDS TAKEN OVER. `cycleB` leaves the namesakes out of the loaded state
    (the mechanism of the code); that is the same as running `cycle` on an object from which those records are
    absent: same invocations, same closing decision, same delays, and the same records afterwards — also at the
    namesakes' ids, where the fresh state is written over whatever was there. Every theorem about `cycle` above is
    thereby a theorem about the code's pass, read over `taken cfg bound P`. -/
theorem pass_is_cycle_over_taken (cfg : Cfg) (bound : Id → Bool) (P : Store) (now now1 : Tick)
    (exec : Id → Nat → Outcome) :
    ((cfg.reason == "free") = false →
      cycleB cfg bound P now now1 exec = cycle cfg (taken cfg bound P) now now1 exec) ∧
    (cycleB cfg bound P now now1 exec).invoked = (cycle cfg (taken cfg bound P) now now1 exec).invoked ∧
    (cycleB cfg bound P now now1 exec).closed = (cycle cfg (taken cfg bound P) now now1 exec).closed ∧
    (cycleB cfg bound P now now1 exec).delays = (cycle cfg (taken cfg bound P) now now1 exec).delays :=
  ⟨cycleB_eq_cycle_taken cfg bound P now now1 exec, cycleB_invoked_closed cfg bound P now now1 exec⟩

/-- THE FREE PASS (/repo 40d09eb, formerly C03-N4): an object in deletion that the own finalizer does not hold and somebody
    else's does. The pass invokes nothing and closes nothing, and removes every progress record of an owned handler
    that is present — and, by those records' `subrefs`, the records of their sub-handlers; nothing else is touched. -/
theorem free_pass_purges (cfg : Cfg) (bound : Id → Bool) (P : Store) (now now1 : Tick) (exec : Id → Nat → Outcome)
    (hf : cfg.reason = "free") :
    (cycleB cfg bound P now now1 exec).invoked = [] ∧ (cycleB cfg bound P now now1 exec).closed = false ∧
    (cycleB cfg bound P now now1 exec).delays = [] ∧
    (∀ i ∈ cfg.owned, (cycleB cfg bound P now now1 exec).P' i = none) ∧
    (∀ i ∈ allSubrefs (fromStorage P cfg.owned) cfg.owned, (cycleB cfg bound P now now1 exec).P' i = none) ∧
    (∀ i, i ∉ cfg.owned → i ∉ allSubrefs (fromStorage P cfg.owned) cfg.owned →
      (cycleB cfg bound P now now1 exec).P' i = P i) := by
  have hf' : (cfg.reason == "free") = true := by rw [hf]; decide
  rw [cycleB_free cfg bound P now now1 exec hf']
  refine ⟨rfl, rfl, rfl, ?_, ?_, ?_⟩
  · intro i ho; simp [purge, ho]
  · intro i hi; simp [purge, hi]
  · intro i ho hs
    have h2 : (cfg.owned.any fun k => k == i && (fromStorage P cfg.owned k).isSome) = false := by
      rw [List.any_eq_false]
      intro k hk
      by_cases hki : k = i
      · subst hki; exact absurd hk ho
      · simp [hki]
    simp [purge, ho, hs, h2]

-- non-vacuity: the records of a retrying update handler and of its sub-handler are on an object that has become FREE;
-- before 40d09eb (`cycle`, which has the no-op purge only) they stayed
example :
    let recOf (subs : List Id) : Rec :=
      { started := 192, delayed := some 704, purpose := some "update", retries := 1, success := false, failure := false, subrefs := subs }
    let P : Store := fun i => if i = "u" then some (recOf ["u/a"]) else if i = "u/a" then some (recOf []) else
      if i = "foreign" then some (recOf []) else none
    let cfg : Cfg := { owned := ["u", "d"], selected := [], limits := fun _ => ⟨none, none⟩, reason := "free", lifecycle := .asap }
    (cycleB cfg (fun _ => true) P 320 320 (fun _ _ => okOutcome)).P' "u" = none ∧
    (cycleB cfg (fun _ => true) P 320 320 (fun _ _ => okOutcome)).P' "u/a" = none ∧
    (cycleB cfg (fun _ => true) P 320 320 (fun _ _ => okOutcome)).P' "foreign" = P "foreign" ∧
    (cycle cfg P 320 320 (fun _ _ => okOutcome)).P' "u" = P "u" := by
  refine ⟨by decide, by decide, by decide, by decide⟩

/-- What is taken over and what is not: a record is left out exactly when the cause has a handler reason, the id is a
    selected handler with a reason of its own, and the record carries another cause's purpose. -/
theorem taken_iff (cfg : Cfg) (bound : Id → Bool) (P : Store) (i : Id) :
    (taken cfg bound P i = P i ∨ taken cfg bound P i = none) ∧
    (taken cfg bound P i ≠ P i ↔
      handlerReasons.contains cfg.reason = true ∧ i ∈ cfg.owned ∧ i ∈ cfg.selected ∧ bound i = true ∧
        ∃ r, P i = some r ∧ r.purpose ≠ none ∧ r.purpose ≠ some cfg.reason) := by
  cases hl : leftOut cfg bound P i
  · refine ⟨Or.inl (taken_of_not_leftOut hl), ?_⟩
    constructor
    · intro h; exact absurd (taken_of_not_leftOut hl) h
    · rintro ⟨h1, h2, h3, h4, r, hP, hn, hr⟩
      exfalso
      have : leftOut cfg bound P i = true :=
        leftOut_iff.2 ⟨h1, h2, h3, h4, r, hP, by simp [Rec.foreignTo, hn, hr]⟩
      rw [hl] at this; cases this
  · refine ⟨Or.inr (taken_of_leftOut hl), ?_⟩
    obtain ⟨h1, h2, h3, h4, r, hP, hf⟩ := leftOut_iff.1 hl
    constructor
    · intro _
      refine ⟨h1, h2, h3, h4, r, hP, ?_⟩
      simpa [Rec.foreignTo] using hf
    · intro _
      rw [taken_of_leftOut hl, hP]
      exact fun h => by cases h

/-- (the property, first sentence, for the whole pass) A handler whose success or permanent failure is recorded as ITS
    OWN — the record carries no purpose or this cause's, or the handler has no reason of its own (resuming and field
    handlers: their progress is carried over to the superseding cause) — is never invoked again. -/
theorem no_rerun_own (cfg : Cfg) (bound : Id → Bool) (P : Store) (now now1 : Tick) (exec : Id → Nat → Outcome)
    (hsub : ∀ i ∈ cfg.selected, i ∈ cfg.owned)
    (i : Id) (n : Nat) (r : Rec) (hP : P i = some r) (hfin : r.finished = true)
    (hown : bound i = false ∨ r.purpose = none ∨ r.purpose = some cfg.reason) :
    (i, n) ∉ (cycleB cfg bound P now now1 exec).invoked := by
  rw [(cycleB_invoked_closed cfg bound P now now1 exec).1]
  exact no_rerun cfg _ now now1 exec hsub i n r (taken_own hP hown) hfin

/-- A handler still due is invoked with `retry` = the attempts on the record TAKEN OVER: its own recorded attempts,
    and 0 for a handler that starts from scratch (nothing recorded, or only its namesake's progress). -/
theorem retry_kwarg_taken (cfg : Cfg) (bound : Id → Bool) (P : Store) (now now1 : Tick) (exec : Id → Nat → Outcome)
    (hsub : ∀ i ∈ cfg.selected, i ∈ cfg.owned)
    (i : Id) (n : Nat) (h : (i, n) ∈ (cycleB cfg bound P now now1 exec).invoked) :
    n = (match taken cfg bound P i with | some r => r.retries | none => 0) := by
  rw [(cycleB_invoked_closed cfg bound P now now1 exec).1] at h
  exact retry_kwarg cfg _ now now1 exec hsub i n h

/-- Only selected handlers are invoked, never one whose OWN record sleeps. -/
theorem invoked_selected_awake_taken (cfg : Cfg) (bound : Id → Bool) (P : Store) (now now1 : Tick)
    (exec : Id → Nat → Outcome) (hsub : ∀ i ∈ cfg.selected, i ∈ cfg.owned)
    (i : Id) (n : Nat) (h : (i, n) ∈ (cycleB cfg bound P now now1 exec).invoked) :
    i ∈ cfg.selected ∧ ∀ r d, taken cfg bound P i = some r → r.delayed = some d → d ≤ now := by
  rw [(cycleB_invoked_closed cfg bound P now now1 exec).1] at h
  exact invoked_selected_awake cfg _ now now1 exec hsub i n h

/-- THE REPAIR OF C03-N3 (f7d6401), for every lifecycle: a handler declared for the current reason does NOT inherit
    its namesake's progress. Whatever record of another cause's purpose the object carries under its id — finished,
    failed for good, sleeping for an hour, with any number of attempts — if the pass invokes it, it does so with
    `retry = 0`; and its namesake's outcome neither counts as its own (`closed_iff_all_finished_taken`: the cycle
    cannot close on it) nor survives (the fresh record is written over it, `namesake_record_overwritten`). -/
theorem namesake_starts_from_scratch (cfg : Cfg) (bound : Id → Bool) (P : Store) (now now1 : Tick)
    (exec : Id → Nat → Outcome) (hsub : ∀ i ∈ cfg.selected, i ∈ cfg.owned)
    (hr : handlerReasons.contains cfg.reason = true)
    (i : Id) (r : Rec) (hs : i ∈ cfg.selected) (hb : bound i = true) (hP : P i = some r)
    (hpn : r.purpose ≠ none) (hpr : r.purpose ≠ some cfg.reason) :
    taken cfg bound P i = none ∧
    ∀ n, (i, n) ∈ (cycleB cfg bound P now now1 exec).invoked → n = 0 := by
  have ht : taken cfg bound P i = none :=
    taken_namesake hr (hsub i hs) hs hb hP (by simp [Rec.foreignTo, hpn, hpr])
  refine ⟨ht, ?_⟩
  intro n h
  have := retry_kwarg_taken cfg bound P now now1 exec hsub i n h
  rw [ht] at this
  exact this

/-- … and for the all-at-once lifecycle it IS invoked in this very pass (within its limits): the deletion handler
    that shares its id with a finished update handler is called. -/
theorem namesake_not_inherited (cfg : Cfg) (bound : Id → Bool) (P : Store) (now now1 : Tick)
    (exec : Id → Nat → Outcome) (hsub : ∀ i ∈ cfg.selected, i ∈ cfg.owned)
    (hr : handlerReasons.contains cfg.reason = true) (hlc : cfg.lifecycle = .allAtOnce)
    (i : Id) (r : Rec) (hs : i ∈ cfg.selected) (hb : bound i = true) (hP : P i = some r)
    (hpn : r.purpose ≠ none) (hpr : r.purpose ≠ some cfg.reason)
    (hlim : precheckFails (cfg.limits i) (fresh now cfg.reason) now = false) :
    (i, 0) ∈ (cycleB cfg bound P now now1 exec).invoked := by
  have ht : taken cfg bound P i = none :=
    taken_namesake hr (hsub i hs) hs hb hP (by simp [Rec.foreignTo, hpn, hpr])
  rw [cycleB_eq_cycle_taken_of_handler cfg bound P now now1 exec hr]
  have hsr : ∀ ex, startRec cfg (taken cfg bound P) now ex i = fresh now cfg.reason := by
    intro ex; unfold startRec; rw [ht]
  have := due_invoked_all_at_once cfg (taken cfg bound P) now now1 exec hr hlc i hs (hsub i hs)
    (by rw [hsr]; simp [fresh, Rec.awakened, Rec.finished, Rec.sleeping]) (by rw [hsr]; exact hlim)
  rw [ht] at this
  exact this

/-- "Closed exactly when every selected handler has finished — not before", for the whole pass: the finished states
    are those of the pass over the records taken over; a namesake's finished record is not among them. -/
theorem closed_iff_all_finished_taken (cfg : Cfg) (bound : Id → Bool) (P : Store) (now now1 : Tick)
    (exec : Id → Nat → Outcome) (hsub : ∀ i ∈ cfg.selected, i ∈ cfg.owned)
    (hr : handlerReasons.contains cfg.reason = true) (hne : cfg.selected.isEmpty = false) :
    (cycleB cfg bound P now now1 exec).closed = true ↔
      ∀ i ∈ cfg.selected, ∃ h, postState cfg (taken cfg bound P) now now1 exec i = some h ∧ h.r.finished = true := by
  rw [cycleB_eq_cycle_taken_of_handler cfg bound P now now1 exec hr]
  exact closed_iff_all_finished cfg _ now now1 exec hsub hr hne

/-- When the whole pass closes the cycle (or ends it because nothing is selected), no progress record of any owned
    handler remains — the namesakes' included. -/
theorem closed_purges_whole (cfg : Cfg) (bound : Id → Bool) (P : Store) (now now1 : Tick) (exec : Id → Nat → Outcome)
    (hr : handlerReasons.contains cfg.reason = true)
    (hc : (cycleB cfg bound P now now1 exec).closed = true) :
    ∀ i ∈ cfg.owned, (cycleB cfg bound P now now1 exec).P' i = none := by
  rw [cycleB_eq_cycle_taken_of_handler cfg bound P now now1 exec hr] at hc ⊢
  cases he : cfg.selected.isEmpty
  · exact closed_purges cfg _ now now1 exec hr he hc
  · exact (closed_purges_skip cfg _ now now1 exec hr he).2

/-- While the cycle stays open, the namesake's record is overwritten in this very pass by the record of the handler
    that starts from scratch: purpose = this cause. -/
theorem namesake_record_overwritten (cfg : Cfg) (bound : Id → Bool) (P : Store) (now now1 : Tick)
    (exec : Id → Nat → Outcome) (hsub : ∀ i ∈ cfg.selected, i ∈ cfg.owned)
    (hr : handlerReasons.contains cfg.reason = true)
    (i : Id) (r : Rec) (hs : i ∈ cfg.selected) (hb : bound i = true) (hP : P i = some r)
    (hpn : r.purpose ≠ none) (hpr : r.purpose ≠ some cfg.reason)
    (hopen : (cycleB cfg bound P now now1 exec).closed = false) :
    ∃ r', (cycleB cfg bound P now now1 exec).P' i = some r' ∧ r'.purpose = some cfg.reason ∧ r'.started = now := by
  have ht : taken cfg bound P i = none :=
    taken_namesake hr (hsub i hs) hs hb hP (by simp [Rec.foreignTo, hpn, hpr])
  have hne : cfg.selected.isEmpty = false := by
    cases hl : cfg.selected with
    | nil => rw [hl] at hs; cases hs
    | cons _ _ => rfl
  rw [cycleB_eq_cycle_taken_of_handler cfg bound P now now1 exec hr] at hopen ⊢
  rw [cycle_main cfg _ now now1 exec hr hne] at hopen ⊢
  simp only at hopen
  simp only [hopen, Bool.false_eq_true, if_false]
  obtain ⟨h0, hpre, _, hrec⟩ := preState_selected (P := taken cfg bound P) (now := now) hs (hsub i hs)
  have hfr : h0.r = fresh now cfg.reason := by rw [hrec]; unfold startRec; rw [ht]
  have hd0 : h0.dirty = true := by
    have := hpre
    unfold preState at this
    by_cases hx : hasExtras (withHandlers (fromStorage (taken cfg bound P) cfg.owned) cfg.selected cfg.reason now)
        (known cfg) cfg.reason = true
    · rw [if_pos hx] at this
      simp [repurpose, withHandlers, fromStorage, hs, hsub i hs, ht] at this
      rw [← this]
    · rw [if_neg hx] at this
      simp [withHandlers, fromStorage, hs, hsub i hs, ht] at this
      rw [← this]
  unfold postState store
  rw [execOnce_st]
  by_cases hpl : i ∈ planOf cfg (preState cfg (taken cfg bound P) now) now
  · simp only [hpl, if_true, hpre]
    exact ⟨_, rfl, by simp [withOutcome, hfr, fresh], by simp [withOutcome, hfr, fresh]⟩
  · simp only [hpl, if_false, hpre, hd0, if_true]
    exact ⟨_, rfl, by rw [hfr]; rfl, by rw [hfr]; rfl⟩

/-- A final outcome of an invoked handler is recorded whenever the cycle stays open (whole pass). -/
theorem final_outcome_recorded_whole (cfg : Cfg) (bound : Id → Bool) (P : Store) (now now1 : Tick)
    (exec : Id → Nat → Outcome) (i : Id) (n : Nat)
    (hinv : (i, n) ∈ (cycleB cfg bound P now now1 exec).invoked)
    (hfin : (exec i n).final = true) (hc : (cycleB cfg bound P now now1 exec).closed = false) :
    ∃ r', (cycleB cfg bound P now now1 exec).P' i = some r' ∧ r'.finished = true := by
  cases hf : (cfg.reason == "free")
  · rw [cycleB_eq_cycle_taken cfg bound P now now1 exec hf] at hinv hc ⊢
    exact final_outcome_recorded cfg _ now now1 exec i n hinv hfin hc
  · rw [cycleB_free cfg bound P now now1 exec hf] at hinv
    cases hinv

/-- The passes of the whole pass chained, as `invokedSeq` -/
def invokedSeqB (cfg : Cfg) (bound : Id → Bool) : Store → List Step → List (List (Id × Nat))
  | _, [] => []
  | P, s :: rest =>
      let c := cycleB cfg bound P s.now s.now1 s.exec
      c.invoked :: (if c.closed then [] else invokedSeqB cfg bound c.P' rest)

/-- Within one handling cycle (no cause supersedes it: `NoExtras`) nothing is ever left out: the whole pass IS
    `cycle`, pass after pass. -/
theorem invokedSeqB_eq (cfg : Cfg) (bound : Id → Bool) (hsub : ∀ i ∈ cfg.selected, i ∈ cfg.owned)
    (hr : handlerReasons.contains cfg.reason = true)
    (steps : List Step) : ∀ (P : Store), NoExtras cfg P → invokedSeqB cfg bound P steps = invokedSeq cfg P steps := by
  induction steps with
  | nil => intro P _; rfl
  | cons s rest ih =>
    intro P hne
    simp only [invokedSeqB, invokedSeq]
    rw [cycleB_of_noExtras cfg bound P s.now s.now1 s.exec (not_free_of_handler hr) hne]
    rw [ih _ (noExtras_preserved cfg P s.now s.now1 s.exec hsub hne)]

/-- Across any number of passes of the whole pass, restarts and intervening events, a handler recorded as finished is
    not invoked again while the handling cycle is open. -/
theorem finished_never_invoked_whole (cfg : Cfg) (bound : Id → Bool) (hsub : ∀ i ∈ cfg.selected, i ∈ cfg.owned)
    (hr : handlerReasons.contains cfg.reason = true)
    (steps : List Step) (P : Store) (hne : NoExtras cfg P)
    (i : Id) (r : Rec) (ho : i ∈ cfg.owned) (hP : P i = some r) (hfin : r.finished = true) :
    ∀ l ∈ invokedSeqB cfg bound P steps, ∀ n, (i, n) ∉ l := by
  rw [invokedSeqB_eq cfg bound hsub hr steps P hne]
  exact finished_never_invoked cfg hsub steps P hne i r ho hP hfin

/-- Hence at most one final outcome per handler per handling cycle — also right after a superseding cause: the FIRST
    pass may be the one that leaves namesakes out (no `NoExtras` on `P`); whatever it records is of this cause's
    purpose, and from then on nothing is left out. -/
theorem once_per_cycle_whole (cfg : Cfg) (bound : Id → Bool) (hsub : ∀ i ∈ cfg.selected, i ∈ cfg.owned)
    (hr : handlerReasons.contains cfg.reason = true)
    (P : Store) (hne : NoExtras cfg (taken cfg bound P)) (s : Step) (rest : List Step)
    (i : Id) (n : Nat) (hinv : (i, n) ∈ (cycleB cfg bound P s.now s.now1 s.exec).invoked)
    (hfin : (s.exec i n).final = true) (hc : (cycleB cfg bound P s.now s.now1 s.exec).closed = false) :
    ∀ l ∈ invokedSeqB cfg bound (cycleB cfg bound P s.now s.now1 s.exec).P' rest, ∀ m, (i, m) ∉ l := by
  rw [cycleB_eq_cycle_taken_of_handler cfg bound P s.now s.now1 s.exec hr] at hinv hc ⊢
  rw [invokedSeqB_eq cfg bound hsub hr rest _ (noExtras_preserved cfg _ s.now s.now1 s.exec hsub hne)]
  exact once_per_cycle cfg hsub _ hne s rest i n hinv hfin hc

/-- REGRESSION of C03-N3 (repaired by /repo f7d6401). One id `h` registered for update AND deletion, a sibling `u2`
    retrying keeps the update cycle open; the deletion arrives: `h` (deletion, reason-bound) is selected, its id
    carries the FINISHED record of the update handler. The pass as it was (`cycle`: every record is taken over and
    re-purposed) invokes nothing and closes the cycle at once — the mandatory deletion handler is never called, the
    finalizer goes. The pass as it is (`cycleB`) invokes `h` with retry 0; with a success the cycle closes and every
    record is purged; with a temporary failure the cycle stays open and `h`'s own record (purpose delete, one attempt)
    replaces the namesake's. Replayed on the real operator: corpus/C03/N3_shared_id_update_delete.json. -/
theorem namesake_not_inherited_regression :
    let ok : Outcome := { final := true, delay := none, error := false, subrefs := [] }
    let again : Outcome := { final := false, delay := some 64, error := true, subrefs := [] }
    let recOf (fin : Bool) : Rec :=
      { started := 192, delayed := none, purpose := some "update", retries := 1, success := fin, failure := false, subrefs := [] }
    let P : Store := fun i => if i = "h" then some (recOf true) else if i = "u2" then some (recOf false) else none
    let cfg : Cfg := { owned := ["h", "u2"], selected := ["h"], limits := fun _ => ⟨none, none⟩,
                       reason := "delete", lifecycle := .asap }
    -- before the repair
    (cycle cfg P 320 320 (fun _ _ => ok)).invoked = [] ∧ (cycle cfg P 320 320 (fun _ _ => ok)).closed = true ∧
    -- after it
    taken cfg (fun _ => true) P "h" = none ∧ taken cfg (fun _ => true) P "u2" = P "u2" ∧
    (cycleB cfg (fun _ => true) P 320 320 (fun _ _ => ok)).invoked = [("h", 0)] ∧
    (cycleB cfg (fun _ => true) P 320 320 (fun _ _ => ok)).closed = true ∧
    (cycleB cfg (fun _ => true) P 320 320 (fun _ _ => ok)).P' "h" = none ∧
    (cycleB cfg (fun _ => true) P 320 320 (fun _ _ => ok)).P' "u2" = none ∧
    (cycleB cfg (fun _ => true) P 320 320 (fun _ _ => again)).invoked = [("h", 0)] ∧
    (cycleB cfg (fun _ => true) P 320 320 (fun _ _ => again)).closed = false ∧
    ((cycleB cfg (fun _ => true) P 320 320 (fun _ _ => again)).P' "h").map (fun r => (r.purpose, r.retries, r.started))
      = some (some "delete", 1, 320) ∧
    (cycleB cfg (fun _ => true) P 320 320 (fun _ _ => again)).P' "u2" = none ∧
    -- a resuming handler (no reason of its own) under the same id keeps inheriting, as before
    (cycleB cfg (fun _ => false) P 320 320 (fun _ _ => ok)).invoked = [] := by
  refine ⟨by decide, by decide, by decide, by decide, by decide, by decide, by decide, by decide, by decide,
    by decide, by decide, by decide, by decide⟩

/-- WITNESS of a defect f7d6401 brought in (finding C03-N7, open): the namesake's record is left out WITH its
    `subrefs`. The update handler `h` finished with the sub-handlers `h/a`, `h/b` (their records are on the object,
    referenced by `h`'s record only); the deletion handler `h` (same id) starts from scratch, runs no sub-handlers,
    succeeds: the cycle closes and "every" record is purged — by the owned ids and the subrefs of the states the
    pass KNOWS: the children's records stay on the object for as long as it exists (an object in deletion held by
    somebody else's finalizer; the later FREE purge goes by owned ids and their records' subrefs as well). Before
    f7d6401 the re-purposed record carried the subrefs along and the closing purge removed them (but `h` was never
    called: C03-N3). Replayed on the real operator: corpus/C03/N7_namesake_children_records_leak.json. -/
theorem namesake_subrefs_dropped_witness :
    let ok : Outcome := { final := true, delay := none, error := false, subrefs := [] }
    let recOf (fin : Bool) (subs : List Id) : Rec :=
      { started := 192, delayed := none, purpose := some "update", retries := 1, success := fin, failure := false, subrefs := subs }
    let P : Store := fun i => if i = "h" then some (recOf true ["h/a", "h/b"]) else if i = "g" then some (recOf false [])
                     else if i = "h/a" ∨ i = "h/b" then some (recOf true []) else none
    let cfg : Cfg := { owned := ["h", "g"], selected := ["h"], limits := fun _ => ⟨none, none⟩,
                       reason := "delete", lifecycle := .asap }
    (cycleB cfg (fun _ => true) P 320 320 (fun _ _ => ok)).invoked = [("h", 0)] ∧
    (cycleB cfg (fun _ => true) P 320 320 (fun _ _ => ok)).closed = true ∧
    (∀ i ∈ cfg.owned, (cycleB cfg (fun _ => true) P 320 320 (fun _ _ => ok)).P' i = none) ∧
    (cycleB cfg (fun _ => true) P 320 320 (fun _ _ => ok)).P' "h/a" = P "h/a" ∧
    (cycleB cfg (fun _ => true) P 320 320 (fun _ _ => ok)).P' "h/b" = P "h/b" ∧ (P "h/a").isSome = true ∧
    -- the later purge of a FREE / no-op cause (by owned ids and the subrefs of THEIR records) does not reach them either
    purge (cycleB cfg (fun _ => true) P 320 320 (fun _ _ => ok)).P'
      (fromStorage (cycleB cfg (fun _ => true) P 320 320 (fun _ _ => ok)).P' cfg.owned) cfg.owned cfg.owned "h/a" = P "h/a" ∧
    -- before f7d6401: purged with the rest
    (cycle cfg P 320 320 (fun _ _ => ok)).P' "h/a" = none ∧ (cycle cfg P 320 320 (fun _ _ => ok)).P' "h/b" = none := by
  refine ⟨by decide, by decide, by decide, by decide, by decide, by decide, by decide, by decide, by decide⟩

/-! #### the pass composed with its sub-passes, as of f7d6401 -/

/-- `cycle2B` is `cycle2` over the records taken over, when no registered child is a selected top-level handler
    (children's ids are `parent/child`). -/
theorem composed_pass_is_cycle2_over_taken (cfg : Cfg) (bound : Id → Bool) (sub : SubReg) (P : Store) (now : Tick)
    (execLeaf : Id → Nat → Outcome) (hr : handlerReasons.contains cfg.reason = true)
    (hdisj : ∀ p, ∀ i ∈ sub.children p, i ∉ cfg.selected) :
    cycle2B cfg bound sub P now execLeaf = cycle2 cfg sub (taken cfg bound P) now execLeaf :=
  cycle2B_eq_cycle2_taken cfg bound sub P now execLeaf hr hdisj

/-- A registered child whose success or permanent failure the BODY carries is not invoked by the composed whole pass —
    WHATEVER purpose that record has: the sub-pass leaves nothing out (sub-handlers have no reason of their own), so
    the children of a handler that starts from scratch still inherit the records its namesake's children left under
    the same ids (the residue of C03-N3 one level down: finding C03-N8, `namesake_children_inherit_witness`). -/
theorem cycle2B_child_no_rerun (cfg : Cfg) (bound : Id → Bool) (sub : SubReg) (P : Store) (now : Tick)
    (execLeaf : Id → Nat → Outcome) (hr : handlerReasons.contains cfg.reason = true)
    (hdisj : ∀ p, ∀ i ∈ sub.children p, i ∉ cfg.selected)
    (p i : Id) (hi : i ∈ sub.children p) (n : Nat) (r : Rec) (hP : P i = some r) (hfin : r.finished = true) :
    (i, n) ∉ (cycle2B cfg bound sub P now execLeaf).subInvoked := by
  rw [cycle2B_eq_cycle2_taken cfg bound sub P now execLeaf hr hdisj]
  exact cycle2_child_no_rerun cfg sub _ now execLeaf i n r (by rw [taken_unselected (hdisj p i hi)]; exact hP) hfin

/-- When the composed whole pass closes the cycle, the records of all registered children of every parent invoked in
    it are gone. (Not so the records of children that only the namesake had: `namesake_subrefs_dropped_witness`.) -/
theorem cycle2B_closed_purges_children (cfg : Cfg) (bound : Id → Bool) (sub : SubReg) (P : Store) (now : Tick)
    (execLeaf : Id → Nat → Outcome) (hr : handlerReasons.contains cfg.reason = true)
    (hdisj : ∀ p, ∀ i ∈ sub.children p, i ∉ cfg.selected)
    (hc : (cycle2B cfg bound sub P now execLeaf).closed = true)
    (p : Id) (n : Nat) (hinv : (p, n) ∈ (cycle2B cfg bound sub P now execLeaf).invoked)
    (i : Id) (hi : i ∈ sub.children p) :
    (cycle2B cfg bound sub P now execLeaf).P' i = none := by
  rw [cycle2B_eq_cycle2_taken cfg bound sub P now execLeaf hr hdisj] at hc hinv ⊢
  exact cycle2_closed_purges_children cfg sub _ now execLeaf hc p n hinv i hi

/-- WITNESS (finding C03-N8, open; the part of C03-N3 that f7d6401 does not cover): one function `h` registered for
    update and deletion runs the sub-handlers `h/a`, `h/b` in both. The update series is open (`h/a` succeeded, `h/b`
    is retrying, so `h` is unfinished) when the deletion arrives. The deletion handler `h` starts from scratch (retry
    0) — but its sub-pass reads the children's records from the body as they are: `h/a` is "finished" (for the
    update) and is NOT called for the deletion, `h/b` continues the update's retry series (retry 1); `h` finishes,
    the cycle closes, the finalizer goes: the deletion sub-handler `h/a` never ran.
    Replayed on the real operator: corpus/C03/N8_namesake_children_inherit.json. -/
theorem namesake_children_inherit_witness :
    let ok : Outcome := { final := true, delay := none, error := false, subrefs := [] }
    let recOf (fin : Bool) (subs : List Id) : Rec :=
      { started := 192, delayed := none, purpose := some "update", retries := 1, success := fin, failure := false, subrefs := subs }
    let P : Store := fun i => if i = "h" then some (recOf false ["h/a", "h/b"]) else if i = "h/a" then some (recOf true [])
                     else if i = "h/b" then some (recOf false []) else none
    let sub : SubReg := { children := fun p => if p = "h" then ["h/a", "h/b"] else [], limits := fun _ => ⟨none, none⟩ }
    let cfg : Cfg := { owned := ["h"], selected := ["h"], limits := fun _ => ⟨none, none⟩,
                       reason := "delete", lifecycle := .allAtOnce }
    (cycle2B cfg (fun _ => true) sub P 320 (fun _ _ => ok)).invoked = [("h", 0)] ∧
    (cycle2B cfg (fun _ => true) sub P 320 (fun _ _ => ok)).subInvoked = [("h/b", 1)] ∧
    (cycle2B cfg (fun _ => true) sub P 320 (fun _ _ => ok)).closed = true := by
  refine ⟨by decide, by decide, by decide⟩

/-! ### A FINISHED handler that leaves the selection inside an open cycle and comes back (seed C02f's class)

A labels= / annotations= / field= filter that stops matching and matches again, or an `@on.resume` handler that is left
out by the in-process memory of finished resuming handlers and selected again after a restart. For the code, the
class is covered by `finished_persists` (no hypothesis on the selection: the record of an owned handler of the current
purpose stays as it is whether or not the handler is selected) and hence by `finished_never_invoked_varying` /
`once_per_cycle_varying`; `finished_kept_while_unselected` states the step on its own. The seeded variant
(`cycleUnselPurgeVariant`: the purge of the fallen records generalised to the records of the current purpose whose
handler is not active in the pass) is indistinguishable in ONE pass from the handlers' side
(`unselected_purge_variant_same_pass`) and forgets such a record (`unselected_purge_variant_forgets`), so the handler is
invoked again, from scratch, when it is selected again (`unselected_purge_variant_reruns_witness`). -/

/-- The pass in which a finished handler is NOT selected keeps its record exactly as it is (while the cycle stays
    open): being out of the selection does not make a handler due again later. -/
theorem finished_kept_while_unselected (cfg : Cfg) (P : Store) (now now1 : Tick) (exec : Id → Nat → Outcome)
    (hsub : ∀ i ∈ cfg.selected, i ∈ cfg.owned) (hne : NoExtras cfg P)
    (hr : handlerReasons.contains cfg.reason = true)
    (j : Id) (r : Rec) (ho : j ∈ cfg.owned) (_hns : j ∉ cfg.selected) (hP : P j = some r) (hfin : r.finished = true)
    (hc : (cycle cfg P now now1 exec).closed = false) :
    (cycle cfg P now now1 exec).P' j = some r ∧ ∀ n, (j, n) ∉ (cycle cfg P now now1 exec).invoked :=
  ⟨finished_persists cfg P now now1 exec hsub hne j r ho hP hfin hr hc,
   fun n => no_rerun cfg P now now1 exec hsub j n r hP hfin⟩

/-- ONE pass of the seeded variant invokes the same handlers with the same `retry` and takes the same closing decision
    as the code's pass: no single-pass observation of the handlers tells them apart. -/
theorem unselected_purge_variant_same_pass (cfg : Cfg) (P : Store) (now now1 : Tick) (exec : Id → Nat → Outcome) :
    (cycleUnselPurgeVariant cfg P now now1 exec).invoked = (cycle cfg P now now1 exec).invoked ∧
    (cycleUnselPurgeVariant cfg P now now1 exec).closed = (cycle cfg P now now1 exec).closed :=
  unselVariant_same_pass cfg P now now1 exec

/-- … but it FORGETS: the record (finished or not) of an owned handler of the current purpose that is not selected in
    a pass that leaves the cycle open is removed from the object — for every selection, script, lifecycle and clock. -/
theorem unselected_purge_variant_forgets (cfg : Cfg) (P : Store) (now now1 : Tick) (exec : Id → Nat → Outcome)
    (hr : handlerReasons.contains cfg.reason = true) (hsel : cfg.selected.isEmpty = false)
    (j : Id) (r : Rec) (ho : j ∈ cfg.owned) (hns : j ∉ cfg.selected) (hP : P j = some r)
    (hp : r.purpose = some cfg.reason)
    (hc : (cycleUnselPurgeVariant cfg P now now1 exec).closed = false) :
    (cycleUnselPurgeVariant cfg P now now1 exec).P' j = none :=
  unselVariant_forgets cfg P now now1 exec hr hsel j r ho hns hP hp hc

-- non-vacuity of the two statements above on the seed's second pass: `g` recorded as a success of this creation, only
-- `s` selected (and failing temporarily): the code keeps `g`'s record, the variant drops it, the cycle stays open
example :
    let recG : Rec := { started := 0, delayed := none, purpose := some "create", retries := 1, success := true,
                        failure := false, subrefs := [] }
    let P : Store := fun i => if i = "g" then some recG else none
    let cfg : Cfg := cfgS ["g", "s"] "create"
      { now := 64, now1 := 64, exec := reselExec okOutcome, selected := ["s"], lifecycle := .allAtOnce }
    NoExtras cfg P ∧ (cycle cfg P 64 64 (reselExec okOutcome)).closed = false ∧
    (cycle cfg P 64 64 (reselExec okOutcome)).P' "g" = some recG ∧
    (cycleUnselPurgeVariant cfg P 64 64 (reselExec okOutcome)).closed = false ∧
    (cycleUnselPurgeVariant cfg P 64 64 (reselExec okOutcome)).P' "g" = none := by
  refine ⟨?_, by decide, by decide, by decide, by decide⟩
  intro i _ r h
  simp only at h
  split at h
  · cases h; exact Or.inr rfl
  · cases h

/-- WITNESS that the seeded change C02f violates "a handler whose success or permanent failure is recorded on the
    object is never invoked again within one handling cycle", on the seed's own histories (three passes of one open
    creation cycle: `g` and `s` selected — `g` ends for good and is recorded, `s` fails temporarily; only `s` selected —
    the label was flipped away, or `g` is a finished resuming handler left out by the in-process memory; both selected
    again — the label is back / the operator was restarted). The code never invokes `g` again; the variant invokes it
    again with retry 0 — after a success (all-at-once) as well as after a permanent failure (asap: ahead of its
    sibling, having "no attempts"). Replayed on the real operator: corpus/C02/reselect_*.json. -/
theorem unselected_purge_variant_reruns_witness :
    codeSeq ["g", "s"] "create" (fun _ => none) (reselSteps okOutcome .allAtOnce)
      = [[("g", 0), ("s", 0)], [("s", 1)], [("s", 2)]] ∧
    variantSeq ["g", "s"] "create" (fun _ => none) (reselSteps okOutcome .allAtOnce)
      = [[("g", 0), ("s", 0)], [("s", 1)], [("g", 0), ("s", 2)]] ∧
    codeSeq ["g", "s"] "create" (fun _ => none) (reselSteps permOutcome .asap)
      = [[("g", 0)], [("s", 0)], [("s", 1)]] ∧
    variantSeq ["g", "s"] "create" (fun _ => none) (reselSteps permOutcome .asap)
      = [[("g", 0)], [("s", 0)], [("g", 0)]] := by
  refine ⟨by decide, by decide, by decide, by decide⟩

end Kopf.C02
