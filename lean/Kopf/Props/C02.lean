/-
  C02 — Recorded handler progress governs invocation. Property theorems only.
  `cycle` is a function of the persisted records `P` alone: the operator's memory does not enter it,
  so restarts and foreign events (which leave `P` alone) are covered by quantifying over `P`.
-/
import Kopf.Lemmas.C02_Cycle
namespace Kopf.C02

/-- A handler whose success or permanent failure is recorded is never invoked again. -/
theorem no_rerun (cfg : Cfg) (P : Store) (now now1 : Tick) (exec : Id → Nat → Outcome)
    (hsub : ∀ i ∈ cfg.selected, i ∈ cfg.owned)
    (i : Id) (n : Nat) (r : Rec) (hP : P i = some r) (hfin : r.finished = true) :
    (i, n) ∉ (cycle cfg P now now1 exec).invoked := by
  intro h
  obtain ⟨hsel, hs, hst, haw, _⟩ := execOnce_invoked (cycle_invoked h)
  obtain ⟨h', hst', _, hr⟩ := preState_selected (P := P) (now := now) hsel (hsub i hsel)
  rw [hst] at hst'
  cases hst'
  have := awakened_not_finished haw
  rw [hr, startRec_finished cfg P now _ i r hP, hfin] at this
  cases this

/-- A handler still due is invoked with `retry` = its recorded attempts (0 when nothing is recorded). -/
theorem retry_kwarg (cfg : Cfg) (P : Store) (now now1 : Tick) (exec : Id → Nat → Outcome)
    (hsub : ∀ i ∈ cfg.selected, i ∈ cfg.owned)
    (i : Id) (n : Nat) (h : (i, n) ∈ (cycle cfg P now now1 exec).invoked) :
    n = (match P i with | some r => r.retries | none => 0) := by
  obtain ⟨hsel, hs, hst, _, hn⟩ := execOnce_invoked (cycle_invoked h)
  obtain ⟨h', hst', _, hr⟩ := preState_selected (P := P) (now := now) hsel (hsub i hsel)
  rw [hst] at hst'
  cases hst'
  rw [hn, hr, startRec_retries]
  cases P i <;> rfl

/-- Only selected handlers are ever invoked, and never one that sleeps (`delayed` in the future). -/
theorem invoked_selected_awake (cfg : Cfg) (P : Store) (now now1 : Tick) (exec : Id → Nat → Outcome)
    (hsub : ∀ i ∈ cfg.selected, i ∈ cfg.owned)
    (i : Id) (n : Nat) (h : (i, n) ∈ (cycle cfg P now now1 exec).invoked) :
    i ∈ cfg.selected ∧ ∀ r d, P i = some r → r.delayed = some d → d ≤ now := by
  obtain ⟨hsel, hs, hst, haw, _⟩ := execOnce_invoked (cycle_invoked h)
  refine ⟨hsel, ?_⟩
  intro r d hP hd
  obtain ⟨h', hst', _, hr⟩ := preState_selected (P := P) (now := now) hsel (hsub i hsel)
  rw [hst] at hst'
  cases hst'
  unfold Rec.awakened Rec.sleeping at haw
  rw [hr] at haw
  unfold startRec at haw
  rw [hP] at haw
  by_cases hle : d ≤ now
  · exact hle
  · exfalso
    have hgt : d > now := Int.lt_of_not_ge hle
    cases hex : extras cfg P now <;> simp [hex, hd, hgt, Rec.finished] at haw <;>
      cases hs' : r.success <;> cases hf' : r.failure <;> simp_all

/-- The cycle is closed exactly when every selected handler has finished — not before. -/
theorem closed_iff_all_finished (cfg : Cfg) (P : Store) (now now1 : Tick) (exec : Id → Nat → Outcome)
    (hsub : ∀ i ∈ cfg.selected, i ∈ cfg.owned)
    (hr : handlerReasons.contains cfg.reason = true) (hne : cfg.selected.isEmpty = false) :
    (cycle cfg P now now1 exec).closed = true ↔
      ∀ i ∈ cfg.selected, ∃ h, postState cfg P now now1 exec i = some h ∧ h.r.finished = true := by
  rw [cycle_main cfg P now now1 exec hr hne]
  exact done_iff hsub

/-- When the cycle closes, no progress record of any owned handler remains. -/
theorem closed_purges (cfg : Cfg) (P : Store) (now now1 : Tick) (exec : Id → Nat → Outcome)
    (hr : handlerReasons.contains cfg.reason = true) (hne : cfg.selected.isEmpty = false)
    (hc : (cycle cfg P now now1 exec).closed = true) :
    ∀ i ∈ cfg.owned, (cycle cfg P now now1 exec).P' i = none := by
  rw [cycle_main cfg P now now1 exec hr hne] at hc ⊢
  simp only at hc
  intro i ho
  simp [hc, purge, ho]

/-- The same when the cycle ends because no handler is selected for the cause any more (the `skip`
    path): the records left behind by the previously selected handlers go with it. -/
theorem closed_purges_skip (cfg : Cfg) (P : Store) (now now1 : Tick) (exec : Id → Nat → Outcome)
    (hr : handlerReasons.contains cfg.reason = true) (he : cfg.selected.isEmpty = true) :
    (cycle cfg P now now1 exec).closed = true ∧ ∀ i ∈ cfg.owned, (cycle cfg P now now1 exec).P' i = none := by
  rw [cycle_no_handlers cfg P now now1 exec hr he]
  refine ⟨rfl, ?_⟩
  intro i ho
  simp [purge, ho]

/-- … nor any record of their sub-handlers (the `subrefs` of every known state). -/
theorem closed_purges_subrefs (cfg : Cfg) (P : Store) (now now1 : Tick) (exec : Id → Nat → Outcome)
    (hr : handlerReasons.contains cfg.reason = true) (hne : cfg.selected.isEmpty = false)
    (hc : (cycle cfg P now now1 exec).closed = true) :
    ∀ i ∈ allSubrefs (postState cfg P now now1 exec) (known cfg), (cycle cfg P now now1 exec).P' i = none := by
  rw [cycle_main cfg P now now1 exec hr hne] at hc ⊢
  simp only at hc
  intro i hi
  simp [hc, purge, hi]

/-- While the cycle stays open, a finished record is carried forward untouched. -/
theorem finished_persists (cfg : Cfg) (P : Store) (now now1 : Tick) (exec : Id → Nat → Outcome)
    (hsub : ∀ i ∈ cfg.selected, i ∈ cfg.owned) (hne : NoExtras cfg P)
    (i : Id) (r : Rec) (ho : i ∈ cfg.owned) (hP : P i = some r) (hfin : r.finished = true)
    (hc : (cycle cfg P now now1 exec).closed = false) :
    (cycle cfg P now now1 exec).P' i = some r := by
  have hex := noExtras_extras (now := now) hsub hne
  by_cases hr : handlerReasons.contains cfg.reason = true
  · by_cases he : cfg.selected.isEmpty = true
    · rw [cycle_no_handlers cfg P now now1 exec hr he] at hc; simp at hc
    · have he' : cfg.selected.isEmpty = false := by simpa using he
      rw [cycle_main cfg P now now1 exec hr he'] at hc ⊢
      simp only at hc
      simp only [hc, Bool.false_eq_true, if_false]
      rw [midStore_noExtras hex]
      have hpre := preState_stored (now := now) hex ho hP
      have hpost : postState cfg P now now1 exec i = preState cfg P now i := by
        unfold postState
        apply postState_unplanned
        intro hs hst
        rw [hpre] at hst
        cases hst
        simp [Rec.awakened, hfin]
      rw [store_clean (h := { r := r, active := decide (i ∈ cfg.selected), dirty := false }) (by rw [hpost, hpre]) rfl]
      exact hP
  · have hr' : handlerReasons.contains cfg.reason = false := by simpa using hr
    rw [cycle_not_handler_reason cfg P now now1 exec hr']
    exact hP

/-- A final outcome (success or permanent failure) of an invoked handler is recorded on the object
    whenever the cycle stays open. -/
theorem final_outcome_recorded (cfg : Cfg) (P : Store) (now now1 : Tick) (exec : Id → Nat → Outcome)
    (i : Id) (n : Nat) (hinv : (i, n) ∈ (cycle cfg P now now1 exec).invoked)
    (hfin : (exec i n).final = true) (hc : (cycle cfg P now now1 exec).closed = false) :
    ∃ r', (cycle cfg P now now1 exec).P' i = some r' ∧ r'.finished = true := by
  by_cases hr : handlerReasons.contains cfg.reason = true
  · by_cases he : cfg.selected.isEmpty = true
    · rw [cycle_no_handlers cfg P now now1 exec hr he] at hinv; simp at hinv
    · have he' : cfg.selected.isEmpty = false := by simpa using he
      rw [cycle_main cfg P now now1 exec hr he'] at hc hinv ⊢
      simp only at hc hinv
      obtain ⟨hs, _, _, hpost⟩ := postState_invoked hinv
      refine ⟨withOutcome hs.r (exec i n) now1, ?_, ?_⟩
      · simp only [hc, Bool.false_eq_true, if_false]
        unfold store postState
        simp [hpost]
      · rw [withOutcome_finished, hfin]
  · have hr' : handlerReasons.contains cfg.reason = false := by simpa using hr
    rw [cycle_not_handler_reason cfg P now now1 exec hr'] at hinv
    simp at hinv

/-- The "no foreign purpose" invariant is preserved by every pass. -/
theorem noExtras_preserved (cfg : Cfg) (P : Store) (now now1 : Tick) (exec : Id → Nat → Outcome)
    (hsub : ∀ i ∈ cfg.selected, i ∈ cfg.owned) (hne : NoExtras cfg P) :
    NoExtras cfg (cycle cfg P now now1 exec).P' := by
  have hex := noExtras_extras (now := now) hsub hne
  by_cases hr : handlerReasons.contains cfg.reason = true
  · by_cases he : cfg.selected.isEmpty = true
    · rw [cycle_no_handlers cfg P now now1 exec hr he]
      intro i ho r hP'
      simp [purge, ho] at hP'
    · have he' : cfg.selected.isEmpty = false := by simpa using he
      rw [cycle_main cfg P now now1 exec hr he']
      simp only
      intro i ho r hP'
      by_cases hd : done (postState cfg P now now1 exec) (known cfg) = true
      · simp [hd, purge, ho] at hP'
      · simp only [hd, Bool.false_eq_true, if_false, midStore_noExtras hex] at hP'
        unfold store at hP'
        cases hpost : postState cfg P now now1 exec i with
        | none => simp only [hpost] at hP'; exact hne i ho r hP'
        | some h =>
          simp only [hpost] at hP'
          by_cases hdirty : h.dirty = true
          · simp only [hdirty, if_true, Option.some.injEq] at hP'
            subst hP'
            obtain ⟨h0, hpre, hpur⟩ := execOnce_purpose hpost
            rw [hpur]
            rw [preState_noExtras hex] at hpre
            exact st0_purpose hsub hne i h0 hpre
          · simp only [hdirty, Bool.false_eq_true, if_false] at hP'
            exact hne i ho r hP'
  · have hr' : handlerReasons.contains cfg.reason = false := by simpa using hr
    rw [cycle_not_handler_reason cfg P now now1 exec hr']
    exact hne

/-- One pass of the handling cycle: its clock readings and what the handlers do when invoked. -/
structure Step where
  now : Tick
  now1 : Tick
  exec : Id → Nat → Outcome

/-- The invocations of each following pass, for as long as the handling cycle stays open.
    Between passes anything may happen that leaves the stored records alone: foreign events,
    operator restarts (the pass is a function of the stored records only). -/
def invokedSeq (cfg : Cfg) : Store → List Step → List (List (Id × Nat))
  | _, [] => []
  | P, s :: rest =>
      let c := cycle cfg P s.now s.now1 s.exec
      c.invoked :: (if c.closed then [] else invokedSeq cfg c.P' rest)

/-- Across any number of passes, restarts and intervening events, a handler recorded as finished
    is not invoked again while the handling cycle is open. -/
theorem finished_never_invoked (cfg : Cfg) (hsub : ∀ i ∈ cfg.selected, i ∈ cfg.owned)
    (steps : List Step) : ∀ (P : Store), NoExtras cfg P →
    ∀ (i : Id) (r : Rec), i ∈ cfg.owned → P i = some r → r.finished = true →
    ∀ l ∈ invokedSeq cfg P steps, ∀ n, (i, n) ∉ l := by
  induction steps with
  | nil => intro P _ i r _ _ _ l hl; simp [invokedSeq] at hl
  | cons s rest ih =>
    intro P hne i r ho hP hfin l hl n
    simp only [invokedSeq, List.mem_cons] at hl
    rcases hl with rfl | hl
    · exact no_rerun cfg P s.now s.now1 s.exec hsub i n r hP hfin
    · by_cases hc : (cycle cfg P s.now s.now1 s.exec).closed = true
      · simp [hc] at hl
      · have hc' : (cycle cfg P s.now s.now1 s.exec).closed = false := by simpa using hc
        simp only [hc', Bool.false_eq_true, if_false] at hl
        exact ih _ (noExtras_preserved cfg P s.now s.now1 s.exec hsub hne) i r ho
          (finished_persists cfg P s.now s.now1 s.exec hsub hne i r ho hP hfin hc') hfin l hl n

/-- Hence every handler succeeds (or fails for good) at most once per handling cycle: after a pass
    in which it reached a final outcome, no later pass of the same open cycle invokes it —
    for every outcome script, lifecycle, clock, and any placement of restarts / foreign events. -/
theorem once_per_cycle (cfg : Cfg) (hsub : ∀ i ∈ cfg.selected, i ∈ cfg.owned)
    (P : Store) (hne : NoExtras cfg P) (s : Step) (rest : List Step)
    (i : Id) (n : Nat) (hinv : (i, n) ∈ (cycle cfg P s.now s.now1 s.exec).invoked)
    (hfin : (s.exec i n).final = true) (hc : (cycle cfg P s.now s.now1 s.exec).closed = false) :
    ∀ l ∈ invokedSeq cfg (cycle cfg P s.now s.now1 s.exec).P' rest, ∀ m, (i, m) ∉ l := by
  obtain ⟨r', hP', hf'⟩ := final_outcome_recorded cfg P s.now s.now1 s.exec i n hinv hfin hc
  have hsel := (invoked_selected_awake cfg P s.now s.now1 s.exec hsub i n hinv).1
  exact finished_never_invoked cfg hsub rest _ (noExtras_preserved cfg P s.now s.now1 s.exec hsub hne)
    i r' (hsub i hsel) hP' hf'

/-- The guard is not decorative: if the next pass starts from a *stale* view of the object (a lost
    API response, or an echo later than the consistency timeout), the handler runs and succeeds again. -/
theorem stale_view_reruns :
    ∃ (cfg : Cfg) (P : Store) (s : Step),
      (("h", 0) ∈ (cycle cfg P s.now s.now1 s.exec).invoked ∧ (s.exec "h" 0).final = true) ∧
      ("h", 0) ∈ (cycle cfg P s.now s.now1 s.exec).invoked := by
  refine ⟨{ owned := ["h", "g"], selected := ["h", "g"], limits := fun _ => ⟨none, none⟩, reason := "create",
            lifecycle := .oneByOne }, fun _ => none,
          ⟨0, 1, fun _ _ => { final := true, delay := none, error := false, subrefs := [] }⟩, ?_, ?_⟩ <;> decide

-- non-vacuity: a two-handler creation, first pass runs "h" only, the cycle stays open, "h" is recorded
example :
    let cfg : Cfg := { owned := ["h", "g"], selected := ["h", "g"], limits := fun _ => ⟨none, none⟩,
                       reason := "create", lifecycle := .oneByOne }
    let c := cycle cfg (fun _ => none) 0 1 (fun _ _ => { final := true, delay := none, error := false, subrefs := [] })
    c.invoked = [("h", 0)] ∧ c.closed = false ∧ (c.P' "h").isSome = true ∧ NoExtras cfg (fun _ => none) := by
  refine ⟨by decide, by decide, by decide, ?_⟩
  intro i _ r h; simp at h

end Kopf.C02
