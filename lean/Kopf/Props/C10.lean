/-
  C10 — timer schedule laws. Property theorems only (model: Kopf/Model/C10_Timer.lean).

  All theorems hold for EVERY configuration (interval / sharp / idle / initial_delay present or absent,
  backoff, errors mode, retries), every run record (any duration: `ended - start` shorter, equal or
  longer than the interval; any patch round trip `patched - ended ≥ 0`), every result script and every
  timing of object changes (`view : Int → Int` is an arbitrary function: what the loop reads of
  `memory.idle_reset_time` at each instant).

  What "one interval after the previous run ended" means in the code: every post-run sleep is entered
  after the post-run `patch_and_check` returned (`Run.patched`), NOT when the function returned
  (`Run.ended`). Non-sharp: next start = `patched + interval` (later only if the idle gate holds it).
  Sharp: the grid is counted from the run's `start`, and the next start is the first grid point
  STRICTLY after `patched` (a run whose patch ends exactly on a grid point skips that point).
  After a non-final failure the delay is counted from `ended` (`delayed = now + delay` is stamped by
  `with_outcomes` before the patch), so the next start is `max patched (ended + delay)`.
  A run that failed for good is the timer's last run (`permanent_is_last`, `failed_is_last`): the state
  is kept, nothing is awakened any more; the loop itself keeps sleeping (or breaks, for a one-shot).
  The stopper is not modelled: it truncates a run sequence (every loop is guarded by it, `stopperGuards`).
-/
import Kopf.Lemmas.C10_Timer
namespace Kopf.C10

/-! ### no overlap -/

/-- One step: the next run starts no earlier than the end of the previous run's post-run patch,
    hence not before the previous run's function returned. No hypothesis on the configuration. -/
theorem no_overlap_step (cfg : Cfg) (view : View) (r : Run) (t' : Int) (hwf : r.WF)
    (h : Next cfg view r t') : r.ended ≤ t' ∧ r.patched ≤ t' := by
  have := h.ge_patched
  have := hwf.2
  omega

/-- A timer never overlaps with itself: in every run sequence of a timer task, run `n+1` starts at or
    after the end of run `n` (function end and post-run patch end). By induction over the sequence. -/
theorem no_overlap (cfg : Cfg) (view : View) (spawn : Int) (rs : List Run) (h : Sched cfg view spawn rs)
    (n : Nat) (a b : Run) (ha : rs[n]? = some a) (hb : rs[n + 1]? = some b) :
    a.start ≤ a.ended ∧ a.ended ≤ b.start ∧ a.patched ≤ b.start := by
  cases rs with
  | nil => simp at ha
  | cons r rs =>
    obtain ⟨_, hwf, _, hc⟩ := h
    exact Chain.consecutive (cfg := cfg) (view := view)
      (P := fun a b => a.start ≤ a.ended ∧ a.ended ≤ b.start ∧ a.patched ≤ b.start)
      (fun r r' hw _ hn _ => ⟨hw.1, (no_overlap_step cfg view r r'.start hw hn).1,
        (no_overlap_step cfg view r r'.start hw hn).2⟩)
      rs r hwf hc n a b ha hb

/-! ### after a successful run: the interval -/

/-- Non-sharp timers: the loop is back at its top exactly `interval` after the post-run patch ended,
    and the next run starts there unless the idle gate postpones it:
    * never earlier than `patched + interval` (so never earlier than `ended + interval`);
    * exactly then when there is no `idle`, or when the idle time has already passed there;
    * if postponed, it starts exactly `idle` after a reset read while waiting;
    * with no change after the wake-up (`view` stays `v`): exactly `max (patched + interval) (v + idle)`. -/
theorem interval_law (cfg : Cfg) (view : View) (r : Run) (t' i : Int)
    (hi : cfg.interval = some i) (hpos : 0 < i) (hs : cfg.sharp = false) (hd : r.out cfg = .done)
    (hwf : r.WF) (h : Next cfg view r t') :
    r.ended + i ≤ t' ∧ r.patched + i ≤ t' ∧
    (cfg.idle = none → t' = r.patched + i) ∧
    (∀ idle, cfg.idle = some idle →
        (idle ≤ (r.patched + i) - view (r.patched + i) → t' = r.patched + i) ∧
        (t' = r.patched + i ∨ ∃ u, r.patched + i ≤ u ∧ u < t' ∧ t' = view u + idle) ∧
        (∀ v, (∀ u, r.patched + i ≤ u → view u = v) → t' = max (r.patched + i) (v + idle))) := by
  have hw : wake cfg r = .at (r.patched + i) := by
    unfold wake; rw [hd]; simp only [hi, hs]; simp [sleepUntil_pos hpos]
  unfold Next at h; replace h := h.2; rw [hw] at h; simp only at h
  have hge := h.ge
  have := hwf.2
  refine ⟨by omega, hge, fun hn => Gate.no_idle hn h, fun idle hidle => ⟨?_, Gate.form hidle h, fun v hq => Gate.quiet hidle hq h⟩⟩
  intro hok
  unfold Gate at h; rw [hidle] at h
  cases h with
  | pass _ => rfl
  | wait hlt _ => omega

/-- Sharp timers: the loop is back at its top on the interval grid counted from the run's START:
    at `g = start + k·interval` with `k ≥ 1`, and `g` is the first grid point strictly after the end
    of the post-run patch (`g - interval ≤ patched < g`) — whatever the duration of the run
    (shorter, equal, longer than the interval: `k` counts the skipped grid points).
    The next run starts at `g` unless the idle gate postpones it. -/
theorem sharp_grid (cfg : Cfg) (view : View) (r : Run) (t' i : Int)
    (hi : cfg.interval = some i) (hpos : 0 < i) (hs : cfg.sharp = true) (hd : r.out cfg = .done)
    (hwf : r.WF) (h : Next cfg view r t') :
    ∃ k : Nat, 1 ≤ k ∧ r.patched < r.start + k * i ∧ r.start + k * i - i ≤ r.patched ∧
      Gate cfg view (r.start + k * i) t' ∧ r.start + k * i ≤ t' ∧
      (cfg.idle = none → t' = r.start + k * i) := by
  have hp : 0 ≤ r.patched - r.start := by have := hwf.1; have := hwf.2; omega
  have hlt := Int.emod_lt_of_pos (r.patched - r.start) hpos
  have hnn := Int.emod_nonneg (r.patched - r.start) (Int.ne_of_gt hpos)
  have hq := Int.ediv_nonneg hp (Int.le_of_lt hpos)
  have hdm := Int.emod_add_mul_ediv (r.patched - r.start) i
  have hw : wake cfg r = .at (r.patched + (i - (r.patched - r.start) % i)) := by
    unfold wake; rw [hd]; simp only [hi, hs]
    have : 0 < i - (r.patched - r.start) % i := by omega
    simp [sleepUntil_pos this]
  unfold Next at h; replace h := h.2; rw [hw] at h; simp only at h
  refine ⟨((r.patched - r.start) / i).toNat + 1, by omega, ?_⟩
  have hk : (((r.patched - r.start) / i).toNat + 1 : Nat) * i = i * ((r.patched - r.start) / i) + i := by
    rw [Int.natCast_add, Int.toNat_of_nonneg hq, Int.add_mul, Int.mul_comm]; omega
  rw [hk]
  have hg : r.patched + (i - (r.patched - r.start) % i) = r.start + (i * ((r.patched - r.start) / i) + i) := by
    omega
  rw [hg] at h
  exact ⟨by omega, by omega, h, h.ge, fun hn => Gate.no_idle hn h⟩

/-! ### after a failed run: the error's delay or the backoff -/

/-- After a non-final failure with delay `d` (`TemporaryError(delay=d)`; an arbitrary exception under
    `errors=TEMPORARY` has `d = backoff`, see `classify_arbitrary`), the interval is not used: the loop
    is back at its top at `max patched (ended + d)` — the delay counts from the function's end, the
    patch round trip is absorbed in it — and the next run starts there unless the idle gate postpones it. -/
theorem error_delay_law (cfg : Cfg) (view : View) (r : Run) (t' d : Int)
    (hd : r.out cfg = .retry (some d)) (h : Next cfg view r t') :
    Gate cfg view (max r.patched (r.ended + d)) t' ∧ r.ended + d ≤ t' ∧ r.patched ≤ t' ∧
    (cfg.idle = none → t' = max r.patched (r.ended + d)) := by
  have hw : wake cfg r = .at (max r.patched (r.ended + d)) := by
    unfold wake; rw [hd]; simp only; rw [sleep_stateDelay]
  unfold Next at h; replace h := h.2; rw [hw] at h; simp only at h
  have := h.ge
  exact ⟨h, by omega, by omega, fun hn => Gate.no_idle hn h⟩

/-- which results are retried with which delay: `TemporaryError(delay)` with its own delay … -/
theorem classify_temporary (cfg : Cfg) (attempt : Nat) (d : Option Int)
    (h : lookaheadRetries cfg attempt = false) : classify cfg attempt (.temporary d) = .retry d := by
  simp [classify, h]

/-- … an arbitrary exception (default `errors` mode) with the handler's backoff. -/
theorem classify_arbitrary (cfg : Cfg) (attempt : Nat) (he : cfg.errors = .temporary)
    (h : lookaheadRetries cfg attempt = false) : classify cfg attempt .arbitrary = .retry (some cfg.backoff) := by
  simp [classify, he, h]

/-! ### the first run: the initial delay -/

/-- The first run of a (re)spawned timer task is not earlier than the spawn plus the initial delay;
    without `idle` it is exactly then. -/
theorem initial_delay_law (cfg : Cfg) (view : View) (spawn t' d : Int)
    (hd : cfg.initialDelay = some d) (h : First cfg view spawn t') :
    spawn + d ≤ t' ∧ spawn ≤ t' ∧ (cfg.idle = none → t' = max spawn (spawn + d)) := by
  unfold First initialWake at h; rw [hd] at h; simp only at h
  have := h.ge
  have := sleepUntil_ge_add spawn d
  have := sleepUntil_ge spawn d
  refine ⟨by omega, by omega, fun hn => ?_⟩
  rw [Gate.no_idle hn h, sleepUntil_max]

/-! ### idling -/

/-- FULL CLAUSE (false of the code, see `idle_reset_flip_back_witness`): "no run starts within the idle
    time after the last essential change of the object".
    PROVED PART: no run starts within the idle time after the last change the operator REGISTERED as
    one — for every run of every run sequence, `start - idle_reset_time(as read at start) ≥ idle`
    (induction over the sequence). The gap is not in the timer loop but in what counts as a change:
    `idle_reset_time` is written when the essence differs from the LAST-HANDLED essence (`resetsIdle`),
    so a change that restores the last-handled essence (A → B → A with B never handled) is not registered. -/
theorem idle_law_partial (cfg : Cfg) (view : View) (spawn idle : Int) (rs : List Run)
    (hi : cfg.idle = some idle) (h : Sched cfg view spawn rs) :
    ∀ r ∈ rs, idle ≤ r.start - view r.start := by
  cases rs with
  | nil => intro r hr; cases hr
  | cons r0 rs =>
    obtain ⟨hf, _, _, hc⟩ := h
    intro r hr
    cases hr with
    | head => exact Gate.idle_ok hi hf
    | tail _ hr' =>
      exact Chain.forall_tail (cfg := cfg) (view := view) (Q := fun r => idle ≤ r.start - view r.start)
        (fun _ _ hn => Next.idle_ok hi hn) rs r0 hc r hr'

/-- every change away from what is recorded as last handled (and every event when nothing is recorded) resets idling -/
theorem reset_on_unhandled_change (lastHandled : Option Nat) (new : Nat) (h : lastHandled ≠ some new) :
    resetsIdle lastHandled new = true := by
  simp [resetsIdle, h]

/-- … but not every essential change does: the object goes from essence 1 (seen, never handled) back
    to essence 0 (the last handled one) — its content changed (`prev ≠ new`), idling is not reset.
    Replayed on the real operator in every run (corpus/C10/F1.json, known finding C10-F1). -/
theorem idle_reset_flip_back_witness :
    ∃ lastHandled prev new : Nat, prev ≠ new ∧ resetsIdle (some lastHandled) new = false :=
  ⟨0, 1, 0, by decide, by decide⟩

/-- Idle-only timers (no interval): after a final run the next one needs a change newer than the
    run's start (read at one of the poll instants `patched, patched + idle, …`), and then the idle gate. -/
theorem idle_only_law (cfg : Cfg) (view : View) (r : Run) (t' idle : Int)
    (hn : cfg.interval = none) (hi : cfg.idle = some idle) (hd : r.out cfg = .done)
    (h : Next cfg view r t') :
    ∃ p, r.patched ≤ p ∧ p ≤ t' ∧ r.start < view p ∧ idle ≤ t' - view t' := by
  have hw : wake cfg r = .poll idle := by unfold wake; rw [hd]; simp only [hn, hi]
  unfold Next at h; replace h := h.2; rw [hw] at h; simp only at h
  obtain ⟨p, hp, hg⟩ := h
  exact ⟨p, hp.ge, hg.ge, hp.seen, Gate.idle_ok hi hg⟩

/-- Neither interval nor idle: after a final run the loop breaks (one-shot). -/
theorem one_shot (cfg : Cfg) (view : View) (r : Run) (t' : Int)
    (hn : cfg.interval = none) (hi : cfg.idle = none) (hd : r.out cfg = .done) :
    ¬ Next cfg view r t' := by
  have hw : wake cfg r = .stop := by unfold wake; rw [hd]; simp only [hn, hi]
  unfold Next; rw [hw]; exact fun h => h.2

/-! ### the retry counter along a sequence -/

/-- the `retry` kwarg restarts from 0 after every final run and counts up through a retry series -/
theorem attempt_law (cfg : Cfg) (view : View) (spawn : Int) (rs : List Run) (h : Sched cfg view spawn rs)
    (n : Nat) (a b : Run) (ha : rs[n]? = some a) (hb : rs[n + 1]? = some b) :
    b.attempt = (match a.out cfg with | .retry _ => a.attempt + 1 | _ => 0) := by
  cases rs with
  | nil => simp at ha
  | cons r rs =>
    obtain ⟨_, hwf, _, hc⟩ := h
    exact Chain.consecutive (cfg := cfg) (view := view)
      (P := fun a b => b.attempt = (match a.out cfg with | .retry _ => a.attempt + 1 | _ => 0))
      (fun r r' _ _ _ hat => by rw [hat]; rfl) rs r hwf hc n a b ha hb

/-! ### after a run that failed for good: the timer is over -/

/-- docs/timers.rst: "For PermanentError, the timer stops forever and is not retried." One step: a run
    that failed for good (PermanentError, an arbitrary error under errors=PERMANENT, retries exhausted —
    `classify_permanent`) has no successor run, whatever the configuration and the object's changes. -/
theorem permanent_is_last (cfg : Cfg) (view : View) (r : Run) (t' : Int) (hf : r.out cfg = .failed) :
    ¬ Next cfg view r t' := fun h => h.1 hf

/-- … hence in every run sequence a run that failed for good is the last one. -/
theorem failed_is_last (cfg : Cfg) (view : View) (spawn : Int) (rs : List Run) (h : Sched cfg view spawn rs)
    (n : Nat) (a : Run) (ha : rs[n]? = some a) (hf : a.out cfg = .failed) : rs[n + 1]? = none := by
  cases hb : rs[n + 1]? with
  | none => rfl
  | some b =>
    exfalso
    cases rs with
    | nil => simp at ha
    | cons r rs =>
      obtain ⟨_, hwf, _, hc⟩ := h
      exact Chain.consecutive (cfg := cfg) (view := view) (P := fun a _ => a.out cfg ≠ .failed)
        (fun _ _ _ _ hn _ => hn.1) rs r hwf hc n a b ha hb hf

/-- which results fail for good -/
theorem classify_permanent (cfg : Cfg) (attempt : Nat) :
    classify cfg attempt .permanent = .failed ∧
    (cfg.errors = .permanent → classify cfg attempt .arbitrary = .failed) ∧
    (lookaheadRetries cfg attempt = true → ∀ d, classify cfg attempt (.temporary d) = .failed) ∧
    (lookaheadRetries cfg attempt = true → cfg.errors = .temporary → classify cfg attempt .arbitrary = .failed) := by
  refine ⟨rfl, fun he => by simp [classify, he], fun hl d => by simp [classify, hl], fun hl he => by simp [classify, he, hl]⟩

/-! ### non-vacuity: concrete instances meeting the hypotheses -/

section Examples

private def view0 : View := fun t => if t < 500 then 64 else 500   -- created at 64, edited at 500

private def cfgA : Cfg := { interval := some 128, sharp := false, idle := some 96, initialDelay := some 32, backoff := 64 }
private def cfgS : Cfg := { interval := some 128, sharp := true, idle := none, initialDelay := none, backoff := 64 }
private def cfgI : Cfg := { interval := none, sharp := false, idle := some 96, initialDelay := none, backoff := 64 }

-- first run: spawn 64, initial delay 32 → 96, but idle 96 after the reset at 64 → 160
example : First cfgA view0 64 160 := firstStartN_sound (extends_total _) (n := 8) (by decide)

-- interval law, with a patch round trip of 1 tick and a slow run (3 s > interval 2 s)
private def rA : Run := { start := 160, ended := 352, patched := 353, attempt := 0, res := .ok }
example : rA.WF ∧ rA.out cfgA = .done := by decide
example : Next cfgA view0 rA 481 := nextStartN_sound (extends_total _) (n := 8) (by decide)
-- … and postponed by the edit at 500 (wake 545 < 500 + 96 = 596)
private def rA' : Run := { start := 416, ended := 416, patched := 417, attempt := 0, res := .ok }
example : Next cfgA view0 rA' 596 := nextStartN_sound (extends_total _) (n := 8) (by decide)

-- a full sequence (Sched) of three runs: ok, temporary(delay 40) with a patch, ok
private def r1 : Run := { start := 160, ended := 170, patched := 171, attempt := 0, res := .ok }
private def r2 : Run := { start := 299, ended := 299, patched := 300, attempt := 0, res := .temporary (some 40) }
private def r3 : Run := { start := 339, ended := 339, patched := 339, attempt := 1, res := .ok }
example : Sched cfgA view0 64 [r1, r2, r3] :=
  ⟨firstStartN_sound (extends_total _) (n := 8) (by decide), by decide, rfl,
   .cons (nextStartN_sound (extends_total _) (n := 8) (by decide)) (by decide) (by decide)
    (.cons (nextStartN_sound (extends_total _) (n := 8) (by decide)) (by decide) (by decide) (.nil _))⟩
example : r2.out cfgA = .retry (some 40) := by decide

-- sharp grid: run of 3 s on a 2 s grid from 0 → next at 256 (k = 2); exactly one interval long → k = 2 too
private def rS : Run := { start := 0, ended := 192, patched := 193, attempt := 0, res := .ok }
example : Next cfgS view0 rS 256 := nextStartN_sound (extends_total _) (n := 8) (by decide)
private def rS' : Run := { start := 0, ended := 128, patched := 128, attempt := 0, res := .ok }
example : Next cfgS view0 rS' 256 := nextStartN_sound (extends_total _) (n := 8) (by decide)

-- idle-only: ran at 200; polls at 200, 296, 392, 488, 584 (sees the edit of 500) → gate → 596
private def rI : Run := { start := 200, ended := 200, patched := 200, attempt := 0, res := .ok }
example : Next cfgI view0 rI 596 := nextStartN_sound (extends_total _) (n := 8) (by decide)

-- arbitrary error → backoff
example : classify cfgA 0 .arbitrary = .retry (some 64) := by decide
-- retries = 2: the second failure is final, and nothing follows it although the loop goes on sleeping
example : classify { cfgA with retries := some 2 } 1 (.temporary (some 40)) = .failed := by decide
private def rP : Run := { start := 100, ended := 100, patched := 100, attempt := 0, res := .permanent }
example : rP.out cfgA = .failed ∧ wake cfgA rP = .at 228 ∧ nextStartN cfgA (fun t => some (view0 t)) 8 rP = .never := by decide
-- a one-shot timer that failed for good: the loop breaks
example : nextStartN { cfgI with idle := none } (fun t => some (view0 t)) 8 rP = .ended := by decide

end Examples

end Kopf.C10
