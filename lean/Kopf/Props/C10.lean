/-
  C10 — timer schedule laws. Property theorems only (model: Kopf/Model/C10_Timer.lean).

  All theorems hold for EVERY configuration (interval / sharp / idle / initial_delay present or absent,
  backoff, errors mode, retries), every iteration record (any duration: `ended - start` shorter, equal or
  longer than the interval; any patch round trip `patched - ended ≥ 0`), every result script and every
  timing of object changes (`view : Int → Int` is an arbitrary function: what the loop reads of
  `memory.idle_reset_time` at each instant; in `idle_law_full` it is derived from an arbitrary event
  history). `Sched cfg view spawn its` = `its` is a prefix of the iteration sequence of one timer task;
  `stateAt cfg its n` = the in-memory handler state with which iteration `n` is entered. Whether an
  iteration invokes the function is determined by that state (`Iter.ok`), not assumed.

  What "one interval after the previous run ended" means in the code: every post-run sleep is entered
  after the post-run `patch_and_check` returned (`Iter.patched`), NOT when the function returned
  (`Iter.ended`). Non-sharp: next start = `patched + interval` (later only if the idle gate holds it).
  Sharp: the grid is counted from the run's `start`, and the next start is the first grid point
  STRICTLY after `patched` (a run whose patch ends exactly on a grid point skips that point).
  After a non-final failure the delay is counted from `ended` (`delayed = now + delay` is stamped by
  `with_outcomes` before the patch), so the next start is `max patched (ended + delay)`.
  The stopper is not modelled: it truncates a sequence (every loop is guarded by it, `stopperGuards`).
-/
import Kopf.Lemmas.C10_Timer
namespace Kopf.C10

/-! ### no overlap -/

/-- One step: the next iteration starts no earlier than the end of the previous one's post-run patch,
    hence not before the previous run's function returned. No hypothesis on the configuration. -/
theorem no_overlap_step (cfg : Cfg) (view : View) (h' : HState) (it : Iter) (t' : Int)
    (hwf : it.ended ≤ it.patched) (h : Next cfg view h' it t') : it.ended ≤ t' ∧ it.patched ≤ t' := by
  have := h.ge_patched
  omega

/-- A timer never overlaps with itself: in every sequence of a timer task, iteration `n+1` starts at or
    after the end of iteration `n` (function end and post-run patch end). -/
theorem no_overlap (cfg : Cfg) (view : View) (spawn : Int) (its : List Iter) (h : Sched cfg view spawn its)
    (n : Nat) (a b : Iter) (ha : its[n]? = some a) (hb : its[n + 1]? = some b) :
    a.start ≤ a.ended ∧ a.ended ≤ b.start ∧ a.patched ≤ b.start := by
  have hok := Sched.ok_at h n a ha
  have hn := (Sched.step_at h ha hb).1
  have := hn.ge_patched
  have := hok.1
  have := hok.2.1
  omega

/-! ### which iterations are runs: derived from the carried state -/

/-- As long as the timer has not failed for good, EVERY iteration invokes the function: the carried
    state is fresh (after a success) or a retrying one whose `delayed` instant has passed when the loop
    comes round (the error-delay sleep and the idle gate only end later). Invariant over the sequence. -/
theorem invoked_unless_failed (cfg : Cfg) (view : View) (spawn : Int) (its : List Iter) (h : Sched cfg view spawn its)
    (n : Nat) (a : Iter) (ha : its[n]? = some a) (hnf : (stateAt cfg its n).failure = false) :
    a.res.isSome = true := by
  obtain ⟨i1, i2⟩ := Sched.ready h n a ha
  have hok := Sched.ok_at h n a ha
  rw [hok.2.2.1]
  generalize stateAt cfg its n = hs at i1 i2 hnf
  unfold HState.atTop
  by_cases hfin : hs.finished = true
  · have hs' : hs.success = true := by
      simp [HState.finished, hnf] at hfin; exact hfin
    simp [hs', hnf, HState.awakened, HState.sleeping, HState.finished, HState.fresh]
  · have hfin' : hs.finished = false := by cases hf : hs.finished <;> simp_all
    simp only [hfin', Bool.false_and, Bool.false_eq_true, if_false]
    cases hd : hs.delayed with
    | none => simp [HState.awakened, HState.sleeping, hfin', hd]
    | some d =>
      have := i2 d hd
      have hnot : ¬ (d > a.start) := by omega
      simp [HState.awakened, HState.sleeping, hfin', hd, hnot]

/-- docs/timers.rst: "For PermanentError, the timer stops forever and is not retried." Once an iteration
    leaves the state failed (PermanentError, an arbitrary error under errors=PERMANENT, retries
    exhausted), the state is kept at the top of the loop, nothing is awakened any more, and NO later
    iteration of the sequence invokes the function — derived from the state machine (`atTop` keeps a
    failed state, `awakened` is false for a finished one, `with_outcomes({})` changes nothing), for every
    configuration and every timing. -/
theorem failed_is_last (cfg : Cfg) (view : View) (spawn : Int) (its : List Iter) (h : Sched cfg view spawn its)
    (n : Nat) (hf : (stateAt cfg its n).failure = true) :
    ∀ (m : Nat) (b : Iter), n ≤ m → its[m]? = some b → b.res = none ∧ (stateAt cfg its (m + 1)) = stateAt cfg its n := by
  intro m
  induction m with
  | zero =>
    intro b hnm hb
    have : n = 0 := by omega
    subst this
    have hok := Sched.ok_at h 0 b hb
    have hst := step_of_failure (cfg := cfg) hf hok
    refine ⟨?_, by rw [stateAt_succ hb, hst]⟩
    have := hok.2.2.1; rw [not_awakened_of_failure hf] at this
    cases hr : b.res <;> simp [hr] at this ⊢
  | succ m ih =>
    intro b hnm hb
    have hstate : stateAt cfg its (m + 1) = stateAt cfg its n := by
      rcases Nat.lt_or_ge n (m + 1) with hlt | hge
      · have hm : m < its.length := by
          rcases Nat.lt_or_ge (m + 1) its.length with h' | h'
          · omega
          · rw [List.getElem?_eq_none h'] at hb; cases hb
        exact (ih its[m] (by omega) (List.getElem?_eq_getElem hm)).2
      · have : n = m + 1 := by omega
        rw [this]
    have hf' : (stateAt cfg its (m + 1)).failure = true := by rw [hstate]; exact hf
    have hok := Sched.ok_at h (m + 1) b hb
    have hst := step_of_failure (cfg := cfg) hf' hok
    refine ⟨?_, by rw [stateAt_succ hb, hst, hstate]⟩
    have := hok.2.2.1; rw [not_awakened_of_failure hf'] at this
    cases hr : b.res <;> simp [hr] at this ⊢

/-- a run that fails for good leaves the state failed (the link from results to `failed_is_last`) -/
theorem failed_run_marks_state (cfg : Cfg) (its : List Iter) (n : Nat) (a : Iter) (r : Result) (ha : its[n]? = some a)
    (hr : a.res = some r) (hc : classify cfg (attemptOf (stateAt cfg its n)) r = .failed) :
    (stateAt cfg its (n + 1)).failure = true := by
  rw [stateAt_succ ha]
  unfold attemptOf at hc
  simp [step, hr, hc, HState.withOutcome]

/-! ### after a successful run: the interval -/

/-- the state a successful run (or an ignored error) leaves is finished and not failed -/
theorem success_marks_state (cfg : Cfg) (its : List Iter) (n : Nat) (a : Iter) (r : Result) (ha : its[n]? = some a)
    (hr : a.res = some r) (hc : classify cfg (attemptOf (stateAt cfg its n)) r = .done) :
    (stateAt cfg its (n + 1)).finished = true ∧ (stateAt cfg its (n + 1)).failure = false := by
  rw [stateAt_succ ha]
  unfold attemptOf at hc
  simp [step, hr, hc, HState.withOutcome, HState.finished]

/-- One step, non-sharp timers: after an iteration that left the state finished, the loop is back at
    its top exactly `interval` after the post-run patch ended, and the next iteration starts there unless
    the idle gate postpones it. -/
theorem interval_law_step (cfg : Cfg) (view : View) (h' : HState) (it : Iter) (t' i : Int)
    (hi : cfg.interval = some i) (hpos : 0 < i) (hs : cfg.sharp = false) (hd : h'.finished = true)
    (hwf : it.ended ≤ it.patched) (h : Next cfg view h' it t') :
    it.ended + i ≤ t' ∧ it.patched + i ≤ t' ∧
    (cfg.idle = none → t' = it.patched + i) ∧
    (∀ idle, cfg.idle = some idle →
        (idle ≤ (it.patched + i) - view (it.patched + i) → t' = it.patched + i) ∧
        (t' = it.patched + i ∨ ∃ u, it.patched + i ≤ u ∧ u < t' ∧ t' = view u + idle) ∧
        (∀ v, (∀ u, it.patched + i ≤ u → view u = v) → t' = max (it.patched + i) (v + idle))) := by
  have hw : wake cfg h' it = .at (it.patched + i) := by
    unfold wake; simp [hd, hi, hs, sleepUntil_pos hpos]
  unfold Next at h; rw [hw] at h; simp only at h
  have hge := h.ge
  refine ⟨by omega, hge, fun hn => Gate.no_idle hn h, fun idle hidle => ⟨?_, Gate.form hidle h, fun v hq => Gate.quiet hidle hq h⟩⟩
  intro hok
  unfold Gate at h; rw [hidle] at h
  cases h with
  | pass _ => rfl
  | wait hlt _ => omega

/-- After a successful run the next iteration IS a run (the function is invoked again), and it starts
    one interval after the end of the previous run's post-run patch unless idling postpones it:
    * never earlier than `patched + interval` (so never earlier than `ended + interval`);
    * exactly then when there is no `idle`, or when the idle time has already passed there;
    * if postponed, exactly `idle` after a reset read while waiting;
    * with no change after the wake-up (`view` stays `v`): exactly `max (patched + interval) (v + idle)`. -/
theorem interval_law (cfg : Cfg) (view : View) (spawn : Int) (its : List Iter) (h : Sched cfg view spawn its)
    (n : Nat) (a b : Iter) (r : Result) (i : Int) (ha : its[n]? = some a) (hb : its[n + 1]? = some b)
    (hr : a.res = some r) (hc : classify cfg (attemptOf (stateAt cfg its n)) r = .done)
    (hi : cfg.interval = some i) (hpos : 0 < i) (hs : cfg.sharp = false) :
    b.res.isSome = true ∧ a.ended + i ≤ b.start ∧ a.patched + i ≤ b.start ∧
    (cfg.idle = none → b.start = a.patched + i) ∧
    (∀ idle, cfg.idle = some idle →
        (idle ≤ (a.patched + i) - view (a.patched + i) → b.start = a.patched + i) ∧
        (b.start = a.patched + i ∨ ∃ u, a.patched + i ≤ u ∧ u < b.start ∧ b.start = view u + idle) ∧
        (∀ v, (∀ u, a.patched + i ≤ u → view u = v) → b.start = max (a.patched + i) (v + idle))) := by
  obtain ⟨hfin, hnf⟩ := success_marks_state cfg its n a r ha hr hc
  have hok := Sched.ok_at h n a ha
  exact ⟨invoked_unless_failed cfg view spawn its h (n + 1) b hb hnf,
    interval_law_step cfg view _ a b.start i hi hpos hs hfin hok.2.1 (Sched.step_at h ha hb).1⟩

/-- One step, sharp timers: the loop is back at its top on the interval grid counted from the
    iteration's START: at `g = start + k·interval` with `k ≥ 1`, and `g` is the first grid point strictly
    after the end of the post-run patch (`g - interval ≤ patched < g`) — whatever the duration of the run
    (shorter, equal, longer than the interval: `k` counts the skipped grid points). -/
theorem sharp_grid_step (cfg : Cfg) (view : View) (h' : HState) (it : Iter) (t' i : Int)
    (hi : cfg.interval = some i) (hpos : 0 < i) (hs : cfg.sharp = true) (hd : h'.finished = true)
    (hwf : it.start ≤ it.patched) (h : Next cfg view h' it t') :
    ∃ k : Nat, 1 ≤ k ∧ it.patched < it.start + k * i ∧ it.start + k * i - i ≤ it.patched ∧
      Gate cfg view (it.start + k * i) t' ∧ it.start + k * i ≤ t' ∧
      (cfg.idle = none → t' = it.start + k * i) := by
  have hp : 0 ≤ it.patched - it.start := by omega
  have hlt := Int.emod_lt_of_pos (it.patched - it.start) hpos
  have hnn := Int.emod_nonneg (it.patched - it.start) (Int.ne_of_gt hpos)
  have hq := Int.ediv_nonneg hp (Int.le_of_lt hpos)
  have hdm := Int.emod_add_mul_ediv (it.patched - it.start) i
  have hw : wake cfg h' it = .at (it.patched + (i - (it.patched - it.start) % i)) := by
    have : 0 < i - (it.patched - it.start) % i := by omega
    unfold wake; simp [hd, hi, hs, sleepUntil_pos this]
  unfold Next at h; rw [hw] at h; simp only at h
  refine ⟨((it.patched - it.start) / i).toNat + 1, by omega, ?_⟩
  have hk : (((it.patched - it.start) / i).toNat + 1 : Nat) * i = i * ((it.patched - it.start) / i) + i := by
    rw [Int.natCast_add, Int.toNat_of_nonneg hq, Int.add_mul, Int.mul_comm]; omega
  rw [hk]
  have hg : it.patched + (i - (it.patched - it.start) % i) = it.start + (i * ((it.patched - it.start) / i) + i) := by
    omega
  rw [hg] at h
  exact ⟨by omega, by omega, h, h.ge, fun hn => Gate.no_idle hn h⟩

/-- After a successful run of a sharp timer the next iteration is a run and starts on the interval grid
    counted from the previous run's start — the first grid point strictly after the end of its post-run
    patch — unless the idle gate postpones it (then it may leave the grid). -/
theorem sharp_grid (cfg : Cfg) (view : View) (spawn : Int) (its : List Iter) (h : Sched cfg view spawn its)
    (n : Nat) (a b : Iter) (r : Result) (i : Int) (ha : its[n]? = some a) (hb : its[n + 1]? = some b)
    (hr : a.res = some r) (hc : classify cfg (attemptOf (stateAt cfg its n)) r = .done)
    (hi : cfg.interval = some i) (hpos : 0 < i) (hs : cfg.sharp = true) :
    b.res.isSome = true ∧
    ∃ k : Nat, 1 ≤ k ∧ a.patched < a.start + k * i ∧ a.start + k * i - i ≤ a.patched ∧
      Gate cfg view (a.start + k * i) b.start ∧ a.start + k * i ≤ b.start ∧
      (cfg.idle = none → b.start = a.start + k * i) := by
  obtain ⟨hfin, hnf⟩ := success_marks_state cfg its n a r ha hr hc
  have hok := Sched.ok_at h n a ha
  exact ⟨invoked_unless_failed cfg view spawn its h (n + 1) b hb hnf,
    sharp_grid_step cfg view _ a b.start i hi hpos hs hfin (by have := hok.1; have := hok.2.1; omega) (Sched.step_at h ha hb).1⟩

/-! ### after a failed run: the error's delay or the backoff -/

/-- One step: a retrying state with `delayed = D` brings the loop back to its top at `max patched D`. -/
theorem error_delay_step (cfg : Cfg) (view : View) (h' : HState) (it : Iter) (t' D : Int)
    (hf : h'.finished = false) (hd : h'.delayed = some D) (h : Next cfg view h' it t') :
    Gate cfg view (max it.patched D) t' ∧ D ≤ t' ∧ it.patched ≤ t' ∧
    (cfg.idle = none → t' = max it.patched D) := by
  have hw : wake cfg h' it = .at (max it.patched D) := by
    unfold wake; simp [hf, sleep_delay h' it.patched D hd]
  unfold Next at h; rw [hw] at h; simp only at h
  have := h.ge
  exact ⟨h, by omega, by omega, fun hn => Gate.no_idle hn h⟩

/-- After a run that failed non-finally with delay `d` — `TemporaryError(delay=d)`, or an arbitrary
    exception under the default `errors` mode with `d = backoff` (that is what `classify` yields when the
    retries are not exhausted) — the interval is not used: the next iteration is a run (a retry) and
    starts at `max patched (ended + d)` — the delay counts from the function's end, the patch round trip
    is absorbed in it — unless the idle gate postpones it. -/
theorem error_delay_law (cfg : Cfg) (view : View) (spawn : Int) (its : List Iter) (h : Sched cfg view spawn its)
    (n : Nat) (a b : Iter) (r : Result) (d : Int) (ha : its[n]? = some a) (hb : its[n + 1]? = some b)
    (hr : a.res = some r) (hc : classify cfg (attemptOf (stateAt cfg its n)) r = .retry (some d)) :
    b.res.isSome = true ∧ attemptOf (stateAt cfg its (n + 1)) = attemptOf (stateAt cfg its n) + 1 ∧
    Gate cfg view (max a.patched (a.ended + d)) b.start ∧ a.ended + d ≤ b.start ∧ a.patched ≤ b.start ∧
    (cfg.idle = none → b.start = max a.patched (a.ended + d)) := by
  have hst : stateAt cfg its (n + 1) =
      { retries := (stateAt cfg its n).atTop.retries + 1, success := false, failure := false, delayed := some (a.ended + d) } := by
    rw [stateAt_succ ha]; unfold attemptOf at hc; simp [step, hr, hc, HState.withOutcome]
  have hnext := (Sched.step_at h ha hb).1
  rw [hst] at hnext
  refine ⟨invoked_unless_failed cfg view spawn its h (n + 1) b hb (by rw [hst]), ?_, ?_⟩
  · rw [hst]; simp [attemptOf, HState.atTop, HState.finished]
  · exact error_delay_step cfg view _ a b.start (a.ended + d) (by simp [HState.finished]) rfl hnext

/-! ### the first run: the initial delay -/

/-- The first iteration of a (re)spawned timer task — a run, the state being fresh — is not earlier
    than the spawn plus the initial delay; without `idle` it is exactly then. -/
theorem initial_delay_law (cfg : Cfg) (view : View) (spawn t' d : Int)
    (hd : cfg.initialDelay = some d) (h : First cfg view spawn t') :
    spawn + d ≤ t' ∧ spawn ≤ t' ∧ (cfg.idle = none → t' = max spawn (spawn + d)) := by
  unfold First initialWake at h; rw [hd] at h; simp only at h
  have := h.ge
  have := sleepUntil_ge_add spawn d
  have := sleepUntil_ge spawn d
  refine ⟨by omega, by omega, fun hn => ?_⟩
  rw [Gate.no_idle hn h, sleepUntil_max]

/-! ### idling -/

/-- No iteration starts within the idle time after the value of `idle_reset_time` it reads: for every
    iteration of every sequence, `start - view start ≥ idle` — `view` arbitrary. -/
theorem idle_law (cfg : Cfg) (view : View) (spawn idle : Int) (its : List Iter)
    (hi : cfg.idle = some idle) (h : Sched cfg view spawn its) :
    ∀ it ∈ its, idle ≤ it.start - view it.start := by
  intro it hit
  obtain ⟨n, hn, hget⟩ := List.getElem_of_mem hit
  have hb : its[n]? = some it := by rw [List.getElem?_eq_getElem hn, hget]
  rcases Sched.start_cases h n it hb with ⟨_, hf⟩ | ⟨m, a, _, _, hnext⟩
  · exact Gate.idle_ok hi hf
  · exact Next.idle_ok hi hnext

/-- The property's idle clause in FULL (`FullIdle`): with `idle_reset_time` derived from the history of
    processed events — for EVERY event history — no run starts within the idle time after ANY essential
    change of the object (its essence differs from the previously processed version; the first sight
    counts), whatever the object carries as last handled (so also for A → B → A with B never handled:
    since the repair 201494d an event resets idling when it differs from the last-handled OR from the
    last-seen essence). Residual guard `CreatedByFirstEvent`: the per-object memory is created by the
    first processed event, which is how `memories.recall` works. Scope: `evs` is the history of ONE
    memory, i.e. one operator process; changes made while no operator runs are not events — after a
    restart the first sight of the object is the first event of the new memory and counts as a change. -/
theorem idle_law_full (cfg : Cfg) (created spawn idle : Int) (evs : List Ev) (its : List Iter)
    (hi : cfg.idle = some idle) (hcr : CreatedByFirstEvent created evs)
    (h : Sched cfg (viewOf created evs) spawn its) : FullIdle idle evs its := by
  intro it hit _ c hc hle
  have := idle_law cfg (viewOf created evs) spawn idle its hi h it hit
  have := viewOf_ge_essential created evs it.start c hcr hc hle
  omega

/-- Idle-only timers (no interval): after an iteration that left the state finished, the next one needs
    a change newer than the iteration's start (read at one of the poll instants `patched, patched + idle, …`),
    and then the idle gate. -/
theorem idle_only_law (cfg : Cfg) (view : View) (h' : HState) (it : Iter) (t' idle : Int)
    (hn : cfg.interval = none) (hi : cfg.idle = some idle) (hd : h'.finished = true)
    (h : Next cfg view h' it t') :
    ∃ p, it.patched ≤ p ∧ p ≤ t' ∧ it.start < view p ∧ idle ≤ t' - view t' := by
  have hw : wake cfg h' it = .poll idle := by unfold wake; simp [hd, hn, hi]
  unfold Next at h; rw [hw] at h; simp only at h
  obtain ⟨p, hp, hg⟩ := h
  exact ⟨p, hp.ge, hg.ge, hp.seen, Gate.idle_ok hi hg⟩

/-- Neither interval nor idle: after an iteration that left the state finished the loop breaks (one-shot). -/
theorem one_shot (cfg : Cfg) (view : View) (h' : HState) (it : Iter) (t' : Int)
    (hn : cfg.interval = none) (hi : cfg.idle = none) (hd : h'.finished = true) :
    ¬ Next cfg view h' it t' := by
  have hw : wake cfg h' it = .stop := by unfold wake; simp [hd, hn, hi]
  unfold Next; rw [hw]; exact fun h => h

/-! ### non-vacuity: concrete instances meeting the hypotheses -/

section Examples

private def view0 : View := fun t => if t < 500 then 64 else 500   -- created at 64, edited at 500

private def cfgA : Cfg := { interval := some 128, sharp := false, idle := some 96, initialDelay := some 32, backoff := 64 }
private def cfgS : Cfg := { interval := some 128, sharp := true, idle := none, initialDelay := none, backoff := 64 }
private def cfgI : Cfg := { interval := none, sharp := false, idle := some 96, initialDelay := none, backoff := 64 }
private def pv0 : PView := fun t => some (view0 t)

-- first run: spawn 64, initial delay 32 → 96, but idle 96 after the reset at 64 → 160
example : First cfgA view0 64 160 := firstStartN_sound (extends_total _) (n := 8) (by decide)

-- a full sequence of four iterations: slow ok with a patch (3 s > interval 2 s), temporary(delay 40)
-- with a patch, ok (retry=1; 521 is within idle 96 of the edit at 500 → 596), ok — `interval_law` (n=0: 353 + 128 = 481),
-- `error_delay_law` (n=1), `no_overlap`
private def i1 : Iter := { start := 160, ended := 352, patched := 353, res := some .ok }
private def i2 : Iter := { start := 481, ended := 481, patched := 482, res := some (.temporary (some 40)) }
private def i3 : Iter := { start := 596, ended := 596, patched := 596, res := some .ok }
private def i4 : Iter := { start := 724, ended := 724, patched := 724, res := some .ok }
example : Sched cfgA view0 64 [i1, i2, i3, i4] := schedCheck_sound (extends_total _) (n := 8) (by decide)
example : classify cfgA (attemptOf (stateAt cfgA [i1, i2, i3, i4] 0)) .ok = .done := by decide
example : classify cfgA (attemptOf (stateAt cfgA [i1, i2, i3, i4] 1)) (.temporary (some 40)) = .retry (some 40) := by decide
example : attemptOf (stateAt cfgA [i1, i2, i3, i4] 2) = 1 ∧ attemptOf (stateAt cfgA [i1, i2, i3, i4] 3) = 0 := by decide

-- postponed by the edit at 500 (wake 417 + 128 = 545 < 500 + 96 = 596)
private def iP : Iter := { start := 416, ended := 416, patched := 417, res := some .ok }
example : Next cfgA view0 (step cfgA .fresh iP) iP 596 := nextStartN_sound (extends_total _) (n := 8) (by decide)

-- sharp grid: run of 3 s on a 2 s grid from 0 → next at 256 (k = 2); exactly one interval long → k = 2 too
private def s1 : Iter := { start := 0, ended := 192, patched := 193, res := some .ok }
private def s2 : Iter := { start := 256, ended := 384, patched := 384, res := some .ok }
private def s3 : Iter := { start := 512, ended := 512, patched := 512, res := some .ok }
example : Sched cfgS view0 0 [s1, s2, s3] := schedCheck_sound (extends_total _) (n := 8) (by decide)

-- a timer that fails for good (retries = 2: the second temporary error is final): the loop goes on
-- sleeping the interval, the function is never invoked again (`failed_is_last` with n = 2)
private def cfgR : Cfg := { cfgS with retries := some 2 }
private def f1 : Iter := { start := 0, ended := 0, patched := 0, res := some (.temporary (some 40)) }
private def f2 : Iter := { start := 40, ended := 40, patched := 41, res := some (.temporary (some 40)) }
private def f3 : Iter := { start := 168, ended := 168, patched := 168, res := none }
private def f4 : Iter := { start := 296, ended := 296, patched := 296, res := none }
example : Sched cfgR view0 0 [f1, f2, f3, f4] := schedCheck_sound (extends_total _) (n := 8) (by decide)
example : (stateAt cfgR [f1, f2, f3, f4] 2).failure = true := by decide
-- … and an iteration that claims to invoke the function after the failure is not a behaviour of the model
example : schedCheck cfgR pv0 8 0 [f1, f2, { f3 with res := some .ok }] = false := by decide
-- a one-shot timer that failed for good: the loop breaks
example : nextStartN { cfgI with idle := none } pv0 8 (step cfgI .fresh { f1 with res := some .permanent }) f1 = .ended := by decide

-- idle-only: ran at 200; polls at 200, 296, 392, 488, 584 (sees the edit of 500) → gate → 596
private def iI : Iter := { start := 200, ended := 200, patched := 200, res := some .ok }
example : Next cfgI view0 (step cfgI .fresh iI) iI 596 := nextStartN_sound (extends_total _) (n := 8) (by decide)

-- regression of the former finding C10-F1 (corpus/C10/F1.json): created at 64 (essence 0), recorded as handled
-- (66), edited to essence 1 at 512 and never recorded as handled, edited BACK to essence 0 at 864. The old
-- code kept `idle_reset_time` at 512 and ran at 896; now the flip-back is a reset: the view becomes 864 …
private def evsF : List Ev := [⟨64, 0, none⟩, ⟨66, 0, some 0⟩, ⟨512, 1, some 0⟩, ⟨864, 0, some 0⟩]
private def cfgF : Cfg := { interval := some 64, sharp := false, idle := some 256, initialDelay := none, backoff := 64 }
private def mkF (t : Int) : Iter := { start := t, ended := t, patched := t, res := some .ok }
example : viewOf 64 evsF 511 = 64 ∧ viewOf 64 evsF 863 = 512 ∧ viewOf 64 evsF 896 = 864 := by decide
example : essentialTimes none evsF = [64, 512, 864] := by decide
example : CreatedByFirstEvent 64 evsF := by intro e he; simp [evsF] at he; subst he; decide
-- … the run at 896 (32 ticks after the change) is no behaviour of the model any more, the next run is at 864 + 256
example : schedCheck cfgF (fun t => some (viewOf 64 evsF t)) 8 64 [mkF 320, mkF 384, mkF 448, mkF 768, mkF 832, mkF 896] = false := by
  decide
example : Sched cfgF (viewOf 64 evsF) 64 [mkF 320, mkF 384, mkF 448, mkF 768, mkF 832, mkF 1120] :=
  schedCheck_sound (extends_total _) (n := 8) (by decide)
-- … and that schedule meets the full clause (an instance of `idle_law_full`)
example : FullIdle 256 evsF [mkF 320, mkF 384, mkF 448, mkF 768, mkF 832, mkF 1120] :=
  idle_law_full cfgF 64 64 256 evsF _ rfl (by intro e he; simp [evsF] at he; subst he; decide)
    (schedCheck_sound (extends_total _) (n := 8) (by decide))

end Examples

end Kopf.C10
