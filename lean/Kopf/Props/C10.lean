/-
  C10 — timer schedule laws. Property theorems only (model: Kopf/Model/C10_Timer.lean).

  All theorems hold for EVERY configuration (interval / sharp / idle / initial_delay present or absent,
  backoff, errors mode, retries), every iteration record (any duration: `ended - start` shorter, equal or
  longer than the interval; any patch round trip `patched - ended ≥ 0`), every result script and every
  timing of object changes (`view : Int → Int` is an arbitrary function: what the loop reads of
  `memory.idle_reset_time` at each instant; in `idle_law_full` it is derived from an arbitrary event
  history). `Sched cfg view spawn its` = `its` is a prefix of the iteration sequence of one timer task;
  `stateAt cfg spawn its n` = the in-memory handler state with which iteration `n` is entered. The
  handler's `timeout`/`retries` limits are part of the model (`precheckFails`, `classify`). Whether an
  iteration invokes the function is determined by that state (`Iter.ok`), not assumed.

  What "one interval after the previous run ended" means in the code: every post-run sleep is entered
  after the post-run `patch_and_check` returned (`Iter.patched`), NOT when the function returned
  (`Iter.ended`). Non-sharp: next start = `patched + interval` (later only if the idle gate holds it).
  Sharp: the grid is counted from the run's `start`, and the next start is the first grid point
  STRICTLY after `patched` (a run whose patch ends exactly on a grid point skips that point).
  After a non-final failure the delay is counted from `ended` (`delayed = now + delay` is stamped by
  `with_outcomes` before the patch), so the next start is `max patched (ended + delay)`.
  The stopper is not modelled: it truncates a sequence (every loop is guarded by it, `stopperGuards`).
-/
import Kopf.Lemmas.C10_Timer
import Kopf.Lemmas.C10_Sleep
namespace Kopf.C10

/-! ### no overlap -/

/-- One step: the next iteration reaches the loop top, and starts, no earlier than the end of the
    previous one's post-run patch, hence not before the previous run's function returned. -/
theorem no_overlap_step (cfg : Cfg) (view : View) (h' : HState) (it : Iter) (top' t' : Int)
    (hwf : it.ended ≤ it.patched) (h : Next cfg view h' it top' t') : it.ended ≤ t' ∧ it.patched ≤ t' := by
  have := h.ge_patched
  omega

/-- A timer never overlaps with itself: in every sequence of a timer task, iteration `n+1` starts at or
    after the end of iteration `n` (function end and post-run patch end). -/
theorem no_overlap (cfg : Cfg) (view : View) (spawn : Int) (its : List Iter) (h : Sched cfg view spawn its)
    (n : Nat) (a b : Iter) (ha : its[n]? = some a) (hb : its[n + 1]? = some b) :
    a.start ≤ a.ended ∧ a.ended ≤ b.start ∧ a.patched ≤ b.start := by
  have hok := Sched.ok_at h n a ha
  have hn := (Sched.step_at h ha hb).1
  have := hn.ge_patched
  have := hok.1
  have := hok.2.1
  omega

/-! ### which iterations are runs: derived from the carried state -/

/-- As long as the timer has not failed for good, EVERY iteration invokes the function — or the handler's
    strict `timeout`/`retries` pre-check ends the series right there, without a call, and the state is
    failed from then on. The carried state is fresh (after a success) or a retrying one whose `delayed`
    instant has passed when the loop comes round. Invariant over the sequence. -/
theorem invoked_unless_failed (cfg : Cfg) (view : View) (spawn : Int) (its : List Iter) (h : Sched cfg view spawn its)
    (n : Nat) (a : Iter) (ha : its[n]? = some a) (hnf : (stateAt cfg spawn its n).failure = false) :
    a.runsOrExpires cfg (stateAt cfg spawn its n) ∧
    (a.res = none → (stateAt cfg spawn its (n + 1)).failure = true) := by
  have haw := Sched.awakened h n a ha hnf
  have hok := Sched.ok_at h n a ha
  have hsome := hok.2.2.1
  rw [haw, Bool.true_and] at hsome
  cases hp : precheckFails cfg ((stateAt cfg spawn its n).entry a.top a.start) a.start with
  | false =>
    rw [hp] at hsome
    refine ⟨Or.inl (by simpa using hsome), fun hnone => ?_⟩
    rw [hnone] at hsome; simp at hsome
  | true =>
    rw [hp] at hsome
    have hnone : a.res = none := by cases hr : a.res <;> simp [hr] at hsome ⊢
    refine ⟨Or.inr ⟨hnone, hp⟩, fun _ => ?_⟩
    rw [stateAt_succ ha]
    simp [step, hnone, haw, hp, HState.withOutcome]

/-- … and with no `timeout`, and `retries` unset or ≥ 1, the pre-checks never fire: every iteration of a
    timer that has not failed for good is a run. -/
theorem invoked_unless_failed_no_timeout (cfg : Cfg) (view : View) (spawn : Int) (its : List Iter)
    (h : Sched cfg view spawn its) (ht : cfg.timeout = none) (hr : cfg.retries ≠ some 0)
    (n : Nat) (a : Iter) (ha : its[n]? = some a) (hnf : (stateAt cfg spawn its n).failure = false) :
    a.res.isSome = true := by
  rcases (invoked_unless_failed cfg view spawn its h n a ha hnf).1 with h1 | ⟨_, hp⟩
  · exact h1
  · exfalso
    cases hN : cfg.retries with
    | none => simp [precheckFails, ht, hN] at hp
    | some N =>
      have hpos : 0 < N := by
        rcases Nat.eq_zero_or_pos N with h0 | h0
        · exact absurd (by rw [hN, h0]) hr
        · exact h0
      have hlt := Sched.retries_lt h hN hpos n a ha
      simp only [precheckFails, ht, hN, Bool.false_or, decide_eq_true_eq] at hp
      rw [entry_eq] at hp
      split at hp
      · simp [HState.fresh] at hp; omega
      · rename_i hc
        have hfin : (stateAt cfg spawn its n).finished = false := by
          cases hf : (stateAt cfg spawn its n).finished with
          | false => rfl
          | true => simp [hf, hnf] at hc
        have := hlt hfin
        omega

/-- docs/timers.rst: "For PermanentError, the timer stops forever and is not retried." Once an iteration
    leaves the state failed (PermanentError, an arbitrary error under errors=PERMANENT, retries
    exhausted, timeout reached), the state is kept at the top of the loop, nothing is awakened any more,
    and NO later iteration of the sequence invokes the function — derived from the state machine (`atTop`
    keeps a failed state, `awakened` is false for a finished one, `with_outcomes({})` changes nothing),
    for every configuration and every timing. Scope: ONE timer task (`Sched`). Across re-spawns within one
    operator process the code adds the id to `memory.forever_stopped` at the final failure (a6c10de;
    `marksForeverStopped`, translator-tied) and `spawn_daemons` excludes it: there is no later task; that
    layer is C09's/C11's model, here it is covered by the S-tie and the oracle only. -/
theorem failed_is_last (cfg : Cfg) (view : View) (spawn : Int) (its : List Iter) (h : Sched cfg view spawn its)
    (n : Nat) (hf : (stateAt cfg spawn its n).failure = true) :
    ∀ (m : Nat) (b : Iter), n ≤ m → its[m]? = some b →
      b.res = none ∧ (stateAt cfg spawn its (m + 1)) = stateAt cfg spawn its n := by
  intro m
  induction m with
  | zero =>
    intro b hnm hb
    have : n = 0 := by omega
    subst this
    have hok := Sched.ok_at h 0 b hb
    have hpos := stateAt_finished_pos cfg spawn its 0 (by simp [HState.finished, hf])
    obtain ⟨hst, hres⟩ := step_of_failure (cfg := cfg) hf hpos hok
    exact ⟨hres, by rw [stateAt_succ hb, hst]⟩
  | succ m ih =>
    intro b hnm hb
    have hstate : stateAt cfg spawn its (m + 1) = stateAt cfg spawn its n := by
      rcases Nat.lt_or_ge n (m + 1) with hlt | hge
      · have hm : m < its.length := by
          rcases Nat.lt_or_ge (m + 1) its.length with h' | h'
          · omega
          · rw [List.getElem?_eq_none h'] at hb; cases hb
        exact (ih its[m] (by omega) (List.getElem?_eq_getElem hm)).2
      · have : n = m + 1 := by omega
        rw [this]
    have hf' : (stateAt cfg spawn its (m + 1)).failure = true := by rw [hstate]; exact hf
    have hok := Sched.ok_at h (m + 1) b hb
    have hpos := stateAt_finished_pos cfg spawn its (m + 1) (by simp [HState.finished, hf'])
    obtain ⟨hst, hres⟩ := step_of_failure (cfg := cfg) hf' hpos hok
    exact ⟨hres, by rw [stateAt_succ hb, hst, hstate]⟩

/-- a run that fails for good leaves the state failed (the link from results to `failed_is_last`) -/
theorem failed_run_marks_state (cfg : Cfg) (spawn : Int) (its : List Iter) (n : Nat) (a : Iter) (r : Result)
    (ha : its[n]? = some a) (hr : a.res = some r)
    (hc : classify cfg (attemptOf (stateAt cfg spawn its n) a) (runtimeOf (stateAt cfg spawn its n) a) r = .failed) :
    (stateAt cfg spawn its (n + 1)).failure = true := by
  rw [stateAt_succ ha]
  unfold attemptOf runtimeOf at hc
  simp [step, hr, hc, HState.withOutcome]

/-! ### the handler's timeout -/

/-- `timeout=T`: an iteration of a not-yet-failed timer that starts `T` or more after the series' state
    was created invokes nothing and ends the series for good (`HandlerTimeoutError` from the strict
    pre-check) — "no attempt starts later than T". -/
theorem timeout_ends_series (cfg : Cfg) (view : View) (spawn : Int) (its : List Iter) (h : Sched cfg view spawn its)
    (n : Nat) (a : Iter) (T : Int) (ha : its[n]? = some a) (hnf : (stateAt cfg spawn its n).failure = false)
    (ht : cfg.timeout = some T) (hlate : T ≤ a.start - ((stateAt cfg spawn its n).entry a.top a.start).started) :
    a.res = none ∧ (stateAt cfg spawn its (n + 1)).failure = true := by
  have hp : precheckFails cfg ((stateAt cfg spawn its n).entry a.top a.start) a.start = true := by
    simp [precheckFails, ht, hlate]
  have hok := Sched.ok_at h n a ha
  have hsome := hok.2.2.1
  rw [hp] at hsome
  have hnone : a.res = none := by cases hr : a.res <;> simp [hr] at hsome ⊢
  exact ⟨hnone, (invoked_unless_failed cfg view spawn its h n a ha hnf).2 hnone⟩

/-- Since 9118944 the series' clock starts with its first attempt (`HState.atStart`: a state that has made
    no attempt is re-created after the idle gate): with a positive timeout the FIRST attempt of every
    series — the first iteration of a task, and every iteration after a success — is never refused by the
    timeout pre-check, however long the idle gate held it (formerly AUDIT_B2 §D-11 / C11-F3: with
    `idle ≥ timeout` the function was never invoked). -/
theorem first_attempt_not_timed_out (cfg : Cfg) (view : View) (spawn : Int) (its : List Iter) (h : Sched cfg view spawn its)
    (n : Nat) (a : Iter) (ha : its[n]? = some a) (hnf : (stateAt cfg spawn its n).failure = false)
    (hfirst : attemptOf (stateAt cfg spawn its n) a = 0)
    (ht : ∀ T, cfg.timeout = some T → 0 < T) (hr : cfg.retries ≠ some 0) : a.res.isSome = true := by
  rcases (invoked_unless_failed cfg view spawn its h n a ha hnf).1 with h1 | ⟨_, hp⟩
  · exact h1
  · exfalso
    unfold attemptOf at hfirst
    have hst : ((stateAt cfg spawn its n).entry a.top a.start).started = a.start := by
      rw [entry_eq] at hfirst ⊢
      split
      · rfl
      · rename_i hc
        rw [if_neg hc] at hfirst
        simp [hfirst] at hc
    simp only [precheckFails, hst, hfirst, Int.sub_self, Bool.or_eq_true] at hp
    rcases hp with hp | hp
    · cases hT : cfg.timeout with
      | none => simp [hT] at hp
      | some T => have := ht T hT; simp [hT] at hp; omega
    · cases hN : cfg.retries with
      | none => simp [hN] at hp
      | some N =>
        simp [hN] at hp
        exact hr (by rw [hN, hp])

/-! ### after a successful run: the interval -/

/-- the state a successful run (or an ignored error) leaves is finished and not failed -/
theorem success_marks_state (cfg : Cfg) (spawn : Int) (its : List Iter) (n : Nat) (a : Iter) (r : Result)
    (ha : its[n]? = some a) (hr : a.res = some r)
    (hc : classify cfg (attemptOf (stateAt cfg spawn its n) a) (runtimeOf (stateAt cfg spawn its n) a) r = .done) :
    (stateAt cfg spawn its (n + 1)).finished = true ∧ (stateAt cfg spawn its (n + 1)).failure = false := by
  rw [stateAt_succ ha]
  unfold attemptOf runtimeOf at hc
  simp [step, hr, hc, HState.withOutcome, HState.finished]

/-- One step, non-sharp timers: after an iteration that left the state finished, the loop is back at
    its top exactly `interval` after the post-run patch ended, and the next iteration starts there unless
    the idle gate postpones it. -/
theorem interval_law_step (cfg : Cfg) (view : View) (h' : HState) (it : Iter) (top' t' i : Int)
    (hi : cfg.interval = some i) (hpos : 0 < i) (hs : cfg.sharp = false) (hd : h'.finished = true)
    (hwf : it.ended ≤ it.patched) (h : Next cfg view h' it top' t') :
    top' = it.patched + i ∧ it.ended + i ≤ t' ∧ it.patched + i ≤ t' ∧
    (cfg.idle = none → t' = it.patched + i) ∧
    (∀ idle, cfg.idle = some idle →
        (idle ≤ (it.patched + i) - view (it.patched + i) → t' = it.patched + i) ∧
        (t' = it.patched + i ∨ ∃ u, it.patched + i ≤ u ∧ u < t' ∧ t' = view u + idle) ∧
        (∀ v, (∀ u, it.patched + i ≤ u → view u = v) → t' = max (it.patched + i) (v + idle))) := by
  have hw : wake cfg h' it = .at (it.patched + i) := by
    unfold wake; simp [hd, hi, hs, sleepUntil_pos hpos]
  unfold Next at h; rw [hw] at h; simp only at h
  obtain ⟨htop, h⟩ := h
  have hge := h.ge
  refine ⟨htop, by omega, hge, fun hn => Gate.no_idle hn h, fun idle hidle => ⟨?_, Gate.form hidle h, fun v hq => Gate.quiet hidle hq h⟩⟩
  intro hok
  unfold Gate at h; rw [hidle] at h
  cases h with
  | pass _ => rfl
  | wait hlt _ => omega

/-- After a successful run the next iteration IS a run (the function is invoked again — unless the
    handler's timeout/retries pre-check ends the series there), and it starts one interval after the end
    of the previous run's post-run patch unless idling postpones it:
    * never earlier than `patched + interval` (so never earlier than `ended + interval`);
    * exactly then when there is no `idle`, or when the idle time has already passed there;
    * if postponed, exactly `idle` after a reset read while waiting;
    * with no change after the wake-up (`view` stays `v`): exactly `max (patched + interval) (v + idle)`. -/
theorem interval_law (cfg : Cfg) (view : View) (spawn : Int) (its : List Iter) (h : Sched cfg view spawn its)
    (n : Nat) (a b : Iter) (r : Result) (i : Int) (ha : its[n]? = some a) (hb : its[n + 1]? = some b)
    (hr : a.res = some r)
    (hc : classify cfg (attemptOf (stateAt cfg spawn its n) a) (runtimeOf (stateAt cfg spawn its n) a) r = .done)
    (hi : cfg.interval = some i) (hpos : 0 < i) (hs : cfg.sharp = false) :
    b.runsOrExpires cfg (stateAt cfg spawn its (n + 1)) ∧
    b.top = a.patched + i ∧ a.ended + i ≤ b.start ∧ a.patched + i ≤ b.start ∧
    (cfg.idle = none → b.start = a.patched + i) ∧
    (∀ idle, cfg.idle = some idle →
        (idle ≤ (a.patched + i) - view (a.patched + i) → b.start = a.patched + i) ∧
        (b.start = a.patched + i ∨ ∃ u, a.patched + i ≤ u ∧ u < b.start ∧ b.start = view u + idle) ∧
        (∀ v, (∀ u, a.patched + i ≤ u → view u = v) → b.start = max (a.patched + i) (v + idle))) := by
  obtain ⟨hfin, hnf⟩ := success_marks_state cfg spawn its n a r ha hr hc
  have hok := Sched.ok_at h n a ha
  exact ⟨(invoked_unless_failed cfg view spawn its h (n + 1) b hb hnf).1,
    interval_law_step cfg view _ a b.top b.start i hi hpos hs hfin hok.2.1 (Sched.step_at h ha hb).1⟩

/-- One step, sharp timers: the loop is back at its top on the interval grid counted from the
    iteration's START: at `g = start + k·interval` with `k ≥ 1`, and `g` is the first grid point strictly
    after the end of the post-run patch (`g - interval ≤ patched < g`) — whatever the duration of the run
    (shorter, equal, longer than the interval: `k` counts the skipped grid points). -/
theorem sharp_grid_step (cfg : Cfg) (view : View) (h' : HState) (it : Iter) (top' t' i : Int)
    (hi : cfg.interval = some i) (hpos : 0 < i) (hs : cfg.sharp = true) (hd : h'.finished = true)
    (hwf : it.start ≤ it.patched) (h : Next cfg view h' it top' t') :
    ∃ k : Nat, 1 ≤ k ∧ it.patched < it.start + k * i ∧ it.start + k * i - i ≤ it.patched ∧
      top' = it.start + k * i ∧ Gate cfg view (it.start + k * i) t' ∧ it.start + k * i ≤ t' ∧
      (cfg.idle = none → t' = it.start + k * i) := by
  have hp : 0 ≤ it.patched - it.start := by omega
  have hlt := Int.emod_lt_of_pos (it.patched - it.start) hpos
  have hnn := Int.emod_nonneg (it.patched - it.start) (Int.ne_of_gt hpos)
  have hq := Int.ediv_nonneg hp (Int.le_of_lt hpos)
  have hdm := Int.emod_add_mul_ediv (it.patched - it.start) i
  have hw : wake cfg h' it = .at (it.patched + (i - (it.patched - it.start) % i)) := by
    have : 0 < i - (it.patched - it.start) % i := by omega
    unfold wake; simp [hd, hi, hs, sleepUntil_pos this]
  unfold Next at h; rw [hw] at h; simp only at h
  obtain ⟨htop, h⟩ := h
  refine ⟨((it.patched - it.start) / i).toNat + 1, by omega, ?_⟩
  have hk : (((it.patched - it.start) / i).toNat + 1 : Nat) * i = i * ((it.patched - it.start) / i) + i := by
    rw [Int.natCast_add, Int.toNat_of_nonneg hq, Int.add_mul, Int.mul_comm]; omega
  rw [hk]
  have hg : it.patched + (i - (it.patched - it.start) % i) = it.start + (i * ((it.patched - it.start) / i) + i) := by
    omega
  rw [hg] at h htop
  exact ⟨by omega, by omega, htop, h, h.ge, fun hn => Gate.no_idle hn h⟩

/-- After a successful run of a sharp timer the next iteration is a run (unless the timeout/retries
    pre-check ends the series) and starts on the interval grid counted from the previous run's start —
    the first grid point strictly after the end of its post-run patch — unless the idle gate postpones
    it (then it may leave the grid). -/
theorem sharp_grid (cfg : Cfg) (view : View) (spawn : Int) (its : List Iter) (h : Sched cfg view spawn its)
    (n : Nat) (a b : Iter) (r : Result) (i : Int) (ha : its[n]? = some a) (hb : its[n + 1]? = some b)
    (hr : a.res = some r)
    (hc : classify cfg (attemptOf (stateAt cfg spawn its n) a) (runtimeOf (stateAt cfg spawn its n) a) r = .done)
    (hi : cfg.interval = some i) (hpos : 0 < i) (hs : cfg.sharp = true) :
    b.runsOrExpires cfg (stateAt cfg spawn its (n + 1)) ∧
    ∃ k : Nat, 1 ≤ k ∧ a.patched < a.start + k * i ∧ a.start + k * i - i ≤ a.patched ∧
      b.top = a.start + k * i ∧ Gate cfg view (a.start + k * i) b.start ∧ a.start + k * i ≤ b.start ∧
      (cfg.idle = none → b.start = a.start + k * i) := by
  obtain ⟨hfin, hnf⟩ := success_marks_state cfg spawn its n a r ha hr hc
  have hok := Sched.ok_at h n a ha
  exact ⟨(invoked_unless_failed cfg view spawn its h (n + 1) b hb hnf).1,
    sharp_grid_step cfg view _ a b.top b.start i hi hpos hs hfin (by have := hok.1; have := hok.2.1; omega) (Sched.step_at h ha hb).1⟩

/-! ### after a failed run: the error's delay or the backoff -/

/-- One step: a retrying state with `delayed = D` brings the loop back to its top at `max patched D`. -/
theorem error_delay_step (cfg : Cfg) (view : View) (h' : HState) (it : Iter) (top' t' D : Int)
    (hf : h'.finished = false) (hd : h'.delayed = some D) (h : Next cfg view h' it top' t') :
    top' = max it.patched D ∧ Gate cfg view (max it.patched D) t' ∧ D ≤ t' ∧ it.patched ≤ t' ∧
    (cfg.idle = none → t' = max it.patched D) := by
  have hw : wake cfg h' it = .at (max it.patched D) := by
    unfold wake; simp [hf, sleep_delay h' it.patched D hd]
  unfold Next at h; rw [hw] at h; simp only at h
  obtain ⟨htop, h⟩ := h
  have := h.ge
  exact ⟨htop, h, by omega, by omega, fun hn => Gate.no_idle hn h⟩

/-- After a run that failed non-finally with delay `d` — `TemporaryError(delay=d)`, or an arbitrary
    exception under the default `errors` mode with `d = backoff` (that is what `classify` yields when
    neither the retries nor the timeout look-ahead makes the failure final) — the interval is not used:
    the next iteration is a run (a retry, `retry` kwarg + 1; unless the timeout pre-check ends the series)
    and starts at `max patched (ended + d)` — the delay counts from the function's end, the patch round
    trip is absorbed in it — unless the idle gate postpones it. -/
theorem error_delay_law (cfg : Cfg) (view : View) (spawn : Int) (its : List Iter) (h : Sched cfg view spawn its)
    (n : Nat) (a b : Iter) (r : Result) (d : Int) (ha : its[n]? = some a) (hb : its[n + 1]? = some b)
    (hr : a.res = some r)
    (hc : classify cfg (attemptOf (stateAt cfg spawn its n) a) (runtimeOf (stateAt cfg spawn its n) a) r = .retry (some d)) :
    b.runsOrExpires cfg (stateAt cfg spawn its (n + 1)) ∧
    attemptOf (stateAt cfg spawn its (n + 1)) b = attemptOf (stateAt cfg spawn its n) a + 1 ∧
    b.top = max a.patched (a.ended + d) ∧
    Gate cfg view (max a.patched (a.ended + d)) b.start ∧ a.ended + d ≤ b.start ∧ a.patched ≤ b.start ∧
    (cfg.idle = none → b.start = max a.patched (a.ended + d)) := by
  have hst : stateAt cfg spawn its (n + 1) =
      { ((stateAt cfg spawn its n).entry a.top a.start) with
        retries := ((stateAt cfg spawn its n).entry a.top a.start).retries + 1, success := false, failure := false,
        delayed := some (a.ended + d) } := by
    rw [stateAt_succ ha]; unfold attemptOf runtimeOf at hc; simp [step, hr, hc, HState.withOutcome]
  have hnext := (Sched.step_at h ha hb).1
  have hnf : (stateAt cfg spawn its (n + 1)).failure = false := by rw [hst]
  have hfin : (stateAt cfg spawn its (n + 1)).finished = false := by rw [hst]; simp [HState.finished]
  have hdl : (stateAt cfg spawn its (n + 1)).delayed = some (a.ended + d) := by rw [hst]
  refine ⟨(invoked_unless_failed cfg view spawn its h (n + 1) b hb hnf).1, ?_,
    error_delay_step cfg view _ a b.top b.start (a.ended + d) hfin hdl hnext⟩
  unfold attemptOf
  rw [entry_of_retrying hfin (by rw [hst]; simp), hst]

/-! ### the first run: the initial delay -/

/-- The first iteration of a (re)spawned timer task is not earlier than the spawn plus the initial
    delay; without `idle` it is exactly then. -/
theorem initial_delay_law (cfg : Cfg) (view : View) (spawn top' t' d : Int)
    (hd : cfg.initialDelay = some d) (h : First cfg view spawn top' t') :
    spawn + d ≤ t' ∧ spawn ≤ t' ∧ (cfg.idle = none → t' = max spawn (spawn + d)) := by
  obtain ⟨htop, h⟩ := h
  subst htop
  unfold initialWake at h; rw [hd] at h; simp only at h
  have := h.ge
  have := sleepUntil_ge_add spawn d
  have := sleepUntil_ge spawn d
  refine ⟨by omega, by omega, fun hn => ?_⟩
  rw [Gate.no_idle hn h, sleepUntil_max]

/-! ### idling -/

/-- No iteration starts within the idle time after the value of `idle_reset_time` it reads: for every
    iteration of every sequence, `start - view start ≥ idle` — `view` arbitrary. -/
theorem idle_law (cfg : Cfg) (view : View) (spawn idle : Int) (its : List Iter)
    (hi : cfg.idle = some idle) (h : Sched cfg view spawn its) :
    ∀ it ∈ its, idle ≤ it.start - view it.start := by
  intro it hit
  obtain ⟨n, hn, hget⟩ := List.getElem_of_mem hit
  have hb : its[n]? = some it := by rw [List.getElem?_eq_getElem hn, hget]
  rcases Sched.start_cases h n it hb with ⟨_, hf⟩ | ⟨m, a, _, _, hnext⟩
  · exact Gate.idle_ok hi hf.2
  · exact Next.idle_ok hi hnext

/-- The property's idle clause in FULL (`FullIdle`), UNGUARDED: with `idle_reset_time` derived from the
    history of processed events — for EVERY event history and every creation time of the memory — no
    run starts within the idle time after ANY essential change of the object that this operator process
    has processed by then. An essential change is an event whose essence differs from the previously
    processed one; for the first event of the memory, from the last-handled essence it carries (a new
    object, a change made while no operator ran, or nothing recorded) — a first sight of an unchanged,
    already handled object after a restart is not a change of the object, and there the timer waits
    `idle` from the creation of the memory (`memories.recall`, which is not later than the first event's
    processing). Changes are stamped when PROCESSED (`process_spawning_cause`, after indexing and
    `@kopf.on.event` handlers), i.e. later than they happen: the safe side. Scope: one memory = one
    operator process; changes made while no operator runs are not events, they surface as the first
    event of the next process (differing from last-handled ⇒ essential). -/
theorem idle_law_full (cfg : Cfg) (created spawn idle : Int) (evs : List Ev) (its : List Iter)
    (hi : cfg.idle = some idle) (h : Sched cfg (viewOf created evs) spawn its) : FullIdle idle evs its := by
  intro it hit _ c hc hle
  have := idle_law cfg (viewOf created evs) spawn idle its hi h it hit
  have := viewOf_ge_essential created evs it.start c hc hle
  omega

/-- The idle clause counted from the RECEIPT of a change (`FullIdleRecv`), UNGUARDED: no run starts within
    the idle time after the instant the operator detected an essential change (`Ev.recv`: right after
    `_detect_causes`, before any handler of the cycle runs) — for every event history, however long the
    `@kopf.on.event` handlers of the cycle take. Since f6dee42 `idle_reset_time` is stamped there as well
    as in `process_spawning_cause` (`stampSites`, translator-tied). Before, the clause was false (fixed
    finding C10-F2; the old counterexample is a regression example below and corpus/C10/F2.json). -/
theorem idle_law_recv (cfg : Cfg) (created spawn idle : Int) (evs : List Ev) (its : List Iter)
    (hi : cfg.idle = some idle) (h : Sched cfg (viewOf created evs) spawn its) : FullIdleRecv idle evs its := by
  intro it hit _ e he hle
  have := idle_law cfg (viewOf created evs) spawn idle its hi h it hit
  have := (viewOf_ge_essentialEvs created evs it.start e he).2 hle
  omega

/-- Idle-only timers (no interval): after an iteration that left the state finished, the next one needs
    a change newer than the iteration's start (read at one of the poll instants `patched, patched + idle, …`),
    and then the idle gate. -/
theorem idle_only_law (cfg : Cfg) (view : View) (h' : HState) (it : Iter) (top' t' idle : Int)
    (hn : cfg.interval = none) (hi : cfg.idle = some idle) (hd : h'.finished = true)
    (h : Next cfg view h' it top' t') :
    it.patched ≤ top' ∧ top' ≤ t' ∧ it.start < view top' ∧ idle ≤ t' - view t' := by
  have hw : wake cfg h' it = .poll idle := by unfold wake; simp [hd, hn, hi]
  unfold Next at h; rw [hw] at h; simp only at h
  obtain ⟨hp, hg⟩ := h
  exact ⟨hp.ge, hg.ge, hp.seen, Gate.idle_ok hi hg⟩

/-- Neither interval nor idle: after an iteration that left the state finished the loop breaks (one-shot). -/
theorem one_shot (cfg : Cfg) (view : View) (h' : HState) (it : Iter) (top' t' : Int)
    (hn : cfg.interval = none) (hi : cfg.idle = none) (hd : h'.finished = true) :
    ¬ Next cfg view h' it top' t' := by
  have hw : wake cfg h' it = .stop := by unfold wake; simp [hd, hn, hi]
  unfold Next; rw [hw]; exact fun h => h

/-! ### "unless idling postpones it": which events reset idling (fixed finding C10-F3) -/

/-- Every essential change resets idling (the direction the idle clause needs; `idle_law_full` is its
    sequence-level form). -/
theorem essential_resets (lastHandled seen : Option Nat) (new : Nat)
    (h : isEssential lastHandled seen new = true) : resetsIdle lastHandled seen new = true := by
  unfold isEssential at h
  cases seen with
  | none => rw [resetsIdle_none]; exact h
  | some s => rw [resetsIdle_some]; exact h

/-- UNGUARDED (since 14876bf): an event resets idling if and only if it is an essential change — its essence differs
    from the one of the previously processed event, or, on the first event of a memory, from the last-handled one (or
    nothing is stored). For every event, whatever is stored as last handled. -/
theorem reset_iff_essential (lastHandled seen : Option Nat) (new : Nat) :
    resetsIdle lastHandled seen new = isEssential lastHandled seen new := by
  cases seen with
  | none => rw [resetsIdle_none]; rfl
  | some s => rw [resetsIdle_some]; rfl

/-- The timer's own result patches never reset idling: an event that shows the essence of the previous event (a
    status-only change, a change of kopf's own annotations, a resync) is no reset — whatever is, or is not, stored as last
    handled, handled or not. (That a result patch leaves the essence as it was is the S-tie's: the real `cause.reset`
    of every event is compared with this function of the oracle's own essence.) -/
theorem same_essence_never_resets (lastHandled : Option Nat) (s : Nat) : resetsIdle lastHandled (some s) s = false := by
  rw [resetsIdle_some]; simp

/-- Regression of the fixed finding C10-F3 (the variant before 14876bf): an event that shows the SAME essence as the
    previous one reset idling when nothing was stored as last handled (operators with timers/daemons only), and when a
    change was not handled yet (last handled = 3, the object is at 7 and was at 7 before). Not any more. -/
theorem nonessential_reset_regression :
    (isEssential none (some 7) 7 = false ∧ resetsIdleLastHandled none (some 7) 7 = true ∧ resetsIdle none (some 7) 7 = false) ∧
    (isEssential (some 3) (some 7) 7 = false ∧ resetsIdleLastHandled (some 3) (some 7) 7 = true ∧
      resetsIdle (some 3) (some 7) 7 = false) := by decide

/-- UNGUARDED, for every event history: whatever a timer reads as `idle_reset_time` is the creation time of its memory
    or one of the two stamps of an ESSENTIAL change — so idling postpones a run only as far as an essential change (or
    the first sight of the object by this operator process) requires: the run after a success starts on time, or
    exactly `idle` after such an instant read while waiting. -/
theorem postponed_only_by_essential (cfg : Cfg) (created spawn : Int) (evs : List Ev) (its : List Iter)
    (h : Sched cfg (viewOf created evs) spawn its)
    (n : Nat) (a b : Iter) (r : Result) (i idle : Int) (ha : its[n]? = some a) (hb : its[n + 1]? = some b)
    (hr : a.res = some r)
    (hc : classify cfg (attemptOf (stateAt cfg spawn its n) a) (runtimeOf (stateAt cfg spawn its n) a) r = .done)
    (hi : cfg.interval = some i) (hpos : 0 < i) (hs : cfg.sharp = false) (hidle : cfg.idle = some idle) :
    b.start = a.patched + i ∨ b.start = created + idle ∨ ∃ c ∈ stampsOf (essentialEvs evs), b.start = c + idle := by
  rcases ((interval_law cfg _ spawn its h n a b r i ha hb hr hc hi hpos hs).2.2.2.2.2 idle hidle).2.1 with h0 | ⟨u, _, _, hu⟩
  · exact Or.inl h0
  · rcases viewOf_mem created evs u with hv | hv
    · exact Or.inr (Or.inl (by rw [hu, hv]))
    · exact Or.inr (Or.inr ⟨_, hv, hu⟩)

/-- … and every view is such an instant (the fact behind it, for every history and instant). -/
theorem view_is_created_or_essential (created : Int) (evs : List Ev) (t : Int) :
    viewOf created evs t = created ∨ viewOf created evs t ∈ stampsOf (essentialEvs evs) := viewOf_mem created evs t

/-- With no essential change after the first event `e0` (`Unchanged`: every later event shows `e0`'s essence —
    whatever is stored as last handled, so also in operators with timers only), the run after a success starts exactly
    at `max (patched + interval) (e0.t + idle)`: idling postpones it only as far as the last essential change
    requires; in particular the timer's own result patches (events of the same essence) do not. No guard on what is
    stored as last handled any more (formerly `interval_exact_when_settled_partial`). -/
theorem interval_exact_unless_changed (cfg : Cfg) (created spawn : Int) (e0 : Ev) (es : List Ev) (its : List Iter)
    (h : Sched cfg (viewOf created (e0 :: es)) spawn its)
    (n : Nat) (a b : Iter) (r : Result) (i idle : Int) (ha : its[n]? = some a) (hb : its[n + 1]? = some b)
    (hr : a.res = some r)
    (hc : classify cfg (attemptOf (stateAt cfg spawn its n) a) (runtimeOf (stateAt cfg spawn its n) a) r = .done)
    (hi : cfg.interval = some i) (hpos : 0 < i) (hs : cfg.sharp = false) (hidle : cfg.idle = some idle)
    (hset : Unchanged e0 es) (hr0 : isEssential e0.lastHandled none e0.ess = true)
    (h1 : created ≤ e0.recv) (h2 : e0.recv ≤ e0.t) (h3 : e0.t ≤ a.patched + i) :
    b.start = max (a.patched + i) (e0.t + idle) := by
  have hl := (interval_law cfg _ spawn its h n a b r i ha hb hr hc hi hpos hs).2.2.2.2.2 idle hidle
  refine hl.2.2 e0.t (fun u hu => ?_)
  rw [viewOf_unchanged created e0 es hset u]
  exact viewOf_single created e0 u (essential_resets _ _ _ hr0) h1 h2 (by omega)

/-- Regression of the fixed finding C10-F3 (corpus/C10/F3.json in small): interval 64, idle 128, an object created at 0
    and never changed (one essential change: `essentialTimes = [0]`); nothing is stored as last handled. The first run
    is at 128, its result is patched at 129, the patch's own event arrives at 130 (same essence). In the variant
    before 14876bf that event reset idling and the next run was at 258 = 130 + idle; now the view stays 0 and the next
    run is at `max (129 + 64) (0 + 128) = 193` — the old run sequence is no behaviour of the model any more. -/
theorem interval_postponed_by_own_patch_regression :
    ∃ (cfg : Cfg) (evs : List Ev) (a b b' : Iter),
      essentialTimes evs = [0] ∧ a.res = some .ok ∧ cfg.interval = some 64 ∧ cfg.idle = some 128 ∧ a.patched + 64 = 193 ∧
      Sched cfg (viewOfLastHandled 0 evs) 0 [a, b] ∧ b.start = 258 ∧
      Sched cfg (viewOf 0 evs) 0 [a, b'] ∧ b'.start = 193 ∧
      schedCheck cfg (fun t => some (viewOf 0 evs t)) 8 0 [a, b] = false := by
  refine ⟨{ interval := some 64, sharp := false, idle := some 128, initialDelay := none, backoff := 64 },
    [⟨0, 0, 1, none⟩, ⟨130, 130, 1, none⟩],
    { top := 0, start := 128, ended := 128, patched := 129, res := some .ok },
    { top := 193, start := 258, ended := 258, patched := 258, res := some .ok },
    { top := 193, start := 193, ended := 193, patched := 193, res := some .ok },
    by decide, rfl, rfl, rfl, rfl, ?_, rfl, ?_, rfl, by decide⟩
  · exact schedCheck_sound (extends_total _) (n := 8) (by decide)
  · exact schedCheck_sound (extends_total _) (n := 8) (by decide)

/-! ### how a timer task ends, and whether the timer can come back (fixed finding C10-F4) -/

/-- A task that was asked to stop (filters mismatch, pause) leaves the timer re-spawnable. -/
theorem stopped_stays_respawnable : respawnable (foreverAfter false .stopped) = true := by decide

/-- Since b8b3089 a failed post-run patch (an API error beyond the request's own retries) does NOT end the timer task:
    the post-run branch chain is entered as after a delivered patch, and the undelivered patch — everything that was
    handed to `patch_and_check`, this run's result included — is what the next iteration starts with. -/
theorem failed_patch_keeps_timer (patch remaining : List Nat) :
    exitAfterPatch onPatchError .raised = none ∧ carriedPatch onPatchError patch remaining .raised = patch ∧
    carriedPatch onPatchError patch remaining .delivered = remaining := ⟨rfl, rfl, rfl⟩

/-- … and it keeps the timer ON SCHEDULE: whichever post-run patches fail, the run sequences of the task are exactly
    the `Sched` ones — every law above (`no_overlap`, `interval_law`, `sharp_grid`, `error_delay_law`, `idle_law_full`, …)
    holds for the iteration after a failed patch too, with `patched` = the instant the patch gave up. -/
theorem failed_patch_keeps_schedule (cfg : Cfg) (view : View) (spawn : Int) (its : List Iter) (raisedAt : Nat → Bool) :
    SchedUnder onPatchError cfg view spawn its raisedAt ↔ Sched cfg view spawn its := by
  refine ⟨fun h => h.1, fun h => ⟨h, fun n _ => ?_⟩⟩
  cases raisedAt n <;> rfl

/-- Regression of the fixed finding C10-F4 (the variant before b8b3089, `propagate`): an iteration whose post-run patch
    raised was the last of its task — after a successful run no next run — and `_runner` recorded the handler as
    stopped for ever, as it still does for a one-shot timer that has returned (it cannot tell the two from each other:
    `stopper.reason is None`): never spawned again in this operator process. -/
theorem raised_is_never_respawned_regression (already : Bool) (cfg : Cfg) (view : View) (spawn : Int) (its : List Iter)
    (raisedAt : Nat → Bool) (n : Nat) (hr : raisedAt n = true)
    (h : SchedUnder .propagate cfg view spawn its raisedAt) :
    its.length ≤ n + 1 ∧ exitAfterPatch .propagate .raised = some .raised ∧
    respawnable (foreverAfter already .raised) = false ∧ respawnable (foreverAfter already .returned) = false := by
  refine ⟨?_, rfl, by cases already <;> decide, by cases already <;> decide⟩
  rcases Nat.lt_or_ge (n + 1) its.length with hlt | hge
  · have := h.2 n hlt
    rw [hr] at this
    simp [exitAfterPatch] at this
  · exact hge

/-! ### non-vacuity: concrete instances meeting the hypotheses -/

section Examples

private def view0 : View := fun t => if t < 500 then 64 else 500   -- created at 64, edited at 500

private def cfgA : Cfg := { interval := some 128, sharp := false, idle := some 96, initialDelay := some 32, backoff := 64 }
private def cfgS : Cfg := { interval := some 128, sharp := true, idle := none, initialDelay := none, backoff := 64 }
private def cfgI : Cfg := { interval := none, sharp := false, idle := some 96, initialDelay := none, backoff := 64 }
private def pv0 : PView := fun t => some (view0 t)

-- first run: spawn 64, initial delay 32 → loop top at 96, but idle 96 after the reset at 64 → start 160
example : First cfgA view0 64 96 160 := firstStartN_sound (extends_total _) (n := 8) (by decide)

-- a full sequence of four iterations: slow ok with a patch (3 s > interval 2 s), temporary(delay 40)
-- with a patch, ok (retry=1; the top at 521 is within idle 96 of the edit at 500 → 596), ok —
-- `interval_law` (n=0: 353 + 128 = 481), `error_delay_law` (n=1), `no_overlap`
private def i1 : Iter := { top := 96, start := 160, ended := 352, patched := 353, res := some .ok }
private def i2 : Iter := { top := 481, start := 481, ended := 481, patched := 482, res := some (.temporary (some 40)) }
private def i3 : Iter := { top := 521, start := 596, ended := 596, patched := 596, res := some .ok }
private def i4 : Iter := { top := 724, start := 724, ended := 724, patched := 724, res := some .ok }
private def itsA := [i1, i2, i3, i4]
example : Sched cfgA view0 64 itsA := schedCheck_sound (extends_total _) (n := 8) (by decide)
example : classify cfgA (attemptOf (stateAt cfgA 64 itsA 0) i1) (runtimeOf (stateAt cfgA 64 itsA 0) i1) .ok = .done := by decide
example : classify cfgA (attemptOf (stateAt cfgA 64 itsA 1) i2) (runtimeOf (stateAt cfgA 64 itsA 1) i2) (.temporary (some 40))
    = .retry (some 40) := by decide
example : attemptOf (stateAt cfgA 64 itsA 2) i3 = 1 ∧ attemptOf (stateAt cfgA 64 itsA 3) i4 = 0 := by decide

-- postponed by the edit at 500 (wake 417 + 128 = 545 < 500 + 96 = 596)
private def iP : Iter := { top := 416, start := 416, ended := 416, patched := 417, res := some .ok }
example : Next cfgA view0 (step cfgA (.fresh 0) iP) iP 545 596 := nextStartN_sound (extends_total _) (n := 8) (by decide)

-- sharp grid: run of 3 s on a 2 s grid from 0 → next at 256 (k = 2); exactly one interval long → k = 2 too
private def s1 : Iter := { top := 0, start := 0, ended := 192, patched := 193, res := some .ok }
private def s2 : Iter := { top := 256, start := 256, ended := 384, patched := 384, res := some .ok }
private def s3 : Iter := { top := 512, start := 512, ended := 512, patched := 512, res := some .ok }
example : Sched cfgS view0 0 [s1, s2, s3] := schedCheck_sound (extends_total _) (n := 8) (by decide)

-- a timer that fails for good (retries = 2: the second temporary error is final): the loop goes on
-- sleeping the interval, the function is never invoked again (`failed_is_last` with n = 2)
private def cfgR : Cfg := { cfgS with retries := some 2 }
private def f1 : Iter := { top := 0, start := 0, ended := 0, patched := 0, res := some (.temporary (some 40)) }
private def f2 : Iter := { top := 40, start := 40, ended := 40, patched := 41, res := some (.temporary (some 40)) }
private def f3 : Iter := { top := 168, start := 168, ended := 168, patched := 168, res := none }
private def f4 : Iter := { top := 296, start := 296, ended := 296, patched := 296, res := none }
example : Sched cfgR view0 0 [f1, f2, f3, f4] := schedCheck_sound (extends_total _) (n := 8) (by decide)
example : (stateAt cfgR 0 [f1, f2, f3, f4] 2).failure = true := by decide
-- … and an iteration that claims to invoke the function after the failure is not a behaviour of the model
example : schedCheck cfgR pv0 8 0 [f1, f2, { f3 with res := some .ok }] = false := by decide
-- a one-shot timer that failed for good: the loop breaks
example : nextStartN { cfgI with idle := none } pv0 8 (step cfgI (.fresh 0) { f1 with res := some .permanent }) f1 = .ended := by decide

-- timeout = 1 s, idle = 2 s on an object created at the spawn (t = 64): the gate holds the first iteration until
-- 192, 128 ticks after the loop top — before 9118944 a `HandlerTimeoutError` before the first call (never invoked);
-- now the clock starts at 192 and the function runs (`first_attempt_not_timed_out`), also after each success
private def cfgT : Cfg := { interval := some 64, sharp := false, idle := some 128, initialDelay := none, backoff := 64, timeout := some 64 }
private def t1 : Iter := { top := 64, start := 192, ended := 192, patched := 192, res := some .ok }
private def t2 : Iter := { top := 256, start := 256, ended := 256, patched := 256, res := some .ok }
example : Sched cfgT view0 64 [t1, t2] := schedCheck_sound (extends_total _) (n := 8) (by decide)
example : schedCheck cfgT pv0 8 64 [{ t1 with res := none }] = false := by decide
-- a retry series does time out: temporary errors every 40 ticks, timeout 64: the third attempt would start at 80 ≥ 64
-- after the first (look-ahead makes the second failure final: 40 + 40 ≥ 64), `timeout_ends_series` / `classify`
private def cfgU : Cfg := { cfgS with timeout := some 64 }
private def u1 : Iter := { top := 0, start := 0, ended := 0, patched := 0, res := some (.temporary (some 40)) }
private def u2 : Iter := { top := 40, start := 40, ended := 40, patched := 40, res := some (.temporary (some 40)) }
private def u3 : Iter := { top := 168, start := 168, ended := 168, patched := 168, res := none }
example : Sched cfgU view0 0 [u1, u2, u3] := schedCheck_sound (extends_total _) (n := 8) (by decide)
example : (stateAt cfgU 0 [u1, u2, u3] 2).failure = true := by decide
-- look-ahead: a temporary error whose delay would cross the timeout is final
example : classify { cfgA with timeout := some 100 } 0 70 (.temporary (some 40)) = .failed ∧
          classify { cfgA with timeout := some 100 } 0 50 (.temporary (some 40)) = .retry (some 40) := by decide

-- idle-only: ran at 200; polls at 200, 296, 392, 488, 584 (sees the edit of 500) → gate → 596
private def iI : Iter := { top := 200, start := 200, ended := 200, patched := 200, res := some .ok }
example : Next cfgI view0 (step cfgI (.fresh 0) iI) iI 584 596 := nextStartN_sound (extends_total _) (n := 8) (by decide)

-- regression of the former finding C10-F1 (corpus/C10/F1.json): created at 64 (essence 0), recorded as handled
-- (66), edited to essence 1 at 512 and never recorded as handled, edited BACK to essence 0 at 864. The old
-- code kept `idle_reset_time` at 512 and ran at 896; now the flip-back is a reset: the view becomes 864 …
private def evsF : List Ev := [⟨64, 64, 0, none⟩, ⟨66, 66, 0, some 0⟩, ⟨512, 512, 1, some 0⟩, ⟨864, 864, 0, some 0⟩]
private def cfgF : Cfg := { interval := some 64, sharp := false, idle := some 256, initialDelay := none, backoff := 64 }
private def mkF (top t : Int) : Iter := { top := top, start := t, ended := t, patched := t, res := some .ok }
example : viewOf 64 evsF 511 = 64 ∧ viewOf 64 evsF 863 = 512 ∧ viewOf 64 evsF 896 = 864 := by decide
example : essentialTimes evsF = [64, 512, 864] := by decide
-- … the run at 896 (32 ticks after the change) is no behaviour of the model any more, the next run is at 864 + 256
example : schedCheck cfgF (fun t => some (viewOf 64 evsF t)) 8 64
    [mkF 64 320, mkF 384 384, mkF 448 448, mkF 512 768, mkF 832 832, mkF 896 896] = false := by decide
private def itsF := [mkF 64 320, mkF 384 384, mkF 448 448, mkF 512 768, mkF 832 832, mkF 896 1120]
example : Sched cfgF (viewOf 64 evsF) 64 itsF := schedCheck_sound (extends_total _) (n := 8) (by decide)
-- … and that schedule meets the full clause (an instance of `idle_law_full`)
example : FullIdle 256 evsF itsF :=
  idle_law_full cfgF 64 64 256 evsF _ rfl (schedCheck_sound (extends_total _) (n := 8) (by decide))
-- restart on an already handled, unchanged object (AUDIT_A2): the memory is created at 1408 by `recall`, a slow
-- on.event handler delays the first event's processing to 1536, it carries last-handled = its essence: no
-- essential change, no reset; the timer (idle 256) runs at 1408 + 256 — `FullIdle` holds, nothing changed
private def evsR : List Ev := [⟨1408, 1536, 0, some 0⟩]
example : essentialTimes evsR = [] := by decide
example : Sched cfgF (viewOf 1408 evsR) 1408 [mkF 1408 1664] := schedCheck_sound (extends_total _) (n := 8) (by decide)
-- … whereas after a change made while the operator was down (last-handled 0, essence 1) the first event resets
example : essentialTimes [⟨1408, 1536, 1, some 0⟩] = [1536] ∧ viewOf 1408 [⟨1408, 1536, 1, some 0⟩] 1700 = 1536 := by decide

-- regression of the fixed finding C10-F2 (corpus/C10/F2.json): timer interval 1 s, idle 4 s; an edit is detected at
-- 640 but a slow on.event handler keeps the cycle from `process_spawning_cause` until 768. The old code stamped only at
-- 768 and the timer ran at 640 and 704; now the first stamp is at 640: those runs are no behaviour of the model …
private def evsG : List Ev := [⟨64, 64, 0, none⟩, ⟨66, 66, 0, some 0⟩, ⟨640, 768, 1, some 0⟩]
example : viewOf 64 evsG 639 = 64 ∧ viewOf 64 evsG 640 = 640 ∧ viewOf 64 evsG 704 = 640 ∧ viewOf 64 evsG 768 = 768 := by decide
example : schedCheck cfgF (fun t => some (viewOf 64 evsG t)) 8 64
    [mkF 64 320, mkF 384 384, mkF 448 448, mkF 512 512, mkF 576 576, mkF 640 640, mkF 704 704] = false := by decide
-- … the timer waits `idle` after the later stamp (768 + 256), and that schedule meets the clause counted from receipt
private def itsG := [mkF 64 320, mkF 384 384, mkF 448 448, mkF 512 512, mkF 576 576, mkF 640 1024]
example : Sched cfgF (viewOf 64 evsG) 64 itsG := schedCheck_sound (extends_total _) (n := 8) (by decide)
example : FullIdleRecv 256 evsG itsG :=
  idle_law_recv cfgF 64 64 256 evsG _ rfl (schedCheck_sound (extends_total _) (n := 8) (by decide))

-- fixed finding C10-F3 in small, a timer-only operator (nothing is ever stored as last handled): created at 0, the
-- results of the runs are patched at 129, 194, 259 and their events (same essence) arrive one tick later. None of them
-- is a reset (`same_essence_never_resets`): the view stays 0, the period is the interval (64), not the idle time (128) …
private def cfgO : Cfg := { interval := some 64, sharp := false, idle := some 128, initialDelay := none, backoff := 64 }
private def e0O : Ev := ⟨0, 0, 1, none⟩
private def esO : List Ev := [⟨130, 130, 1, none⟩, ⟨195, 195, 1, none⟩, ⟨260, 260, 1, none⟩]
private def mkO (top t : Int) : Iter := { top := top, start := t, ended := t, patched := t + 1, res := some .ok }
private def itsO := [mkO 0 128, mkO 193 193, mkO 258 258]
private theorem unchangedO : Unchanged e0O esO := by
  intro e he; simp [esO] at he; rcases he with rfl | rfl | rfl <;> rfl
example : isEssential e0O.lastHandled none e0O.ess = true := by decide
example : Sched cfgO (viewOf 0 (e0O :: esO)) 0 itsO := schedCheck_sound (extends_total _) (n := 8) (by decide)
-- … an instance of `interval_exact_unless_changed` (n = 0: 129 + 64 = 193 = max 193 (0 + 128)) and of `postponed_only_by_essential`
example : (mkO 193 193).start = max ((mkO 0 128).patched + 64) (e0O.t + 128) :=
  interval_exact_unless_changed cfgO 0 0 e0O esO itsO (schedCheck_sound (extends_total _) (n := 8) (by decide))
    0 (mkO 0 128) (mkO 193 193) .ok 64 128 rfl rfl rfl (by decide) rfl (by decide) rfl rfl unchangedO (by decide) (by decide) (by decide) (by decide)
-- … whereas a real change (essence 2 at 200) does postpone: `essentialEvs` has it, the view follows it
example : essentialTimes (e0O :: [⟨130, 130, 1, none⟩, ⟨200, 200, 2, none⟩]) = [0, 200] ∧
    viewOf 0 (e0O :: [⟨130, 130, 1, none⟩, ⟨200, 200, 2, none⟩]) 258 = 200 := by decide

-- fixed finding C10-F4 in small (corpus/C10/F4.json): interval 64, the post-run patch of the second run fails after 4
-- attempts (entered at 64, gives up at 320): the third run starts one interval after that — a `Sched` as any other,
-- under the code's policy whatever `raisedAt` says; under `propagate` the same sequence is not a behaviour
private def cfgK : Cfg := { interval := some 64, sharp := false, idle := none, initialDelay := none, backoff := 64 }
private def itsK : List Iter := [{ top := 0, start := 0, ended := 0, patched := 0, res := some .ok },
  { top := 64, start := 64, ended := 64, patched := 320, res := some .ok }, { top := 384, start := 384, ended := 384, patched := 385, res := some .ok }]
example : SchedUnder onPatchError cfgK view0 0 itsK (fun n => n == 1) :=
  (failed_patch_keeps_schedule cfgK view0 0 itsK _).2 (schedCheck_sound (extends_total _) (n := 8) (by decide))
example : ¬ SchedUnder .propagate cfgK view0 0 itsK (fun n => n == 1) := fun h => by
  have := (raised_is_never_respawned_regression false cfgK view0 0 itsK (fun n => n == 1) 1 rfl h).1
  simp [itsK] at this

end Examples

/-! ### The sleep under every wait of the loop (`aiotime.sleep`): `_timer` ignores its result, so the schedule laws above
    (stated with `sleepUntil`) hold only if an un-woken sleep lasts the WHOLE delay, however long it is. -/

/-- A sleep nobody wakes before its deadline returns exactly at `sleepUntil now d` — for EVERY delay, of any magnitude —
    and reports "slept in full" (`None`). This is what licenses `sleepUntil` in `post`/`Sched`. -/
theorem sleep_undisturbed_is_sleepUntil (now d : Int) (wake : Option Int)
    (h : ∀ w, wake = some w → now + d ≤ w) :
    sleep now d wake = ⟨sleepUntil now d, none⟩ := by
  rw [sleep_unfold]; unfold sleepUntil
  by_cases hd : d ≤ 0
  · simp [hd]
  · cases wake with
    | none => simp [hd]
    | some w => have := h w rfl; have hw : ¬ w < now + d := by omega
                simp [hd, hw]

/-- Only the wakeup event (the stopper) ends a sleep early: a return before `now + d` means the event was set before. -/
theorem sleep_early_only_when_woken (now d : Int) (wake : Option Int)
    (h : (sleep now d wake).ret < sleepUntil now d) : ∃ w, wake = some w ∧ w < now + d := by
  rw [sleep_unfold] at h; unfold sleepUntil at h
  by_cases hd : d ≤ 0
  · simp [hd] at h
  · cases wake with
    | none => simp [hd] at h
    | some w => by_cases hw : w < now + d
                · exact ⟨w, rfl, hw⟩
                · simp [hd, hw] at h

/-- The result says which: `None` iff the sleep was not cut short (so a caller MAY ignore it only when nothing but its own
    stopper can cut it short — `_timer` re-checks the stopper at the top of the loop). -/
theorem sleep_left_none_iff_full (now d : Int) (wake : Option Int) :
    (sleep now d wake).left = none ↔ (sleep now d wake).ret = sleepUntil now d := by
  rw [sleep_unfold]; unfold sleepUntil
  by_cases hd : d ≤ 0
  · simp [hd]
  · cases wake with
    | none => simp [hd]
    | some w => by_cases hw : w < now + d
                · simp only [hd, hw, if_true, if_false]; constructor
                  · intro h; cases h
                  · intro h
                    have h' : max now w = now + d := h
                    omega
                · simp [hd, hw]

/-- The changed variant (seed C10h and every neighbour: ANY finite cap on one uninterrupted wait): for every cap there
    is a delay — every delay beyond the cap — whose un-woken sleep returns early with a number, which the loop takes
    for a completed sleep: the next run starts before `sleepUntil`, i.e. before end + interval / the grid point / the
    initial delay. -/
theorem capped_sleep_witness (cap now d : Int) (hc : 0 < cap) (hd : cap < d) :
    (sleepCapped (some cap) now d none).ret = now + cap ∧
    (sleepCapped (some cap) now d none).ret < sleepUntil now d ∧
    (sleepCapped (some cap) now d none).left = some (d - cap) := by
  unfold sleepCapped sleepUntil
  have h1 : ¬ d ≤ 0 := by omega
  have h2 : min d cap = cap := by omega
  have h3 : ¬ cap ≥ d := by omega
  have h4 : max 0 (d - cap) = d - cap := by omega
  simp [h1, h2, h3, h4]; omega

-- non-vacuity: a two-day sleep (1 tick = 1/64 s) nobody wakes lasts two days; capped at a day it ends a day early
example : sleep 64 (2 * 86400 * 64) none = ⟨64 + 2 * 86400 * 64, none⟩ := by decide
example : sleep 64 (2 * 86400 * 64) (some (64 + 2 * 86400 * 64)) = ⟨sleepUntil 64 (2 * 86400 * 64), none⟩ :=
  sleep_undisturbed_is_sleepUntil _ _ _ (by intro w h; cases h; decide)
example : (sleepCapped (some (86400 * 64)) 64 (2 * 86400 * 64) none) = ⟨64 + 86400 * 64, some (86400 * 64)⟩ := by decide
example : (sleep 0 128 (some 64)) = ⟨64, some 64⟩ := by decide


end Kopf.C10
