/-
  C04 — property theorems, third file: what a processing cycle DECIDES from the two essences (white-box
  hunt: the cause, which field handlers are called, whether the last-handled state is refreshed) — the
  clauses "handling can never trigger itself" and "any other change does count" one level above the diff.

  `detect` / `storeGuard` / `afterCycle` / `fieldChanged` mirror causes.detect_changing_cause,
  processing.process_changing_cause and registries._matches_field_changes (Model/C04_Cycle.lean); they
  are tied to the real cycle by the `life` cases of the harness (the handlers called, the state stored).
-/
import Kopf.Props.C04
import Kopf.Lemmas.C04_Cycle
namespace Kopf.C04
open Kopf Kopf.J

/-- a NOOP event stores nothing, and stays a NOOP. -/
theorem noop_is_stable (old : Option J) (new : J) (h : detect old new = .noop) :
    afterCycle old new = old ∧ detect (afterCycle old new) new = .noop := by
  have : afterCycle old new = old := by simp [afterCycle, h]
  exact ⟨this, by rw [this]; exact h⟩

/-- **a creation settles**: once the creation handlers are done the state is stored, and the event that
    the store itself causes (the same essence again) is a NOOP — for every well-formed essence. -/
theorem creation_settles (new : J) (h : J.WF new) :
    afterCycle none new = some new ∧ detect (afterCycle none new) new = .noop := by
  have h1 : afterCycle none new = some new := by simp [afterCycle, detect, storeGuard]
  refine ⟨h1, ?_⟩
  rw [h1]
  simp [detect, diff_self_empty new [] h]

/-- whenever the guard of `process_changing_cause` lets the store through, the next event is a NOOP. -/
theorem settled_after_store (old : Option J) (new : J) (h : J.WF new) (hg : storeGuard old new = true) :
    detect (afterCycle old new) new = .noop := by
  have hself : detect (some new) new = .noop := by simp [detect, diff_self_empty new [] h]
  cases hd : detect old new with
  | noop => exact (noop_is_stable old new hd).2
  | create =>
    have ha : afterCycle old new = some new := by simp only [afterCycle, hd, hg]; rfl
    rw [ha]; exact hself
  | update =>
    have ha : afterCycle old new = some new := by simp only [afterCycle, hd, hg]; rfl
    rw [ha]; exact hself

/-- **an update settles** — partial. Full statement (FALSE of the code, see `stale_last_handled_witness`):
      ∀ old new, WF old → WF new → detect (afterCycle (some old) new) new = .noop.
    Proved under `noBool old ∧ noBool new` (a guard broader than the gap, which is a value changing
    between a boolean and the number Python equates with it): the guard `cause.old != cause.new` is
    Python's `!=`, while the cause was detected with `diffs._same`. -/
theorem update_settles_partial (old new : J) (hn : J.WF new) (hbo : noBool old = true) (hbn : noBool new = true) :
    detect (afterCycle (some old) new) new = .noop := by
  cases hd : detect (some old) new with
  | noop => exact (noop_is_stable (some old) new hd).2
  | create =>
    simp only [detect] at hd
    split at hd <;> cases hd
  | update =>
    refine settled_after_store (some old) new hn ?_
    have hne : diff old new [] ≠ [] := by
      intro he
      simp [detect, he] at hd
    have hs := same_false_of_diff_ne hne
    simp [storeGuard, pyEq_eq_same old hbo new hbn, hs]

example : noBool (.obj [("spec", .obj [("n", .num 1), ("l", .arr [.str "x", .null])])]) = true := by decide

/-- C04-F12 (a): `spec.flag: 1 → true` is an UPDATE, its handlers run, the guard `old != new` is false
    (`1 == True`), the state is NOT refreshed: the next event — any event — is the same UPDATE again. -/
def flagOne : J := .obj [("spec", .obj [("flag", .num 1)])]
def flagTrue : J := .obj [("spec", .obj [("flag", .bool true)])]

theorem stale_last_handled_witness :
    detect (some flagOne) flagTrue = .update ∧ afterCycle (some flagOne) flagTrue = some flagOne
      ∧ detect (afterCycle (some flagOne) flagTrue) flagTrue = .update := by
  refine ⟨by decide, by rfl, by decide⟩

/-- **a field handler whose field changed is selected** — partial. Full statement (FALSE of the code, see
    `field_handler_not_selected_witness`): reduce (diff old new []) f ≠ [] → fieldChanged old new f = true.
    Proved for fields whose old and new values hold no boolean. (`reduce (diff old new []) f` is the `diff`
    kwarg the handler would get: `reduce_exact`.) -/
theorem field_handler_selected_partial (old new : J) (f : Path) (ho : J.WF old) (hn : J.WF new)
    (hbo : noBool (resolveD old f) = true) (hbn : noBool (resolveD new f) = true)
    (h : reduce (diff old new []) f ≠ []) : fieldChanged old new f = true := by
  rw [reduce_exact old new f ho hn] at h
  have hs := same_false_of_diff_ne h
  unfold fieldChanged
  cases hro : resolve? old f with
  | none =>
    cases hrn : resolve? new f with
    | none =>
      simp [resolveD, hro, hrn] at h
      exact absurd (diff_of_pyEq (a := .null) (b := .null) [] (by simp [same])) h
    | some y => rfl
  | some x =>
    cases hrn : resolve? new f with
    | none => rfl
    | some y =>
      simp only [resolveD, hro, hrn, Option.getD] at hs hbo hbn
      simp [pyEq_eq_same x hbo y hbn, hs]

/-- the other direction, without any guard: a field whose value is JSON-equal on both sides (or absent on
    both) never selects its handler — Python's `==` is coarser than JSON equality, never finer. -/
theorem unchanged_field_not_selected (old new : J) (f : Path)
    (h : match resolve? old f, resolve? new f with
         | none, none => True
         | some x, some y => same x y = true
         | _, _ => False) : fieldChanged old new f = false := by
  unfold fieldChanged
  cases hro : resolve? old f with
  | none => cases hrn : resolve? new f with
    | none => rfl
    | some y => simp [hro, hrn] at h
  | some x => cases hrn : resolve? new f with
    | none => simp [hro, hrn] at h
    | some y =>
      simp only [hro, hrn] at h
      simp [pyEq_of_same x y h]

/-- C04-F12 (b): the handler on exactly the field that changed `1 → true` is not selected, although the
    diff narrowed to its field is not empty. -/
theorem field_handler_not_selected_witness :
    (reduce (diff flagOne flagTrue []) ["spec", "flag"]).length = 1
      ∧ fieldChanged flagOne flagTrue ["spec", "flag"] = false
      ∧ selected flagOne flagTrue ["spec", "flag"] = false := by
  refine ⟨by decide, by decide, by decide⟩

example : fieldChanged (.obj [("spec", .obj [("n", .num 1)])]) (.obj [("spec", .obj [("n", .num 2)])]) ["spec", "n"] = true := by
  decide
example : fieldChanged (.obj [("spec", .obj [])]) (.obj [("spec", .obj [("n", .num 0)])]) ["spec", "n"] = true := by decide

end Kopf.C04
