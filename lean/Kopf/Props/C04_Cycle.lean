/-
  C04 — property theorems, third file: what a processing cycle DECIDES from the two essences (white-box
  hunt: the cause, which field handlers are called, whether the last-handled state is refreshed) — the
  clauses "handling can never trigger itself" and "any other change does count" one level above the diff.

  `detect` / `storeGuard` / `afterCycle` / `fieldChanged` mirror causes.detect_changing_cause,
  processing.process_changing_cause and registries._matches_field_changes (Model/C04_Cycle.lean) as of kopf
  8d1358b; they are tied to the real cycle by the `life` cases of the harness (the handlers called, the
  state stored). The `…Py` variants are the code before 8d1358b (finding C04-F12, fixed): regressions.
-/
import Kopf.Props.C04
import Kopf.Lemmas.C04_Cycle
namespace Kopf.C04
open Kopf Kopf.J

/-- a NOOP event stores nothing, and stays a NOOP. -/
theorem noop_is_stable (old : Option J) (new : J) (h : detect old new = .noop) :
    afterCycle old new = old ∧ detect (afterCycle old new) new = .noop := by
  have : afterCycle old new = old := by simp [afterCycle, h]
  exact ⟨this, by rw [this]; exact h⟩

/-- **a creation settles**: once the creation handlers are done the state is stored, and the event that
    the store itself causes (the same essence again) is a NOOP — for every well-formed essence. -/
theorem creation_settles (new : J) (h : J.WF new) :
    afterCycle none new = some new ∧ detect (afterCycle none new) new = .noop := by
  have h1 : afterCycle none new = some new := by simp [afterCycle, detect, storeGuard]
  refine ⟨h1, ?_⟩
  rw [h1]
  simp [detect, diff_self_empty new [] h]

/-- whenever the guard of `process_changing_cause` lets the store through, the next event is a NOOP. -/
theorem settled_after_store (old : Option J) (new : J) (h : J.WF new) (hg : storeGuard old new = true) :
    detect (afterCycle old new) new = .noop := by
  have hself : detect (some new) new = .noop := by simp [detect, diff_self_empty new [] h]
  cases hd : detect old new with
  | noop => exact (noop_is_stable old new hd).2
  | create =>
    have ha : afterCycle old new = some new := by simp only [afterCycle, hd, hg]; rfl
    rw [ha]; exact hself
  | update =>
    have ha : afterCycle old new = some new := by simp only [afterCycle, hd, hg]; rfl
    rw [ha]; exact hself

/-- an UPDATE always passes the store guard (the guard looks at the very diff that made it an UPDATE). -/
theorem update_is_stored (old new : J) (hd : detect (some old) new = .update) :
    afterCycle (some old) new = some new := by
  have hne : (diff old new []).isEmpty = false := by
    cases he : (diff old new []).isEmpty with
    | false => rfl
    | true => simp [detect, he] at hd
  simp [afterCycle, hd, storeGuard, hne]

/-- **an update settles** (full strength since kopf 8d1358b; was `update_settles_partial` under a no-boolean
    guard): whatever the last-handled state and the new essence are, after the finished cycle the event
    that the cycle's own patch brings — the same essence again — is a NOOP: handling never triggers itself. -/
theorem update_settles (old new : J) (hn : J.WF new) :
    detect (afterCycle (some old) new) new = .noop := by
  cases hd : detect (some old) new with
  | noop => exact (noop_is_stable (some old) new hd).2
  | create =>
    simp only [detect] at hd
    split at hd <;> cases hd
  | update =>
    rw [update_is_stored old new hd]
    simp [detect, diff_self_empty new [] hn]

example : detect (some (.obj [("spec", .obj [("n", .num 1)])])) (.obj [("spec", .obj [("n", .num 2)])]) = .update := by decide

/-- the other side of the new guard `old != new or diff`: it lets a store through only when the two essences
    really differ as JSON values — a state equal to the stored one is never stored again (no write loop:
    a non-empty diff without an essential difference does not exist, `same_false_of_diff_ne`). -/
theorem store_only_on_difference (old new : J) (hg : storeGuard (some old) new = true) : same old new = false := by
  cases hs : same old new with
  | false => rfl
  | true =>
    have h1 : pyEq old new = true := pyEq_of_same old new hs
    have h2 : diff old new [] = [] := diff_of_pyEq [] hs
    simp [storeGuard, h1, h2] at hg

/-- C04-F12 (a), fixed by kopf 8d1358b — regression of the old variant: `spec.flag: 1 → true` is an UPDATE,
    its handlers run; the old guard `old != new` was false (`1 == True`), the state was NOT refreshed and
    the next event — any event — was the same UPDATE again. With the guard of today the state is refreshed. -/
def flagOne : J := .obj [("spec", .obj [("flag", .num 1)])]
def flagTrue : J := .obj [("spec", .obj [("flag", .bool true)])]

theorem stale_last_handled_witness :
    detect (some flagOne) flagTrue = .update
      ∧ afterCyclePy (some flagOne) flagTrue = some flagOne
      ∧ detect (afterCyclePy (some flagOne) flagTrue) flagTrue = .update
      ∧ afterCycle (some flagOne) flagTrue = some flagTrue
      ∧ detect (afterCycle (some flagOne) flagTrue) flagTrue = .noop := by
  refine ⟨by decide, by rfl, by decide, by rfl, by decide⟩

/-- **a field handler whose field changed is selected** (full strength since kopf 8d1358b; was
    `field_handler_selected_partial` for boolean-free values): whenever the diff narrowed to the handler's
    field — the `diff` kwarg it would get, `reduce_exact` — is not empty, the field counts as changed. -/
theorem field_handler_selected (old new : J) (f : Path) (ho : J.WF old) (hn : J.WF new)
    (h : reduce (diff old new []) f ≠ []) : fieldChanged old new f = true := by
  rw [reduce_exact old new f ho hn] at h
  unfold fieldChanged
  cases hro : resolve? old f with
  | none =>
    cases hrn : resolve? new f with
    | none =>
      simp [resolveD, hro, hrn] at h
      exact absurd (diff_of_pyEq (a := .null) (b := .null) [] (by simp [same])) h
    | some y => rfl
  | some x =>
    cases hrn : resolve? new f with
    | none => rfl
    | some y =>
      simp only [resolveD, hro, hrn, Option.getD] at h
      have : (diff x y []).isEmpty = false := by
        cases hd : diff x y [] with
        | nil => exact absurd hd h
        | cons a l => rfl
      simp [this]

/-- … and then the handler IS selected: the whole cause is an UPDATE as well. -/
theorem field_handler_called (old new : J) (f : Path) (ho : J.WF old) (hn : J.WF new)
    (h : reduce (diff old new []) f ≠ []) : selected old new f = true := by
  have hd : diff old new [] ≠ [] := by
    intro he; rw [he] at h; exact h rfl
  have hu : detect (some old) new = .update := by
    cases hdd : diff old new [] with
    | nil => exact absurd hdd hd
    | cons a l => simp [detect, hdd]
  simp [selected, hu, field_handler_selected old new f ho hn h]

example : reduce (diff (.obj [("spec", .obj [("n", .num 1)])]) (.obj [("spec", .obj [("n", .num 2)])]) []) ["spec", "n"] ≠ [] := by
  decide

/-- the other direction, without any guard: a field whose value is JSON-equal on both sides (or absent on
    both) never selects its handler — the diff of JSON-equal values is empty and Python's `==` is coarser
    than JSON equality, never finer. -/
theorem unchanged_field_not_selected (old new : J) (f : Path)
    (h : match resolve? old f, resolve? new f with
         | none, none => True
         | some x, some y => same x y = true
         | _, _ => False) : fieldChanged old new f = false := by
  unfold fieldChanged
  cases hro : resolve? old f with
  | none => cases hrn : resolve? new f with
    | none => rfl
    | some y => simp [hro, hrn] at h
  | some x => cases hrn : resolve? new f with
    | none => simp [hro, hrn] at h
    | some y =>
      simp only [hro, hrn] at h
      simp [pyEq_of_same x y h, diff_of_pyEq (a := x) (b := y) [] h]

/-- C04-F12 (b), fixed by kopf 8d1358b — regression of the old variant: the handler on exactly the field that
    changed `1 → true` was not selected by `old != new`, although the diff narrowed to its field is not empty;
    today it is. -/
theorem field_handler_not_selected_witness :
    (reduce (diff flagOne flagTrue []) ["spec", "flag"]).length = 1
      ∧ fieldChangedPy flagOne flagTrue ["spec", "flag"] = false
      ∧ fieldChanged flagOne flagTrue ["spec", "flag"] = true
      ∧ selected flagOne flagTrue ["spec", "flag"] = true := by
  refine ⟨by decide, by decide, by decide, by decide⟩

example : fieldChanged (.obj [("spec", .obj [("n", .num 1)])]) (.obj [("spec", .obj [("n", .num 2)])]) ["spec", "n"] = true := by
  decide
example : fieldChanged (.obj [("spec", .obj [])]) (.obj [("spec", .obj [("n", .num 0)])]) ["spec", "n"] = true := by decide

end Kopf.C04
