/-
  X01 — sensitivity of `no_stale_handling` to the mechanism: the same composed system with ONE seeded change of the worker
  (the expectation is cleared on ANY arrival) violates the theorem's conclusion on a concrete history. Theorems only.
-/
import Kopf.Model.X01_Variant
import Kopf.Props.X01
namespace Kopf.X01
open Kopf

variable {E : Type} [DecidableEq E]

/-- the parametrised iteration with C07's own `arrive` IS the composed `work` (so the witness below differs from the
    system of `no_stale_handling` in the reset-on-arrival only) -/
theorem workA_arrive (T : Int) (env : C03.Env) (d : Nat) (r : RState E) : workA C07.arrive T env d r = work T env d r := by
  unfold workA work
  cases r.queue <;> rfl

theorem runActsA_arrive (T idle : Int) (env : C03.Env) (acts : List (Act E)) :
    ∀ r : RState E, runActsA C07.arrive T idle env r acts = runActs T idle env r acts := by
  induction acts with
  | nil => intro r; rfl
  | cons a rest ih =>
    intro r
    show runActsA C07.arrive T idle env (actA C07.arrive T idle env r a) rest = runActs T idle env (act T idle env r a) rest
    have : actA C07.arrive T idle env r a = act T idle env r a := by
      cases a <;> first | rfl | exact workA_arrive T env _ r
    rw [this, ih]

/-- **Sensitivity witness.** T = 64; the history of `no_stale_handling`'s non-vacuity example: somebody else writes v2 (event at 5)
    while v1 is handled; the own write makes v3 at 1, its echo is 200 ticks late. The variant's worker dequeues v2 at 5, clears what it
    awaits because "an event came", and the changing stage runs AT ONCE on v2: older than the own write v3, 4 ticks after it
    (the real mechanism runs it at 65: `exHist`'s example in Props/X01). The conclusion of `no_stale_handling` is false of that run. -/
theorem lax_arrival_witness :
    ∃ run ∈ (runActsA arriveAny 64 64 exEnv (created 0 0) exHist).ran,
      ¬ ((∀ p ∈ run.owns, p.1 ≤ run.ver) ∨ (∃ p tp rest, run.owns = (p, tp) :: rest ∧ tp + 64 ≤ run.t)) := by
  have hran : ((runActsA arriveAny 64 64 exEnv (created 0 0) exHist).ran.map (fun x => (x.ver, x.t, x.owns))).getLast? =
      some (1, 0, []) ∧
      ((runActsA arriveAny 64 64 exEnv (created 0 0) exHist).ran.map (fun x => (x.ver, x.t, x.owns)))[2]? = some (2, 5, [(3, 1)]) := by
    decide
  obtain ⟨_, h2⟩ := hran
  rw [List.getElem?_map] at h2
  cases hr : (runActsA arriveAny 64 64 exEnv (created 0 0) exHist).ran[2]? with
  | none => rw [hr] at h2; cases h2
  | some run =>
    rw [hr] at h2
    have h3 : (run.ver, run.t, run.owns) = (2, 5, [(3, 1)]) := Option.some.inj h2
    have hv : run.ver = 2 := congrArg Prod.fst h3
    have ht : run.t = 5 := congrArg (fun x => x.2.1) h3
    have ho : run.owns = [(3, 1)] := congrArg (fun x => x.2.2) h3
    refine ⟨run, List.mem_of_getElem? hr, ?_⟩
    rw [hv, ht, ho]
    intro h
    rcases h with h | ⟨p, tp, rest, hc, hle⟩
    · have := h (3, 1) (List.mem_singleton.mpr rfl)
      simp at this
    · have h1 := (List.cons.inj hc).1
      have : tp = 1 := (congrArg Prod.snd h1).symm
      omega

end Kopf.X01
