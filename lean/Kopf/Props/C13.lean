/-
  C13 — Peering: lower-priority operators pause, exactly the top one is active. Property theorems only.

  Model: `Kopf/Model/C13_Peering.lean`. `decideEv` is one call of `process_peering_event` on ANY status content (unknown
  keys, missing fields, garbled values, dead records, the own record); `step` is the shared peering object with any
  number of operators under any order of starts, keep-alives (landing late), graceful exits (also with a lost
  withdrawal), kills, deliveries of the CURRENT status (`deliver`) or of an OLDER view (`deliverStale`, whose `clean()`
  lands on the current status), passing time and foreign writes.
  `u` = ticks per second, lifetimes are whole seconds, `dead r now ⇔ lastseen + lifetime·u ≤ now`.

  What is and is not claimed (the property as written is FALSE of the code where views are old: findings F4/F5):
  * per call, for every status content: `paused_iff`, `turned_iff`, `dead_cleaned`, `wake_at_deadline`;
  * for every label list: `withdrawn_stays(_from)`, `stale_verdict` (what a call on an old view does);
  * under the guard "every processed view is current" (`Stable.current`, resp. batches of `deliver`): the `…_partial`
    theorems; without it `stale_view_two_active_witness` (F4 in Lean, replayed on the real code: corpus/C13/F4.json);
  * for timely runs (`Timely`: API calls ≤ B ticks, no old views): `own_record_fresh`, backed by `renewal`;
  * progress / possibility: `resume_after_expiry`, `convergence_possible`.
  The pause EFFECTS (streams closed, daemons stopped, nothing handled beyond queued events, nothing handled twice) have
  no theorem here: they are checked by the simulation oracle only.
-/
import Kopf.Lemmas.C13_Bridge
namespace Kopf.C13

/-! ## paused ⇔ a live peer of higher or equal priority -/

/-- One call of `process_peering_event` on any status content that does not make it raise: the toggle
    ends up ON exactly when the status holds a record of somebody else that is alive at `now`
    (`now < lastseen + lifetime`, defaults 60 s / "just seen") and whose priority (default 0) is ≥ mine.
    The own record, dead records and records of lower priority never pause. -/
theorem paused_iff {u : Int} {st : List (Identity × RawEntry)} {me : Identity} {p : Int} {ac t0 : Bool}
    {now now2 : Int} {d : Decision} (h : decideEv u st me p ac (some t0) now now2 = .ok d) :
    (d.paused = some true ∨ d.paused = some false) ∧
    (d.paused = some true ↔
      ∃ i e q, (i, e) ∈ st ∧ mkPeer now i e = .ok q ∧ i ≠ me ∧ q.isDead u now = false ∧
        ∃ x, q.prio = some x ∧ x ≥ p) := by
  unfold decideEv at h
  cases hp : parseAll now st with
  | error e => simp [hp] at h
  | ok ps =>
    simp only [hp] at h
    have h := decideP_ok h
    subst h
    · constructor
      · obtain ⟨b, hb⟩ := decideCore_paused_isSome (u := u) (ps := ps) (me := me) (myPrio := p) (ac := ac)
          (t0 := t0) (now := now) (now2 := now2)
        rw [hb]; cases b <;> simp
      · rw [decideCore_paused]
        constructor
        · rintro ⟨q, hq, hne, hd, hx⟩
          obtain ⟨i, e, hm, hmk⟩ := (parseAll_mem hp q).mp hq
          have hid := mkPeer_id hmk
          exact ⟨i, e, q, hm, hmk, by rw [← hid]; exact hne, hd, hx⟩
        · rintro ⟨i, e, q, hm, hmk, hne, hd, hx⟩
          have hid := mkPeer_id hmk
          exact ⟨q, (parseAll_mem hp q).mpr ⟨i, e, hm, hmk⟩, ⟨by rw [hid]; exact hne, hd, hx⟩⟩

/-- The real action and the verdict are linked both ways: `turn_to(b)` is called iff the verdict `b` differs from
    the toggle's state — never redundantly, never omitted. -/
theorem turned_iff {u : Int} {ps : List Peer} {me : Identity} {p : Int} {ac t0 : Bool} {now now2 : Int} (b : Bool) :
    (decideCore u ps me p ac (some t0) now now2).turned = some b ↔
      (b ≠ t0 ∧ (decideCore u ps me p ac (some t0) now now2).paused = some b) := by
  simp only [decideCore, Option.map_some]
  generalize (!(prioPeers p (livePeers u now me ps)).isEmpty || !(samePeers p (livePeers u now me ps)).isEmpty) = bl
  cases t0 <;> cases b <;> cases bl <;> simp

/-! ## exactly the top-priority running operator is active -/

/-- A stable state: every running operator has a fresh record carrying its priority, every fresh
    record belongs to a running operator, running priorities are distinct, and every running operator
    has processed the latest version of the status AS ITS CURRENT VIEW (`deliver`, not `deliverStale`), no record
    having expired since. `current` is the guard "every processed view is current". -/
structure Stable (u : Int) (s : State) : Prop where
  good : Good u s
  current : ∀ i op, s.ops i = some op → op.alive = true →
    ∃ t, op.seen = some (s.ver, t) ∧ ∀ j r, (j, r) ∈ s.status → (r.dead u t = r.dead u s.now)

/- Full clause: "among running operators with distinct priorities that see each other, exactly the highest-priority one
   ends up active" — for every delivery timing. FALSE of the code for old views (`stale_view_two_active_witness`). -/
/-- PARTIAL (guard: `Stable`, i.e. every running operator's last processed view is the current status). In every
    reachable stable state — whatever history led there, old views included —, a running operator is active iff its
    priority is the maximum of the running operators, for any number of operators. -/
theorem exactly_top_partial {u : Int} {s : State} (hr : Reachable u s) (hs : Stable u s) : ExactlyTop s := by
  apply top_of_good hs.good
  intro i op hi ha
  obtain ⟨t, hseen, hsame⟩ := hs.current i op hi ha
  rw [((inv_reachable hr) i op hi s.ver t hseen).2 rfl]
  apply blockedB_congr
  intro j r
  constructor
  · rintro ⟨hd, hm⟩; exact ⟨by rw [← hsame j r hm]; exact hd, hm⟩
  · rintro ⟨hd, hm⟩; exact ⟨by rw [hsame j r hm]; exact hd, hm⟩

/-- PARTIAL (same guard). Hence at most one running operator is active. Without the guard two running operators can both
    be active: with an old view (`stale_view_two_active_witness`), or when time passes with no keep-alive at all (excluded
    in timely runs by `own_record_fresh`). -/
theorem at_most_one_active_partial {u : Int} {s : State} (hr : Reachable u s) (hs : Stable u s)
    {i j : Identity} {oi oj : Op} (hi : s.ops i = some oi) (hj : s.ops j = some oj)
    (hai : oi.alive = true) (haj : oj.alive = true) (hpi : oi.paused = false) (hpj : oj.paused = false) : i = j := by
  have ht := exactly_top_partial hr hs
  have h1 := (ht i oi hi hai).mp hpi j oj hj haj
  have h2 := (ht j oj hj haj).mp hpj i oi hi hai
  exact hs.good.distinct i j oi oj hi hj hai haj (by omega)

/-- Equal priority is a conflict: two running operators with fresh records of the same priority that
    have both processed the status are both paused. -/
theorem equal_priority_both_paused {u : Int} {s s1 s2 : State} {i j : Identity} {oi oj : Op} {ri rj : Rec}
    (hne : i ≠ j) (hi : s.ops i = some oi) (hj : s.ops j = some oj) (hp : oi.prio = oj.prio)
    (hri : (i, ri) ∈ s.status) (hrj : (j, rj) ∈ s.status) (hpi : ri.priority = oi.prio) (hpj : rj.priority = oj.prio)
    (hfi : ri.dead u s.now = false) (hfj : rj.dead u s.now = false)
    (h1 : step u s (.deliver i) = some s1) (h2 : step u s1 (.deliver j) = some s2) :
    ∃ oi' oj', s2.ops i = some oi' ∧ s2.ops j = some oj' ∧ oi'.paused = true ∧ oj'.paused = true := by
  obtain ⟨o1, ho1, _, hnow1, hst1, _, _, hops1⟩ := deliver_spec h1
  obtain ⟨o2, ho2, _, _, _, _, _, hops2⟩ := deliver_spec h2
  rw [hi] at ho1; injection ho1 with ho1; subst ho1
  have hj1 : s1.ops j = some oj := by rw [hops1, updOp_other _ _ (Ne.symm hne)]; exact hj
  rw [hj1] at ho2; injection ho2 with ho2; subst ho2
  refine ⟨{ oi with paused := blockedB u s.status i oi.prio s.now, seen := some (s.ver, s.now),
                    sleeping := willTouch u s i oi },
    { oj with paused := blockedB u s1.status j oj.prio s1.now, seen := some (s1.ver, s1.now),
              sleeping := willTouch u s1 j oj },
    by rw [hops2, updOp_other _ _ hne, hops1]; simp, by rw [hops2]; simp, ?_, ?_⟩
  · show blockedB u s.status i oi.prio s.now = true
    rw [blockedB_iff]
    exact ⟨j, rj, hrj, Ne.symm hne, hfj, by omega⟩
  · show blockedB u s1.status j oj.prio s1.now = true
    rw [hst1, hnow1, blockedB_filter, blockedB_iff]
    exact ⟨i, ri, hri, hne, hfi, by omega⟩


/-! ## old views (findings F4 / F5): what goes wrong, and what still holds -/

/-- F4 in Lean. A (priority 100, lifetime 2 s) and B (priority 10) run; A renews its record in time (stamped 64, fresh
    until 192). At clock 128 B processes the view of BEFORE that renewal — a status that really existed (first conjunct):
    there A's record (stamped 0) is dead at B's clock, so B hands "A" to `clean()`, and the unconditional delete-by-identity
    removes A's CURRENT, fresh record; B resumes. End state: A and B both running and both active, A without a record.
    This contradicts `exactly_top`/`at_most_one_active` without the `Stable.current` guard, and shows that `Good` is not
    preserved by `deliverStale`. Replayed on the real code: corpus/C13/F4.json (delivery later than the keep-alive margin). -/
theorem stale_view_two_active_witness :
    (run 64 init [.start "A" 100 2, .start "B" 10 10, .keepalive "A" 0, .keepalive "B" 0, .deliver "A", .deliver "B"]).map (·.status)
      = some [("A", ⟨100, 2, 0⟩), ("B", ⟨10, 10, 0⟩)] ∧
    (run 64 init [.start "A" 100 2, .start "B" 10 10, .keepalive "A" 0, .keepalive "B" 0, .deliver "A", .deliver "B",
                  .tick 64, .keepalive "A" 0, .tick 64]).map (fun s => (s.now, s.status, (s.ops "B").map (·.paused)))
      = some (128, [("A", ⟨100, 2, 64⟩), ("B", ⟨10, 10, 0⟩)], some true) ∧
    (run 64 init [.start "A" 100 2, .start "B" 10 10, .keepalive "A" 0, .keepalive "B" 0, .deliver "A", .deliver "B",
                  .tick 64, .keepalive "A" 0, .tick 64,
                  .deliverStale "B" [("A", ⟨100, 2, 0⟩), ("B", ⟨10, 10, 0⟩)]]).map
        (fun s => ((s.ops "A").map (fun o => (o.alive, o.paused)), (s.ops "B").map (fun o => (o.alive, o.paused)), s.status))
      = some (some (true, false), some (true, false), [("B", ⟨10, 10, 0⟩)]) := by decide

/-- What a call on an old view does, for every view: the verdict is about the VIEW (a peer of another identity, live at
    the operator's own clock, priority ≥ own), and the clean removes from the CURRENT status every record — whatever it
    says now — of each other identity that has a dead record in the view. -/
theorem stale_verdict {u : Int} {s s' : State} {i : Identity} {view : Status}
    (h : step u s (.deliverStale i view) = some s') :
    ∃ o o', s.ops i = some o ∧ s'.ops i = some o' ∧ o'.prio = o.prio ∧ o'.seen = none ∧
      (o'.paused = true ↔
        ∃ j r, (j, r) ∈ view ∧ j ≠ i ∧ s.now < r.lastseen + r.lifetime * u ∧ r.priority ≥ o.prio) ∧
      ∀ j r, (j, r) ∈ s'.status ↔
        ((j, r) ∈ s.status ∧ ¬ (j ≠ i ∧ ∃ r', (j, r') ∈ view ∧ r'.lastseen + r'.lifetime * u ≤ s.now)) := by
  obtain ⟨o, ho, _, _, hst, hops⟩ := stale_spec h
  refine ⟨o, { o with paused := blockedB u view i o.prio s.now, seen := none, sleeping := willTouchView u view i o s.now },
    ho, by rw [hops]; simp, rfl, rfl, ?_, ?_⟩
  · simp only [blockedB_iff, dead_false_iff]
  · intro j r
    rw [hst, mem_eraseAll, mem_staleCleaned]
    simp only [dead_true_iff]

/-! ## settling and failover -/

/- Full clause: "… also after the active one exits or is killed" — for every delivery timing. -/
/-- PARTIAL (guard: the batch consists of current-view deliveries only). From ANY state in which the operators see each
    other (`Good`) — e.g. right after the top one exited, or after a killed one's record expired while the others renewed
    theirs —, once every running operator has processed the status (in any order, any number of times), exactly the top
    one is active, and the operators still see each other. -/
theorem settle_partial {u : Int} {s s' : State} (hg : Good u s) (ls : List Label)
    (hdel : ∀ l ∈ ls, ∃ i, l = Label.deliver i)
    (hcov : ∀ i op, s.ops i = some op → op.alive = true → Label.deliver i ∈ ls)
    (h : run u s ls = some s') : ExactlyTop s' ∧ Good u s' :=
  settle hg ls hdel hcov h

/-- PARTIAL (same guard). The active operator exits gracefully; once every remaining running operator has processed the
    status (in any order, any number of times), exactly the top one of the remaining is active. -/
theorem failover_exit_partial {u : Int} {s s1 s2 : State} {a : Identity} (hg : Good u s)
    (h1 : step u s (.exit a) = some s1) (ls : List Label)
    (hdel : ∀ l ∈ ls, ∃ i, l = Label.deliver i)
    (hcov : ∀ i op, s1.ops i = some op → op.alive = true → Label.deliver i ∈ ls)
    (h2 : run u s1 ls = some s2) :
    ExactlyTop s2 ∧ (∀ op, s2.ops a = some op → op.alive = false) ∧ ∀ r, (a, r) ∉ s2.status := by
  have hg1 := good_after_exit hg h1
  obtain ⟨htop, hg2⟩ := settle hg1 ls hdel hcov h2
  obtain ⟨o, ho, _, _, hst, hops⟩ := exit_spec h1
  obtain ⟨hnow, hstat, hsame, _⟩ := run_delivers ls s1 s2 hdel h2
  refine ⟨htop, ?_, ?_⟩
  · intro op hop
    rcases hsame a with ⟨_, h⟩ | ⟨x, x', hx, hx', _, hal⟩
    · rw [h] at hop; cases hop
    · rw [hx'] at hop; injection hop with hop; subst hop
      rw [hops] at hx; simp at hx; subst hx
      rw [hal]
  · intro r hm
    cases hd : r.dead u s1.now with
    | false =>
      have := (hstat a r hd).mp hm
      rw [hst] at this
      exact (mem_erase.mp this).2 rfl
    | true =>
      -- a dead record of `a` cannot be there either: `exit` erased all of them and deliveries only remove
      have hsub : ∀ (ls : List Label) (t t' : State), (∀ l ∈ ls, ∃ i, l = Label.deliver i) →
          run u t ls = some t' → ∀ e ∈ t'.status, e ∈ t.status := by
        intro ls
        induction ls with
        | nil => intro t t' _ h; simp only [run, Option.some.injEq] at h; subst h; exact fun _ h => h
        | cons l rest ih =>
          intro t t' hall h e he
          obtain ⟨k, rfl⟩ := hall l List.mem_cons_self
          simp only [run] at h
          cases hk : step u t (.deliver k) with
          | none => simp [hk] at h
          | some t1 =>
            simp only [hk] at h
            obtain ⟨_, _, _, _, hst1, _, _, _⟩ := deliver_spec hk
            have := ih t1 t' (fun l hl => hall l (List.mem_cons_of_mem _ hl)) h e he
            rw [hst1] at this
            exact (List.mem_filter.mp this).1
      have := hsub ls s1 s2 hdel h2 _ hm
      rw [hst] at this
      exact (mem_erase.mp this).2 rfl

/-- PARTIAL (same guard). A graceful exit whose withdrawal PATCH is lost (`keepalive`'s `finally` logs and ignores every
    error) is a kill as far as the peers can tell: the record stays until it expires; from the moment it has (the others
    having renewed theirs) the operators see each other again and `settle_partial` applies. -/
theorem failover_lost_exit_partial {u : Int} {s s1 s2 s3 : State} {a : Identity} (h1 : step u s (.exitLost a) = some s1)
    (hstay : s1.status = s.status → Good u s2) (ls : List Label)
    (hdel : ∀ l ∈ ls, ∃ i, l = Label.deliver i)
    (hcov : ∀ i op, s2.ops i = some op → op.alive = true → Label.deliver i ∈ ls)
    (h3 : run u s2 ls = some s3) :
    s1.status = s.status ∧ (∃ o, s1.ops a = some o ∧ o.alive = false) ∧ ExactlyTop s3 := by
  obtain ⟨o, _, _, _, hst, hops⟩ := exitLost_spec h1
  have hgone : ∃ o', s1.ops a = some o' ∧ o'.alive = false :=
    ⟨{ o with alive := false, sleeping := false }, by rw [hops]; simp, rfl⟩
  exact ⟨hst, hgone, (settle (hstay hst) ls hdel hcov h3).1⟩

/-- How the waiting operators get there: a paused operator sleeps exactly until the earliest deadline
    among the peers that block it — the moment that peer counts as dead — and then touches its own
    record (which makes everybody, itself included, process the status again: `resume_after_expiry`). -/
theorem wake_at_deadline {u : Int} {ps : List Peer} {me : Identity} {p : Int} {ac : Bool} {tg : Option Bool}
    {now now2 m : Int} (h : (decideCore u ps me p ac tg now now2).sleep = some m) :
    0 < m ∧ (decideCore u ps me p ac tg now now2).touch = true ∧
      (∃ q ∈ ps, Blocks u now me p q ∧ q.deadline u = now2 + m ∧ q.isDead u (now2 + m) = true) ∧
      ∀ q ∈ ps, Blocks u now me p q → now2 + m ≤ q.deadline u := by
  have hdel := decideCore_delays (u := u) (ps := ps) (me := me) (myPrio := p) (ac := ac) (tg := tg)
    (now := now) (now2 := now2)
  have hs : (decideCore u ps me p ac tg now now2).sleep =
      (match minList (decideCore u ps me p ac tg now now2).delays with
        | none => none | some m => if m ≤ 0 then none else some m) := rfl
  have ht : (decideCore u ps me p ac tg now now2).touch =
      !(decideCore u ps me p ac tg now now2).delays.isEmpty := rfl
  rw [hs] at h
  cases hm : minList (decideCore u ps me p ac tg now now2).delays with
  | none => simp [hm] at h
  | some m' =>
    simp only [hm] at h
    by_cases hle : m' ≤ 0
    · simp [hle] at h
    · simp only [hle, if_false, Option.some.injEq] at h
      subst h
      obtain ⟨hmem, hmin⟩ := minList_spec hm
      refine ⟨by omega, ?_, ?_, ?_⟩
      · rw [ht]
        cases hd : (decideCore u ps me p ac tg now now2).delays with
        | nil => rw [hd] at hmem; cases hmem
        | cons _ _ => rfl
      · obtain ⟨q, hq, hb, hx⟩ := (hdel m').mp hmem
        refine ⟨q, hq, hb, by omega, ?_⟩
        simp only [Peer.isDead, decide_eq_true_eq]
        omega
      · intro q hq hb
        have := hmin _ ((hdel (q.deadline u - now2)).mpr ⟨q, hq, hb, rfl⟩)
        omega

/-- Progress of the resume: operator `i` is paused and its call sleeps; every peer blocking it is a record of `a` (the
    killed or lost one). When time has passed up to `a`'s last deadline, the sleeping call CAN wake (the label is enabled),
    its self-touch lands, the event it causes is delivered to `i`, and `i` is then active. -/
theorem resume_after_expiry {u : Int} {s s1 : State} {i a : Identity} {o : Op} (lag : Nat)
    (ho : s.ops i = some o) (hal : o.alive = true) (hsl : o.sleeping = true)
    (honly : ∀ j r, (j, r) ∈ s.status → j ≠ i → r.dead u s.now = false → r.priority ≥ o.prio → j = a)
    (h1 : step u s (.expire a) = some s1) :
    ∃ s2 s3 o3, step u s1 (.wake i lag) = some s2 ∧ step u s2 (.deliver i) = some s3 ∧
      s3.ops i = some o3 ∧ o3.alive = true ∧ o3.paused = false := by
  obtain ⟨⟨d, htick⟩, hdead⟩ := expire_spec h1
  simp only [step, Option.some.injEq] at htick
  have hops1 : s1.ops = s.ops := by rw [← htick]
  have hst1 : s1.status = s.status := by rw [← htick]
  have hnow1 : s1.now = s.now + d := by rw [← htick]
  have ho1 : s1.ops i = some o := by rw [hops1]; exact ho
  -- the sleeping call wakes
  have hw : ∃ s2, step u s1 (.wake i lag) = some s2 := by
    simp only [step, ho1, hsl, if_true]; exact ⟨_, rfl⟩
  obtain ⟨s2, h2⟩ := hw
  obtain ⟨o', ho', _, hnow2, hst2, hops2⟩ := wake_spec h2
  rw [ho1] at ho'; injection ho' with ho'; subst ho'
  have ho2 : s2.ops i = some { o with sleeping := false } := by rw [hops2]; simp
  -- the event is delivered
  have hd : ∃ s3, step u s2 (.deliver i) = some s3 := by
    simp only [step, ho2, hal, if_true]; exact ⟨_, rfl⟩
  obtain ⟨s3, h3⟩ := hd
  obtain ⟨o2, ho2', _, _, _, _, _, hops3⟩ := deliver_spec h3
  rw [ho2] at ho2'; injection ho2' with ho2'; subst ho2'
  let o2 : Op := { o with sleeping := false }
  let o3 : Op := { o2 with paused := blockedB u s2.status i o2.prio s2.now, seen := some (s2.ver, s2.now), sleeping := willTouch u s2 i o2 }
  refine ⟨s2, s3, o3, h2, h3, by rw [hops3]; simp [o3, o2], hal, ?_⟩
  show blockedB u s2.status i o.prio s2.now = false
  cases hb : blockedB u s2.status i o.prio s2.now with
  | false => rfl
  | true =>
    exfalso
    obtain ⟨j, r, hm, hji, hd, hge⟩ := blockedB_iff.mp hb
    rw [hst2] at hm
    have hm' : (j, r) ∈ s.status := by rw [← hst1]; exact (mem_patch_other (Ne.symm hji)).mp hm
    rw [hnow2, hnow1] at hd
    have hd0 : r.dead u s.now = false := by
      cases hc : r.dead u s.now with
      | false => rfl
      | true => rw [dead_mono d hc] at hd; cases hd
    have hja := honly j r hm' hji hd0 hge
    subst hja
    have := hdead r hm'
    rw [hnow1, hd] at this
    cases this

/-! ## renewal -/

/-- The keep-alive arithmetic: with `lifetime ≥ 2` and jitter in `[5, 10]` the pinger sleeps at most
    `lifetime − min(5, lifetime − 1)` seconds (and at least one). -/
theorem keepalive_period (L j : Int) (hL : 2 ≤ L) (h5 : 5 ≤ j) (_h10 : j ≤ 10) :
    1 ≤ kaSleep L j ∧ kaSleep L j ≤ L - margin L ∧ 1 ≤ margin L :=
  ⟨kaSleep_pos L j, kaSleep_le L j hL h5, by unfold margin; omega⟩

/-- While an operator runs, its record never expires: with `lifetime ≥ 1`, jitter in `[5, 10]` and every `touch()`
    call taking at most `B` ticks with `2·B <` the margin (`min(5, lifetime−1)` seconds for `lifetime ≥ 2`, the other
    half second for `lifetime = 1`), each new record reaches the server strictly before the deadline of the record
    it replaces — for any number of rounds, any latencies and jitters within the bounds. -/
theorem renewal (u L B : Int) (hu : 0 < u) (hL : 1 ≤ L) (hB : 2 * B < marginT u L)
    (rs : List Round) (t : Int)
    (h : ∀ r ∈ rs, 0 ≤ r.a ∧ r.a ≤ r.lat ∧ r.lat ≤ B ∧ 5 ≤ r.jitter ∧ r.jitter ≤ 10) :
    Renewed u L t rs :=
  renewed_of_bounds u L B hu hL hB rs t h

/-- The `lifetime = 1` corner (was finding F1, repaired by fad2571): the record built at `t` is still alive when its
    successor arrives, provided two API calls fit into the remaining half second. -/
theorem renewal_lifetime_one (u : Int) (t : Int) (r r' : Round) (hu : 0 < u)
    (hl : 0 ≤ r.lat) (ha : 0 ≤ r'.a) (hB : r.lat + r'.a < u - u / 2) :
    ({ priority := 0, lifetime := 1, lastseen := t } : Rec).dead u (nextTouch u 1 t r + r'.a) = false := by
  rw [dead_false_iff]
  unfold nextTouch
  rw [kaSleepT_one]
  show t + r.lat + u / 2 + r'.a < t + 1 * u
  omega

/-- In timely runs — every `touch()` call takes at most `B` ticks, `2·B <` the margin of every started operator
    (`renewal`'s bound: then the pinger's next record lands before `nextKA + B`, which time does not overtake), nobody
    writes under an operator's identity, no old views — a running operator that has touched once ALWAYS has a live record
    carrying its priority: `Good.own` is an invariant, whatever else happens in whatever order. -/
theorem own_record_fresh {u B : Int} {s : State} (hu : 0 < u) (hB : 0 ≤ B) (ht : Timely u B s)
    {i : Identity} {o : Op} {k : Int} (ho : s.ops i = some o) (ha : o.alive = true) (hk : o.nextKA = some k) :
    ∃ r, (i, r) ∈ s.status ∧ r.priority = o.prio ∧ r.dead u s.now = false := by
  obtain ⟨_, hinv⟩ := ownFresh_timely hu hB ht
  obtain ⟨h1, _, ⟨r, hr⟩, h4⟩ := hinv i o k ho ha hk
  obtain ⟨hp, hl, hd⟩ := h4 r hr
  refine ⟨r, hr, hp, ?_⟩
  rw [dead_false_iff, hl]
  omega

/-- A keep-alive of a running operator with `lifetime ≥ 1`, landing `lag` ticks after it was stamped, puts a record
    stamped `now − lag` with its priority, and leaves no other record under its identity. -/
theorem keepalive_writes {u : Int} {s s' : State} {i : Identity} {o : Op} {lag : Nat} (hu : 0 < u) (ho : s.ops i = some o)
    (hL : 1 ≤ o.lifetime) (h : step u s (.keepalive i lag) = some s') :
    (i, { priority := o.prio, lifetime := o.lifetime, lastseen := s.now - lag }) ∈ s'.status ∧
      ∀ r, (i, r) ∈ s'.status → r = { priority := o.prio, lifetime := o.lifetime, lastseen := s.now - lag } := by
  obtain ⟨o', ho', _, _, hst, _⟩ := keepalive_spec h
  rw [ho] at ho'; injection ho' with ho'; subst ho'
  rw [hst, touchVal_pos hu hL]
  refine ⟨mem_set.mpr (Or.inl ⟨rfl, rfl⟩), ?_⟩
  intro r hm
  rcases mem_set.mp hm with ⟨_, rfl⟩ | ⟨hne, _⟩
  · rfl
  · exact absurd rfl hne

/-! ## withdrawal and cleanup -/

/-- A graceful exit removes the own record (all of it), leaves the records of others alone, and the
    operator is gone. -/
theorem withdraw_on_exit {u : Int} {s s' : State} {i : Identity} (h : step u s (.exit i) = some s') :
    (∀ r, (i, r) ∉ s'.status) ∧ (∀ j r, j ≠ i → ((j, r) ∈ s'.status ↔ (j, r) ∈ s.status)) ∧
      ∃ o, s'.ops i = some o ∧ o.alive = false := by
  obtain ⟨o, _, _, _, hst, hops⟩ := exit_spec h
  refine ⟨?_, ?_, ⟨{ o with alive := false, sleeping := false }, by rw [hops]; simp, rfl⟩⟩
  · intro r hm
    rw [hst] at hm
    exact (mem_erase.mp hm).2 rfl
  · intro j r hj
    rw [hst, mem_erase]
    exact ⟨fun h => h.1, fun h => ⟨h, hj⟩⟩

/-- One call on any status content (autoclean on): `clean()` is handed exactly the identities OF OTHERS whose record
    is dead at `now` — never the own identity (repair abca199), and nobody alive. -/
theorem dead_cleaned {u : Int} {st : List (Identity × RawEntry)} {me : Identity} {p : Int} {tg : Option Bool}
    {now now2 : Int} {d : Decision} (h : decideEv u st me p true tg now now2 = .ok d) (i : Identity) :
    i ∈ d.cleaned ↔ i ≠ me ∧ ∃ e q, (i, e) ∈ st ∧ mkPeer now i e = .ok q ∧ q.isDead u now = true := by
  unfold decideEv at h
  cases hp : parseAll now st with
  | error e => simp [hp] at h
  | ok ps =>
    simp only [hp] at h
    have h := decideP_ok h
    subst h
    · simp only [decideCore, if_true, deadPeers, List.mem_map, List.mem_filter, Bool.and_eq_true, bne_iff_ne, ne_eq]
      constructor
      · rintro ⟨q, ⟨hq, hd, hne⟩, rfl⟩
        obtain ⟨j, e, hm, hmk⟩ := (parseAll_mem hp q).mp hq
        have hid := mkPeer_id hmk
        rw [hid]
        exact ⟨by rw [← hid]; exact hne, e, q, hm, hmk, hd⟩
      · rintro ⟨hne, e, q, hm, hmk, hd⟩
        have hid := mkPeer_id hmk
        exact ⟨q, ⟨(parseAll_mem hp q).mpr ⟨i, e, hm, hmk⟩, hd, by rw [hid]; exact hne⟩, hid⟩

/-- The own record is never cleaned, dead or not. -/
theorem own_record_not_cleaned {u : Int} {st : List (Identity × RawEntry)} {me : Identity} {p : Int} {tg : Option Bool}
    {now now2 : Int} {d : Decision} (h : decideEv u st me p true tg now now2 = .ok d) : me ∉ d.cleaned :=
  fun hm => ((dead_cleaned h me).mp hm).1 rfl

/-! ## the withdrawal is permanent (was finding F2, repaired by f370f06) -/

/-- An operator that is gone, has no sleeping call and no record stays without a record, whatever else happens in any
    order — old views, lost exits, late landings included — as long as nobody starts it again or writes a record under
    its name. (A keep-alive or self-touch PATCH still in flight when the exit begins is not a schedule of the model: the
    pinger is cancelled before it withdraws, and the exit interrupts the sleeping call: `exit_interrupts_sleep`.) -/
theorem withdrawn_stays_from {u : Int} {i : Identity} : ∀ (ls : List Label) (s s' : State),
    (∃ o, s.ops i = some o ∧ o.alive = false ∧ o.sleeping = false) → (∀ r, (i, r) ∉ s.status) →
    (∀ l ∈ ls, (∀ p lt, l ≠ .start i p lt) ∧ (∀ r, l ≠ .foreign i (some r))) →
    run u s ls = some s' → ∀ r, (i, r) ∉ s'.status := by
  intro ls
  induction ls with
  | nil => intro s s' _ hn _ h; simp only [run, Option.some.injEq] at h; subst h; exact hn
  | cons l rest ih =>
    intro s s' ⟨o, ho, hoa, hos⟩ hn hall h
    simp only [run] at h
    cases hs : step u s l with
    | none => simp [hs] at h
    | some s1 =>
      simp only [hs] at h
      obtain ⟨hl1, hl2⟩ := hall l List.mem_cons_self
      -- an operator j that acts (is running / sleeping) is not i; its step leaves i's entry and i's (absent) records alone
      have other : ∀ {j : Identity} {oj onew : Op}, s.ops j = some oj → (oj.alive = true ∨ oj.sleeping = true) →
          s1.ops = updOp s.ops j onew → (∀ r, (i, r) ∈ s1.status → (i, r) ∈ s.status ∨ False) →
          (∃ o, s1.ops i = some o ∧ o.alive = false ∧ o.sleeping = false) ∧ ∀ r, (i, r) ∉ s1.status := by
        intro j oj onew hj hact hops hsub
        have hji : i ≠ j := by
          intro e; subst e
          rw [ho] at hj; injection hj with hj; subst hj
          rcases hact with h | h
          · rw [hoa] at h; cases h
          · rw [hos] at h; cases h
        refine ⟨⟨o, by rw [hops, updOp_other _ _ hji]; exact ho, hoa, hos⟩, ?_⟩
        intro r hm
        rcases hsub r hm with h | h
        · exact hn r h
        · exact h
      have same : s1.ops = s.ops → (∀ r, (i, r) ∈ s1.status → (i, r) ∈ s.status) →
          (∃ o, s1.ops i = some o ∧ o.alive = false ∧ o.sleeping = false) ∧ ∀ r, (i, r) ∉ s1.status := by
        intro hops hsub
        exact ⟨⟨o, by rw [hops]; exact ho, hoa, hos⟩, fun r hm => hn r (hsub r hm)⟩
      have key : (∃ o, s1.ops i = some o ∧ o.alive = false ∧ o.sleeping = false) ∧ ∀ r, (i, r) ∉ s1.status := by
        cases l with
        | start j p lt =>
          obtain ⟨_, hst, _, _, hops⟩ := start_spec hs
          have hji : i ≠ j := fun e => hl1 p lt (by rw [e])
          exact ⟨⟨o, by rw [hops, updOp_other _ _ hji]; exact ho, hoa, hos⟩, fun r hm => hn r (by rw [hst] at hm; exact hm)⟩
        | keepalive j lag =>
          obtain ⟨oj, hj, hja, _, hst, hops⟩ := keepalive_spec hs
          refine other hj (Or.inl hja) hops ?_
          intro r hm
          by_cases hji : j = i
          · subst hji; rw [ho] at hj; injection hj with hj; subst hj; rw [hoa] at hja; cases hja
          · rw [hst] at hm; exact Or.inl ((mem_patch_other hji).mp hm)
        | exit j =>
          obtain ⟨oj, hj, hja, _, hst, hops⟩ := exit_spec hs
          exact other hj (Or.inl hja) hops (fun r hm => by rw [hst] at hm; exact Or.inl (mem_erase.mp hm).1)
        | exitLost j =>
          obtain ⟨oj, hj, hja, _, hst, hops⟩ := exitLost_spec hs
          exact other hj (Or.inl hja) hops (fun r hm => by rw [hst] at hm; exact Or.inl hm)
        | kill j =>
          obtain ⟨oj, hj, hja, _, hst, hops⟩ := kill_spec hs
          exact other hj (Or.inl hja) hops (fun r hm => by rw [hst] at hm; exact Or.inl hm)
        | deliver j =>
          obtain ⟨oj, hj, hja, _, hst, _, _, hops⟩ := deliver_spec hs
          exact other hj (Or.inl hja) hops (fun r hm => by rw [hst] at hm; exact Or.inl (List.mem_filter.mp hm).1)
        | deliverStale j view =>
          obtain ⟨oj, hj, hja, _, hst, hops⟩ := stale_spec hs
          exact other hj (Or.inl hja) hops (fun r hm => by rw [hst] at hm; exact Or.inl (mem_eraseAll.mp hm).1)
        | tick d =>
          simp only [step, Option.some.injEq] at hs; subst hs
          exact same rfl (fun r hm => hm)
        | expire j =>
          simp only [step, Option.some.injEq] at hs; subst hs
          exact same rfl (fun r hm => hm)
        | foreign j v =>
          simp only [step, Option.some.injEq] at hs; subst hs
          refine same rfl ?_
          intro r hm
          by_cases hji : j = i
          · subst hji
            cases v with
            | none => exact absurd rfl (mem_erase.mp hm).2
            | some r' => exact absurd rfl (hl2 r')
          · exact (mem_patch_other hji).mp hm
        | wake j lag =>
          obtain ⟨oj, hj, hjs, _, hst, hops⟩ := wake_spec hs
          refine other hj (Or.inr hjs) hops ?_
          intro r hm
          by_cases hji : j = i
          · subst hji; rw [ho] at hj; injection hj with hj; subst hj; rw [hos] at hjs; cases hjs
          · rw [hst] at hm; exact Or.inl ((mem_patch_other hji).mp hm)
      exact ih s1 s' key.1 key.2 (fun l hl => hall l (List.mem_cons_of_mem _ hl)) h

/-- `withdraw_on_exit`, made permanent: after a graceful exit whose withdrawal landed, the record never comes back. -/
theorem withdrawn_stays {u : Int} {i : Identity} {s s1 s' : State} (h1 : step u s (.exit i) = some s1) (ls : List Label)
    (hall : ∀ l ∈ ls, (∀ p lt, l ≠ .start i p lt) ∧ (∀ r, l ≠ .foreign i (some r)))
    (h2 : run u s1 ls = some s') : ∀ r, (i, r) ∉ s'.status :=
  withdrawn_stays_from ls s1 s' (exit_interrupts_sleep h1).1 (withdraw_on_exit h1).1 hall h2

end Kopf.C13
