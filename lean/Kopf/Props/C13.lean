/-
  C13 — Peering: lower-priority operators pause, exactly the top one is active. Property theorems only.

  Model: `Kopf/Model/C13_Peering.lean`. `decideEv` is one call of `process_peering_event` on ANY status
  content (unknown keys, missing fields, garbled values, dead records, the own record); `step` is the
  shared peering object with any number of operators under any order of starts, keep-alives, graceful
  exits, kills, deliveries of the status to single operators, passing time and foreign writes.
  `u` = ticks per second, lifetimes are whole seconds, `dead r now ⇔ lastseen + lifetime·u ≤ now`.
-/
import Kopf.Lemmas.C13_Renew
namespace Kopf.C13

/-! ## paused ⇔ a live peer of higher or equal priority -/

/-- One call of `process_peering_event` on any status content that does not make it raise: the toggle
    ends up ON exactly when the status holds a record of somebody else that is alive at `now`
    (`now < lastseen + lifetime`, defaults 60 s / "just seen") and whose priority (default 0) is ≥ mine.
    The own record, dead records and records of lower priority never pause. -/
theorem paused_iff {u : Int} {st : List (Identity × RawEntry)} {me : Identity} {p : Int} {ac t0 : Bool}
    {now now2 : Int} {d : Decision} (h : decideEv u st me p ac (some t0) now now2 = .ok d) :
    (d.paused = some true ∨ d.paused = some false) ∧
    (d.paused = some true ↔
      ∃ i e q, (i, e) ∈ st ∧ mkPeer now i e = .ok q ∧ i ≠ me ∧ q.isDead u now = false ∧
        ∃ x, q.prio = some x ∧ x ≥ p) := by
  unfold decideEv at h
  cases hp : parseAll now st with
  | error e => simp [hp] at h
  | ok ps =>
    simp only [hp] at h
    have h := decideP_ok h
    subst h
    · constructor
      · obtain ⟨b, hb⟩ := decideCore_paused_isSome (u := u) (ps := ps) (me := me) (myPrio := p) (ac := ac)
          (t0 := t0) (now := now) (now2 := now2)
        rw [hb]; cases b <;> simp
      · rw [decideCore_paused]
        constructor
        · rintro ⟨q, hq, hne, hd, hx⟩
          obtain ⟨i, e, hm, hmk⟩ := (parseAll_mem hp q).mp hq
          have hid := mkPeer_id hmk
          exact ⟨i, e, q, hm, hmk, by rw [← hid]; exact hne, hd, hx⟩
        · rintro ⟨i, e, q, hm, hmk, hne, hd, hx⟩
          have hid := mkPeer_id hmk
          exact ⟨q, (parseAll_mem hp q).mpr ⟨i, e, hm, hmk⟩, ⟨by rw [hid]; exact hne, hd, hx⟩⟩

/-- The toggle is only turned when its state really changes, and to the verdict. -/
theorem turned_spec {u : Int} {ps : List Peer} {me : Identity} {p : Int} {ac t0 : Bool} {now now2 : Int} (b : Bool)
    (h : (decideCore u ps me p ac (some t0) now now2).turned = some b) :
    b ≠ t0 ∧ (decideCore u ps me p ac (some t0) now now2).paused = some b := by
  simp only [decideCore, Option.map_some] at h ⊢
  cases t0 <;> split at h <;> simp_all

/-- In the transition system: after operator `i` processed the status, it is paused iff the status
    holds a live record of another identity with priority ≥ its own. -/
theorem paused_iff_step {u : Int} {s s' : State} {i : Identity} (h : step u s (.deliver i) = some s') :
    ∃ o o', s.ops i = some o ∧ s'.ops i = some o' ∧ o'.prio = o.prio ∧
      (o'.paused = true ↔
        ∃ j r, (j, r) ∈ s.status ∧ j ≠ i ∧ s.now < r.lastseen + r.lifetime * u ∧ r.priority ≥ o.prio) := by
  obtain ⟨o, ho, _, _, _, _, _, hops⟩ := deliver_spec h
  refine ⟨o, { o with paused := blockedB u s.status i o.prio s.now, seen := some (s.ver, s.now),
                      sleeping := willTouch u s i o }, ho, by rw [hops]; simp, rfl, ?_⟩
  simp only [blockedB_iff, dead_false_iff]

/-! ## exactly the top-priority running operator is active -/

/-- A stable state: every running operator has a fresh record carrying its priority, every fresh
    record belongs to a running operator, running priorities are distinct, and every running operator
    has processed the latest version of the status, no record having expired since. -/
structure Stable (u : Int) (s : State) : Prop where
  good : Good u s
  current : ∀ i op, s.ops i = some op → op.alive = true →
    ∃ t, op.seen = some (s.ver, t) ∧ ∀ j r, (j, r) ∈ s.status → (r.dead u t = r.dead u s.now)

/-- In every reachable stable state, a running operator is active iff its priority is the maximum
    of the running operators — for any number of operators and any history that led there. -/
theorem exactly_top {u : Int} {s : State} (hr : Reachable u s) (hs : Stable u s) : ExactlyTop s := by
  apply top_of_good hs.good
  intro i op hi ha
  obtain ⟨t, hseen, hsame⟩ := hs.current i op hi ha
  rw [((inv_reachable hr) i op hi s.ver t hseen).2 rfl]
  apply blockedB_congr
  intro j r
  constructor
  · rintro ⟨hd, hm⟩; exact ⟨by rw [← hsame j r hm]; exact hd, hm⟩
  · rintro ⟨hd, hm⟩; exact ⟨by rw [hsame j r hm]; exact hd, hm⟩

/-- Hence at most one running operator is active. -/
theorem at_most_one_active {u : Int} {s : State} (hr : Reachable u s) (hs : Stable u s)
    {i j : Identity} {oi oj : Op} (hi : s.ops i = some oi) (hj : s.ops j = some oj)
    (hai : oi.alive = true) (haj : oj.alive = true) (hpi : oi.paused = false) (hpj : oj.paused = false) : i = j := by
  have ht := exactly_top hr hs
  have h1 := (ht i oi hi hai).mp hpi j oj hj haj
  have h2 := (ht j oj hj haj).mp hpj i oi hi hai
  exact hs.good.distinct i j oi oj hi hj hai haj (by omega)

/-- Equal priority is a conflict: two running operators with fresh records of the same priority that
    have both processed the status are both paused. -/
theorem equal_priority_both_paused {u : Int} {s s1 s2 : State} {i j : Identity} {oi oj : Op} {ri rj : Rec}
    (hne : i ≠ j) (hi : s.ops i = some oi) (hj : s.ops j = some oj) (hp : oi.prio = oj.prio)
    (hri : (i, ri) ∈ s.status) (hrj : (j, rj) ∈ s.status) (hpi : ri.priority = oi.prio) (hpj : rj.priority = oj.prio)
    (hfi : ri.dead u s.now = false) (hfj : rj.dead u s.now = false)
    (h1 : step u s (.deliver i) = some s1) (h2 : step u s1 (.deliver j) = some s2) :
    ∃ oi' oj', s2.ops i = some oi' ∧ s2.ops j = some oj' ∧ oi'.paused = true ∧ oj'.paused = true := by
  obtain ⟨o1, ho1, _, hnow1, hst1, _, _, hops1⟩ := deliver_spec h1
  obtain ⟨o2, ho2, _, _, _, _, _, hops2⟩ := deliver_spec h2
  rw [hi] at ho1; injection ho1 with ho1; subst ho1
  have hj1 : s1.ops j = some oj := by rw [hops1, updOp_other _ _ (Ne.symm hne)]; exact hj
  rw [hj1] at ho2; injection ho2 with ho2; subst ho2
  refine ⟨{ oi with paused := blockedB u s.status i oi.prio s.now, seen := some (s.ver, s.now),
                    sleeping := willTouch u s i oi },
    { oj with paused := blockedB u s1.status j oj.prio s1.now, seen := some (s1.ver, s1.now),
              sleeping := willTouch u s1 j oj },
    by rw [hops2, updOp_other _ _ hne, hops1]; simp, by rw [hops2]; simp, ?_, ?_⟩
  · show blockedB u s.status i oi.prio s.now = true
    rw [blockedB_iff]
    exact ⟨j, rj, hrj, Ne.symm hne, hfj, by omega⟩
  · show blockedB u s1.status j oj.prio s1.now = true
    rw [hst1, hnow1, blockedB_filter, blockedB_iff]
    exact ⟨i, ri, hri, hne, hfi, by omega⟩

/-! ## failover -/

/-- The active operator exits gracefully; once every remaining running operator has processed the
    status (in any order, any number of times), exactly the top one of the remaining is active. -/
theorem failover_exit {u : Int} {s s1 s2 : State} {a : Identity} (hg : Good u s)
    (h1 : step u s (.exit a) = some s1) (ls : List Label)
    (hdel : ∀ l ∈ ls, ∃ i, l = Label.deliver i)
    (hcov : ∀ i op, s1.ops i = some op → op.alive = true → Label.deliver i ∈ ls)
    (h2 : run u s1 ls = some s2) :
    ExactlyTop s2 ∧ (∀ op, s2.ops a = some op → op.alive = false) ∧ ∀ r, (a, r) ∉ s2.status := by
  have hg1 := good_after_exit hg h1
  obtain ⟨htop, hg2⟩ := settle hg1 ls hdel hcov h2
  obtain ⟨o, ho, _, _, hst, hops⟩ := exit_spec h1
  obtain ⟨hnow, hstat, hsame, _⟩ := run_delivers ls s1 s2 hdel h2
  refine ⟨htop, ?_, ?_⟩
  · intro op hop
    rcases hsame a with ⟨_, h⟩ | ⟨x, x', hx, hx', _, hal⟩
    · rw [h] at hop; cases hop
    · rw [hx'] at hop; injection hop with hop; subst hop
      rw [hops] at hx; simp at hx; subst hx
      rw [hal]
  · intro r hm
    cases hd : r.dead u s1.now with
    | false =>
      have := (hstat a r hd).mp hm
      rw [hst] at this
      exact (mem_erase.mp this).2 rfl
    | true =>
      -- a dead record of `a` cannot be there either: `exit` erased all of them and deliveries only remove
      have hsub : ∀ (ls : List Label) (t t' : State), (∀ l ∈ ls, ∃ i, l = Label.deliver i) →
          run u t ls = some t' → ∀ e ∈ t'.status, e ∈ t.status := by
        intro ls
        induction ls with
        | nil => intro t t' _ h; simp only [run, Option.some.injEq] at h; subst h; exact fun _ h => h
        | cons l rest ih =>
          intro t t' hall h e he
          obtain ⟨k, rfl⟩ := hall l List.mem_cons_self
          simp only [run] at h
          cases hk : step u t (.deliver k) with
          | none => simp [hk] at h
          | some t1 =>
            simp only [hk] at h
            obtain ⟨_, _, _, _, hst1, _, _, _⟩ := deliver_spec hk
            have := ih t1 t' (fun l hl => hall l (List.mem_cons_of_mem _ hl)) h e he
            rw [hst1] at this
            exact (List.mem_filter.mp this).1
      have := hsub ls s1 s2 hdel h2 _ hm
      rw [hst] at this
      exact (mem_erase.mp this).2 rfl

/-- The active operator is killed; its record stays until its keep-alive expires. Once that time has
    passed (the others having kept their records fresh) and every remaining running operator has
    processed the status, exactly the top one of the remaining is active. -/
theorem failover_kill {u : Int} {s s1 s2 s3 : State} {a : Identity} {d : Nat} (hg : Good u s)
    (h1 : step u s (.kill a) = some s1) (h2 : step u s1 (.tick d) = some s2)
    (hexp : ∀ r, (a, r) ∈ s.status → r.dead u (s.now + d) = true)
    (hfresh : ∀ i op, s.ops i = some op → op.alive = true → i ≠ a →
      ∃ r, (i, r) ∈ s.status ∧ r.priority = op.prio ∧ r.dead u (s.now + d) = false)
    (ls : List Label) (hdel : ∀ l ∈ ls, ∃ i, l = Label.deliver i)
    (hcov : ∀ i op, s2.ops i = some op → op.alive = true → Label.deliver i ∈ ls)
    (h3 : run u s2 ls = some s3) : ExactlyTop s3 :=
  (settle (good_after_kill_expiry hg h1 h2 hexp hfresh) ls hdel hcov h3).1

/-- How the waiting operators get there: a paused operator sleeps exactly until the earliest deadline
    among the peers that block it — the moment that peer counts as dead — and then touches its own
    record, which makes everybody (itself included) process the status again. -/
theorem wake_at_deadline {u : Int} {ps : List Peer} {me : Identity} {p : Int} {ac : Bool} {tg : Option Bool}
    {now now2 m : Int} (h : (decideCore u ps me p ac tg now now2).sleep = some m) :
    0 < m ∧ (decideCore u ps me p ac tg now now2).touch = true ∧
      (∃ q ∈ ps, Blocks u now me p q ∧ q.deadline u = now2 + m ∧ q.isDead u (now2 + m) = true) ∧
      ∀ q ∈ ps, Blocks u now me p q → now2 + m ≤ q.deadline u := by
  have hdel := decideCore_delays (u := u) (ps := ps) (me := me) (myPrio := p) (ac := ac) (tg := tg)
    (now := now) (now2 := now2)
  have hs : (decideCore u ps me p ac tg now now2).sleep =
      (match minList (decideCore u ps me p ac tg now now2).delays with
        | none => none | some m => if m ≤ 0 then none else some m) := rfl
  have ht : (decideCore u ps me p ac tg now now2).touch =
      !(decideCore u ps me p ac tg now now2).delays.isEmpty := rfl
  rw [hs] at h
  cases hm : minList (decideCore u ps me p ac tg now now2).delays with
  | none => simp [hm] at h
  | some m' =>
    simp only [hm] at h
    by_cases hle : m' ≤ 0
    · simp [hle] at h
    · simp only [hle, if_false, Option.some.injEq] at h
      subst h
      obtain ⟨hmem, hmin⟩ := minList_spec hm
      refine ⟨by omega, ?_, ?_, ?_⟩
      · rw [ht]
        cases hd : (decideCore u ps me p ac tg now now2).delays with
        | nil => rw [hd] at hmem; cases hmem
        | cons _ _ => rfl
      · obtain ⟨q, hq, hb, hx⟩ := (hdel m').mp hmem
        refine ⟨q, hq, hb, by omega, ?_⟩
        simp only [Peer.isDead, decide_eq_true_eq]
        omega
      · intro q hq hb
        have := hmin _ ((hdel (q.deadline u - now2)).mpr ⟨q, hq, hb, rfl⟩)
        omega

/-- `expire a` is nothing but time passing up to the moment all of `a`'s records are dead (so
    `failover_kill` applies with that amount of time). -/
theorem expire_then_dead {u : Int} {s s' : State} {a : Identity} (h : step u s (.expire a) = some s') :
    (∃ d : Nat, step u s (.tick d) = some s') ∧ ∀ r, (a, r) ∈ s.status → r.dead u s'.now = true :=
  expire_spec h

/-! ## renewal -/

/-- The keep-alive arithmetic: with `lifetime ≥ 2` and jitter in `[5, 10]` the pinger sleeps at most
    `lifetime − min(5, lifetime − 1)` seconds (and at least one). -/
theorem keepalive_period (L j : Int) (hL : 2 ≤ L) (h5 : 5 ≤ j) (_h10 : j ≤ 10) :
    1 ≤ kaSleep L j ∧ kaSleep L j ≤ L - margin L ∧ 1 ≤ margin L :=
  ⟨kaSleep_pos L j, kaSleep_le L j hL h5, by unfold margin; omega⟩

/-- For a lifetime of one second the pinger sleeps half of it (`lifetime / 2` = `u / 2` ticks). -/
theorem keepalive_period_one (u j : Int) : kaSleepT u 1 j = u / 2 := kaSleepT_one u j

/-- While an operator runs, its record never expires: with `lifetime ≥ 1`, jitter in `[5, 10]` and every `touch()`
    call taking at most `B` ticks with `2·B <` the margin (`min(5, lifetime−1)` seconds for `lifetime ≥ 2`, the other
    half second for `lifetime = 1`), each new record reaches the server strictly before the deadline of the record
    it replaces — for any number of rounds, any latencies and jitters within the bounds. -/
theorem renewal (u L B : Int) (hu : 0 < u) (hL : 1 ≤ L) (hB : 2 * B < marginT u L)
    (rs : List Round) (t : Int)
    (h : ∀ r ∈ rs, 0 ≤ r.a ∧ r.a ≤ r.lat ∧ r.lat ≤ B ∧ 5 ≤ r.jitter ∧ r.jitter ≤ 10) :
    Renewed u L t rs :=
  renewed_of_bounds u L B hu hL hB rs t h

/-- The `lifetime = 1` corner (was finding F1, repaired by fad2571): the record built at `t` is still alive when its
    successor arrives, provided two API calls fit into the remaining half second. -/
theorem renewal_lifetime_one (u : Int) (t : Int) (r r' : Round) (hu : 0 < u)
    (hl : 0 ≤ r.lat) (ha : 0 ≤ r'.a) (hB : r.lat + r'.a < u - u / 2) :
    ({ priority := 0, lifetime := 1, lastseen := t } : Rec).dead u (nextTouch u 1 t r + r'.a) = false := by
  rw [dead_false_iff]
  unfold nextTouch
  rw [kaSleepT_one]
  show t + r.lat + u / 2 + r'.a < t + 1 * u
  omega

/-- `lifetime = 0` (what `touch(lifetime=0)` uses on exit) never writes a record at all. -/
theorem lifetime_zero_withdraws (u prio : Int) (now : Int) : touchVal u prio 0 now = none :=
  touchVal_zero u prio now

/-- A keep-alive of a running operator with `lifetime ≥ 1` puts a fresh record with its priority. -/
theorem keepalive_writes {u : Int} {s s' : State} {i : Identity} {o : Op} (hu : 0 < u) (ho : s.ops i = some o)
    (hL : 1 ≤ o.lifetime) (h : step u s (.keepalive i) = some s') :
    (i, { priority := o.prio, lifetime := o.lifetime, lastseen := s.now }) ∈ s'.status ∧
      ∀ r, (i, r) ∈ s'.status → r.priority = o.prio ∧ r.dead u s'.now = false := by
  simp only [step, ho] at h
  by_cases ha : o.alive = true
  · simp only [ha, if_true, Option.some.injEq, touchVal_pos hu hL, Status.patch] at h
    subst h
    refine ⟨mem_set.mpr (Or.inl ⟨rfl, rfl⟩), ?_⟩
    intro r hm
    rcases mem_set.mp hm with ⟨_, rfl⟩ | ⟨hne, _⟩
    · refine ⟨rfl, ?_⟩
      rw [dead_false_iff]
      have : 0 < o.lifetime * u := Int.mul_pos (by omega) hu
      show s.now < s.now + o.lifetime * u
      omega
    · exact absurd rfl hne
  · simp [ha] at h

/-! ## withdrawal and cleanup -/

/-- A graceful exit removes the own record (all of it), leaves the records of others alone, and the
    operator is gone. -/
theorem withdraw_on_exit {u : Int} {s s' : State} {i : Identity} (h : step u s (.exit i) = some s') :
    (∀ r, (i, r) ∉ s'.status) ∧ (∀ j r, j ≠ i → ((j, r) ∈ s'.status ↔ (j, r) ∈ s.status)) ∧
      ∃ o, s'.ops i = some o ∧ o.alive = false := by
  obtain ⟨o, _, _, _, hst, hops⟩ := exit_spec h
  refine ⟨?_, ?_, ⟨{ o with alive := false, sleeping := false }, by rw [hops]; simp, rfl⟩⟩
  · intro r hm
    rw [hst] at hm
    exact (mem_erase.mp hm).2 rfl
  · intro j r hj
    rw [hst, mem_erase]
    exact ⟨fun h => h.1, fun h => ⟨h, hj⟩⟩

/-- One call on any status content (autoclean on): `clean()` is handed exactly the identities OF OTHERS whose record
    is dead at `now` — never the own identity (repair abca199), and nobody alive. -/
theorem dead_cleaned {u : Int} {st : List (Identity × RawEntry)} {me : Identity} {p : Int} {tg : Option Bool}
    {now now2 : Int} {d : Decision} (h : decideEv u st me p true tg now now2 = .ok d) (i : Identity) :
    i ∈ d.cleaned ↔ i ≠ me ∧ ∃ e q, (i, e) ∈ st ∧ mkPeer now i e = .ok q ∧ q.isDead u now = true := by
  unfold decideEv at h
  cases hp : parseAll now st with
  | error e => simp [hp] at h
  | ok ps =>
    simp only [hp] at h
    have h := decideP_ok h
    subst h
    · simp only [decideCore, if_true, deadPeers, List.mem_map, List.mem_filter, Bool.and_eq_true, bne_iff_ne, ne_eq]
      constructor
      · rintro ⟨q, ⟨hq, hd, hne⟩, rfl⟩
        obtain ⟨j, e, hm, hmk⟩ := (parseAll_mem hp q).mp hq
        have hid := mkPeer_id hmk
        rw [hid]
        exact ⟨by rw [← hid]; exact hne, e, q, hm, hmk, hd⟩
      · rintro ⟨hne, e, q, hm, hmk, hd⟩
        have hid := mkPeer_id hmk
        exact ⟨q, ⟨(parseAll_mem hp q).mpr ⟨i, e, hm, hmk⟩, hd, by rw [hid]; exact hne⟩, hid⟩

/-- The own record is never cleaned, dead or not. -/
theorem own_record_not_cleaned {u : Int} {st : List (Identity × RawEntry)} {me : Identity} {p : Int} {tg : Option Bool}
    {now now2 : Int} {d : Decision} (h : decideEv u st me p true tg now now2 = .ok d) : me ∉ d.cleaned :=
  fun hm => ((dead_cleaned h me).mp hm).1 rfl

/-- In the transition system: after operator `i` processed the status, no dead record of anybody else is left, and
    every live record — and `i`'s own, dead or not — is still there. -/
theorem dead_cleaned_step {u : Int} {s s' : State} {i : Identity} (h : step u s (.deliver i) = some s') :
    ∀ j r, (j, r) ∈ s'.status ↔ ((j, r) ∈ s.status ∧ (r.dead u s.now = false ∨ j = i)) := by
  obtain ⟨_, _, _, _, hst, _, _, _⟩ := deliver_spec h
  intro j r
  rw [hst, List.mem_filter]
  cases hd : r.dead u s.now <;> simp

/-! ## the withdrawal is permanent (was finding F2, repaired by f370f06) -/

/-- A graceful exit interrupts a `process_peering_event` call that sleeps towards a blocker's deadline
    (`_wait_for_depletion` sets the stream pressure): the call returns without touching, so `wake` is not enabled any
    more for the exited operator. -/
theorem exit_interrupts_sleep {u : Int} {s s' : State} {i : Identity} (h : step u s (.exit i) = some s') :
    (∃ o, s'.ops i = some o ∧ o.alive = false ∧ o.sleeping = false) ∧ step u s' (.wake i) = none := by
  obtain ⟨o, _, _, _, _, hops⟩ := exit_spec h
  have h1 : s'.ops i = some { o with alive := false, sleeping := false } := by rw [hops]; simp
  refine ⟨⟨_, h1, rfl, rfl⟩, ?_⟩
  simp only [step, h1]
  simp

/-- the schedule that used to put B's record back after B's exit is not a run of the system any more -/
example : (run 64 init [.start "A" 100 2, .start "B" 10 10, .keepalive "A", .keepalive "B", .deliver "B", .exit "B",
                        .tick 64, .wake "B"]).isSome = false := by decide

/-- An operator that is gone, has no sleeping call and no record stays without a record, whatever else happens in any
    order — as long as nobody starts it again or writes a record under its name. -/
theorem withdrawn_stays_from {u : Int} {i : Identity} : ∀ (ls : List Label) (s s' : State),
    (∃ o, s.ops i = some o ∧ o.alive = false ∧ o.sleeping = false) → (∀ r, (i, r) ∉ s.status) →
    (∀ l ∈ ls, (∀ p lt, l ≠ .start i p lt) ∧ (∀ r, l ≠ .foreign i (some r))) →
    run u s ls = some s' → ∀ r, (i, r) ∉ s'.status := by
  intro ls
  induction ls with
  | nil => intro s s' _ hn _ h; simp only [run, Option.some.injEq] at h; subst h; exact hn
  | cons l rest ih =>
    intro s s' ⟨o, ho, hoa, hos⟩ hn hall h
    simp only [run] at h
    cases hs : step u s l with
    | none => simp [hs] at h
    | some s1 =>
      simp only [hs] at h
      obtain ⟨hl1, hl2⟩ := hall l List.mem_cons_self
      refine ih s1 s' ?_ ?_ (fun l hl => hall l (List.mem_cons_of_mem _ hl)) h
      · -- the operator stays gone and without a sleeping call
        cases l with
        | start j p lt =>
          have hji : j ≠ i := fun e => hl1 p lt (by rw [e])
          simp only [step] at hs
          refine ⟨o, ?_, hoa, hos⟩
          cases hj : s.ops j with
          | none => simp [hj] at hs; subst hs; simp only [updOp_other _ _ (Ne.symm hji)]; exact ho
          | some oj =>
            simp only [hj] at hs
            by_cases hja : oj.alive = true
            · simp [hja] at hs
            · simp [hja] at hs; subst hs; simp only [updOp_other _ _ (Ne.symm hji)]; exact ho
        | keepalive j =>
          simp only [step] at hs
          cases hj : s.ops j with
          | none => simp [hj] at hs
          | some oj =>
            simp only [hj] at hs
            by_cases hja : oj.alive = true
            · simp only [hja, if_true, Option.some.injEq] at hs; subst hs; exact ⟨o, ho, hoa, hos⟩
            · simp [hja] at hs
        | exit j =>
          obtain ⟨oj, hj, hja, _, _, hops⟩ := exit_spec hs
          have hji : j ≠ i := by intro e; subst e; rw [ho] at hj; injection hj with hj; subst hj; rw [hoa] at hja; cases hja
          exact ⟨o, by rw [hops, updOp_other _ _ (Ne.symm hji)]; exact ho, hoa, hos⟩
        | kill j =>
          obtain ⟨oj, hj, hja, _, _, hops⟩ := kill_spec hs
          have hji : j ≠ i := by intro e; subst e; rw [ho] at hj; injection hj with hj; subst hj; rw [hoa] at hja; cases hja
          exact ⟨o, by rw [hops, updOp_other _ _ (Ne.symm hji)]; exact ho, hoa, hos⟩
        | deliver j =>
          obtain ⟨oj, hj, hja, _, _, _, _, hops⟩ := deliver_spec hs
          have hji : j ≠ i := by intro e; subst e; rw [ho] at hj; injection hj with hj; subst hj; rw [hoa] at hja; cases hja
          exact ⟨o, by rw [hops, updOp_other _ _ (Ne.symm hji)]; exact ho, hoa, hos⟩
        | tick d => simp only [step, Option.some.injEq] at hs; subst hs; exact ⟨o, ho, hoa, hos⟩
        | expire j => simp only [step, Option.some.injEq] at hs; subst hs; exact ⟨o, ho, hoa, hos⟩
        | foreign j r => simp only [step, Option.some.injEq] at hs; subst hs; exact ⟨o, ho, hoa, hos⟩
        | wake j =>
          simp only [step] at hs
          cases hj : s.ops j with
          | none => simp [hj] at hs
          | some oj =>
            simp only [hj] at hs
            by_cases hjs : oj.sleeping = true
            · simp only [hjs, if_true, Option.some.injEq] at hs
              subst hs
              have hji : j ≠ i := by intro e; subst e; rw [ho] at hj; injection hj with hj; subst hj; rw [hos] at hjs; cases hjs
              exact ⟨o, by simp only [updOp_other _ _ (Ne.symm hji)]; exact ho, hoa, hos⟩
            · simp [hjs] at hs
      · -- and its record stays away
        intro r hm
        cases l with
        | start j p lt =>
          simp only [step] at hs
          cases hj : s.ops j with
          | none => simp [hj] at hs; subst hs; exact hn r hm
          | some oj =>
            simp only [hj] at hs
            by_cases hja : oj.alive = true
            · simp [hja] at hs
            · simp [hja] at hs; subst hs; exact hn r hm
        | keepalive j =>
          simp only [step] at hs
          cases hj : s.ops j with
          | none => simp [hj] at hs
          | some oj =>
            simp only [hj] at hs
            by_cases hja : oj.alive = true
            · simp only [hja, if_true, Option.some.injEq] at hs
              subst hs
              have hji : j ≠ i := by intro e; subst e; rw [ho] at hj; injection hj with hj; subst hj; rw [hoa] at hja; cases hja
              exact hn r ((mem_patch_other hji).mp hm)
            · simp [hja] at hs
        | exit j =>
          obtain ⟨_, _, _, _, hst, _⟩ := exit_spec hs
          rw [hst] at hm
          exact hn r (mem_erase.mp hm).1
        | kill j =>
          obtain ⟨_, _, _, _, hst, _⟩ := kill_spec hs
          rw [hst] at hm; exact hn r hm
        | deliver j =>
          obtain ⟨_, _, _, _, hst, _, _, _⟩ := deliver_spec hs
          rw [hst] at hm; exact hn r (List.mem_filter.mp hm).1
        | tick d => simp only [step, Option.some.injEq] at hs; subst hs; exact hn r hm
        | expire j => simp only [step, Option.some.injEq] at hs; subst hs; exact hn r hm
        | foreign j v =>
          simp only [step, Option.some.injEq] at hs
          subst hs
          by_cases hji : j = i
          · subst hji
            cases v with
            | none => exact (mem_erase.mp hm).2 rfl
            | some r' => exact hl2 r' rfl
          · exact hn r ((mem_patch_other hji).mp hm)
        | wake j =>
          simp only [step] at hs
          cases hj : s.ops j with
          | none => simp [hj] at hs
          | some oj =>
            simp only [hj] at hs
            by_cases hjs : oj.sleeping = true
            · simp only [hjs, if_true, Option.some.injEq] at hs
              subst hs
              have hji : j ≠ i := by intro e; subst e; rw [ho] at hj; injection hj with hj; subst hj; rw [hos] at hjs; cases hjs
              exact hn r ((mem_patch_other hji).mp hm)
            · simp [hjs] at hs

/-- `withdraw_on_exit`, made permanent: after a graceful exit the record never comes back. -/
theorem withdrawn_stays {u : Int} {i : Identity} {s s1 s' : State} (h1 : step u s (.exit i) = some s1) (ls : List Label)
    (hall : ∀ l ∈ ls, (∀ p lt, l ≠ .start i p lt) ∧ (∀ r, l ≠ .foreign i (some r)))
    (h2 : run u s1 ls = some s') : ∀ r, (i, r) ∉ s'.status :=
  withdrawn_stays_from ls s1 s' (exit_interrupts_sleep h1).1 (withdraw_on_exit h1).1 hall h2

/-! ## non-vacuity -/

def exA : Rec := { priority := 100, lifetime := 10, lastseen := 0 }
def exB : Rec := { priority := 10, lifetime := 8, lastseen := 0 }

/-- two operators, both started, touched and delivered: a reachable stable state with A active, B paused. -/
def exStable : Option State :=
  run 64 init [.start "A" 100 10, .start "B" 10 8, .keepalive "A", .keepalive "B", .deliver "A", .deliver "B"]

example : (exStable.map (fun s => (s.status, (s.ops "A").map (·.paused), (s.ops "B").map (·.paused)))) =
    some ([("A", exA), ("B", exB)], some false, some true) := by decide

private theorem exStable_reachable : ∀ s, exStable = some s → Reachable 64 s := by
  intro s h
  unfold exStable at h
  -- every prefix of a successful run is a chain of steps
  have key : ∀ (ls : List Label) (t t' : State), Reachable 64 t → run 64 t ls = some t' → Reachable 64 t' := by
    intro ls
    induction ls with
    | nil => intro t t' ht h; simp only [run, Option.some.injEq] at h; subst h; exact ht
    | cons l rest ih =>
      intro t t' ht h
      simp only [run] at h
      cases hs : step 64 t l with
      | none => simp [hs] at h
      | some t1 => simp only [hs] at h; exact ih t1 t' (Reachable.step l ht hs) h
  exact key _ init s Reachable.init h

private theorem exStable_stable : ∀ s, exStable = some s → Stable 64 s := by
  intro s h
  simp [exStable, run, step, init, updOp, touchVal, Rec.dead, Rec.deadline, Status.patch, Status.set,
    decideCore, Status.peers, Rec.toPeer, livePeers, deadPeers, prioPeers, samePeers, Peer.isDead, Peer.deadline, minList] at h
  subst h
  have hops : ∀ (i : Identity) (op : Op),
      updOp (updOp (updOp (updOp (fun _ => none) "A" { prio := 100, lifetime := 10, alive := true, paused := true, seen := none })
        "B" { prio := 10, lifetime := 8, alive := true, paused := true, seen := none })
        "A" { prio := 100, lifetime := 10, alive := true, paused := false, seen := some (2, 0) })
        "B" { prio := 10, lifetime := 8, alive := true, paused := true, seen := some (2, 0), sleeping := true } i = some op →
      (i = "A" ∧ op = { prio := 100, lifetime := 10, alive := true, paused := false, seen := some (2, 0) }) ∨
      (i = "B" ∧ op = { prio := 10, lifetime := 8, alive := true, paused := true, seen := some (2, 0), sleeping := true }) := by
    intro i op h
    unfold updOp at h
    by_cases hB : i = "B"
    · right; subst hB; simp at h; exact ⟨rfl, h.symm⟩
    · by_cases hA : i = "A"
      · left; subst hA; simp at h; exact ⟨rfl, h.symm⟩
      · simp [hA, hB] at h
  refine ⟨⟨?_, ?_, ?_⟩, ?_⟩
  · intro i op hi ha
    rcases hops i op hi with ⟨rfl, rfl⟩ | ⟨rfl, rfl⟩
    · exact ⟨exA, by simp [exA], rfl, by decide⟩
    · exact ⟨exB, by simp [exB], rfl, by decide⟩
  · intro j r hm hd
    simp only [List.mem_cons, Prod.mk.injEq, List.mem_nil_iff, or_false] at hm
    rcases hm with ⟨rfl, rfl⟩ | ⟨rfl, rfl⟩
    · exact ⟨{ prio := 100, lifetime := 10, alive := true, paused := false, seen := some (2, 0) }, by simp [updOp], rfl, rfl⟩
    · exact ⟨{ prio := 10, lifetime := 8, alive := true, paused := true, seen := some (2, 0), sleeping := true },
        by simp [updOp], rfl, rfl⟩
  · intro i j oi oj hi hj _ _ hp
    rcases hops i oi hi with ⟨rfl, rfl⟩ | ⟨rfl, rfl⟩ <;> rcases hops j oj hj with ⟨rfl, rfl⟩ | ⟨rfl, rfl⟩ <;> simp_all
  · intro i op hi _
    rcases hops i op hi with ⟨rfl, rfl⟩ | ⟨rfl, rfl⟩ <;> exact ⟨0, rfl, fun _ _ _ => rfl⟩

/-- `exactly_top` is not vacuous: its hypotheses hold in the state reached by two starts, two keep-alives and two
    deliveries, and there A (priority 100) is active while B (priority 10) is paused. -/
example : ∃ s, exStable = some s ∧ Reachable 64 s ∧ Stable 64 s ∧ ExactlyTop s := by
  cases h : exStable with
  | none => exact absurd h (by decide)
  | some s => exact ⟨s, rfl, exStable_reachable s h, exStable_stable s h, exactly_top (exStable_reachable s h) (exStable_stable s h)⟩


-- `paused_iff` on a status with an unknown key swallowed, a missing lifetime, a dead record and the own record
example : decideEv 64 [("A", .record { priority := some (.num 100), lifetime := none, lastseen := .at 0, identityKey := false }),
                      ("G", .record { priority := some (.num 500), lifetime := some (.num 1), lastseen := .at 0, identityKey := false }),
                      ("B", .record { priority := some (.num 10), lifetime := some (.num 8), lastseen := .at 64, identityKey := false })]
          "B" 10 true (some false) 128 129
        = .ok { cleaned := ["G"], turned := some true, paused := some true, delays := [60 * 64 - 129],
                sleep := some (60 * 64 - 129), touch := true } := by decide

-- garbled records make the call raise (and `paused_iff` is then silent)
example : decideEv 64 [("X", .record { priority := none, lifetime := some (.str "soon"), lastseen := .absent, identityKey := false })]
          "B" 10 true (some false) 128 128 = .error .valueError := by decide
example : decideEv 64 [("X", .record { priority := some (.str "high"), lifetime := none, lastseen := .absent, identityKey := false })]
          "B" 10 true (some false) 128 128 = .error .typeError := by decide

-- failover by kill + expiry + delivery, concretely
example : ((run 64 init [.start "A" 100 10, .start "B" 10 8, .keepalive "A", .keepalive "B", .deliver "A", .deliver "B",
                         .kill "A", .tick 400, .keepalive "B", .expire "A", .deliver "B"]).map
            (fun s => (s.now, s.status.map (·.1), (s.ops "B").map (·.paused)))) = some (640, ["B"], some false) := by decide

-- `withdrawn_stays` applies to an operator that exits WHILE its call sleeps towards a blocker's deadline
example : ((run 64 init [.start "A" 100 2, .start "B" 10 10, .keepalive "A", .keepalive "B", .deliver "B"]).map
    (fun s => (s.ops "B").map (fun o => (o.alive, o.sleeping)))) = some (some (true, true)) := by decide
example : ((run 64 init [.start "A" 100 2, .start "B" 10 10, .keepalive "A", .keepalive "B", .deliver "B", .exit "B", .tick 64]).map
    (fun s => ((s.ops "B").map (fun o => (o.alive, o.sleeping)), s.status.map (·.1)))) = some (some (false, false), ["A"]) := by decide

-- renewal hypotheses are satisfiable: lifetime 2, API calls of one tick (1/64 s)
example : Renewed 64 2 0 [⟨2, 1, 5⟩, ⟨2, 1, 10⟩, ⟨2, 1, 7⟩] :=
  renewal 64 2 2 (by decide) (by decide) (by decide) _ 0 (by
    intro r hr
    simp only [List.mem_cons, List.mem_nil_iff, or_false] at hr
    rcases hr with rfl | rfl | rfl <;> decide)

-- the lifetime = 1 corner, concretely: half-second periods, API calls of one tick: renewed, three rounds
example : Renewed 64 1 0 [⟨2, 1, 5⟩, ⟨2, 1, 10⟩, ⟨2, 1, 7⟩] :=
  renewal 64 1 2 (by decide) (by decide) (by decide) _ 0 (by
    intro r hr
    simp only [List.mem_cons, List.mem_nil_iff, or_false] at hr
    rcases hr with rfl | rfl | rfl <;> decide)

-- the own dead record stays, a dead record of somebody else goes
example : decideEv 64 [("B", .record { priority := some (.num 10), lifetime := some (.num 1), lastseen := .at 0, identityKey := false }),
                      ("G", .record { priority := some (.num 500), lifetime := some (.num 1), lastseen := .at 0, identityKey := false })]
          "B" 10 true (some true) 128 129
        = .ok { cleaned := ["G"], turned := some false, paused := some false, delays := [], sleep := none, touch := false } := by decide

end Kopf.C13
